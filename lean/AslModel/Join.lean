/-
L4 — the fan-out join bookkeeping of Parallel / Map (`asl_state_collect_results`):
a slot per branch / item, filled as branches finish in any order; and the Map launch
protocol with MaxConcurrency (batches `[k·m, min((k+1)·m, n))`, the next batch is launched
when the current one is complete).
-/
import AslModel.Json
namespace Asl

abbrev Slots := List (Option Json)

def Join.init (n : Nat) : Slots := List.replicate n none

def Join.record : Slots → Nat → Json → Slots
  | [], _, _ => []
  | _ :: s, 0, v => some v :: s
  | x :: s, i + 1, v => x :: Join.record s i v

/-- all slots filled → the array of results in index order -/
def Join.result : Slots → Option (List Json)
  | [] => some []
  | none :: _ => none
  | some v :: s => (Join.result s).map (v :: ·)

def Join.feed (s : Slots) (σ : List (Nat × Json)) : Slots :=
  σ.foldl (fun s p => Join.record s p.1 p.2) s

/-- the batch that starts at `start`: `[start, min(start+m, n))`; `m = 0` means no limit -/
def batchEnd (n m start : Nat) : Nat := if m = 0 then n else min (start + m) n

/-- Map launch protocol. -/
structure MapSt where
  n : Nat
  m : Nat                 -- MaxConcurrency (0 = unlimited)
  start : Nat             -- start of the current batch
  slots : Slots
  launched : List Nat     -- every index ever launched, in launch order
  deriving Repr

def rangeFrom (a b : Nat) : List Nat := (List.range (b - a)).map (· + a)

def MapSt.init (n m : Nat) : MapSt :=
  { n := n, m := m, start := 0, slots := Join.init n, launched := rangeFrom 0 (batchEnd n m 0) }

def filledIn (s : Slots) (a b : Nat) : Bool := (rangeFrom a b).all (fun i => (s[i]?).join.isSome)

/-- iteration `i` finished with `v`: record; when the current batch is complete and items remain,
launch the next batch -/
def MapSt.complete (st : MapSt) (i : Nat) (v : Json) : MapSt :=
  let slots := Join.record st.slots i v
  let e := batchEnd st.n st.m st.start
  if filledIn slots st.start e && e < st.n then
    { st with slots := slots, start := e, launched := st.launched ++ rangeFrom e (batchEnd st.n st.m e) }
  else { st with slots := slots }

def countFilled (s : Slots) : Nat := (s.filter Option.isSome).length

/-- iterations launched and not yet finished -/
def MapSt.inFlight (st : MapSt) : Nat := (st.launched.filter (fun i => (st.slots[i]?).join.isNone)).length

end Asl
