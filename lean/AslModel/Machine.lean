/-
L4 — well-formedness of a state machine *definition* (the JSON value handed to
CreateStateMachine), as a decidable predicate `WF : Json → Bool`, and the reachability of the
interpreter's five "Illegal State Machine" sites.

`WF` is the reading of the property (C18): known `Type`; `StartAt` / `Next` / `Default` /
Choice-rule `Next` / Catcher `Next` name a state of the *same* `States` scope; states that
leave (Pass, Task, Wait, Parallel, Map) have a truthy `End` or such a `Next`; the fields a
type cannot work without (Task `Resource`, Wait's duration, Choice `Choices`, Parallel
`Branches` with at least one branch, Map `Iterator`/`ItemProcessor`); every nested scope is
well-formed in the same sense; state names are unique across all nesting levels.  It is *not* a
model of the J2119 rule interpreter of `statelint` (DESIGN §5 C18 *Partial*): the two are tied
through their accept sets by the correspondence check.

The interpreter (`Interp.lean`) answers its "Illegal State Machine" failures with the same
`States.Runtime` result as a failed path, so whether a run passed through one of those sites
cannot be read off its result.  `ill*` below is the reachability predicate: it follows the
control flow of `runFrom`/`runState`/… clause by clause, takes every datum (results of
branches, threaded `St`) from the real interpreter functions, and answers `true` exactly at

  (a) `runFrom`: the state name is not defined in the scope (or the scope is not an object),
  (b) `leave`: neither a truthy `End` nor a string `Next`,
  (c) `runState`: `Type` is none of the eight,
  (d) `handleErr`: the matching Catcher has no string `Next`,
  (e) `runBranches` / `runItems`: the branch / iterator lacks a string `StartAt` or `States`.

The execution's time limit (`Env.deadline`) and the stop of Map batches after a failure are not mirrored: `ill*`
follows the untimed control flow, so for a run that the limit cuts short (or a Map that fails in an early batch) it
may name a site the run no longer reaches — an over-approximation, which is the safe side for C18's use of it.
-/
import AslModel.Interp
namespace Asl.Machine
open Asl

/-! ### well-formedness -/

def knownTypes : List Str :=
  [S "Pass", S "Succeed", S "Fail", S "Task", S "Choice", S "Wait", S "Parallel", S "Map"]

/-- `n` names a state of the scope whose members are `kvs` -/
def defined (kvs : List (Str × Json)) (n : Str) : Bool := (objGet kvs n).isSome

/-- a present string member naming a state of the scope -/
def targetOk (kvs : List (Str × Json)) (o : Option Json) : Bool :=
  match o with
  | some (.str n) => defined kvs n
  | _ => false

/-- a truthy `End`, or a `Next` naming a state of the scope -/
def leaveOk (kvs : List (Str × Json)) (state : Json) : Bool :=
  isTrue (fld state "End") || targetOk kvs (fld state "Next")

/-- every Catcher is an object with a `Next` naming a state of the scope -/
def catchOk (kvs : List (Str × Json)) (state : Json) : Bool :=
  (listOf (fld state "Catch")).all (fun c => targetOk kvs (c.get "Next"))

/-- `Choices` is a non-empty array of rules each with a `Next` in scope; `Default`, if present,
is a string in scope -/
def choiceOk (kvs : List (Str × Json)) (state : Json) : Bool :=
  !(listOf (fld state "Choices")).isEmpty &&
  (listOf (fld state "Choices")).all (fun r => targetOk kvs (r.get "Next")) &&
  (match fld state "Default" with
   | none => true
   | some d => targetOk kvs (some d))

/-- a Retrier / Catcher is an object whose `ErrorEquals` is an array -/
def eqOk (h : Json) : Bool :=
  match h.get "ErrorEquals" with
  | some (.arr _) => true
  | _ => false

def handlersOk (state : Json) : Bool :=
  (listOf (fld state "Retry")).all eqOk && (listOf (fld state "Catch")).all eqOk

def hasStr (state : Json) (k : String) : Bool := (fldStr state k).isSome

def waitOk (state : Json) : Bool :=
  (fld state "Seconds").isSome || (fld state "SecondsPath").isSome ||
  (fld state "Timestamp").isSome || (fld state "TimestampPath").isSome

/-- the iterator definition the interpreter (and the engine) uses for a Map state -/
def mapProc (state : Json) : Json :=
  if isTrue (fld state "Iterator") then (fld state "Iterator").getD .null
  else (fld state "ItemProcessor").getD (.obj [])

/-- `MaxConcurrency`, when given, is a non-negative integer (the engine fails the Map state otherwise) -/
def maxConcOk (state : Json) : Bool :=
  match fld state "MaxConcurrency" with
  | none => true
  | some (.num n) => decide (0 ≤ n)
  | some _ => false

/-- the machine's `TimeoutSeconds`, when given, is a number (the engine fails the execution otherwise) -/
def timeoutOk (m : Json) : Bool :=
  match fld m "TimeoutSeconds" with
  | none => true
  | some (.num _) => true
  | some _ => false

/-- state `state` of the scope `kvs`; nested scopes are checked with one unit of fuel less -/
def wfState : Nat → List (Str × Json) → Json → Bool
  | 0, _, _ => false
  | d + 1, kvs, state =>
    let ty := stateType state
    let wfBranch (b : Json) : Bool :=
      match fldStr b "StartAt", fld b "States" with
      | some s, some (.obj kvs') => defined kvs' s && kvs'.all (fun kv => wfState d kvs' kv.2)
      | _, _ => false
    catchOk kvs state && handlersOk state &&
    (if ty = S "Pass" then leaveOk kvs state
     else if ty = S "Succeed" then true
     else if ty = S "Fail" then true
     else if ty = S "Wait" then leaveOk kvs state && waitOk state
     else if ty = S "Choice" then choiceOk kvs state
     else if ty = S "Task" then leaveOk kvs state && hasStr state "Resource"
     else if ty = S "Parallel" then
       leaveOk kvs state && !(listOf (fld state "Branches")).isEmpty &&
       (listOf (fld state "Branches")).all wfBranch
     else if ty = S "Map" then leaveOk kvs state && wfBranch (mapProc state) && maxConcOk state
     else false)

def wfScope (d : Nat) (kvs : List (Str × Json)) : Bool := kvs.all (fun kv => wfState d kvs kv.2)

/-- a machine / branch / iterator: string `StartAt` defined in the object `States`, whose states
are all well-formed -/
def wfBranch (d : Nat) (b : Json) : Bool :=
  match fldStr b "StartAt", fld b "States" with
  | some s, some (.obj kvs) => defined kvs s && wfScope d kvs
  | _, _ => false

/-- the nested scopes of a state (whatever its Type says) -/
def scopesOf (state : Json) : List Json :=
  listOf (fld state "Branches") ++ (fld state "Iterator").toList ++ (fld state "ItemProcessor").toList

/-- the state names of a scope and of every scope nested in it -/
def namesIn : Nat → Json → List Str
  | 0, _ => []
  | d + 1, b =>
    match fld b "States" with
    | some (.obj kvs) =>
      kvs.map (·.1) ++ kvs.flatMap (fun kv => (scopesOf kv.2).flatMap (namesIn d))
    | _ => []

def nodup : List Str → Bool
  | [] => true
  | x :: xs => !xs.contains x && nodup xs

/-- no state, at any nesting level, is named by the empty string: the engine identifies a state by its name and takes
an event whose state name is empty for the start of a new execution, so such a state could never be entered (a fan-out
whose branch has `StartAt: ""` is refused as an Illegal State Machine) -/
def namesOk (m : Json) : Bool := !(namesIn m.size m).contains []

/-- the definition is well-formed (fuel: the size of the value bounds its nesting depth) -/
def WF (m : Json) : Bool := wfBranch m.size m && nodup (namesIn m.size m) && timeoutOk m && namesOk m

/-! ### problems -/

inductive Problem where
  | notAnObject
  | noStates          -- no object member `States`
  | noStartAt         -- no string member `StartAt`
  | startAtUndefined
  | duplicateNames
  | illFormedState (name : Str)
  | illFormed
  deriving Repr, DecidableEq

/-- why a definition is refused (coarse: the first level at which it goes wrong) -/
def diagnose (m : Json) : List Problem :=
  match m with
  | .obj _ =>
    match fld m "States" with
    | some (.obj kvs) =>
      match fldStr m "StartAt" with
      | none => [.noStartAt]
      | some s =>
        (if defined kvs s then [] else [.startAtUndefined]) ++
        (kvs.filter (fun kv => !wfState m.size kvs kv.2)).map (fun kv => .illFormedState kv.1) ++
        (if nodup (namesIn m.size m) then [] else [.duplicateNames])
    | _ => [.noStates]
  | _ => [.notAnObject]

/-- the model's linter: the empty list exactly for well-formed definitions -/
def lint (m : Json) : List Problem :=
  if WF m then [] else
    match diagnose m with
    | [] => [.illFormed]
    | ps => ps

/-! ### what a Choice evaluator may answer -/

/-- the evaluator only ever answers the `Next` of one of the state's top-level rules -/
def ChooseOK (env : Env) : Prop :=
  ∀ state input raw ctx n, env.choose state input raw ctx = some n →
    ∃ r, r ∈ listOf (fld state "Choices") ∧ r.get "Next" = some (.str n)

/-! ### reaching an "Illegal State Machine" site -/

mutual

def illFrom (env : Env) : Nat → Json → Str → Json → Json → Nat → St → Bool
  | 0, _, _, _, _, _, _ => false
  | fuel + 1, states, name, data, ctx, retries, st =>
    match (match states with | .obj kvs => objGet kvs name | _ => none) with
    | none => true                                                                   -- site (a)
    | some state =>
      let ctx := ctxFor ctx name retries
      let st := st.enter (stateType state) name data retries
      illState env fuel states name state data ctx retries st
termination_by structural fuel => fuel

def illLeave (env : Env) : Nat → Json → Str → Json → Json → Json → Json → Nat → St → Bool
  | 0, _, _, _, _, _, _, _, _ => false
  | fuel + 1, states, name, state, raw, data, ctx, retries, st =>
    if isTrue (fld state "End") then
      if (render data).length > env.maxData then
        illErr env fuel states name state raw ctx retries (S "States.DataLimitExceeded") (S "m") st
      else false
    else match fldStr state "Next" with
      | none => true                                                                 -- site (b)
      | some next =>
        if (render data).length > env.maxData then
          illErr env fuel states name state raw ctx retries (S "States.DataLimitExceeded") (S "m") st
        else illFrom env fuel states next data ctx 0 (st.exit (stateType state) name data)
termination_by structural fuel => fuel

def illErr (env : Env) : Nat → Json → Str → Json → Json → Json → Nat → Str → Str → St → Bool
  | 0, _, _, _, _, _, _, _, _, _ => false
  | fuel + 1, states, name, state, data, ctx, retries, e, msg, st =>
    let rs := (listOf (fld state "Retry")).map retrierOf
    let cs := (listOf (fld state "Catch")).map catcherOf
    match decideError rs cs e retries with
    | .retry d n => illFrom env fuel states name data ctx n (st.after d)
    | .caught c =>
      let out := errorOutput e (causeOf msg)
      let rp : Option Str := match c.resultPath with
        | none => some ['$']
        | some p => p
      match applyResultPath data out rp with
      | .error _ => false
      | .ok data' =>
        match c.next with
        | none => true                                                               -- site (d)
        | some next =>
          if (render data').length > env.maxData then false
          else illFrom env fuel states next data' ctx 0 ((st.fanFailedIf state).exit (stateType state) name data')
    | .uncaught => false
termination_by structural fuel => fuel

def illState (env : Env) : Nat → Json → Str → Json → Json → Json → Nat → St → Bool
  | 0, _, _, _, _, _, _, _ => false
  | fuel + 1, states, name, state, data, ctx, retries, st =>
    let ty := stateType state
    let fail (pe : PErr) (st : St) : Bool :=
      illErr env fuel states name state data ctx retries (errName pe) (S "m") st
    if ty = S "Pass" then
      match applyPath data ctx (pathArg state "InputPath") with
      | .error pe => fail pe st
      | .ok input =>
        match tmplOpt env input ctx (fld state "Parameters") with
        | .error pe => fail pe st
        | .ok params =>
          let result := (fld state "Result").getD params
          match mergeResult data ctx result state with
          | .error pe => fail pe st
          | .ok out => illLeave env fuel states name state data out ctx retries st
    else if ty = S "Succeed" then
      match applyPath data ctx (pathArg state "InputPath") with
      | .error pe => fail pe st
      | .ok input =>
        match applyPath input ctx (pathArg state "OutputPath") with
        | .error pe => fail pe st
        | .ok out =>
          if (render out).length > env.maxData then
            illErr env fuel states name state data ctx retries (S "States.DataLimitExceeded") (S "m") st
          else false
    else if ty = S "Fail" then false
    else if ty = S "Wait" then
      match applyPath data ctx (pathArg state "InputPath") with
      | .error pe => fail pe st
      | .ok input =>
        match waitTarget env state input ctx st.clock with
        | .error pe => fail pe st
        | .ok target =>
          let st := st.waitUntil target
          match applyPath input ctx (pathArg state "OutputPath") with
          | .error pe => fail pe st
          | .ok out => illLeave env fuel states name state data out ctx retries st
    else if ty = S "Choice" then
      match applyPath data ctx (pathArg state "InputPath") with
      | .error pe => fail pe st
      | .ok input =>
        let next : Option Str := match env.choose state input data ctx with
          | some n => some n
          | none => fldStr state "Default"
        match applyPath input ctx (pathArg state "OutputPath") with
        | .error pe => fail pe st
        | .ok out =>
          match next with
          | none => illErr env fuel states name state data ctx retries (S "States.NoChoiceMatched") (S "m") st
          | some n =>
            if (render out).length > env.maxData then
              illErr env fuel states name state data ctx retries (S "States.DataLimitExceeded") (S "m") st
            else illFrom env fuel states n out ctx 0 (st.exit (stateType state) name out)
    else if ty = S "Task" then
      match rpcFunction ((fldStr state "Resource").getD []) with
      | none => false
      | some fn =>
        match applyPath data ctx (pathArg state "InputPath") with
        | .error pe => fail pe st
        | .ok input =>
          match tmplOpt env input ctx (fld state "Parameters") with
          | .error pe => fail pe st
          | .ok params =>
            let (n, counts) := bump st.counts (fn, params)
            match taskArrival (env.delay fn params n) (taskDeadline state st.clock) st.clock with
            | none => false
            | some (tEnd, timedOut) =>
            let st := st.taskCall counts ((fldStr state "Resource").getD []) params
              (taskEv env.maxData (env.task fn params n) timedOut) tEnd
            match taskOutcome env.maxData (env.task fn params n) timedOut with
            | .err e msg => illErr env fuel states name state data ctx retries e msg st
            | .ok v =>
              match tmplOpt env v ctx (fld state "ResultSelector") with
              | .error pe => fail pe st
              | .ok result =>
                match mergeResult data ctx result state with
                | .error pe => fail pe st
                | .ok out => illLeave env fuel states name state data out ctx retries st
    else if ty = S "Parallel" then
      match applyPath data ctx (pathArg state "InputPath") with
      | .error pe => fail pe st
      | .ok input =>
        match tmplOpt env input ctx (fld state "Parameters") with
        | .error pe => fail pe st
        | .ok params =>
          let bs := listOf (fld state "Branches")
          let st := st.push (.fanStarted ty none)
          illBranches env fuel bs params ctx st ||
            illJoin env fuel states name state data ctx retries
              (runBranches env fuel bs params ctx st).1 (runBranches env fuel bs params ctx st).2
    else if ty = S "Map" then
      match applyPath data ctx (pathArg state "InputPath") with
      | .error pe => fail pe st
      | .ok input =>
        match applyPath input ctx (pathArg state "ItemsPath") with
        | .error pe => fail pe st
        | .ok itemsJ =>
          let items : List Json := match itemsJ with | .arr xs => xs | _ => []
          let iterator := fld state "Iterator"
          let proc : Json := mapProc state
          let selector : Option Json :=
            if isTrue iterator then
              (match fld state "Parameters" with | some p => some p | none => fld state "ItemSelector")
            else
              (match fld state "ItemSelector" with | some p => some p | none => fld state "Parameters")
          let st := if items.isEmpty then st else st.push (.fanStarted ty (some items.length))
          let mc : Nat := match fld state "MaxConcurrency" with | some (.num n) => n.toNat | _ => 0
          illItems env fuel proc selector input items 0 mc st.clock ctx st ||
            illJoin env fuel states name state data ctx retries
              (runItems env fuel proc selector input items 0 mc st.clock ctx false st).1
              (runItems env fuel proc selector input items 0 mc st.clock ctx false st).2
    else true                                                                        -- site (c)
termination_by structural fuel => fuel

def illJoin (env : Env) : Nat → Json → Str → Json → Json → Json → Nat → Except (Res) (List Json) → St → Bool
  | 0, _, _, _, _, _, _, _, _ => false
  | fuel + 1, states, name, state, data, ctx, retries, r, st =>
    match r with
    | .error (.failed e cause _) =>
      -- `if error_message:` — a branch that failed without a Cause, or with a falsy one (a Fail state with
      -- `Cause: ""`), gives an Error Output without `Cause`
      let msg : Str := if isTrue cause then S "m" else []
      illErr env fuel states name state data ctx retries e msg { st with fanFail := true }
    | .error _ => false
    | .ok results =>
      match tmplOpt env (.arr results) ctx (fld state "ResultSelector") with
      | .error pe => illErr env fuel states name state data ctx retries (errName pe) (S "m") st
      | .ok result =>
        match mergeResult data ctx result state with
        | .error pe => illErr env fuel states name state data ctx retries (errName pe) (S "m") st
        | .ok out => illLeave env fuel states name state data out ctx retries st
termination_by structural fuel => fuel

def illBranches (env : Env) : Nat → List Json → Json → Json → St → Bool
  | 0, _, _, _, _ => false
  | _ + 1, [], _, _, _ => false
  | fuel + 1, b :: bs, params, ctx, st =>
    match fldStr b "StartAt", fld b "States" with
    | some start, some states =>
      illFrom env fuel states start params ctx 0 st ||
        illBranches env fuel bs params ctx ((runFrom env fuel states start params ctx 0 st).2.at st.clock)
    | _, _ => true                                                                   -- site (e)
termination_by structural fuel => fuel

def illItems (env : Env) : Nat → Json → Option Json → Json → List Json → Nat → Nat → Rat → Json → St → Bool
  | 0, _, _, _, _, _, _, _, _, _ => false
  | _ + 1, _, _, _, [], _, _, _, _, _ => false
  | fuel + 1, proc, selector, input, item :: items, i, mc, bend, ctx, st =>
    let st := if mc ≠ 0 ∧ i ≠ 0 ∧ i % mc = 0 then st.waitUntil bend else st
    let paramsE : Except PErr Json :=
      if isTrue selector then tmplOpt env input (ctxWithMapItem ctx i item) selector else .ok item
    match paramsE with
    | .error _ => false
    | .ok params =>
      match fldStr proc "StartAt", fld proc "States" with
      | some start, some states =>
        illFrom env fuel states start params ctx 0 (st.push (.iterStarted (ctxStateName ctx) i)) ||
          illItems env fuel proc selector input items (i + 1) mc
            (rmax bend (runFrom env fuel states start params ctx 0 (st.push (.iterStarted (ctxStateName ctx) i))).2.clock) ctx
            (((runFrom env fuel states start params ctx 0 (st.push (.iterStarted (ctxStateName ctx) i))).2.iterEnd
              (ctxStateName ctx) i
              (runFrom env fuel states start params ctx 0 (st.push (.iterStarted (ctxStateName ctx) i))).1).at st.clock)
      | _, _ => true                                                                 -- site (e)
termination_by structural fuel => fuel
end

/-- does the run of definition `asl` reach an "Illegal State Machine" site? (mirrors `Asl.run`) -/
def illRun (env : Env) (fuel : Nat) (asl input ctx : Json) : Bool :=
  match fldStr asl "StartAt", fld asl "States" with
  | some start, some states => illFrom env fuel states start input ctx 0 {}
  | _, _ => true

end Asl.Machine
