/-
L3 — big-step reference semantics of an execution: what the States Language prescribes for
(machine, input, behaviour of the tasks).  Deterministic; fan-out branches are evaluated in
index order.  The status is computed from *how the run ended* (Succeed/End reached, or a
Fail state / unhandled error), never from the data — that is the reading of C01.

The machine is interpreted directly from its JSON definition, the way the engine does.
Payload templates, Choice rules and task behaviour are parameters (`Env`).
-/
import AslModel.Path
import AslModel.Retry
import AslModel.Timestamp
import AslModel.Frames
namespace Asl

/-- what a worker answers: the raw reply document -/
abbrev TaskFn := Str → Json → Nat → Json

structure Env where
  /-- `evaluate_payload_template(input, context, template)` for a non-empty template -/
  tmpl : Json → Json → Json → Except PErr Json
  /-- the `Next` of the first matching Choice rule: choice state, effective input, raw input, context -/
  choose : Json → Json → Json → Json → Option Str
  /-- reply of the worker behind `resource` to its n-th request carrying `payload` -/
  task : TaskFn
  maxData : Nat := 262144
  /-- how long (ms) the worker takes to answer that request; `none`: it never answers -/
  delay : Str → Json → Nat → Option Rat := fun _ _ _ => some 10
  /-- the instant (ms since 1970-01-01T00:00:00Z) at which the start event is published: instant 0 of the clock -/
  startMs : Rat := 1700000000000
  /-- the execution's time limit as an instant on the run's clock (ms since the start event): the machine's top-level
  `TimeoutSeconds` × 1000 (`run` takes it from the definition: `Env.forMachine`); `none`: no limit (the engine then
  uses its configured `execution_ttl`, one day by default — outside the model) -/
  deadline : Option Rat := none
  /-- switch of the open finding C08-F1 (default off: the property's reading).  A Retrier's interval is not cut at the
  execution's time limit in the code: the retried state's deferred handler runs when the interval is over, however
  long after the limit, and only then does the execution fail (a Task even publishes its request first, with a
  time-to-live of 0).  With the switch on the model copies that; with it off an interval that would end at or after
  the limit ends the execution at the limit. -/
  retryPastDeadline : Bool := false

/-- an event of the execution history of a STANDARD execution, as far as the reference semantics
determines it (what `update_execution_history` is called with in state_engine.py / task_dispatcher.py for
the modelled fragment: function Tasks, the eight state types, Retry / Catch, Parallel / Map).  Ids,
timestamps, `roleArn`, `timeoutInSeconds` and the `…Aborted` events of cancelled siblings are not part of it. -/
inductive Ev where
  /-- `<ty>StateEntered {name, input}` -/
  | entered (ty : Str) (name : Str) (input : Json)
  /-- `<ty>StateExited {name, output}` -/
  | exited (ty : Str) (name : Str) (output : Json)
  /-- `LambdaFunctionScheduled {input, resource}` -/
  | lambdaScheduled (input : Json) (resource : Str)
  /-- `LambdaFunctionSucceeded {output}` — the reply as the worker sent it -/
  | lambdaSucceeded (output : Json)
  /-- `LambdaFunctionFailed {error, cause}` — the reply's `errorType` and `errorMessage` (default `""`) -/
  | lambdaFailed (error : Json) (cause : Json)
  /-- `LambdaFunctionTimedOut {error := "States.Timeout"}` — the Task's `TimeoutSeconds` ran out -/
  | lambdaTimedOut
  /-- `ParallelStateStarted {}` / `MapStateStarted {length}` -/
  | fanStarted (ty : Str) (length : Option Nat)
  /-- `MapIterationStarted {name, index}` -/
  | iterStarted (name : Str) (index : Nat)
  /-- `MapIterationFailed {name, index}` -/
  | iterFailed (name : Str) (index : Nat)
  /-- `<ty>StateFailed {}` (Parallel / Map) -/
  | fanFailed (ty : Str)
  /-- `ExecutionStarted {input}` -/
  | execStarted (input : Json)
  /-- `ExecutionSucceeded {output}` -/
  | execSucceeded (output : Json)
  /-- `ExecutionFailed {error, cause}` -/
  | execFailed (error : Str) (cause : Option Json)
  deriving Inhabited, DecidableEq

/-- the events that open and close an execution -/
def Ev.isExec : Ev → Bool
  | .execStarted _ => true
  | .execSucceeded _ => true
  | .execFailed _ _ => true
  | _ => false

structure St where
  counts : List ((Str × Json) × Nat) := []
  trace : List Str := []          -- entered states, most recent first
  multiFail : Bool := false       -- more than one branch of some fan-out attempt failed
  /-- … and two of them at the same instant (or an ItemSelector failed after earlier iterations ran): then even
  with every event handled the instant it is due, which failure is the fan-out's is not decided by the clock -/
  tieFail : Bool := false
  /-- what the execution history records about states, most recent first: a state is `entered` where
  `notify` writes `…StateEntered` (first entry — not a retry re-entry, not the re-entry of a Map for its
  next batch) and `exited` where `change_state` / `end_execution` / `handle_terminal_state` write
  `…StateExited` (transition accepted — also the transition of a Catcher, which the engine files under the
  caught state's name with the data handed to the Catcher's `Next` —, End / Succeed reached with an output
  within the limit); a state that fails or is cut short is not exited -/
  log : List Ev := []
  fanFail : Bool := false         -- some Parallel / Map attempt failed (which siblings ran is then timing)
  /-- the virtual clock: milliseconds since the start event was published.  Handling an event takes no
  time; time passes while a worker works (`Env.delay`), a Wait state waits, a Retrier's interval runs, a
  Task's `TimeoutSeconds` runs out.  Inside a fan-out every branch starts at the fan-out's instant. -/
  clock : Rat := 0
  /-- the instants of the events of `log`, in the same order -/
  times : List Rat := []
  /-- the broker frames of the engine connection, per handler step (`AslModel/Frames.lean`) -/
  fs : FS := {}
  deriving Inhabited

def rmax (a b : Rat) : Rat := if a ≤ b then b else a

/-- the clock set to `t` -/
def St.at (st : St) (t : Rat) : St := { st with clock := t }

/-- time passes until `t` (no time passes if `t` is already over) -/
def St.waitUntil (st : St) (t : Rat) : St := { st with clock := rmax st.clock t }

/-- `d` seconds pass (a Retrier's interval) -/
def St.after (st : St) (d : Rat) : St := st.waitUntil (st.clock + d * 1000)

/-- the frame state changes (nothing else does) -/
def St.fr (st : St) (f : FS → FS) : St := { st with fs := f st.fs }

/-- the successor event (for state `name`) is published, the step ends with the acknowledgements, the event arrives -/
def St.handover (st : St) (name : Str) : St := st.fr (fun fs => fs.handover st.clock name)
/-- the step ends; its event stays unacknowledged (a deferred handler will go on) -/
def St.closeKeep (st : St) : St := st.fr (fun fs => fs.closeKeep st.clock)
/-- a Task's delegate publishes the request; the reply arrives (unless the Task runs into its time limit) -/
def St.request (st : St) (timedOut : Bool) : St := st.fr (fun fs => fs.request st.clock timedOut)
def St.pushLevel (st : St) (mc : Nat) : St := st.fr (fun fs => fs.pushLevel mc)
/-- the state is visited: its kind joins the skeleton -/
def St.visit (st : St) (ty : Str) : St :=
  st.fr (fun fs => fs.visit (if ty = S "Task" then .tq else if ty = S "Wait" then .w else if ty = S "Fail" then .f
    else if ty = S "Parallel" || ty = S "Map" then .fan else .s))
/-- the visit in progress fails its scope (nobody handles its error) -/
def St.failTok (st : St) : St := st.fr FS.failTok
/-- the delegate of a Parallel / Map state publishes the events of the branches `names` -/
def St.launch (st : St) (names : List Str) : St := st.fr (fun fs => fs.launch st.clock names)
def St.startBranch (st : St) : St := st.fr FS.startBranch
def St.endBranch (st : St) (failed : Bool) : St := st.fr (fun fs => fs.endBranch st.clock failed)
def St.join (st : St) (failed : Bool) : St := st.fr (fun fs => fs.join failed)
/-- a batch of a Map state is complete: re-entry event, next batch `names` -/
def St.batch (st : St) (name : Str) (names : List Str) : St := st.fr (fun fs => fs.batch st.clock name names)

/-! the frame state is the only thing these change -/
@[simp] theorem St.fr_counts (st : St) (f : FS → FS) : (st.fr f).counts = st.counts := rfl
@[simp] theorem St.fr_trace (st : St) (f : FS → FS) : (st.fr f).trace = st.trace := rfl
@[simp] theorem St.fr_multiFail (st : St) (f : FS → FS) : (st.fr f).multiFail = st.multiFail := rfl
@[simp] theorem St.fr_tieFail (st : St) (f : FS → FS) : (st.fr f).tieFail = st.tieFail := rfl
@[simp] theorem St.fr_log (st : St) (f : FS → FS) : (st.fr f).log = st.log := rfl
@[simp] theorem St.fr_fanFail (st : St) (f : FS → FS) : (st.fr f).fanFail = st.fanFail := rfl
@[simp] theorem St.fr_clock (st : St) (f : FS → FS) : (st.fr f).clock = st.clock := rfl
@[simp] theorem St.fr_times (st : St) (f : FS → FS) : (st.fr f).times = st.times := rfl
@[simp] theorem St.handover_counts (st : St) (n : Str) : (st.handover n).counts = st.counts := rfl
@[simp] theorem St.handover_trace (st : St) (n : Str) : (st.handover n).trace = st.trace := rfl
@[simp] theorem St.handover_multiFail (st : St) (n : Str) : (st.handover n).multiFail = st.multiFail := rfl
@[simp] theorem St.handover_tieFail (st : St) (n : Str) : (st.handover n).tieFail = st.tieFail := rfl
@[simp] theorem St.handover_log (st : St) (n : Str) : (st.handover n).log = st.log := rfl
@[simp] theorem St.handover_fanFail (st : St) (n : Str) : (st.handover n).fanFail = st.fanFail := rfl
@[simp] theorem St.handover_clock (st : St) (n : Str) : (st.handover n).clock = st.clock := rfl
@[simp] theorem St.handover_times (st : St) (n : Str) : (st.handover n).times = st.times := rfl
@[simp] theorem St.closeKeep_counts (st : St)  : (st.closeKeep ).counts = st.counts := rfl
@[simp] theorem St.closeKeep_trace (st : St)  : (st.closeKeep ).trace = st.trace := rfl
@[simp] theorem St.closeKeep_multiFail (st : St)  : (st.closeKeep ).multiFail = st.multiFail := rfl
@[simp] theorem St.closeKeep_tieFail (st : St)  : (st.closeKeep ).tieFail = st.tieFail := rfl
@[simp] theorem St.closeKeep_log (st : St)  : (st.closeKeep ).log = st.log := rfl
@[simp] theorem St.closeKeep_fanFail (st : St)  : (st.closeKeep ).fanFail = st.fanFail := rfl
@[simp] theorem St.closeKeep_clock (st : St)  : (st.closeKeep ).clock = st.clock := rfl
@[simp] theorem St.closeKeep_times (st : St)  : (st.closeKeep ).times = st.times := rfl
@[simp] theorem St.request_counts (st : St) (b : Bool) : (st.request b).counts = st.counts := rfl
@[simp] theorem St.request_trace (st : St) (b : Bool) : (st.request b).trace = st.trace := rfl
@[simp] theorem St.request_multiFail (st : St) (b : Bool) : (st.request b).multiFail = st.multiFail := rfl
@[simp] theorem St.request_tieFail (st : St) (b : Bool) : (st.request b).tieFail = st.tieFail := rfl
@[simp] theorem St.request_log (st : St) (b : Bool) : (st.request b).log = st.log := rfl
@[simp] theorem St.request_fanFail (st : St) (b : Bool) : (st.request b).fanFail = st.fanFail := rfl
@[simp] theorem St.request_clock (st : St) (b : Bool) : (st.request b).clock = st.clock := rfl
@[simp] theorem St.request_times (st : St) (b : Bool) : (st.request b).times = st.times := rfl
@[simp] theorem St.pushLevel_counts (st : St) (mc : Nat) : (st.pushLevel mc).counts = st.counts := rfl
@[simp] theorem St.visit_counts (st : St) (ty : Str) : (st.visit ty).counts = st.counts := rfl
@[simp] theorem St.failTok_counts (st : St) : st.failTok.counts = st.counts := rfl
@[simp] theorem St.pushLevel_trace (st : St) (mc : Nat) : (st.pushLevel mc).trace = st.trace := rfl
@[simp] theorem St.visit_trace (st : St) (ty : Str) : (st.visit ty).trace = st.trace := rfl
@[simp] theorem St.failTok_trace (st : St) : st.failTok.trace = st.trace := rfl
@[simp] theorem St.pushLevel_multiFail (st : St) (mc : Nat) : (st.pushLevel mc).multiFail = st.multiFail := rfl
@[simp] theorem St.visit_multiFail (st : St) (ty : Str) : (st.visit ty).multiFail = st.multiFail := rfl
@[simp] theorem St.failTok_multiFail (st : St) : st.failTok.multiFail = st.multiFail := rfl
@[simp] theorem St.pushLevel_tieFail (st : St) (mc : Nat) : (st.pushLevel mc).tieFail = st.tieFail := rfl
@[simp] theorem St.visit_tieFail (st : St) (ty : Str) : (st.visit ty).tieFail = st.tieFail := rfl
@[simp] theorem St.failTok_tieFail (st : St) : st.failTok.tieFail = st.tieFail := rfl
@[simp] theorem St.pushLevel_log (st : St) (mc : Nat) : (st.pushLevel mc).log = st.log := rfl
@[simp] theorem St.visit_log (st : St) (ty : Str) : (st.visit ty).log = st.log := rfl
@[simp] theorem St.failTok_log (st : St) : st.failTok.log = st.log := rfl
@[simp] theorem St.pushLevel_fanFail (st : St) (mc : Nat) : (st.pushLevel mc).fanFail = st.fanFail := rfl
@[simp] theorem St.visit_fanFail (st : St) (ty : Str) : (st.visit ty).fanFail = st.fanFail := rfl
@[simp] theorem St.failTok_fanFail (st : St) : st.failTok.fanFail = st.fanFail := rfl
@[simp] theorem St.pushLevel_clock (st : St) (mc : Nat) : (st.pushLevel mc).clock = st.clock := rfl
@[simp] theorem St.visit_clock (st : St) (ty : Str) : (st.visit ty).clock = st.clock := rfl
@[simp] theorem St.failTok_clock (st : St) : st.failTok.clock = st.clock := rfl
@[simp] theorem St.pushLevel_times (st : St) (mc : Nat) : (st.pushLevel mc).times = st.times := rfl
@[simp] theorem St.visit_times (st : St) (ty : Str) : (st.visit ty).times = st.times := rfl
@[simp] theorem St.failTok_times (st : St) : st.failTok.times = st.times := rfl
@[simp] theorem St.launch_counts (st : St) (ns : List Str) : (st.launch ns).counts = st.counts := rfl
@[simp] theorem St.launch_trace (st : St) (ns : List Str) : (st.launch ns).trace = st.trace := rfl
@[simp] theorem St.launch_multiFail (st : St) (ns : List Str) : (st.launch ns).multiFail = st.multiFail := rfl
@[simp] theorem St.launch_tieFail (st : St) (ns : List Str) : (st.launch ns).tieFail = st.tieFail := rfl
@[simp] theorem St.launch_log (st : St) (ns : List Str) : (st.launch ns).log = st.log := rfl
@[simp] theorem St.launch_fanFail (st : St) (ns : List Str) : (st.launch ns).fanFail = st.fanFail := rfl
@[simp] theorem St.launch_clock (st : St) (ns : List Str) : (st.launch ns).clock = st.clock := rfl
@[simp] theorem St.launch_times (st : St) (ns : List Str) : (st.launch ns).times = st.times := rfl
@[simp] theorem St.startBranch_counts (st : St)  : (st.startBranch ).counts = st.counts := rfl
@[simp] theorem St.startBranch_trace (st : St)  : (st.startBranch ).trace = st.trace := rfl
@[simp] theorem St.startBranch_multiFail (st : St)  : (st.startBranch ).multiFail = st.multiFail := rfl
@[simp] theorem St.startBranch_tieFail (st : St)  : (st.startBranch ).tieFail = st.tieFail := rfl
@[simp] theorem St.startBranch_log (st : St)  : (st.startBranch ).log = st.log := rfl
@[simp] theorem St.startBranch_fanFail (st : St)  : (st.startBranch ).fanFail = st.fanFail := rfl
@[simp] theorem St.startBranch_clock (st : St)  : (st.startBranch ).clock = st.clock := rfl
@[simp] theorem St.startBranch_times (st : St)  : (st.startBranch ).times = st.times := rfl
@[simp] theorem St.endBranch_counts (st : St) (b : Bool) : (st.endBranch b).counts = st.counts := rfl
@[simp] theorem St.endBranch_trace (st : St) (b : Bool) : (st.endBranch b).trace = st.trace := rfl
@[simp] theorem St.endBranch_multiFail (st : St) (b : Bool) : (st.endBranch b).multiFail = st.multiFail := rfl
@[simp] theorem St.endBranch_tieFail (st : St) (b : Bool) : (st.endBranch b).tieFail = st.tieFail := rfl
@[simp] theorem St.endBranch_log (st : St) (b : Bool) : (st.endBranch b).log = st.log := rfl
@[simp] theorem St.endBranch_fanFail (st : St) (b : Bool) : (st.endBranch b).fanFail = st.fanFail := rfl
@[simp] theorem St.endBranch_clock (st : St) (b : Bool) : (st.endBranch b).clock = st.clock := rfl
@[simp] theorem St.endBranch_times (st : St) (b : Bool) : (st.endBranch b).times = st.times := rfl
@[simp] theorem St.join_counts (st : St) (b : Bool) : (st.join b).counts = st.counts := rfl
@[simp] theorem St.join_trace (st : St) (b : Bool) : (st.join b).trace = st.trace := rfl
@[simp] theorem St.join_multiFail (st : St) (b : Bool) : (st.join b).multiFail = st.multiFail := rfl
@[simp] theorem St.join_tieFail (st : St) (b : Bool) : (st.join b).tieFail = st.tieFail := rfl
@[simp] theorem St.join_log (st : St) (b : Bool) : (st.join b).log = st.log := rfl
@[simp] theorem St.join_fanFail (st : St) (b : Bool) : (st.join b).fanFail = st.fanFail := rfl
@[simp] theorem St.join_clock (st : St) (b : Bool) : (st.join b).clock = st.clock := rfl
@[simp] theorem St.join_times (st : St) (b : Bool) : (st.join b).times = st.times := rfl
@[simp] theorem St.batch_counts (st : St) (n : Str) (ns : List Str) : (st.batch n ns).counts = st.counts := rfl
@[simp] theorem St.batch_trace (st : St) (n : Str) (ns : List Str) : (st.batch n ns).trace = st.trace := rfl
@[simp] theorem St.batch_multiFail (st : St) (n : Str) (ns : List Str) : (st.batch n ns).multiFail = st.multiFail := rfl
@[simp] theorem St.batch_tieFail (st : St) (n : Str) (ns : List Str) : (st.batch n ns).tieFail = st.tieFail := rfl
@[simp] theorem St.batch_log (st : St) (n : Str) (ns : List Str) : (st.batch n ns).log = st.log := rfl
@[simp] theorem St.batch_fanFail (st : St) (n : Str) (ns : List Str) : (st.batch n ns).fanFail = st.fanFail := rfl
@[simp] theorem St.batch_clock (st : St) (n : Str) (ns : List Str) : (st.batch n ns).clock = st.clock := rfl
@[simp] theorem St.batch_times (st : St) (n : Str) (ns : List Str) : (st.batch n ns).times = st.times := rfl

def St.push (st : St) (e : Ev) : St := { st with log := e :: st.log, times := st.clock :: st.times }

/-- a Retrier grants a re-run of state `name` after `d` seconds: the retry event is published and arrives at once (the
step that took it ends), the interval passes -/
def St.retryAfter (st : St) (name : Str) (d : Rat) : St := ((st.handover name).closeKeep).after d

@[simp] theorem St.retryAfter_log (st : St) (n : Str) (d : Rat) : (st.retryAfter n d).log = st.log := rfl
@[simp] theorem St.retryAfter_times (st : St) (n : Str) (d : Rat) : (st.retryAfter n d).times = st.times := rfl
@[simp] theorem St.retryAfter_trace (st : St) (n : Str) (d : Rat) : (st.retryAfter n d).trace = st.trace := rfl
@[simp] theorem St.retryAfter_counts (st : St) (n : Str) (d : Rat) : (st.retryAfter n d).counts = st.counts := rfl
@[simp] theorem St.retryAfter_clock (st : St) (n : Str) (d : Rat) : (st.retryAfter n d).clock = (st.after d).clock := rfl
@[simp] theorem St.retryAfter_multiFail (st : St) (n : Str) (d : Rat) : (st.retryAfter n d).multiFail = st.multiFail := rfl
@[simp] theorem St.retryAfter_tieFail (st : St) (n : Str) (d : Rat) : (st.retryAfter n d).tieFail = st.tieFail := rfl
@[simp] theorem St.retryAfter_fanFail (st : St) (n : Str) (d : Rat) : (st.retryAfter n d).fanFail = st.fanFail := rfl

/-- `notify` entering state `name` (of type `ty`) with raw input `data` at retry count `retries` -/
def St.enter (st : St) (ty name : Str) (data : Json) (retries : Nat) : St :=
  if retries = 0 then
    { st with trace := name :: st.trace, log := .entered ty name data :: st.log, times := st.clock :: st.times }
  else st

/-- state `name` left with `data` -/
def St.exit (st : St) (ty name : Str) (data : Json) : St :=
  { st with log := .exited ty name data :: st.log, times := st.clock :: st.times }

inductive Res where
  | done (data : Json)
  | failed (error : Str) (cause : Option Json) (failState : Bool)
  | fuel
  | unsupported (what : Str)
  deriving Inhabited

def errName : PErr → Str
  | .intrinsic => S "States.IntrinsicFailure"
  | .resultPath => S "States.ResultPathMatchFailure"
  | .pathMatch => S "States.Runtime"
  | .paramPath => S "States.Runtime"

def fld (j : Json) (k : String) : Option Json := j.get k

def fldStr (j : Json) (k : String) : Option Str :=
  match j.get k with
  | some (.str s) => some s
  | _ => none

/-- `state.get(k, "$")` read as a path argument: absent → "$", null → none -/
def pathArg (state : Json) (k : String) : Option Str :=
  match state.get k with
  | none => some ['$']
  | some (.str s) => some s
  | some _ => none

def isTrue (o : Option Json) : Bool :=
  match o with
  | some j => j.truthy
  | none => false

/-- `evaluate_payload_template(input, ctx, state.get(k))` -/
def tmplOpt (env : Env) (input ctx : Json) (t : Option Json) : Except PErr Json :=
  match t with
  | none => .ok input
  | some .null => .ok input
  | some (.str []) => .ok input
  | some (.obj []) => .ok (.obj [])
  | some t => env.tmpl input ctx t

/-- `merge_result(data, context, result, state)` -/
def mergeResult (data ctx result state : Json) : Except PErr Json :=
  match applyResultPath data result (pathArg state "ResultPath") with
  | .error e => .error e
  | .ok out => applyPath out ctx (pathArg state "OutputPath")

def bump (counts : List ((Str × Json) × Nat)) (k : Str × Json) : Nat × List ((Str × Json) × Nat) :=
  match counts with
  | [] => (0, [(k, 1)])
  | (k', n) :: rest =>
    if k' = k then (n, (k', n + 1) :: rest)
    else let (m, rest') := bump rest k; (m, (k', n) :: rest')

inductive TaskOut where
  | ok (v : Json)
  | err (e : Str) (msg : Str)

/-- how `on_response` reads a reply: an object with a truthy `Error` is `States.TaskFailed`
(its cause is the reply's own text), otherwise a non-empty `errorType` names the error -/
def decodeReply (r : Json) : TaskOut :=
  match r with
  | .obj kvs =>
    if isTrue (objGet kvs (S "Error")) then .err (S "States.TaskFailed") (render r)
    else match objGet kvs (S "errorType") with
      | some (.str []) => .ok r
      | some (.str e) =>
        let msg := match objGet kvs (S "errorMessage") with | some (.str m) => m | _ => []
        if e = S "States.TaskFailed" then .err e (render r) else .err e msg
      | some .null => .ok r
      | some (.bool false) => .ok r
      | some (.num 0) => .ok r
      | some _ => .err (S "?") []
      | none => .ok r
  | _ => .ok r

/-- how a worker's reply reaches `on_response`: a reply whose JSON text is longer than the size limit is
replaced by the error `States.DataLimitExceeded` (`TaskDispatcher.handle_rpcmessage_response`, which
measures the text the worker sent — `json.dumps` form in the harness); otherwise `decodeReply` -/
def taskReply (maxData : Nat) (r : Json) : TaskOut :=
  if (render r).length > maxData then .err (S "States.DataLimitExceeded") (S "m") else decodeReply r

/-- the function name of `arn:aws:rpcmessage:local::function:NAME`, if the resource is one -/
def rpcFunction (arn : Str) : Option Str :=
  match arn.splitOn ':' with
  | [a, _, svc, _, _, rt, name] =>
    if a = S "arn" && svc = S "rpcmessage" && rt = S "function" && !name.isEmpty then some name else none
  | _ => none

/-- context with the current state name and retry count (what `$$.State.…` can see) -/
def ctxFor (ctx : Json) (name : Str) (retries : Nat) : Json :=
  match ctx with
  | .obj kvs =>
    let st0 : List (Str × Json) := match objGet kvs (S "State") with
      | some (.obj s) => s
      | _ => []
    let st1 := objSet st0 (S "Name") (.str name)
    let st2 := if retries = 0 then objDel st1 (S "RetryCount") else objSet st1 (S "RetryCount") (.num retries)
    .obj (objSet kvs (S "State") (.obj st2))
  | j => j

def ctxWithMapItem (ctx : Json) (i : Nat) (v : Json) : Json :=
  match ctx with
  | .obj kvs => .obj (objSet kvs (S "Map") (.obj [(S "Item", .obj [(S "Index", .num i), (S "Value", v)])]))
  | j => j

def causeOf (msg : Str) : Option Json := if msg.isEmpty then none else some (.str (S "<cause>"))

def errorOutput (e : Str) (cause : Option Json) : Json :=
  match cause with
  | some c => .obj [(S "Error", .str e), (S "Cause", c)]
  | none => .obj [(S "Error", .str e)]

def stateType (state : Json) : Str := (fldStr state "Type").getD []

def isFanOut (ty : Str) : Bool := ty = S "Parallel" || ty = S "Map"

/-- `<ty>StateFailed {}`: `handle_error` writes it for a Parallel / Map state that is caught or fails -/
def St.fanFailedIf (st : St) (state : Json) : St :=
  if isFanOut (stateType state) then st.push (.fanFailed (stateType state)) else st

/-- what `TaskDispatcher.handle_rpcmessage_response` files for a reply: an over-long reply and a reply
with a truthy `errorType` are `LambdaFunctionFailed {error, cause := errorMessage or ""}`, every other
reply is `LambdaFunctionSucceeded {output := the reply}` (an `Error` member is the state's business) -/
def replyEv (maxData : Nat) (r : Json) : Ev :=
  if (render r).length > maxData then .lambdaFailed (.str (S "States.DataLimitExceeded")) (.str [])
  else match r with
    | .obj kvs =>
      match objGet kvs (S "errorType") with
      | some e => if e.truthy then .lambdaFailed e ((objGet kvs (S "errorMessage")).getD (.str [])) else .lambdaSucceeded r
      | none => .lambdaSucceeded r
    | _ => .lambdaSucceeded r

/-- one task invocation: the request is counted and `LambdaFunctionScheduled` is filed now; at `tEnd` the
outcome's event `ev` is filed (the reply's event, or `LambdaFunctionTimedOut`) -/
def St.taskCall (st : St) (counts : List ((Str × Json) × Nat)) (resource : Str) (params : Json) (ev : Ev)
    (tEnd : Rat) : St :=
  ((({ st with counts := counts }.push (.lambdaScheduled params resource)).waitUntil tEnd).push ev)

/-- a task invocation that ends at `tEnd` by the execution's time limit alone: the request is counted and
`LambdaFunctionScheduled` is filed now; nothing is filed at `tEnd` (`send_error_callback` files
`LambdaFunctionTimedOut` only for the Task's own limit) -/
def St.taskSilent (st : St) (counts : List ((Str × Json) × Nat)) (resource : Str) (params : Json) (tEnd : Rat) : St :=
  ({ st with counts := counts }.push (.lambdaScheduled params resource)).waitUntil tEnd

/-- the deadline of a Task entered at `entered`: `TimeoutSeconds` later -/
def taskDeadline (state : Json) (entered : Rat) : Option Rat :=
  match fld state "TimeoutSeconds" with
  | some (.num n) => some (entered + (n : Rat) * 1000)
  | _ => none

/-- the Task's own deadline as `asl_state_Task_delegate` computes it: a truthy `TimeoutSecondsPath` is applied to the
state's *raw* input (not the effective one) — an integer: that many seconds after the entry; `true`: one second (a
Python bool is an int); anything else: 0 seconds, the Task times out at once; a path that matches nothing, or a value
that is no path: `States.Runtime` —, otherwise `TimeoutSeconds` (`taskDeadline`).  `HeartbeatSeconds` /
`HeartbeatSecondsPath` are not implemented by the engine (state_engine.py names them in a comment only): no
heartbeat is expected, the fields are ignored. -/
def taskOwnDeadline (state data ctx : Json) (entered : Rat) : Except PErr (Option Rat) :=
  if isTrue (fld state "TimeoutSecondsPath") then
    match fldStr state "TimeoutSecondsPath" with
    | some p =>
      match applyPath data ctx (some p) with
      | .error e => .error e
      | .ok (.num n) => .ok (some (entered + (n : Rat) * 1000))
      | .ok (.bool true) => .ok (some (entered + 1000))
      | .ok _ => .ok (some entered)
    | none => .error .pathMatch
  else .ok (taskDeadline state entered)

/-- when and how a task invocation made at `now` ends: `(instant, timed out?)`.  The reply counts if it
arrives strictly before the deadline; otherwise the Task times out at the deadline exactly.  `none`: the
worker never answers and there is no deadline. -/
def taskArrival (delay deadline : Option Rat) (now : Rat) : Option (Rat × Bool) :=
  match delay, deadline with
  | some d, none => some (now + d, false)
  | some d, some dl => if now + d < dl then some (now + d, false) else some (dl, true)
  | none, some dl => some (dl, true)
  | none, none => none

/-- the outcome of the invocation for the state -/
def taskOutcome (maxData : Nat) (reply : Json) (timedOut : Bool) : TaskOut :=
  if timedOut then .err (S "States.Timeout") (S "m") else taskReply maxData reply

def taskEv (maxData : Nat) (reply : Json) (timedOut : Bool) : Ev :=
  if timedOut then .lambdaTimedOut else replyEv maxData reply

/-- the error name the engine uses internally for "the execution ran into its time limit" (`handle_error` treats it as
unrecoverable: `unrecoverable`, AslModel/Retry.lean); it is reported as `States.Timeout` (`publicError`) -/
def execTimeoutName : Str := S "States.ExecutionTimeout"

/-- `end_execution`: "States.ExecutionTimeout" is converted back to "States.Timeout" -/
def publicError (e : Str) : Str := if e = execTimeoutName then S "States.Timeout" else e

/-- the execution's deadline `d`, if it is not after the instant `t` (something that would go on until `t` is cut at `d`;
a tie is the execution's) -/
def execCut (deadline : Option Rat) (t : Rat) : Option Rat :=
  match deadline with
  | some d => if d ≤ t then some d else none
  | none => none

/-- the execution's deadline, if a Retrier's interval that is over at `t` would not be over before it: then the
execution ends at the deadline instead of the state being re-run (`none`: the re-run starts in time, or there is no
limit — or the switch of C08-F1 is on: the code lets the interval run out whatever the limit says) -/
def Env.retryCut (env : Env) (t : Rat) : Option Rat := if env.retryPastDeadline then none else execCut env.deadline t

theorem Env.retryCut_no_deadline (env : Env) (t : Rat) (h : env.deadline = none) : env.retryCut t = none := by
  unfold Env.retryCut execCut; rw [h]; split <;> rfl

/-- the time limit in force for a task invocation made at `now`: the instant `t` it runs out, whether the Task's own
limit runs out then (`task`: `LambdaFunctionTimedOut` is filed) and whether the execution's does (`exec`: the error is
the execution's time-out, which nothing intercepts) -/
structure Limit where
  t : Rat
  task : Bool
  exec : Bool
  deriving DecidableEq, Inhabited

/-- state_engine.py, `asl_state_Task_delegate`: `t1` = time left to the execution's deadline, `t2` = to the Task's own
(entry + TimeoutSeconds), both clamped at 0; `timeout = t1 if t1 < t2 else t2`, `is_task_timeout = (timeout == t2)`
(→ `LambdaFunctionTimedOut`), and `timeout == t1` makes a `States.Timeout` the execution's.  As instants:
`own`, `exec` clamped at `now`; the earlier one is in force, a tie is both.  (A Task without `TimeoutSeconds` has none
of its own: the engine's default of 99999999 s is "never".) -/
def taskLimit (own exec : Option Rat) (now : Rat) : Option Limit :=
  match own, exec with
  | none, none => none
  | some o, none => some { t := rmax now o, task := true, exec := false }
  | none, some d => some { t := rmax now d, task := false, exec := true }
  | some o, some d =>
    if rmax now d < rmax now o then some { t := rmax now d, task := false, exec := true }
    else if rmax now o < rmax now d then some { t := rmax now o, task := true, exec := false }
    else some { t := rmax now o, task := true, exec := true }

/-- the instant (clock ms) a Wait state entered at `entered` is over: `Seconds` / `SecondsPath` after
`entered`, or the `Timestamp` / `TimestampPath` instant (a text that is no timestamp: no wait) — in the
order the engine looks at them; `.error`: a path that matches nothing, a truthy value of the wrong type -/
def waitTarget (env : Env) (state input ctx : Json) (entered : Rat) : Except PErr Rat :=
  let secs (v : Json) : Rat := match v with
    | .num n => entered + (n : Rat) * 1000
    | .bool true => entered + 1000
    | _ => entered
  let stamp (v : Json) : Rat := match v with
    | .str s => (match parseTs s with
      | some t => ((t.instant : Rat) / 1000) - env.startMs
      | none => entered)
    | _ => entered
  if isTrue (fld state "Seconds") then .ok (secs ((fld state "Seconds").getD .null))
  else if isTrue (fld state "SecondsPath") then
    match fldStr state "SecondsPath" with
    | some p => match applyPath input ctx (some p) with
      | .error e => .error e
      | .ok v => if !v.truthy then .ok entered else match v with
        | .num _ => .ok (secs v)
        | .bool _ => .ok (secs v)
        | _ => .error .pathMatch
    | none => .ok entered
  else if isTrue (fld state "Timestamp") then .ok (stamp ((fld state "Timestamp").getD .null))
  else if isTrue (fld state "TimestampPath") then
    match fldStr state "TimestampPath" with
    | some p => match applyPath input ctx (some p) with
      | .error e => .error e
      | .ok v => if !v.truthy then .ok entered else match v with
        | .str _ => .ok (stamp v)
        | _ => .error .pathMatch
    | none => .ok entered
  else .ok entered

/-- joining one branch's result `r` (it ended at `t1`) with the result `rest` of the later branches (state
`st2`; after a failure its clock is the instant of that failure).  All succeed: the clock becomes `tOk`.
A failure fails the fan-out at the instant of the *earliest* failure, and that failure is the fan-out's;
`multiFail` records that several failed (under any other schedule than the canonical one which of them is
handled first is the schedule's); two failures at the same instant: the lower index wins and `tieFail`
says that this is a tie — unless both are the execution's time-out (every branch still at work when the limit runs
out fails with it at that instant, and whichever is handled first the consequence is the same: nothing intercepts
it, nothing is filed for it).  Fuel
exhaustion of *any* branch is fuel exhaustion of the fan-out. -/
def fanCombine (r : Res) (t1 : Rat) (rest : Except Res (List Json)) (st2 : St) (tOk : Rat) :
    Except Res (List Json) × St :=
  match r, rest with
  | .done v, .ok vs => (.ok (v :: vs), st2.at tOk)
  | .done _, .error e => (.error e, st2)
  | _, .error .fuel => (.error .fuel, st2)
  | .failed e c f, .error (.failed e' c' f') =>
    if t1 < st2.clock then (.error (.failed e c f), { st2 with multiFail := true, clock := t1 })
    else if st2.clock < t1 then (.error (.failed e' c' f'), { st2 with multiFail := true })
    else (.error (.failed e c f),
      { st2 with multiFail := true, tieFail := if e = execTimeoutName ∧ e' = execTimeoutName then st2.tieFail else true })
  | other, _ => (.error other, st2.at t1)

/-- `$$.State.Name` -/
def ctxStateName (ctx : Json) : Str :=
  match ctx with
  | .obj kvs =>
    match objGet kvs (S "State") with
    | some (.obj s) => (match objGet s (S "Name") with | some (.str n) => n | _ => [])
    | _ => []
  | _ => []

/-- `MapIterationFailed` for an iteration that failed (`asl_state_collect_results` files nothing when the error is the
execution's time-out) -/
def St.iterEnd (st : St) (name : Str) (i : Nat) (r : Res) : St :=
  match r with
  | .failed e _ _ => if e = execTimeoutName then st else st.push (.iterFailed name i)
  | _ => st

def isFailed : Res → Bool
  | .failed _ _ _ => true
  | _ => false

def isErr : Except Res (List Json) → Bool
  | .error _ => true
  | .ok _ => false

mutual

/-- run the scope `states` from state `name` with raw input `data` -/
def runFrom (env : Env) : Nat → Json → Str → Json → Json → Nat → St → Res × St
  | 0, _, _, _, _, _, st => (.fuel, st)
  | fuel + 1, states, name, data, ctx, retries, st =>
    match (match states with | .obj kvs => objGet kvs name | _ => none) with
    | none => (.failed (S "States.Runtime") (some (.str (S "<cause>"))) false, st)
    | some state =>
      let ctx := ctxFor ctx name retries
      let st := (st.enter (stateType state) name data retries).visit (stateType state)
      runState env fuel states name state data ctx retries st
termination_by structural fuel => fuel

/-- leave `state`, entered with raw input `raw`, with output `data`: End → done (if the output is within
the size limit: `handle_terminal_state`), else continue at Next (the checks of `change_state`).  A refused transition (no `Next`; output text over the size limit) is
an error *of this state*: Retry / Catch work on the state's raw input — a retried state is re-run on
`raw`, a catcher's ResultPath places the Error Output into `raw` — and the retry count is kept
(Task: `on_response`; Parallel / Map: `asl_state_collect_results`, which puts the saved RetryCount back;
empty Map: `asl_state_Map_delegate`).  For Pass and Wait the engine's `handle_error` still sees the
output, which cannot be observed: those states carry no Retry / Catch, so the error is uncaught and the
data is dropped; the model is uniform and the property (C07) speaks of the original input. -/
def leave (env : Env) : Nat → Json → Str → Json → Json → Json → Json → Nat → St → Res × St
  | 0, _, _, _, _, _, _, _, st => (.fuel, st)
  | fuel + 1, states, name, state, raw, data, ctx, retries, st =>
    if isTrue (fld state "End") then
      -- `handle_terminal_state` / the join: the output of a terminal state is measured like any other
      if (render data).length > env.maxData then
        handleErr env fuel states name state raw ctx retries (S "States.DataLimitExceeded") (S "m") st
      else (.done data, st.exit (stateType state) name data)
    else match fldStr state "Next" with
      | none => handleErr env fuel states name state raw ctx retries (S "States.Runtime") (S "m") st
      | some next =>
        if (render data).length > env.maxData then
          handleErr env fuel states name state raw ctx retries (S "States.DataLimitExceeded") (S "m") st
        else runFrom env fuel states next data ctx 0 ((st.exit (stateType state) name data).handover next)
termination_by structural fuel => fuel

/-- `handle_error(state, e, msg)` with the state's raw input `data` -/
def handleErr (env : Env) : Nat → Json → Str → Json → Json → Json → Nat → Str → Str → St → Res × St
  | 0, _, _, _, _, _, _, _, _, st => (.fuel, st)
  | fuel + 1, states, name, state, data, ctx, retries, e, msg, st =>
    let rs := (listOf (fld state "Retry")).map retrierOf
    let cs := (listOf (fld state "Catch")).map catcherOf
    match decideError rs cs e retries with
    | .retry d n =>
      -- the retry event is published and arrives at once; the state's delegate runs when the interval is over —
      -- unless the execution's time limit is over by then: the execution fails at the limit (a tie is the limit's).
      -- (C08-F1: the code lets the interval run out whatever the limit says: `retryPastDeadline`.)
      match env.retryCut (st.retryAfter name d).clock with
      | some dl =>
        (.failed execTimeoutName (some (.str (S "<cause>"))) false, (((st.handover name).closeKeep).waitUntil dl).failTok)
      | none => runFrom env fuel states name data ctx n (st.retryAfter name d)
    | .caught c =>
      let out := errorOutput e (causeOf msg)
      let rp : Option Str := match c.resultPath with
        | none => some ['$']
        | some p => p
      match applyResultPath data out rp with
      | .error pe => (.failed (errName pe) (some (.str (S "<cause>"))) false, st.fanFailedIf state)
      | .ok data' =>
        -- a caught Parallel / Map state is filed as failed before the Catcher's transition is attempted; if
        -- that transition is refused the state fails after all and is filed as failed once more
        let st := st.fanFailedIf state
        match c.next with
        | none => (.failed (S "States.Runtime") (some (.str (S "<cause>"))) false, st.fanFailedIf state)
        | some next =>
          if (render data').length > env.maxData then
            (.failed (S "States.DataLimitExceeded") (some (.str (S "<cause>"))) false, st.fanFailedIf state)
          else runFrom env fuel states next data' ctx 0 ((st.exit (stateType state) name data').handover next)
    | .uncaught =>
      -- (a Parallel / Map state failing by the execution's time-out is not filed as failed)
      (.failed e (causeOf msg) false, (if e = execTimeoutName then st else st.fanFailedIf state).failTok)
termination_by structural fuel => fuel

/-- the work of one state -/
def runState (env : Env) : Nat → Json → Str → Json → Json → Json → Nat → St → Res × St
  | 0, _, _, _, _, _, _, st => (.fuel, st)
  | fuel + 1, states, name, state, data, ctx, retries, st =>
    let ty := stateType state
    let fail (pe : PErr) (st : St) : Res × St :=
      handleErr env fuel states name state data ctx retries (errName pe) (S "m") st
    if ty = S "Pass" then
      match applyPath data ctx (pathArg state "InputPath") with
      | .error pe => fail pe st
      | .ok input =>
        match tmplOpt env input ctx (fld state "Parameters") with
        | .error pe => fail pe st
        | .ok params =>
          let result := (fld state "Result").getD params
          match mergeResult data ctx result state with
          | .error pe => fail pe st
          | .ok out => leave env fuel states name state data out ctx retries st
    else if ty = S "Succeed" then
      match applyPath data ctx (pathArg state "InputPath") with
      | .error pe => fail pe st
      | .ok input =>
        match applyPath input ctx (pathArg state "OutputPath") with
        | .error pe => fail pe st
        | .ok out =>
          if (render out).length > env.maxData then
            handleErr env fuel states name state data ctx retries (S "States.DataLimitExceeded") (S "m") st
          else (.done out, st.exit (stateType state) name out)
    else if ty = S "Fail" then
      let e := (fldStr state "Error").getD (S "Unspecified")
      let c := (fld state "Cause").getD (.str (S "Unspecified"))
      (.failed e (some c) true, st)
    else if ty = S "Wait" then
      match applyPath data ctx (pathArg state "InputPath") with
      | .error pe => fail pe st
      | .ok input =>
        -- `SecondsPath` / `TimestampPath`: a value that is truthy but not a number (resp. not a string)
        -- makes the arithmetic (resp. the parser) raise: States.Runtime, like a path that matches nothing
        match waitTarget env state input ctx st.clock with
        | .error pe => fail pe st
        | .ok target =>
          -- `timeout = t1 if t1 < t2 else t2`, `elif timeout == t1`: the execution's deadline, if it is not after the
          -- instant the wait would be over, ends the execution at max(deadline, now) — nothing intercepts that
          match execCut env.deadline (rmax st.clock target) with
          | some dl =>
            handleErr env fuel states name state data ctx retries execTimeoutName (S "m") (st.closeKeep.waitUntil dl)
          | none =>
          -- the timer fires at the target instant, or at once if that is over; OutputPath is applied then
          let st := st.closeKeep.waitUntil target
          match applyPath input ctx (pathArg state "OutputPath") with
          | .error pe => fail pe st
          | .ok out => leave env fuel states name state data out ctx retries st
    else if ty = S "Choice" then
      match applyPath data ctx (pathArg state "InputPath") with
      | .error pe => fail pe st
      | .ok input =>
        let next : Option Str := match env.choose state input data ctx with
          | some n => some n
          | none => fldStr state "Default"
        match applyPath input ctx (pathArg state "OutputPath") with
        | .error pe => fail pe st
        | .ok out =>
          match next with
          | none => handleErr env fuel states name state data ctx retries (S "States.NoChoiceMatched") (S "m") st
          | some n =>
            if (render out).length > env.maxData then
              handleErr env fuel states name state data ctx retries (S "States.DataLimitExceeded") (S "m") st
            else runFrom env fuel states n out ctx 0 ((st.exit (stateType state) name out).handover n)
    else if ty = S "Task" then
      match rpcFunction ((fldStr state "Resource").getD []) with
      | none => (.unsupported (S "resource"), st)
      | some fn =>
        -- the step that took the event ends; the Task's delegate goes on from a timer
        let st := st.closeKeep
        match applyPath data ctx (pathArg state "InputPath") with
        | .error pe => fail pe st
        | .ok input =>
          match tmplOpt env input ctx (fld state "Parameters") with
          | .error pe => fail pe st
          | .ok params =>
            -- the Task's own deadline: TimeoutSecondsPath (on the raw input) or TimeoutSeconds
            match taskOwnDeadline state data ctx st.clock with
            | .error pe => fail pe st
            | .ok own =>
            let (n, counts) := bump st.counts (fn, params)
            -- the limit in force: the earlier of the Task's own deadline and the execution's
            let lim := taskLimit own env.deadline st.clock
            match taskArrival (env.delay fn params n) (lim.map (·.t)) st.clock with
            | none => (.unsupported (S "a worker that never answers a Task without TimeoutSeconds"), st)
            | some (tEnd, timedOut) =>
            -- the limit that ran out is the Task's own (`LambdaFunctionTimedOut` is filed) / the execution's
            let byTask := timedOut && (lim.map (·.task)).getD true
            let byExec := timedOut && (lim.map (·.exec)).getD false
            let st := if timedOut && !byTask then
                (st.request true).taskSilent counts ((fldStr state "Resource").getD []) params tEnd
              else (st.request timedOut).taskCall counts ((fldStr state "Resource").getD []) params
                (taskEv env.maxData (env.task fn params n) timedOut) tEnd
            match (if byExec then TaskOut.err execTimeoutName (S "m") else taskOutcome env.maxData (env.task fn params n) timedOut) with
            | .err e msg => handleErr env fuel states name state data ctx retries e msg st
            | .ok v =>
              match tmplOpt env v ctx (fld state "ResultSelector") with
              | .error pe => fail pe st
              | .ok result =>
                match mergeResult data ctx result state with
                | .error pe => fail pe st
                | .ok out => leave env fuel states name state data out ctx retries st
    else if ty = S "Parallel" then
      let st := st.closeKeep
      match applyPath data ctx (pathArg state "InputPath") with
      | .error pe => fail pe st
      | .ok input =>
        match tmplOpt env input ctx (fld state "Parameters") with
        | .error pe => fail pe st
        | .ok params =>
          let names := (listOf (fld state "Branches")).map (fun b => (fldStr b "StartAt").getD [])
          let (r, st) := runBranches env fuel (listOf (fld state "Branches")) params ctx
            (((st.push (.fanStarted ty none)).pushLevel 0).launch names)
          joinAndLeave env fuel states name state data ctx retries r (st.join (isErr r))
    else if ty = S "Map" then
      let st := st.closeKeep
      match applyPath data ctx (pathArg state "InputPath") with
      | .error pe => fail pe st
      | .ok input =>
        match applyPath input ctx (pathArg state "ItemsPath") with
        | .error pe => fail pe st
        | .ok itemsJ =>
          let items : List Json := match itemsJ with | .arr xs => xs | _ => []
          let iterator := fld state "Iterator"
          let (proc, selector) : Json × Option Json :=
            if isTrue iterator then
              (iterator.getD .null, match fld state "Parameters" with | some p => some p | none => fld state "ItemSelector")
            else
              ((fld state "ItemProcessor").getD (.obj []),
               match fld state "ItemSelector" with | some p => some p | none => fld state "Parameters")
          let st := if items.isEmpty then st else st.push (.fanStarted ty (some items.length))
          let mc : Nat := match fld state "MaxConcurrency" with | some (.num n) => n.toNat | _ => 0
          let first := List.replicate (if mc = 0 then items.length else min mc items.length) ((fldStr proc "StartAt").getD [])
          let (r, st) := runItems env fuel proc selector input items 0 mc st.clock ctx false ((st.pushLevel mc).launch first)
          joinAndLeave env fuel states name state data ctx retries r (st.join (isErr r))
    else (.failed (S "States.Runtime") (some (.str (S "<cause>"))) false, st)
termination_by structural fuel => fuel

/-- after the fan-out: failure → the fan-out state's own Retry/Catch; success → ResultSelector,
ResultPath (into the *raw* input `data`), OutputPath, then Next/End — and if that transition is refused
the fan-out state's Retry/Catch get the raw input `data` and the retry count `retries` it was entered with -/
def joinAndLeave (env : Env) : Nat → Json → Str → Json → Json → Json → Nat → Except (Res) (List Json) → St → Res × St
  | 0, _, _, _, _, _, _, _, st => (.fuel, st)
  | fuel + 1, states, name, state, data, ctx, retries, r, st =>
    match r with
    | .error (.failed e cause _) =>
      -- `if error_message:` — a branch that failed without a Cause, or with a falsy one (a Fail state with
      -- `Cause: ""`), gives an Error Output without `Cause`
      let msg : Str := if isTrue cause then S "m" else []
      -- (the execution's time-out cuts every branch at the same instant: which siblings got how far is no question then)
      handleErr env fuel states name state data ctx retries e msg { st with fanFail := st.fanFail || decide (e ≠ execTimeoutName) }
    | .error other => (other, st)
    | .ok results =>
      match tmplOpt env (.arr results) ctx (fld state "ResultSelector") with
      | .error pe => handleErr env fuel states name state data ctx retries (errName pe) (S "m") st
      | .ok result =>
        match mergeResult data ctx result state with
        | .error pe => handleErr env fuel states name state data ctx retries (errName pe) (S "m") st
        | .ok out => leave env fuel states name state data out ctx retries st
termination_by structural fuel => fuel

/-- the branches, all started at the instant the fan-out is at (`st.clock`); see `fanCombine` -/
def runBranches (env : Env) : Nat → List Json → Json → Json → St → Except Res (List Json) × St
  | 0, _, _, _, st => (.error .fuel, st)
  | _ + 1, [], _, _, st => (.ok [], st)
  | fuel + 1, b :: bs, params, ctx, st =>
    match fldStr b "StartAt", fld b "States" with
    | some start, some states =>
      let (r, st1) := runFrom env fuel states start params ctx 0 st.startBranch
      let st1 := st1.endBranch (isFailed r)
      let (rest, st2) := runBranches env fuel bs params ctx (st1.at st.clock)
      fanCombine r st1.clock rest st2 (rmax st1.clock st2.clock)
    | _, _ => (.error (.failed (S "States.Runtime") (some (.str (S "<cause>"))) false), st)
termination_by structural fuel => fuel

/-- the iterations from index `i` on.  `mc` = MaxConcurrency (0: unbounded): the iterations run in batches
of `mc`, a batch starts when the one before is complete.  The clock of `st` is the instant the current batch
started, `bend` the latest instant an iteration of it ended so far.  `bad`: an iteration before this one has
failed — the engine then launches no further batch (the failure fails the Map state at once; the event that
would re-enter it for the next batch is never published): the iterations of later batches do not run, log
nothing and make no request. -/
def runItems (env : Env) : Nat → Json → Option Json → Json → List Json → Nat → Nat → Rat → Json → Bool → St →
    Except Res (List Json) × St
  | 0, _, _, _, _, _, _, _, _, _, st => (.error .fuel, st)
  | _ + 1, _, _, _, [], _, _, bend, _, _, st => (.ok [], st.waitUntil bend)
  | fuel + 1, proc, selector, input, item :: items, i, mc, bend, ctx, bad, st =>
    -- a further batch would start here; after a failure there is none
    if mc ≠ 0 ∧ i ≠ 0 ∧ i % mc = 0 ∧ bad = true then (.ok [], st.waitUntil bend) else
    -- the first iteration of a further batch: the batch before is complete at `bend`
    let st := if mc ≠ 0 ∧ i ≠ 0 ∧ i % mc = 0 then
        (st.waitUntil bend).batch (ctxStateName ctx) (List.replicate (min mc (items.length + 1)) ((fldStr proc "StartAt").getD []))
      else st
    let paramsE : Except PErr Json :=
      if isTrue selector then tmplOpt env input (ctxWithMapItem ctx i item) selector else .ok item
    match paramsE with
    | .error pe =>
      (.error (.failed (errName pe) (some (.str (S "<cause>"))) false), { st with multiFail := true, tieFail := true })
    | .ok params =>
      match fldStr proc "StartAt", fld proc "States" with
      | some start, some states =>
        let (r, st1) := runFrom env fuel states start params ctx 0 ((st.push (.iterStarted (ctxStateName ctx) i)).startBranch)
        let (rest, st2) := runItems env fuel proc selector input items (i + 1) mc (rmax bend st1.clock) ctx (bad || isFailed r)
          (((st1.iterEnd (ctxStateName ctx) i r).endBranch (isFailed r)).at st.clock)
        fanCombine r st1.clock rest st2 st2.clock
      | _, _ => (.error (.failed (S "States.Runtime") (some (.str (S "<cause>"))) false), st)
termination_by structural fuel => fuel
end

structure Outcome where
  status : Str
  output : Option Json
  error : Option Str
  cause : Option Json
  failState : Bool
  trace : List Str
  multiFail : Bool
  tieFail : Bool
  log : List Ev          -- the events of the states, oldest first
  requests : Nat         -- task invocations
  fanFail : Bool
  /-- the complete predicted history: ExecutionStarted, the log, and the terminal event (if the run ended) -/
  history : List Ev
  /-- the status notifications: RUNNING, then the terminal status with the output / the Error Output -/
  notifications : List (Str × Json)
  /-- the instants (clock ms) of the events of `history`, in the same order -/
  times : List Rat
  /-- the instant the run ended -/
  endTime : Rat
  /-- the handler steps with their broker frames, in the order the interpreter went through the run -/
  steps : List BStep
  /-- the frames are not an exact prediction: two unlike branches were the last of a join at the same instant /
  a Task ran into its time limit (its late reply is not modelled) -/
  tieJoin : Bool
  late : Bool
  /-- the run's skeleton: the state visits in order, fan-outs with their branches (`Tok`) -/
  sk : List Tok
  /-- the run ended by the execution's time limit (reported as `States.Timeout`) -/
  execTimeout : Bool := false

/-- number of task invocations: the occurrence counts of all (function, payload) pairs -/
def St.requests (st : St) : Nat := (st.counts.map (fun kn => kn.2)).sum

/-- how a run ended, as the terminal history event and the terminal notification -/
def terminalOf (r : Res) : Option (Ev × (Str × Json)) :=
  match r with
  | .done d => some (.execSucceeded d, (S "SUCCEEDED", d))
  | .failed e c _ => some (.execFailed (publicError e) c, (S "FAILED", errorOutput (publicError e) c))
  | _ => none

/-- the frame state at the end: the terminal notification is published, then what is left is acknowledged -/
def endFS (r : Res) (st : St) : FS :=
  match r with
  | .done _ => st.fs.terminal st.clock (S "SUCCEEDED")
  | .failed _ _ _ => st.fs.terminal st.clock (S "FAILED")
  | _ => st.fs

def historyOf (input : Json) (r : Res) (st : St) : List Ev :=
  .execStarted input :: (st.log.reverse ++ (match terminalOf r with | some (e, _) => [e] | none => []))

/-- `ExecutionStarted` is at 0, the terminal event at the instant the run ended -/
def timesOf (r : Res) (st : St) : List Rat :=
  0 :: (st.times.reverse ++ (match terminalOf r with | some _ => [st.clock] | none => []))

def notificationsOf (r : Res) : List (Str × Json) :=
  (S "RUNNING", .null) :: (match terminalOf r with | some (_, n) => [n] | none => [])

/-- the outcome of a run that ended with `r` in state `st` -/
def Outcome.ofRun (input : Json) (r : Res) (st : St) : Outcome :=
  { status := match r with
      | .done _ => S "SUCCEEDED" | .failed _ _ _ => S "FAILED" | .fuel => S "FUEL" | .unsupported _ => S "UNSUPPORTED"
    output := match r with | .done d => some d | _ => none
    error := match r with | .failed e _ _ => some (publicError e) | .unsupported w => some w | _ => none
    execTimeout := match r with | .failed e _ _ => e = execTimeoutName | _ => false
    cause := match r with | .failed _ c _ => c | _ => none
    failState := match r with | .failed _ _ f => f | _ => false
    trace := st.trace.reverse, multiFail := st.multiFail, tieFail := st.tieFail
    log := st.log.reverse, requests := st.requests, fanFail := st.fanFail
    history := historyOf input r st, notifications := notificationsOf r
    times := timesOf r st, endTime := st.clock
    steps := (endFS r st).steps.reverse, tieJoin := st.fs.tieJoin, late := st.fs.late, sk := st.fs.toks.reverse }

/-- the execution's time limit: the definition's top-level `TimeoutSeconds` (a number), as an instant on the run's clock -/
def execDeadline (asl : Json) : Option Rat :=
  match fld asl "TimeoutSeconds" with
  | some (.num n) => some ((n : Rat) * 1000)
  | _ => none

/-- the environment of a run of definition `asl`: its time limit is the definition's -/
def Env.forMachine (env : Env) (asl : Json) : Env := { env with deadline := execDeadline asl }

/-- the run of the top scope (a definition without `StartAt` / `States` is the runtime error) -/
def runCore (env : Env) (fuel : Nat) (asl input ctx : Json) : Res × St :=
  match fldStr asl "StartAt", fld asl "States" with
  | some start, some states => runFrom (env.forMachine asl) fuel states start input ctx 0 {}
  | _, _ => (.failed (S "States.Runtime") none false, {})

/-- run a whole execution of definition `asl` on `input` with context `ctx` -/
def run (env : Env) (fuel : Nat) (asl input ctx : Json) : Outcome :=
  Outcome.ofRun input (runCore env fuel asl input ctx).1 (runCore env fuel asl input ctx).2

end Asl
