/-
L6 — the abstract specification the API reference model refines (property C10):
"the API behaves like a simple keyed store".

The state is three finite maps ARN ↦ record, as plain functions `Str → Option record` —
no order, no representation.  A request is decided by the same `decideAction` the reference
model uses (argument validation and lookups; it never sees more than the maps), a write is a
point update of a map, and a list answer is not a list at all but the *set* of records it
must enumerate (`Answer.machineSet`, `Answer.executionSet`).  `Matches` says when a concrete
response of the reference model is an answer of the specification: equal, or — for the two
list actions — an enumeration without repetition of exactly that set.
-/
import AslModel.Api
namespace Asl.Api.Spec
open Asl Asl.Api

structure State where
  machines : Lk Machine
  executions : Lk Exec
  histories : Lk (List Json)

def State.empty : State := ⟨fun _ => none, fun _ => none, fun _ => none⟩

/-- point update of a finite map -/
def set {α : Type} (f : Lk α) (k : Str) (v : Option α) : Lk α :=
  fun k' => if k' = k then v else f k'

def State.apply (σ : State) : Effect → State
  | .none => σ
  | .putMachine arn m => { σ with machines := set σ.machines arn (some m) }
  | .delMachine arn => { σ with machines := set σ.machines arn none }

/-- what the specification answers -/
inductive Answer where
  /-- exactly this response -/
  | exact (r : Response)
  /-- 200 with the summaries of all stored machines, in any order, each once -/
  | machineSet
  /-- 200 with the summaries of all stored executions of `arn` passing `filter`, in any order, each once -/
  | executionSet (arn : Str) (filter : Option Json)

def answer (env : Env) : Reply → Answer
  | .json j => .exact (.ok j)
  | .empty => .exact .okEmpty
  | .machines => .machineSet
  | .executions arn f => .executionSet arn f
  | .sync =>
    match env.syncOutcome with
    | some detail => .exact (.ok detail)
    | none => .exact .timedOut
  | .publishFailed => .exact .internalError

/-- one request: new maps, the answer, what is published -/
def step (cfg : Cfg) (env : Env) (σ : State) (c : Call) : State × Answer × Option Json :=
  match c.params with
  | some (.obj p) =>
    match decideAction cfg env σ.machines σ.executions σ.histories c.action p with
    | none => (σ, .exact .invalidAction, none)
    | some (.error e) => (σ, .exact (.error e), none)
    | some (.ok v) => (σ.apply v.effect, answer env v.reply, v.publish)
  | _ => (σ, .exact (.error (S "SerializationException")), none)

def apply (cfg : Cfg) (σ : State) : Event → State
  | .call env c => (step cfg env σ c).1
  | .engine arn e => { σ with executions := set σ.executions arn (some e) }
  | .engineLog arn log => { σ with histories := set σ.histories arn (some log) }

def run (cfg : Cfg) (σ : State) : List Event → State
  | [] => σ
  | ev :: rest => run cfg (apply cfg σ ev) rest

/-- a concrete response is an answer of the specification in state `σ` -/
def Matches (σ : State) (r : Response) : Answer → Prop
  | .exact r' => r = r'
  | .machineSet =>
    ∃ l : List (Str × Machine),
      r = .ok (.obj [(S "stateMachines", .arr (l.map (fun kv => Machine.summary kv.1 kv.2)))]) ∧
      (l.map (·.1)).Nodup ∧ ∀ arn m, (arn, m) ∈ l ↔ σ.machines arn = some m
  | .executionSet arn f =>
    ∃ l : List (Str × Exec),
      r = .ok (.obj [(S "executions", .arr (l.map (fun kv => Exec.summary kv.1 kv.2)))]) ∧
      (l.map (·.1)).Nodup ∧
      ∀ k e, (k, e) ∈ l ↔ (σ.executions k = some e ∧ execMatches arn f e = true)

end Asl.Api.Spec

namespace Asl.Api

/-- the maps a store content denotes -/
def abs (s : State) : Spec.State := ⟨lookup s.machines, lookup s.executions, lookup s.histories⟩

/-- along a history the reference model answers what the specification answers and publishes
what it publishes -/
def Refines (cfg : Cfg) : State → Spec.State → List Event → Prop
  | _, _, [] => True
  | s, σ, .call env c :: rest =>
    Spec.Matches σ (step cfg env s c).2 (Spec.step cfg env σ c).2.1 ∧
    published cfg env s c = (Spec.step cfg env σ c).2.2 ∧
    Refines cfg (step cfg env s c).1 (Spec.step cfg env σ c).1 rest
  | s, σ, ev :: rest => Refines cfg (apply cfg s ev) (Spec.apply cfg σ ev) rest

end Asl.Api
