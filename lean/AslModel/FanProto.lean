/-
L4 — protocol model of the engine's fan-out machinery for NESTED Parallel / Map states under
ARBITRARY interleavings (`state_engine.py`: `branch_has_terminated`, `check_pending_results`,
`check_for_expired_branch_results`, the nested `handle_error` / `handle_terminal_state`,
`asl_state_collect_results`, the Parallel / Map delegates, `end_execution`, `BranchMetadata`;
`task_dispatcher.py`: `branch_has_terminated`, `cancel_task`).

State: the forest of fan-out *attempts* of one execution (one per `Branch[-1].ID`, i.e. one per
launch of a Parallel / Map state: a retried state gets a fresh attempt), each with its slots
(PENDING / CAUGHT / a result / TERMINATED, plus whether a cancellable task or wait is outstanding),
its `terminated` flag, whether its results entry exists yet (`seen`: entries are created lazily by
the first event), plus the execution-level state: ended?, branch metadata present?

The alphabet is what a schedule interleaves freely: fan-out launches, branch events, deferred
(timer-run) handlers, task replies / wait expiries, cancellation echoes, the top-level terminal
state, the back stop.  What an accepted handler goes on to do (`Kont`) and how each enclosing
state's Retry / Catch decides (`hs`, innermost first) is part of the input: the policy is abstract.

`Quirks` switches the model between the code as it is (the three open findings C06-F3/F4/F5) and
the repaired protocol the theorems are about (`Quirks.none`, DESIGN §2.2).

Simplifications (each one is checked by the tie, which compares the model's state with the
engine's `branch_metadata` after every step): a cancel is issued by `checkPending` and its
`Task.Terminated` callback arrives as the separate input `echo` (the engine runs it synchronously:
the tie feeds it at once); the `terminated` *range* of a Map using MaxConcurrency is represented by
the slots of the batches not launched yet being `unlaunched`; failures *while launching* are outside.
-/
namespace Asl.FanProto

inductive Err where
  | taskTerminated            -- Task.Terminated: the callback of a cancelled task / wait
  | fatal                     -- States.Runtime, States.ExecutionTimeout, …HistoryLimitExceeded: never retried or caught
  | plain (n : Nat)           -- any other error name
  deriving Repr, DecidableEq

inductive Handled where
  | uncaught | retried | caught
  deriving Repr, DecidableEq

inductive Slot where
  | pending                   -- PENDING: an event / deferred handler / nested attempt of the branch carries it
  | task                      -- PENDING with a task request or Wait timer outstanding (a canceller exists)
  | cancelling                -- cancelled by checkPending; the Task.Terminated callback (`echo`) is due
  | caught                    -- CAUGHT: the branch caught its own error, its continuation is outstanding
  | caughtTask                -- CAUGHT with a task / wait of the recovery path outstanding
  | done (v : Nat)            -- a result (or the Error Output of the failing branch: `result[index] = data`)
  | terminated                -- TERMINATED: an event of the branch was dropped
  | unlaunched                -- PENDING slot of a Map iteration whose batch (MaxConcurrency) has not been launched yet
  deriving Repr, DecidableEq

def Slot.unresolved : Slot → Bool
  | .pending | .task | .cancelling | .caught | .caughtTask => true
  | _ => false

/-- no result yet: the join waits -/
def Slot.isOpen (s : Slot) : Bool := s.unresolved || s == .unlaunched

def Slot.cancellable : Slot → Bool
  | .task | .caughtTask => true
  | _ => false

def Slot.isCaught : Slot → Bool
  | .caught | .caughtTask => true
  | _ => false

/-- a request is sent / a Wait is armed -/
def Slot.arm : Slot → Slot
  | .pending => .task
  | .caught => .caughtTask
  | s => s

/-- the request is answered / the Wait is over -/
def Slot.disarm : Slot → Slot
  | .task => .pending
  | .caughtTask => .caught
  | s => s

def Slot.cancel : Slot → Slot
  | .task => .cancelling
  | .caughtTask => .cancelling
  | s => s

structure Attempt where
  id : Nat
  parent : Option (Nat × Nat) := none      -- enclosing attempt and branch index
  slots : List Slot := []
  seen : Bool := false                     -- its results entry exists (created by the first event / result)
  terminated : Bool := false               -- `"terminated" in results`
  joined : Bool := false                   -- the join completed and handed over
  retry : Nat := 0                         -- RetryCount carried in the branch info
  fullRange : Bool := false                -- terminated by the back stop: over its whole range, iterations not launched yet included
  deriving Repr, DecidableEq

inductive Out where
  | launched (a : Nat)
  | progress (a i : Nat)                   -- an event / handler / reply of the branch was accepted: the branch goes on
  | drop (a i : Nat)                       -- dropped and acknowledged
  | succeed (a : Nat) (vs : List Nat)      -- the join of attempt a hands over the result array
  | failAttempt (a : Nat) (e : Err)        -- attempt a fails as a whole with e (then its state's Retry / Catch)
  | aborted (a : Nat)                      -- attempt a is torn down by a Task.Terminated callback (no history, no handler)
  | retry (a k : Nat)                      -- the state's event is republished with RetryCount k
  | caughtTo (a : Nat)                     -- transition to the Catcher's Next
  | cancel (a i : Nat)                     -- the pending task / wait of the branch is cancelled
  | endExecution (ok : Bool)               -- record + history + notification
  | discard                                -- the branch metadata is deleted
  | orphan (a i : Nat)                     -- reply / callback without an outstanding request: acknowledged only
  | unknown (a : Nat)                      -- addressed to an attempt there is no record of (outside the model)
  | refused                                -- launch with a used id / top-level step of an ended execution
  | joinFailed (a : Nat) (e : Err)         -- the join of attempt a completed but its state then failed with e (ResultSelector,
                                           -- ResultPath, the size limit, a refused transition): then its Retry / Catch
  deriving Repr, DecidableEq

/-- what the accepted handler of a branch event / reply goes on to do -/
inductive Kont where
  | goesOn                                 -- next state of the branch, a deferred handler, or the state's own Retry
  | arm                                    -- sends a task request or arms a Wait
  | caughtOn                               -- the state's own Catch: the branch goes on, its slot is marked CAUGHT
  | done (v : Nat) (ups : List Bool)       -- terminal state with output v; `ups`: for each join this completes,
                                           -- innermost first, is that fan-out state the last of *its* branch / the machine?
  | fail (e : Err) (hs : List Handled)     -- unhandled inside the branch; `hs`: what the Retry / Catch of each
                                           -- enclosing fan-out state decides, innermost first (none listed = no handler)
  | doneFail (v : Nat) (e : Err) (hs : List Handled)   -- terminal state with output v; if that completes the join of its
                                           -- attempt the fan-out state then fails with e (`hs` as for `fail`)
  deriving Repr, DecidableEq

inductive Inp where
  | launch (a n hi : Nat) (par : Option (Nat × Nat)) (k : Nat)  -- the Parallel / Map delegate runs (from its timer):
                                           -- n branches, the first hi of them launched (hi < n: a Map using MaxConcurrency)
  | batch (a lo hi : Nat) (launch : Bool)  -- a Map using MaxConcurrency is re-entered for its next batch [lo, hi): the
                                           -- re-entry event is delivered (launch = false) / its delegate runs (true)
  | event (a i : Nat) (k : Kont)           -- an event of branch i of attempt a is delivered, whenever
  | deferred (a i : Nat) (k : Kont)        -- the timer-run handler of an accepted Task event fires, whenever
  | reply (a i : Nat) (k : Kont)           -- a task reply arrives / a Wait expires, whenever
  | echo (a i : Nat)                       -- the Task.Terminated callback of a cancel
  | topEnd (ok : Bool)                     -- the top-level control reaches a terminal state
  | backstop                               -- the once-a-minute back stop finds the metadata expired
  deriving Repr, DecidableEq

structure Quirks where
  refail : Bool := false        -- C06-F3: a genuine failure arriving at a terminated attempt fails it again
  oneLevel : Bool := false      -- C06-F4: the lookup sees the attempt and its parent only, not the end nor further ancestors
  topUnguarded : Bool := false  -- C06-F5: top-level steps are not checked against the execution record
  nestedSurvive : Bool := false -- C06-F6: while the execution runs on, check_pending_results cancels only what is pending in
                                -- the attempts marked terminated, not in the attempts nested in their branches
  deriving Repr, DecidableEq

def Quirks.none : Quirks := {}
/-- the code as it is (C06-F3, F4, F5 have been repaired in the engine) -/
def Quirks.asCode : Quirks := { nestedSurvive := true }

structure Proto where
  atts : List Attempt := []     -- newest first: an attempt's parent is further down
  fresh : Nat := 0              -- ids below were used
  hasMeta : Bool := false       -- `execution_arn in branch_metadata`
  ended : Option Bool := none   -- the execution record's terminal status
  deriving Repr, DecidableEq

def find (atts : List Attempt) (a : Nat) : Option Attempt := atts.find? (fun x => x.id == a)

def upd (atts : List Attempt) (a : Nat) (f : Attempt → Attempt) : List Attempt :=
  atts.map (fun x => if x.id == a then f x else x)

/-- write slot i of a results entry (which has to exist) -/
def setSlot (i : Nat) (f : Slot → Slot) (x : Attempt) : Attempt :=
  if x.seen then { x with slots := x.slots.modify i f } else x

/-- write the slots [lo, hi) of a results entry (which has to exist) -/
def setRange (lo hi : Nat) (f : Slot → Slot) (x : Attempt) : Attempt :=
  if x.seen then { x with slots := x.slots.mapIdx (fun j sl => if lo ≤ j && j < hi then f sl else sl) } else x

/-- does check_pending_results find a result of the entry pending: a slot without result in its terminated range —
every slot without result if it is not terminated (then only looked at once the execution has ended) -/
def Attempt.waits (x : Attempt) : Bool :=
  x.slots.any Slot.unresolved || ((!x.terminated || x.fullRange) && x.slots.any (fun sl => sl == .unlaunched))

def values (ss : List Slot) : List Nat :=
  ss.filterMap (fun s => match s with | .done v => some v | _ => none)

/-! ### `check_pending_results` -/

/-- is the attempt, or an attempt enclosing it, terminated -/
def deadChain : List Attempt → Nat → Bool
  | [], _ => false
  | x :: rest, a =>
    if x.id == a then
      x.terminated || (match x.parent with
        | some (p, _) => deadChain rest p
        | none => false)
    else deadChain rest a

/-- the attempt makes no further progress: it is terminated — or, in the repaired protocol, nested at any depth in a
branch of one that is -/
def cpDead (q : Quirks) (atts : List Attempt) (x : Attempt) : Bool :=
  if q.nestedSurvive then x.terminated else deadChain atts x.id

/-- a results entry that check_pending_results looks into -/
def visited (dead : Attempt → Bool) (hasTerm ended : Bool) (x : Attempt) : Bool :=
  x.seen && hasTerm && (dead x || ended)

def cancelsOf (x : Attempt) : List Out :=
  (List.range x.slots.length).filterMap (fun i =>
    match x.slots[i]? with
    | some s => if s.cancellable then some (Out.cancel x.id i) else none
    | none => none)

/-- cancel what can be cancelled in the attempts that make no further progress (in all of them once the execution has
ended); delete the metadata of an ended execution unless a result is still pending -/
def checkPending (q : Quirks) (s : Proto) : Proto × List Out :=
  let hasTerm := s.atts.any (fun x => x.seen && x.terminated)
  let ended := s.ended.isSome
  let dead := cpDead q s.atts
  let outs := (s.atts.filter (visited dead hasTerm ended)).flatMap cancelsOf
  let atts := s.atts.map (fun x => if visited dead hasTerm ended x then { x with slots := x.slots.map Slot.cancel } else x)
  let pending := atts.any (fun x => visited dead hasTerm ended x && x.waits)
  if ended && !pending then ({ s with atts := [], hasMeta := false }, outs ++ [.discard])
  else ({ s with atts := atts }, outs)

/-! ### the lookup of `branch_has_terminated` -/

def parentTerminated (atts : List Attempt) (x : Attempt) : Bool :=
  match x.parent with
  | some (p, _) => (match find atts p with
    | some y => y.terminated
    | none => false)
  | none => false

/-- the slot of a dropped event's branch -/
def markOwn (i : Nat) (x : Attempt) : Attempt :=
  { x with seen := true, terminated := true, fullRange := false, slots := x.slots.modify i (fun _ => .terminated) }

/-- the slot of an enclosing attempt (if its results entry exists): a CAUGHT slot is left as it is (its continuation
event is outstanding) -/
def markEnclosing (i : Nat) (x : Attempt) : Attempt :=
  if x.seen then
    { x with terminated := true, slots := x.slots.modify i (fun s => if s.isCaught then s else .terminated) }
  else x

/-- the code as it is: own slot, and the parent's slot when the parent is terminated -/
def markOne (atts : List Attempt) (a i : Nat) : List Attempt :=
  match find atts a with
  | none => atts
  | some x =>
    let atts1 := upd atts a (markOwn i)
    match x.parent with
    | some (p, pi) => if parentTerminated atts x then upd atts1 p (markEnclosing pi) else atts1
    | none => atts1

/-- the repaired lookup: every level of the chain that is dead (or all of them once the execution has ended) -/
def markUp (ended : Bool) : List Attempt → Nat → Nat → Bool → List Attempt
  | [], _, _, _ => []
  | x :: rest, a, i, own =>
    if x.id == a then
      let x' := if own then markOwn i x else markEnclosing i x
      match x.parent with
      | some (p, pi) => if ended || deadChain rest p then x' :: markUp ended rest p pi false else x' :: rest
      | none => x' :: rest
    else x :: markUp ended rest a i own

inductive Verdict where
  | accept | dropped | lost
  deriving Repr, DecidableEq

/-- `branch_has_terminated` for an event of branch i of attempt a -/
def lookup (q : Quirks) (s : Proto) (a i : Nat) : Verdict × Proto × List Out :=
  if !s.hasMeta && s.ended.isSome then (.dropped, s, [.drop a i])          -- recognised by the execution record
  else
    match find s.atts a with
    | none => (.lost, s, [.unknown a])
    | some x =>
      let s1 := { s with hasMeta := true, atts := upd s.atts a (fun y => { y with seen := true }) }
      let dead := if q.oneLevel then x.terminated || parentTerminated s.atts x
                  else s.ended.isSome || deadChain s.atts a
      if dead then
        let atts' := if q.oneLevel then markOne s1.atts a i else markUp s.ended.isSome s1.atts a i true
        let r := checkPending q { s1 with atts := atts' }
        (.dropped, r.1, .drop a i :: r.2)
      else (.accept, s1, [])

/-! ### `asl_state_collect_results` and what follows it, up the chain of enclosing attempts -/

inductive Res where
  | done (v : Nat) (ups : List Bool)
  | fail (e : Err) (hs : List Handled)
  | doneFail (v : Nat) (e : Err) (hs : List Handled)
  deriving Repr, DecidableEq

/-- what the fan-out state's own Retry / Catch decides (`handle_error`) -/
def effective (e : Err) (hs : List Handled) : Handled :=
  match e, hs with
  | .plain _, h :: _ => h
  | _, _ => .uncaught

structure Walk where
  atts : List Attempt
  outs : List Out := []
  cpr : Bool := false                -- check_pending_results is called at the end
  endNow : Option Bool := none       -- end_execution is called
  deriving Repr, DecidableEq

def Walk.under (x : Attempt) (o : List Out) (w : Walk) : Walk :=
  { w with atts := x :: w.atts, outs := o ++ w.outs }

/-- the slot of the branch that holds a fan-out state whose failure was caught (if that entry exists) -/
def markCaught (atts : List Attempt) (par : Option (Nat × Nat)) : List Attempt :=
  match par with
  | some (p, pi) => upd atts p (setSlot pi (fun _ => .caught))
  | none => atts

/-- a result arrives at slot i of attempt a -/
def bubble (q : Quirks) (ended : Bool) : List Attempt → Nat → Nat → Res → Walk
  | [], a, _, _ => { atts := [], outs := [.unknown a], cpr := true }
  | x :: rest, a, i, r =>
    if x.id == a then
      if x.joined then { atts := x :: rest, outs := [.orphan a i], cpr := true }
      else
        match r with
        | .done v ups =>
          let x1 := { x with seen := true, slots := x.slots.modify i (fun _ => .done v) }
          if x.terminated then { atts := x1 :: rest, cpr := true }                      -- 7600631
          else if x1.slots.any Slot.isOpen then { atts := x1 :: rest }
          else
            let x2 := { x1 with joined := true }
            let o := Out.succeed a (values x1.slots)
            match ups with
            | true :: ups' =>
              (match x.parent with
               | some (p, pi) => (bubble q ended rest p pi (.done v ups')).under x2 [o]
               | none => { atts := x2 :: rest, outs := [o, .endExecution true], endNow := some true })
            | _ => { atts := x2 :: rest, outs := [o] }
        | .fail e hs =>
          let x1 := { x with seen := true, slots := x.slots.modify i (fun _ => .done 0) }
          if x.terminated && (e == .taskTerminated || !q.refail) then
            { atts := x1 :: rest, cpr := e != .taskTerminated || ended }
          else
            let x2 := { x1 with terminated := true }
            let o := if e == .taskTerminated then Out.aborted a else Out.failAttempt a e
            match effective e hs with
            | .retried => { atts := x2 :: rest, outs := [o, .retry a (x.retry + 1)], cpr := true }
            | .caught => { atts := x2 :: markCaught rest x.parent, outs := [o, .caughtTo a], cpr := true }
            | .uncaught =>
              (match x.parent with
               | some (p, pi) => (bubble q ended rest p pi (.fail e hs.tail)).under x2 [o]
               | none =>
                 if e == .taskTerminated then { atts := x2 :: rest, outs := [o], cpr := true }
                 else { atts := x2 :: rest, outs := [o, .endExecution false], endNow := some false })
        | .doneFail v e hs =>
          let x1 := { x with seen := true, slots := x.slots.modify i (fun _ => .done v) }
          if x.terminated then { atts := x1 :: rest, cpr := true }
          else if x1.slots.any Slot.isOpen then { atts := x1 :: rest }
          else
            let x2 := { x1 with joined := true }
            let o := Out.joinFailed a e
            match effective e hs with
            | .retried => { atts := x2 :: rest, outs := [o, .retry a (x.retry + 1)], cpr := true }
            | .caught => { atts := x2 :: markCaught rest x.parent, outs := [o, .caughtTo a], cpr := true }
            | .uncaught =>
              (match x.parent with
               | some (p, pi) => (bubble q ended rest p pi (.fail e hs.tail)).under x2 [o]
               | none => { atts := x2 :: rest, outs := [o, .endExecution false], endNow := some false })
    else (bubble q ended rest a i r).under x []

/-- `end_execution` (when called for) and `check_pending_results` after a walk (`collect_results` has created the
metadata if it was not there) -/
def finish (q : Quirks) (s : Proto) (w : Walk) : Proto × List Out :=
  let s1 := { s with atts := w.atts, hasMeta := true, ended := if w.endNow.isSome then w.endNow else s.ended }
  if w.cpr || w.endNow.isSome then
    let r := checkPending q s1
    (r.1, w.outs ++ r.2)
  else (s1, w.outs)

/-- an accepted handler does what its continuation says -/
def continue_ (q : Quirks) (s : Proto) (a i : Nat) (k : Kont) : Proto × List Out :=
  match k with
  | .goesOn => (s, [.progress a i])
  | .arm => ({ s with atts := upd s.atts a (setSlot i Slot.arm) }, [.progress a i])
  | .caughtOn => ({ s with atts := upd s.atts a (setSlot i (fun _ => .caught)) }, [.progress a i])
  | .done v ups =>
    let r := finish q s (bubble q s.ended.isSome s.atts a i (.done v ups))
    (r.1, .progress a i :: r.2)
  | .fail e hs =>
    let r := finish q s (bubble q s.ended.isSome s.atts a i (.fail e hs))
    (r.1, .progress a i :: r.2)
  | .doneFail v e hs =>
    let r := finish q s (bubble q s.ended.isSome s.atts a i (.doneFail v e hs))
    (r.1, .progress a i :: r.2)

def viaLookup (q : Quirks) (s : Proto) (a i : Nat) (k : Kont) : Proto × List Out :=
  match lookup q s a i with
  | (.accept, s1, _) => continue_ q s1 a i k
  | (_, s1, outs) => (s1, outs)

def slotOf (atts : List Attempt) (a i : Nat) : Option Slot :=
  match find atts a with
  | some x => x.slots[i]?
  | none => none

def step (q : Quirks) (s : Proto) : Inp → Proto × List Out
  | .launch a n hi par k =>
    if a < s.fresh then (s, [.refused])
    else
      let att : Attempt := { id := a, parent := par, retry := k,
                             slots := (List.range n).map (fun j => if j < hi then Slot.pending else Slot.unlaunched) }
      match par with
      | none =>
        if s.ended.isSome && !q.topUnguarded then (s, [.refused])
        else ({ s with atts := att :: s.atts, fresh := a + 1 }, [.launched a])
      | some (p, i) =>
        match lookup q s p i with
        | (.accept, s1, _) => ({ s1 with atts := att :: s1.atts, fresh := a + 1 }, [.launched a])
        | (_, s1, outs) => (s1, outs)
  | .batch a lo hi launch =>
    match lookup q s a lo with
    | (.accept, s1, _) =>
      (if launch then { s1 with atts := upd s1.atts a (setRange lo hi (fun sl => if sl == .unlaunched then .pending else sl)) }
       else s1, [.progress a lo])
    | (.dropped, s1, outs) =>      -- the iterations of that batch will never be launched: nothing is pending for them
      if s1.hasMeta then
        let r := checkPending q { s1 with atts := upd s1.atts a (setRange lo hi (fun sl => if sl == .unlaunched || sl == .pending then .terminated else sl)) }
        (r.1, outs ++ r.2)
      else (s1, outs)
    | (.lost, s1, outs) => (s1, outs)
  | .event a i k => viaLookup q s a i k
  | .deferred a i k => viaLookup q s a i k
  | .reply a i k =>
    match find s.atts a with
    | none => (s, [.orphan a i])          -- no record of the attempt: its requests were cancelled before the record went
    | some x =>
      match x.slots[i]? with
      | some sl =>
        if x.seen && sl.cancellable then                           -- a request is outstanding
          let s1 := { s with atts := upd s.atts a (setSlot i Slot.disarm) }
          if x.terminated then                                     -- task_dispatcher.branch_has_terminated
            finish q s1 (bubble q s1.ended.isSome s1.atts a i (.fail .taskTerminated []))
          else continue_ q s1 a i k
        else (s, [.orphan a i])
      | none => (s, [.orphan a i])
  | .echo a i =>
    match find s.atts a with
    | none => (s, [.orphan a i])
    | some x =>
      if x.seen && x.slots[i]? == some .cancelling then
        finish q s (bubble q s.ended.isSome s.atts a i (.fail .taskTerminated []))
      else (s, [.orphan a i])
  | .topEnd ok =>
    if s.ended.isSome && !q.topUnguarded then (s, [.refused])
    else
      let s1 := { s with ended := some ok }
      if s.hasMeta then
        let r := checkPending q s1
        (r.1, .endExecution ok :: r.2)
      else (s1, [.endExecution ok])
  | .backstop =>
    if !s.hasMeta then (s, [])
    else if s.ended.isSome then ({ s with atts := [], hasMeta := false }, [.discard])     -- ea96e63 / 513dbde
    else      -- every results entry is marked terminated over its whole range (until a dropped event narrows it again)
      let s1 := { s with ended := some false,
                         atts := s.atts.map (fun x => if x.seen then { x with terminated := true, fullRange := true } else x) }
      let r := checkPending q s1
      (r.1, .endExecution false :: r.2)

def run (q : Quirks) : Proto → List Inp → Proto × List Out
  | s, [] => (s, [])
  | s, i :: is =>
    let r := step q s i
    let r' := run q r.1 is
    (r'.1, r.2 ++ r'.2)

def init : Proto := {}

def isEnd : Out → Bool
  | .endExecution _ => true
  | _ => false

/-- outputs that only tidy up -/
def Out.quiet : Out → Bool
  | .drop _ _ | .cancel _ _ | .aborted _ | .discard | .orphan _ _ | .unknown _ | .refused => true
  | _ => false

end Asl.FanProto
