/-
L0 — JSON values as the engine sees them after `json.loads`.

Strings are `List Char` (proofs are about character lists; the driver converts).
Numbers are unbounded integers: the generators of the correspondence check use
integers only (floats are never compared, DESIGN §2.3b).  Objects are association
lists in insertion order (Python `dict` order); `objGet` returns the first match,
`objSet` replaces the first match or appends — exactly `d[k] = v` on a dict whose
keys are unique.
-/
namespace Asl

abbrev Str := List Char

inductive Json where
  | null
  | bool (b : Bool)
  | num (n : Int)
  | str (s : Str)
  | arr (xs : List Json)
  | obj (kvs : List (Str × Json))
  deriving Repr, Inhabited

namespace Json

mutual
def decEq : (a b : Json) → Decidable (a = b)
  | .null, .null => isTrue rfl
  | .bool a, .bool b =>
    if h : a = b then isTrue (by rw [h]) else isFalse (by intro h'; cases h'; exact h rfl)
  | .num a, .num b =>
    if h : a = b then isTrue (by rw [h]) else isFalse (by intro h'; cases h'; exact h rfl)
  | .str a, .str b =>
    if h : a = b then isTrue (by rw [h]) else isFalse (by intro h'; cases h'; exact h rfl)
  | .arr a, .arr b => match decEqL a b with
    | isTrue h => isTrue (by rw [h])
    | isFalse h => isFalse (by intro h'; cases h'; exact h rfl)
  | .obj a, .obj b => match decEqM a b with
    | isTrue h => isTrue (by rw [h])
    | isFalse h => isFalse (by intro h'; cases h'; exact h rfl)
  | .null, .bool _ | .null, .num _ | .null, .str _ | .null, .arr _ | .null, .obj _
  | .bool _, .null | .bool _, .num _ | .bool _, .str _ | .bool _, .arr _ | .bool _, .obj _
  | .num _, .null | .num _, .bool _ | .num _, .str _ | .num _, .arr _ | .num _, .obj _
  | .str _, .null | .str _, .bool _ | .str _, .num _ | .str _, .arr _ | .str _, .obj _
  | .arr _, .null | .arr _, .bool _ | .arr _, .num _ | .arr _, .str _ | .arr _, .obj _
  | .obj _, .null | .obj _, .bool _ | .obj _, .num _ | .obj _, .str _ | .obj _, .arr _ =>
    isFalse (by intro h; cases h)
def decEqL : (a b : List Json) → Decidable (a = b)
  | [], [] => isTrue rfl
  | [], _ :: _ => isFalse (by intro h; cases h)
  | _ :: _, [] => isFalse (by intro h; cases h)
  | x :: xs, y :: ys => match decEq x y, decEqL xs ys with
    | isTrue h1, isTrue h2 => isTrue (by rw [h1, h2])
    | isFalse h1, _ => isFalse (by intro h; cases h; exact h1 rfl)
    | _, isFalse h2 => isFalse (by intro h; cases h; exact h2 rfl)
def decEqM : (a b : List (Str × Json)) → Decidable (a = b)
  | [], [] => isTrue rfl
  | [], _ :: _ => isFalse (by intro h; cases h)
  | _ :: _, [] => isFalse (by intro h; cases h)
  | (k, x) :: xs, (l, y) :: ys =>
    if hk : k = l then
      match decEq x y, decEqM xs ys with
      | isTrue h1, isTrue h2 => isTrue (by rw [hk, h1, h2])
      | isFalse h1, _ => isFalse (by intro h; cases h; exact h1 rfl)
      | _, isFalse h2 => isFalse (by intro h; cases h; exact h2 rfl)
    else isFalse (by intro h; cases h; exact hk rfl)
end

instance : DecidableEq Json := decEq

mutual
/-- number of nodes; the fuel measure of the printers / parsers -/
def size : Json → Nat
  | .arr xs => 1 + sizeL xs
  | .obj kvs => 1 + sizeM kvs
  | _ => 1
def sizeL : List Json → Nat
  | [] => 0
  | x :: xs => x.size + sizeL xs
def sizeM : List (Str × Json) → Nat
  | [] => 0
  | (_, v) :: kvs => v.size + sizeM kvs
end

/-- Python truthiness of a decoded JSON value -/
def truthy : Json → Bool
  | .null => false
  | .bool b => b
  | .num n => n != 0
  | .str s => !s.isEmpty
  | .arr xs => !xs.isEmpty
  | .obj kvs => !kvs.isEmpty

end Json

/-- `d.get(k)` — first match -/
def objGet : List (Str × Json) → Str → Option Json
  | [], _ => none
  | (k', v) :: rest, k => if k' = k then some v else objGet rest k

/-- `d[k] = v` — replace in place or append at the end (dict order) -/
def objSet : List (Str × Json) → Str → Json → List (Str × Json)
  | [], k, v => [(k, v)]
  | (k', v') :: rest, k, v => if k' = k then (k', v) :: rest else (k', v') :: objSet rest k v

/-- `del d[k]` (first match) -/
def objDel : List (Str × Json) → Str → List (Str × Json)
  | [], _ => []
  | (k', v') :: rest, k => if k' = k then rest else (k', v') :: objDel rest k

def objHas (kvs : List (Str × Json)) (k : Str) : Bool := (objGet kvs k).isSome

def Json.get (j : Json) (k : String) : Option Json :=
  match j with
  | .obj kvs => objGet kvs k.toList
  | _ => none

end Asl
