/-
L1 — RFC 3339 timestamps: record, printer, parser over `List Char`, and the instant a
timestamp denotes (microseconds since 1970-01-01T00:00:00Z, via days-from-civil).

The grammar is the strict RFC 3339 `date-time` with upper-case `T` / `Z`:
`YYYY-MM-DDTHH:MM:SS[.f{1,6}](Z|+HH:MM|-HH:MM)`.  Where RFC 3339 and the code differ on
what is *legal* the model takes the intersection (the property speaks only about legal
notations): years 0001…9999 (Python's `datetime` range), at most six fraction digits
(microsecond resolution of the instants compared), seconds ≤ 59 (no leap second).
Everything else is rejected (`none`), never defaulted.
-/
import AslModel.Json
namespace Asl

structure Ts where
  year : Nat
  month : Nat
  day : Nat
  hour : Nat
  minute : Nat
  second : Nat
  /-- fraction digits as written, most significant first; `[]` = no fraction part -/
  frac : List Nat
  /-- minutes east of UTC -/
  off : Int
  /-- written in the `Z` form (then `off = 0`) -/
  zulu : Bool
  deriving Repr, DecidableEq, Inhabited

def isLeap (y : Nat) : Bool := (y % 4 == 0 && y % 100 != 0) || y % 400 == 0

def daysInMonth (y m : Nat) : Nat :=
  if m = 2 then (if isLeap y then 29 else 28)
  else if m = 4 || m = 6 || m = 9 || m = 11 then 30
  else 31

def allLt10 : List Nat → Bool
  | [] => true
  | d :: ds => decide (d < 10) && allLt10 ds

/-- the records the grammar can denote -/
def Ts.ok (t : Ts) : Bool :=
  decide (1 ≤ t.year) && decide (t.year ≤ 9999) &&
  decide (1 ≤ t.month) && decide (t.month ≤ 12) &&
  decide (1 ≤ t.day) && decide (t.day ≤ daysInMonth t.year t.month) &&
  decide (t.hour ≤ 23) && decide (t.minute ≤ 59) && decide (t.second ≤ 59) &&
  decide (t.frac.length ≤ 6) && allLt10 t.frac &&
  decide (-1439 ≤ t.off) && decide (t.off ≤ 1439) &&
  (!t.zulu || decide (t.off = 0))

/-! ### printer -/

def digitChar (n : Nat) : Char := Char.ofNat (48 + n)

def pad2 (n : Nat) : Str := [digitChar (n / 10), digitChar (n % 10)]

def pad4 (n : Nat) : Str :=
  [digitChar (n / 1000), digitChar (n / 100 % 10), digitChar (n / 10 % 10), digitChar (n % 10)]

def printFrac : List Nat → Str
  | [] => []
  | ds => '.' :: ds.map digitChar

def printOff (zulu : Bool) (off : Int) : Str :=
  if zulu then ['Z']
  else
    (if off < 0 then '-' else '+') :: (pad2 (off.natAbs / 60) ++ ':' :: pad2 (off.natAbs % 60))

def printTs (t : Ts) : Str :=
  pad4 t.year ++ '-' :: (pad2 t.month ++ '-' :: (pad2 t.day ++ 'T' :: (pad2 t.hour ++ ':' ::
    (pad2 t.minute ++ ':' :: (pad2 t.second ++ (printFrac t.frac ++ printOff t.zulu t.off))))))

/-! ### parser -/

def digitVal (c : Char) : Option Nat :=
  if c.isDigit then some (c.toNat - 48) else none

/-- two digits -/
def take2 : Str → Option (Nat × Str)
  | a :: b :: rest =>
    match digitVal a, digitVal b with
    | some x, some y => some (x * 10 + y, rest)
    | _, _ => none
  | _ => none

/-- four digits -/
def take4 : Str → Option (Nat × Str)
  | a :: b :: c :: d :: rest =>
    match digitVal a, digitVal b, digitVal c, digitVal d with
    | some x, some y, some z, some w => some (x * 1000 + y * 100 + z * 10 + w, rest)
    | _, _, _, _ => none
  | _ => none

/-- the next character must be `c` -/
def expect (c : Char) : Str → Option Str
  | [] => none
  | d :: rest => if d = c then some rest else none

/-- a maximal run of digits -/
def takeDigitsN : Str → List Nat × Str
  | [] => ([], [])
  | c :: cs =>
    match digitVal c with
    | some d => let (ds, rest) := takeDigitsN cs; (d :: ds, rest)
    | none => ([], c :: cs)

/-- optional `.digits` (1 to 6 of them) -/
def parseFrac : Str → Option (List Nat × Str)
  | [] => some ([], [])
  | c :: cs =>
    if c = '.' then
      match takeDigitsN cs with
      | ([], _) => none
      | (ds, rest) => if ds.length ≤ 6 then some (ds, rest) else none
    else some ([], c :: cs)

/-- `Z` or a numeric offset, up to the end of the text: `(zulu, off)` -/
def parseOff : Str → Option (Bool × Int)
  | [] => none
  | c :: cs =>
    if c = 'Z' then (if cs = [] then some (true, 0) else none)
    else if c = '+' ∨ c = '-' then
      match take2 cs with
      | none => none
      | some (hh, r1) =>
        match expect ':' r1 with
        | none => none
        | some r2 =>
          match take2 r2 with
          | none => none
          | some (mm, r3) =>
            if r3 = [] ∧ hh ≤ 23 ∧ mm ≤ 59 then
              some (false, if c = '-' then -((hh * 60 + mm : Nat) : Int) else ((hh * 60 + mm : Nat) : Int))
            else none
    else none

def parseTs (s : Str) : Option Ts := do
  let (y, r) ← take4 s
  let r ← expect '-' r
  let (mo, r) ← take2 r
  let r ← expect '-' r
  let (d, r) ← take2 r
  let r ← expect 'T' r
  let (h, r) ← take2 r
  let r ← expect ':' r
  let (mi, r) ← take2 r
  let r ← expect ':' r
  let (sec, r) ← take2 r
  let (fr, r) ← parseFrac r
  let (z, off) ← parseOff r
  let t : Ts := { year := y, month := mo, day := d, hour := h, minute := mi, second := sec,
                  frac := fr, off := off, zulu := z }
  if t.ok then some t else none

/-! ### the instant -/

/-- days since 1970-01-01 of a proleptic-Gregorian civil date (H. Hinnant's algorithm) -/
def daysFromCivil (y m d : Nat) : Int :=
  let y' : Int := if m ≤ 2 then (y : Int) - 1 else (y : Int)
  let era : Int := y' / 400
  let yoe : Int := y' - era * 400
  let mp : Int := if m ≤ 2 then (m : Int) + 9 else (m : Int) - 3
  let doy : Int := (153 * mp + 2) / 5 + (d : Int) - 1
  let doe : Int := yoe * 365 + yoe / 4 - yoe / 100 + doy
  era * 146097 + doe - 719468

def digitsValue : List Nat → Nat → Nat
  | [], acc => acc
  | d :: ds, acc => digitsValue ds (acc * 10 + d)

/-- microseconds denoted by the fraction digits -/
def fracMicros (ds : List Nat) : Nat := digitsValue ds 0 * 10 ^ (6 - ds.length)

/-- microseconds since the epoch of the wall-clock fields read as UTC -/
def Ts.localMicros (t : Ts) : Int :=
  ((daysFromCivil t.year t.month t.day * 86400 + (t.hour : Int) * 3600 + (t.minute : Int) * 60
    + (t.second : Int)) * 1000000) + (fracMicros t.frac : Int)

/-- the instant the timestamp denotes: microseconds since 1970-01-01T00:00:00Z -/
def Ts.instant (t : Ts) : Int := t.localMicros - 60000000 * t.off

end Asl
