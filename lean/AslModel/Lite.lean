/-
Small stand-ins for the payload-template and Choice layers, used by the interpreter's driver
until the full layers (Template.lean / Choice.lean) are wired in: path-valued `.$` members
only, and a handful of comparison operators.  Cases needing more are refused (`unsupported`).
-/
import AslModel.Path
import AslModel.Retry
namespace Asl.Lite
open Asl

def endsDollar (k : Str) : Option Str :=
  match k.reverse with
  | '$' :: '.' :: r => some r.reverse
  | _ => none

mutual
def tmpl (input ctx : Json) : Json → Except PErr Json
  | .obj kvs => (tmplM input ctx kvs).map (fun r => .obj (dedupMembers r))
  | .arr xs => (tmplL input ctx xs).map .arr
  | j => .ok j
def tmplL (input ctx : Json) : List Json → Except PErr (List Json)
  | [] => .ok []
  | x :: xs => match tmpl input ctx x, tmplL input ctx xs with
    | .ok v, .ok vs => .ok (v :: vs)
    | .error e, _ => .error e
    | _, .error e => .error e
def tmplM (input ctx : Json) : List (Str × Json) → Except PErr (List (Str × Json))
  | [] => .ok []
  | (k, v) :: kvs =>
    let here : Except PErr (Str × Json) :=
      match v with
      | .obj _ => (tmpl input ctx v).map (fun r => (k, r))
      | .arr _ => (tmpl input ctx v).map (fun r => (k, r))
      | .str p =>
        match endsDollar k with
        | some k' => (applyPath input ctx (some p)).map (fun r => (k', r))
        | none => .ok (k, v)
      | _ => .ok (k, v)
    match here, tmplM input ctx kvs with
    | .ok (k', r), .ok rest => .ok ((k', r) :: rest)
    | .error e, _ => .error e
    | _, .error e => .error e
end

mutual
/-- does the template stay inside the supported fragment (only `$…` paths in `.$` members)? -/
def tmplSupported : Json → Bool
  | .obj kvs => tmplSupportedM kvs
  | .arr xs => tmplSupportedL xs
  | .str s => (endsDollar s).isNone
  | _ => true
def tmplSupportedL : List Json → Bool
  | [] => true
  | x :: xs => tmplSupported x && tmplSupportedL xs
def tmplSupportedM : List (Str × Json) → Bool
  | [] => true
  | (k, v) :: kvs =>
    (match v with
     | .obj _ => (endsDollar k).isNone && tmplSupported v
     | .arr _ => (endsDollar k).isNone && tmplSupported v
     | .str p => (match endsDollar k with
        | some _ => (match p with | '$' :: _ :: _ => true | _ => false)
        | none => true)
     | _ => (endsDollar k).isNone) && tmplSupportedM kvs
end

def getVar (input ctx : Json) (rule : Json) : Option Json :=
  match rule.get "Variable" with
  | some (.str p) => match applyPath input ctx (some p) with
    | .ok v => some v
    | .error _ => none
  | _ => none

mutual
/-- `some b`: the rule's Boolean value; `none`: outside the supported operators -/
def evalRule (input ctx : Json) : Nat → Json → Option Bool
  | 0, _ => none
  | fuel + 1, rule =>
    match rule.get "And", rule.get "Or", rule.get "Not" with
    | some (.arr rs), _, _ => evalAll input ctx fuel rs
    | _, some (.arr rs), _ => evalAny input ctx fuel rs
    | _, _, some r => (evalRule input ctx fuel r).map (!·)
    | _, _, _ =>
      let v := getVar input ctx rule
      match rule.get "StringEquals", rule.get "NumericEquals", rule.get "NumericLessThan",
            rule.get "NumericGreaterThan", rule.get "BooleanEquals", rule.get "IsPresent" with
      | some (.str c), _, _, _, _, _ => some (match v with | some (.str s) => s = c | _ => false)
      | _, some (.num c), _, _, _, _ => some (match v with | some (.num n) => n = c | _ => false)
      | _, _, some (.num c), _, _, _ => some (match v with | some (.num n) => n < c | _ => false)
      | _, _, _, some (.num c), _, _ => some (match v with | some (.num n) => n > c | _ => false)
      | _, _, _, _, some (.bool c), _ => some (match v with | some (.bool b) => b = c | _ => false)
      | _, _, _, _, _, some (.bool c) => some (v.isSome = c)
      | _, _, _, _, _, _ => none
def evalAll (input ctx : Json) : Nat → List Json → Option Bool
  | 0, _ => none
  | _ + 1, [] => some true
  | fuel + 1, r :: rs => match evalRule input ctx fuel r, evalAll input ctx fuel rs with
    | some a, some b => some (a && b)
    | _, _ => none
def evalAny (input ctx : Json) : Nat → List Json → Option Bool
  | 0, _ => none
  | _ + 1, [] => some false
  | fuel + 1, r :: rs => match evalRule input ctx fuel r, evalAny input ctx fuel rs with
    | some a, some b => some (a || b)
    | _, _ => none
end

/-- first rule (array order) that holds → its Next -/
def choose (state input _raw ctx : Json) : Option Str :=
  let rec go : List Json → Option Str
    | [] => none
    | r :: rs => match evalRule input ctx 50 r with
      | some true => (match r.get "Next" with | some (.str n) => some n | _ => go rs)
      | _ => go rs
  go (listOf (state.get "Choices"))

mutual
/-- every payload template / Choice rule in the definition is inside the supported fragment -/
def machineSupported : Nat → Json → Bool
  | 0, _ => false
  | fuel + 1, .obj kvs => membersSupported fuel kvs
  | fuel + 1, .arr xs => listSupported fuel xs
  | _, _ => true
def listSupported : Nat → List Json → Bool
  | 0, _ => false
  | _ + 1, [] => true
  | fuel + 1, x :: xs => machineSupported fuel x && listSupported fuel xs
def membersSupported : Nat → List (Str × Json) → Bool
  | 0, _ => false
  | _ + 1, [] => true
  | fuel + 1, (k, v) :: kvs =>
    (if k = S "Parameters" || k = S "ResultSelector" || k = S "ItemSelector" then tmplSupported v
     else if k = S "Choices" then
       (match v with
        | .arr rs => rs.all (fun r => (evalRule (.obj []) (.obj []) 50 r).isSome)
        | _ => false)
     else if k = S "Result" then true
     else machineSupported fuel v) && membersSupported fuel kvs
end

end Asl.Lite
