/-
L6 — the stores of `asl_workflow_engine/store.py`.

* the specification: a mapping `Str → Option Json` (`Spec`) with set / delete / nested update /
  append;
* `memStep`   — `SimpleStore` (a Python dict with no-op `set_ttl`, `get_cached_view = get`);
* `jsonStep`  — `JSONStore`: one file image shared by the clients, one in-memory copy per client,
  write-through on whole-key set / delete, load on (re)open, unreadable file ⇒ empty;
* `rstep`     — `RedisDictStore` / `RedisListStore`: one server keyspace of *prefixed* keys holding
  hashes (`.obj`) or lists (`.arr`), a TTL table, and per client (= engine instance with its own
  connection) the LRU cache, the server's tracking table for that connection and the queue of
  invalidation messages sent but not yet delivered.  Delivery is its own step (`Op.deliver`).

Values are `Json`; the JSON (de)serialisation that pottery / `json.dump` perform is the identity
on these values (trusted, exercised by the correspondence check).  Python dicts / OrderedDicts /
the keyspace are association lists in insertion order.

Where the property is silent the model copies the code: reading an absent key from a Redis store
yields an *empty* dict / list (never `KeyError`), `del` of an absent Redis key is silent, a whole-key
`set` on Redis is `DEL` + `HSET`/`RPUSH` and therefore drops the key's TTL, `EXPIRE k 0` deletes.
`Quirks` are the recorded deviations of the code from the property (all off in the theorems).
-/
import AslModel.Json
namespace Asl.Store
open Asl

/-! ### association lists -/

def aGet {α : Type} : List (Str × α) → Str → Option α
  | [], _ => none
  | (k', v) :: r, k => if k' = k then some v else aGet r k

/-- `d[k] = v`: replace in place, else append (dict order) -/
def aSet {α : Type} : List (Str × α) → Str → α → List (Str × α)
  | [], k, v => [(k, v)]
  | (k', v') :: r, k, v => if k' = k then (k', v) :: r else (k', v') :: aSet r k v

/-- `del d[k]` -/
def aDel {α : Type} (s : List (Str × α)) (k : Str) : List (Str × α) :=
  s.filter (fun e => decide (e.1 ≠ k))

def aKeys {α : Type} (s : List (Str × α)) : List Str := s.map (fun e => e.1)

/-! ### specification: a mapping -/

abbrev Spec := Str → Option Json

def Spec.set (m : Spec) (k : Str) (v : Json) : Spec := fun k' => if k' = k then some v else m k'
def Spec.del (m : Spec) (k : Str) : Spec := fun k' => if k' = k then none else m k'

/-- recorded deviations of the code from the property (findings/C20.json); all `false` in theorems -/
structure Quirks where
  /-- C20-F1: a Redis store keeps no key for an empty dict / list value -/
  emptyAbsent : Bool := false
  /-- C20-F2: `JSONStore`: `store[k][f] = v` / `store[k].append(v)` change memory but not the file -/
  nestedMemOnly : Bool := false

def Quirks.none : Quirks := {}

inductive Op where
  | set (k : Str) (v : Json)
  | upd (k f : Str) (v : Json)       -- store[k][f] = v
  | app (k : Str) (v : Json)         -- store[k].append(v)
  | get (k : Str)                    -- store[k]
  | cget (k : Str)                   -- store.get_cached_view(k)
  | del (k : Str)
  | has (k : Str)
  | iter
  | len
  | ttl (k : Str) (n : Nat)          -- store.set_ttl(k, n)
  | gttl (k : Str)                   -- observation: remaining TTL of k's record
  | reopen                           -- the engine instance restarts
  | deliver                          -- one queued invalidation message reaches this client
  deriving Inhabited

inductive Out where
  | done
  | val (j : Json)
  | dflt                              -- the caller's default (`get_cached_view` of an absent key)
  | keyError
  | typeError
  | flag (b : Bool)
  | keys (ks : List Str)
  | count (n : Nat)
  | ttlv (t : Option (Option Nat))    -- none: no such key; some none: no TTL; some (some n)
  deriving Inhabited

/-- `d[f] = v` on a stored value -/
def nestedSet : Json → Str → Json → Option Json
  | .obj kvs, f, v => some (.obj (objSet kvs f v))
  | _, _, _ => none

/-- `l.append(v)` on a stored value -/
def nestedApp : Json → Json → Option Json
  | .arr xs, v => some (.arr (xs ++ [v]))
  | _, _ => none

/-- the mapping's transition.  `lenient`: an absent key reads as an empty container (Redis stores);
otherwise a nested operation on an absent key changes nothing (`KeyError`). -/
def specStep (lenient : Bool) (m : Spec) : Op → Spec
  | .set k v => m.set k v
  | .upd k f v =>
    match m k with
    | some d => match nestedSet d f v with
      | some d' => m.set k d'
      | none => m
    | none => if lenient then m.set k (.obj [(f, v)]) else m
  | .app k v =>
    match m k with
    | some d => match nestedApp d v with
      | some d' => m.set k d'
      | none => m
    | none => if lenient then m.set k (.arr [v]) else m
  | .del k => m.del k
  | _ => m

/-- what the mapping says an operation answers (reads of absent keys are left to each kind) -/
def specOut (m : Spec) : Op → Out → Prop
  | .get k, o => ∀ v, m k = some v → o = .val v
  | .has k, o => o = .flag (m k).isSome
  | .iter, o => ∃ ks, o = .keys ks ∧ ks.Nodup ∧ ∀ k, k ∈ ks ↔ (m k).isSome = true
  | .len, o => ∃ ks : List Str, o = .count ks.length ∧ ks.Nodup ∧ ∀ k, k ∈ ks ↔ (m k).isSome = true
  | _, _ => True

/-! ### SimpleStore -/

abbrev Mem := List (Str × Json)

def memNested (s : Mem) (k : Str) (f : Json → Option Json) : Mem × Out :=
  match aGet s k with
  | none => (s, .keyError)
  | some d => match f d with
    | some d' => (aSet s k d', .done)
    | none => (s, .typeError)

def memStep (s : Mem) : Op → Mem × Out
  | .set k v => (aSet s k v, .done)
  | .upd k f v => memNested s k (fun d => nestedSet d f v)
  | .app k v => memNested s k (fun d => nestedApp d v)
  | .get k => match aGet s k with
    | some v => (s, .val v)
    | none => (s, .keyError)
  | .cget k => match aGet s k with
    | some v => (s, .val v)
    | none => (s, .dflt)
  | .del k => if (aGet s k).isSome then (aDel s k, .done) else (s, .keyError)
  | .has k => (s, .flag (aGet s k).isSome)
  | .iter => (s, .keys (aKeys s))
  | .len => (s, .count s.length)
  | .ttl _ _ => (s, .done)
  | .gttl k => (s, .ttlv (if (aGet s k).isSome then some none else none))
  | .reopen => ([], .done)            -- process memory does not survive a restart
  | .deliver => (s, .done)

/-! ### JSONStore -/

inductive FileC where
  | missing                 -- no file / not openable
  | garbage                 -- not JSON text
  | doc (j : Json)          -- JSON text of j
  deriving Inhabited

/-- what `JSONStore.__init__` ends up with -/
def load : FileC → Mem
  | .doc (.obj kvs) => kvs
  | _ => []

structure JWorld where
  file : FileC
  mem : Nat → Mem

def jopen (f : FileC) : JWorld := { file := f, mem := fun _ => load f }

def setAt {α : Type} (f : Nat → α) (c : Nat) (x : α) : Nat → α := fun c' => if c' = c then x else f c'

def jsonStep (q : Quirks) (w : JWorld) (c : Nat) (op : Op) : JWorld × Out :=
  match op with
  | .reopen => ({ w with mem := setAt w.mem c (load w.file) }, .done)
  | .set _ _ | .del _ =>
    let r := memStep (w.mem c) op
    match r.2 with
    | .done => ({ file := .doc (.obj r.1), mem := setAt w.mem c r.1 }, .done)
    | o => (w, o)
  | .upd _ _ _ | .app _ _ =>
    let r := memStep (w.mem c) op
    match r.2 with
    | .done => ({ file := if q.nestedMemOnly then w.file else .doc (.obj r.1),
                  mem := setAt w.mem c r.1 }, .done)
    | o => (w, o)
  | _ => (w, (memStep (w.mem c) op).2)

/-! ### Redis stores -/

/-- the Redis key of store key `k` under namespace `p` -/
def pk (p k : Str) : Str := p ++ ':' :: k

/-- `_remove_prefix` -/
def rmPrefix (p fk : Str) : Str :=
  if (p ++ [':']).isPrefixOf fk then fk.drop (p.length + 1) else fk

structure Cfg where
  pre : Str                 -- namespace of the store
  isList : Bool             -- RedisListStore / RedisDictStore
  cap : Nat                 -- cache_size
  legacy : Bool             -- server older than 6.0.0: no tracking, cached view = plain read
  deriving Inhabited

structure Client where
  on : Bool                         -- tracking started (first `get_cached_view`)
  cache : List (Str × Json)         -- LRU, oldest first, keyed by store key
  tracked : List Str                -- Redis keys the server remembers for this connection
  pending : List Str                -- invalidation messages sent, not yet delivered (FIFO)
  deriving Inhabited

def Client.fresh : Client := { on := false, cache := [], tracked := [], pending := [] }

structure RWorld where
  srv : List (Str × Json)           -- keyspace: Redis key ↦ hash (.obj) / list (.arr)
  ttl : List (Str × Nat)
  cl : Nat → Client

def emptyOf (isList : Bool) : Json := if isList then .arr [] else .obj []

/-- what reading a Redis key through pottery yields -/
def view (isList : Bool) : Option Json → Json
  | some j => j
  | none => emptyOf isList

def okVal : Bool → Json → Bool
  | false, .obj _ => true
  | true, .arr _ => true
  | _, _ => false

def isEmptyVal : Json → Bool
  | .obj [] => true
  | .arr [] => true
  | _ => false

/-- the server invalidates `fk` for one connection: one message, key forgotten -/
def notify (fk : Str) (x : Client) : Client :=
  if fk ∈ x.tracked then
    { x with tracked := x.tracked.filter (fun t => decide (t ≠ fk)), pending := x.pending ++ [fk] }
  else x

/-- a key was modified: every tracking connection is notified -/
def touch (w : RWorld) (fk : Str) : RWorld := { w with cl := fun c => notify fk (w.cl c) }

/-- a read command names `fk` on this connection -/
def remember (fk : Str) (x : Client) : Client :=
  if x.on = true ∧ fk ∉ x.tracked then { x with tracked := fk :: x.tracked } else x

def srvDel (w : RWorld) (fk : Str) : RWorld :=
  if (aGet w.srv fk).isSome then
    touch { w with srv := aDel w.srv fk, ttl := aDel w.ttl fk } fk
  else w

/-- HSET / RPUSH result: the TTL of the key is kept -/
def srvPut (w : RWorld) (fk : Str) (v : Json) : RWorld :=
  touch { w with srv := aSet w.srv fk v } fk

def setCl (w : RWorld) (c : Nat) (x : Client) : RWorld := { w with cl := setAt w.cl c x }

/-- `scan(match = pre:*)`, prefixes stripped -/
def scanKeys (p : Str) (srv : List (Str × Json)) : List Str :=
  ((aKeys srv).filter (fun fk => (p ++ [':']).isPrefixOf fk)).map (rmPrefix p)

def lruInsert (cap : Nat) (cache : List (Str × Json)) (k : Str) (v : Json) : List (Str × Json) :=
  let c' := cache ++ [(k, v)]
  if c'.length > cap then c'.tail else c'

def rread (cfg : Cfg) (w : RWorld) (c : Nat) (k : Str) : RWorld × Out :=
  let fk := pk cfg.pre k
  (setCl w c (remember fk (w.cl c)), .val (view cfg.isList (aGet w.srv fk)))

def rstep (q : Quirks) (cfgs : Nat → Cfg) (w : RWorld) (c : Nat) (op : Op) : RWorld × Out :=
  let cfg := cfgs c
  let x := w.cl c
  match op with
  | .set k v =>
    if okVal cfg.isList v then
      let w1 := srvDel w (pk cfg.pre k)
      if q.emptyAbsent && isEmptyVal v then (w1, .done) else
      -- pottery's constructor checks EXISTS (a read on this connection) before it populates the key
      let w2 := setCl w1 c (remember (pk cfg.pre k) (w1.cl c))
      (srvPut w2 (pk cfg.pre k) v, .done)
    else (w, .typeError)
  | .upd k f v =>
    if cfg.isList then (w, .typeError) else
    match nestedSet (view false (aGet w.srv (pk cfg.pre k))) f v with
    | some d' => (srvPut w (pk cfg.pre k) d', .done)
    | none => (w, .typeError)
  | .app k v =>
    if !cfg.isList then (w, .typeError) else
    match nestedApp (view true (aGet w.srv (pk cfg.pre k))) v with
    | some d' => (srvPut w (pk cfg.pre k) d', .done)
    | none => (w, .typeError)
  | .get k => rread cfg w c k
  | .cget k =>
    if cfg.cap = 0 || cfg.legacy then rread cfg w c k else
    let x1 : Client := if x.on then x else { x with on := true, cache := [] }
    match aGet x1.cache k with
    | some v => (setCl w c { x1 with cache := aDel x1.cache k ++ [(k, v)] }, .val v)
    | none =>
      let v := view cfg.isList (aGet w.srv (pk cfg.pre k))
      let x2 := remember (pk cfg.pre k) x1
      (setCl w c { x2 with cache := lruInsert cfg.cap x2.cache k v }, .val v)
  | .del k => (srvDel w (pk cfg.pre k), .done)
  | .has k =>
    (setCl w c (remember (pk cfg.pre k) x), .flag (aGet w.srv (pk cfg.pre k)).isSome)
  | .iter => (w, .keys (scanKeys cfg.pre w.srv))
  | .len => (w, .count (scanKeys cfg.pre w.srv).length)
  | .ttl k n =>          -- answers with the TTL the record has afterwards (what the harness observes)
    if (aGet w.srv (pk cfg.pre k)).isSome then
      if n = 0 then (srvDel w (pk cfg.pre k), .ttlv none)
      else (touch { w with ttl := aSet w.ttl (pk cfg.pre k) n } (pk cfg.pre k), .ttlv (some (some n)))
    else (w, .ttlv none)
  | .gttl k =>
    (setCl w c (remember (pk cfg.pre k) x),
     .ttlv (if (aGet w.srv (pk cfg.pre k)).isSome then some (aGet w.ttl (pk cfg.pre k)) else none))
  | .reopen => (setCl w c Client.fresh, .done)
  | .deliver =>
    match x.pending with
    | [] => (w, .done)
    | fk :: rest =>
      (setCl w c { x with cache := aDel x.cache (rmPrefix cfg.pre fk), pending := rest }, .done)

/-- the mapping a store with namespace `p` presents -/
def rabs (w : RWorld) (p : Str) : Spec := fun k => aGet w.srv (pk p k)

/-- the operations through which the engine grows and reads what it has stored once a record exists: member
updates of the record (`status`, `output`, `stopDate`, …), appends to the history, plain and cached reads,
membership tests — everything but replacing or deleting a whole key and setting a TTL -/
def isGrow : Op → Bool
  | .upd _ _ _ => true
  | .app _ _ => true
  | .get _ => true
  | .cget _ => true
  | .has _ => true
  | _ => false

def ropen (srv : List (Str × Json)) (ttl : List (Str × Nat)) : RWorld :=
  { srv := srv, ttl := ttl, cl := fun _ => Client.fresh }

/-- run a schedule: each entry is (client, operation) -/
def rrun (q : Quirks) (cfgs : Nat → Cfg) (w : RWorld) : List (Nat × Op) → RWorld × List Out
  | [] => (w, [])
  | (c, op) :: rest =>
    let r := rstep q cfgs w c op
    let r2 := rrun q cfgs r.1 rest
    (r2.1, r.2 :: r2.2)

def jrun (q : Quirks) (w : JWorld) : List (Nat × Op) → JWorld × List Out
  | [] => (w, [])
  | (c, op) :: rest =>
    let r := jsonStep q w c op
    let r2 := jrun q r.1 rest
    (r2.1, r.2 :: r2.2)

def mrun (s : Mem) : List Op → Mem × List Out
  | [] => (s, [])
  | op :: rest =>
    let r := memStep s op
    let r2 := mrun r.1 rest
    (r2.1, r.2 :: r2.2)

end Asl.Store
