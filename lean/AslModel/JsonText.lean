/-
L0 — JSON text: the printer is Python's `json.dumps` default form
(`", "` / `": "` separators, `ensure_ascii=True`), the parser reads standard JSON
text with integer numbers.  Used by the line-protocol driver and by the intrinsic
functions `States.JsonToString` / `States.StringToJson`.
-/
import AslModel.Json
namespace Asl

def hexDigit (n : Nat) : Char :=
  if n < 10 then Char.ofNat (48 + n) else Char.ofNat (87 + n)

def hex4 (n : Nat) : Str :=
  [hexDigit (n / 4096 % 16), hexDigit (n / 256 % 16), hexDigit (n / 16 % 16), hexDigit (n % 16)]

/-- one character of a Python `json.dumps` string body (ensure_ascii) -/
def escChar (c : Char) : Str :=
  if c = '"' then ['\\', '"']
  else if c = '\\' then ['\\', '\\']
  else if c = '\n' then ['\\', 'n']
  else if c = '\r' then ['\\', 'r']
  else if c = '\t' then ['\\', 't']
  else if c.toNat = 8 then ['\\', 'b']
  else if c.toNat = 12 then ['\\', 'f']
  else if 32 ≤ c.toNat ∧ c.toNat ≤ 126 then [c]
  else if c.toNat < 65536 then '\\' :: 'u' :: hex4 c.toNat
  else
    let v := c.toNat - 65536
    ('\\' :: 'u' :: hex4 (55296 + v / 1024)) ++ ('\\' :: 'u' :: hex4 (56320 + v % 1024))

def escBody : Str → Str
  | [] => []
  | c :: cs => escChar c ++ escBody cs

def quote (s : Str) : Str := '"' :: (escBody s ++ ['"'])

def natDigits (n : Nat) : Str := (toString n).toList
def intText (n : Int) : Str := (toString n).toList

mutual
/-- `json.dumps(x)` -/
def render : Json → Str
  | .null => "null".toList
  | .bool true => "true".toList
  | .bool false => "false".toList
  | .num n => intText n
  | .str s => quote s
  | .arr xs => '[' :: (renderL xs ++ [']'])
  | .obj kvs => '{' :: (renderM kvs ++ ['}'])
def renderL : List Json → Str
  | [] => []
  | [x] => render x
  | x :: y :: rest => render x ++ (',' :: ' ' :: renderL (y :: rest))
def renderM : List (Str × Json) → Str
  | [] => []
  | [(k, v)] => quote k ++ (':' :: ' ' :: render v)
  | (k, v) :: y :: rest => quote k ++ (':' :: ' ' :: render v) ++ (',' :: ' ' :: renderM (y :: rest))
end

mutual
/-- compact form (`separators=(",", ":")`) — protocol lines -/
def renderC : Json → Str
  | .null => "null".toList
  | .bool true => "true".toList
  | .bool false => "false".toList
  | .num n => intText n
  | .str s => quote s
  | .arr xs => '[' :: (renderCL xs ++ [']'])
  | .obj kvs => '{' :: (renderCM kvs ++ ['}'])
def renderCL : List Json → Str
  | [] => []
  | [x] => renderC x
  | x :: y :: rest => renderC x ++ (',' :: renderCL (y :: rest))
def renderCM : List (Str × Json) → Str
  | [] => []
  | [(k, v)] => quote k ++ (':' :: renderC v)
  | (k, v) :: y :: rest => quote k ++ (':' :: renderC v) ++ (',' :: renderCM (y :: rest))
end

/-! ### parser -/

def isWs (c : Char) : Bool := c = ' ' || c = '\n' || c = '\r' || c = '\t'

def skipWs : Str → Str
  | [] => []
  | c :: cs => if isWs c then skipWs cs else c :: cs

def hexVal (c : Char) : Option Nat :=
  if '0' ≤ c ∧ c ≤ '9' then some (c.toNat - 48)
  else if 'a' ≤ c ∧ c ≤ 'f' then some (c.toNat - 87)
  else if 'A' ≤ c ∧ c ≤ 'F' then some (c.toNat - 55)
  else none

def hex4Val : Str → Option (Nat × Str)
  | a :: b :: c :: d :: rest =>
    match hexVal a, hexVal b, hexVal c, hexVal d with
    | some a, some b, some c, some d => some (a * 4096 + b * 256 + c * 16 + d, rest)
    | _, _, _, _ => none
  | _ => none

/-- string body after the opening quote; `acc` is reversed; fuel ≥ length + 1 -/
def parseStrBody : Nat → Str → Str → Option (Str × Str)
  | 0, _, _ => none
  | _ + 1, [], _ => none
  | fuel + 1, c :: rest, acc =>
    if c = '"' then some (acc.reverse, rest)
    else if c = '\\' then
      match rest with
      | [] => none
      | e :: rest1 =>
        if e = 'u' then
          match hex4Val rest1 with
          | none => none
          | some (n, rest2) =>
            if 55296 ≤ n ∧ n < 56320 then
              match rest2 with
              | '\\' :: 'u' :: rest3 =>
                match hex4Val rest3 with
                | some (m, rest4) =>
                  if 56320 ≤ m ∧ m < 57344 then
                    parseStrBody fuel rest4
                      (Char.ofNat (65536 + (n - 55296) * 1024 + (m - 56320)) :: acc)
                  else none
                | none => none
              | _ => none
            else parseStrBody fuel rest2 (Char.ofNat n :: acc)
        else if e = '"' then parseStrBody fuel rest1 ('"' :: acc)
        else if e = '\\' then parseStrBody fuel rest1 ('\\' :: acc)
        else if e = '/' then parseStrBody fuel rest1 ('/' :: acc)
        else if e = 'n' then parseStrBody fuel rest1 ('\n' :: acc)
        else if e = 'r' then parseStrBody fuel rest1 ('\r' :: acc)
        else if e = 't' then parseStrBody fuel rest1 ('\t' :: acc)
        else if e = 'b' then parseStrBody fuel rest1 (Char.ofNat 8 :: acc)
        else if e = 'f' then parseStrBody fuel rest1 (Char.ofNat 12 :: acc)
        else none
    else if c.toNat < 32 then none
    else parseStrBody fuel rest (c :: acc)

def parseDigits : Str → Nat → Nat × Str
  | [], n => (n, [])
  | c :: cs, n => if c.isDigit then parseDigits cs (n * 10 + (c.toNat - 48)) else (n, c :: cs)

def startsWith : Str → Str → Option Str
  | cs, [] => some cs
  | [], _ :: _ => none
  | c :: cs, p :: ps => if c = p then startsWith cs ps else none

/-- a number token: `-?digits`, refusing fractions / exponents (floats are outside the model) -/
def parseNum (cs : Str) : Option (Json × Str) :=
  let (neg, ds) := match cs with
    | '-' :: r => (true, r)
    | r => (false, r)
  match ds with
  | d :: _ =>
    if d.isDigit then
      let (n, rest) := parseDigits ds 0
      match rest with
      | '.' :: _ => none
      | 'e' :: _ => none
      | 'E' :: _ => none
      | _ => some (.num (if neg then -(n : Int) else (n : Int)), rest)
    else none
  | [] => none

mutual
def parseValue : Nat → Str → Option (Json × Str)
  | 0, _ => none
  | fuel + 1, cs =>
    match skipWs cs with
    | [] => none
    | c :: rest =>
      if c = '"' then
        match parseStrBody (rest.length + 1) rest [] with
        | some (s, r) => some (.str s, r)
        | none => none
      else if c = '[' then
        match skipWs rest with
        | ']' :: r => some (.arr [], r)
        | _ => match parseElems fuel rest with
          | some (xs, r) => some (.arr xs, r)
          | none => none
      else if c = '{' then
        match skipWs rest with
        | '}' :: r => some (.obj [], r)
        | _ => match parseMembers fuel rest with
          | some (kvs, r) => some (.obj kvs, r)
          | none => none
      else if c = 't' then (startsWith rest "rue".toList).map (fun r => (.bool true, r))
      else if c = 'f' then (startsWith rest "alse".toList).map (fun r => (.bool false, r))
      else if c = 'n' then (startsWith rest "ull".toList).map (fun r => (.null, r))
      else parseNum (c :: rest)
/-- elements after `[` (non-empty list), up to and including `]` -/
def parseElems : Nat → Str → Option (List Json × Str)
  | 0, _ => none
  | fuel + 1, cs =>
    match parseValue fuel cs with
    | none => none
    | some (v, r) =>
      match skipWs r with
      | ',' :: r' => match parseElems fuel r' with
        | some (vs, r'') => some (v :: vs, r'')
        | none => none
      | ']' :: r' => some ([v], r')
      | _ => none
def parseMembers : Nat → Str → Option (List (Str × Json) × Str)
  | 0, _ => none
  | fuel + 1, cs =>
    match skipWs cs with
    | '"' :: r0 =>
      match parseStrBody (r0.length + 1) r0 [] with
      | none => none
      | some (k, r1) =>
        match skipWs r1 with
        | ':' :: r2 =>
          match parseValue fuel r2 with
          | none => none
          | some (v, r3) =>
            match skipWs r3 with
            | ',' :: r4 => match parseMembers fuel r4 with
              | some (kvs, r5) => some ((k, v) :: kvs, r5)
              | none => none
            | '}' :: r4 => some ([(k, v)], r4)
            | _ => none
        | _ => none
    | _ => none
end

/-- Python `dict` semantics for duplicate member names: the last value wins, at the
position of the first occurrence. -/
def dedupMembers (kvs : List (Str × Json)) : List (Str × Json) :=
  kvs.foldl (fun acc (k, v) => objSet acc k v) []

mutual
def normalise : Json → Json
  | .arr xs => .arr (normaliseL xs)
  | .obj kvs => .obj (dedupMembers (normaliseM kvs))
  | j => j
def normaliseL : List Json → List Json
  | [] => []
  | x :: xs => normalise x :: normaliseL xs
def normaliseM : List (Str × Json) → List (Str × Json)
  | [] => []
  | (k, v) :: kvs => (k, normalise v) :: normaliseM kvs
end

/-- `json.loads(text)` for integer-only JSON: the whole text must be one value -/
def parseJson (cs : Str) : Option Json :=
  match parseValue (cs.length + 1) cs with
  | some (v, rest) => if skipWs rest = [] then some (normalise v) else none
  | none => none

mutual
/-- canonical form for comparison: object members sorted by key -/
def canon : Json → Json
  | .arr xs => .arr (canonL xs)
  | .obj kvs => .obj ((canonM kvs).mergeSort (fun a b => decide (a.1 ≤ b.1)))
  | j => j
def canonL : List Json → List Json
  | [] => []
  | x :: xs => canon x :: canonL xs
def canonM : List (Str × Json) → List (Str × Json)
  | [] => []
  | (k, v) :: kvs => (k, canon v) :: canonM kvs
end

end Asl
