/-
L4 — deadlines and timers.  Times are integers (milliseconds).  `TimerSt` is the timer table of one
engine instance: set / clear / the clock advancing; a timer fires when the clock reaches its
deadline unless it was cleared (cancelled) or replaced (superseded) before.
-/
import AslModel.Json
namespace Asl

/-- delay computed by the Wait / Task states: `(target - now)` clamped at 0 -/
def clampDelay (target now : Int) : Int := if target - now > 0 then target - now else 0

/-- the instant at which a timer armed at `now` for `target` fires -/
def fireAt (target now : Int) : Int := now + clampDelay target now

/-- the state deadline is cut by the execution deadline: `timeout = min(t1, t2)` -/
def effectiveDeadline (execDeadline stateDeadline : Int) : Int := min execDeadline stateDeadline

/-- does the execution deadline win (→ States.Timeout that nothing can intercept)? -/
def execTimeoutWins (execDeadline stateDeadline now : Int) : Bool :=
  decide (clampDelay execDeadline now < clampDelay stateDeadline now)

structure Timer where
  id : Nat
  deadline : Int
  deriving Repr, DecidableEq

structure TimerSt where
  now : Int := 0
  armed : List Timer := []
  fired : List (Nat × Int) := []      -- (id, instant at which it fired), oldest first
  deriving Repr

inductive TOp where
  | set (id : Nat) (deadline : Int)   -- arming an id again replaces (supersedes) the old timer
  | clear (id : Nat)
  | advance (t : Int)                 -- the clock moves to t (never backwards); due timers fire
  deriving Repr, DecidableEq

def TimerSt.step (s : TimerSt) : TOp → TimerSt
  | .set i d => { s with armed := { id := i, deadline := d } :: s.armed.filter (·.id != i) }
  | .clear i => { s with armed := s.armed.filter (·.id != i) }
  | .advance t =>
    let t' := max t s.now
    let due := s.armed.filter (fun x => decide (x.deadline ≤ t'))
    { now := t', armed := s.armed.filter (fun x => !decide (x.deadline ≤ t')),
      fired := s.fired ++ due.map (fun x => (x.id, max x.deadline s.now)) }

def TimerSt.run (ops : List TOp) : TimerSt := ops.foldl TimerSt.step {}

end Asl
