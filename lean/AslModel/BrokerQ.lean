/-
L4 — one durable queue with one consumer connection, and what a connection loss does: every
unacknowledged delivery goes back to the *front* of the queue, in delivery order, marked
redelivered.  Messages are identified by natural numbers.
-/
import AslModel.Ledger
namespace Asl

structure QMsg where
  id : Nat
  redelivered : Bool := false
  deriving Repr, DecidableEq

structure BQ where
  ready : List QMsg := []        -- head first
  unacked : List QMsg := []      -- oldest delivery first
  acked : List Nat := []
  deriving Repr

inductive BOp where
  | publish (id : Nat)
  | deliver                       -- the head of the queue is handed to the consumer
  | ack (id : Nat)
  | crash                         -- the consumer's connection is lost
  deriving Repr, DecidableEq

def BQ.step (q : BQ) : BOp → BQ
  | .publish i => { q with ready := q.ready ++ [{ id := i }] }
  | .deliver => match q.ready with
    | [] => q
    | m :: rest => { q with ready := rest, unacked := q.unacked ++ [m] }
  | .ack i =>
    if q.unacked.any (·.id == i) then
      { q with unacked := q.unacked.filter (·.id != i), acked := i :: q.acked }
    else q
  | .crash => { q with ready := q.unacked.map (fun m => { m with redelivered := true }) ++ q.ready, unacked := [] }

def BQ.run (ops : List BOp) : BQ := ops.foldl BQ.step {}

/-- all message ids the queue still holds or has seen acknowledged -/
def BQ.ids (q : BQ) : List Nat := q.ready.map (·.id) ++ q.unacked.map (·.id) ++ q.acked

/-- a handler step cut short after its first `k` broker operations -/
def cutStep (fs : List Fr) (k : Nat) : List Fr := fs.take k

end Asl
