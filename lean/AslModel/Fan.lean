/-
L4 — failure propagation of one Parallel / Map state (`asl_state_collect_results` error path,
`branch_has_terminated`, `check_pending_results`): the first failing branch fails the fan-out with
its error and cancels the unfinished siblings; whatever arrives from a sibling afterwards is inert.
-/
import AslModel.Join
namespace Asl

inductive FanIn where
  | done (i : Nat) (v : Json)       -- branch i finished with output v
  | fail (i : Nat) (e : Str)        -- branch i failed with error e
  deriving Repr, DecidableEq

inductive FanEff where
  | succeed (vs : List Json)        -- hand the result array to the fan-out state's success path
  | failWith (e : Str)              -- hand error e to the fan-out state's Retry / Catch
  | cancel (i : Nat)                -- cancel the pending task / wait of branch i
  deriving Repr, DecidableEq

structure Fan where
  slots : Slots
  over : Bool := false              -- the fan-out has completed or failed: everything later is inert
  effects : List FanEff := []       -- oldest first
  deriving Repr

def Fan.init (n : Nat) : Fan := { slots := Join.init n }

def pendingExcept (s : Slots) (i : Nat) : List Nat :=
  (List.range s.length).filter (fun j => j != i && (s[j]?).join.isNone)

def Fan.step (f : Fan) : FanIn → Fan
  | .done i v =>
    if f.over then f
    else
      let slots := Join.record f.slots i v
      match Join.result slots with
      | some vs => { slots := slots, over := true, effects := f.effects ++ [.succeed vs] }
      | none => { f with slots := slots }
  | .fail i e =>
    if f.over then f
    else { f with over := true,
                  effects := f.effects ++ (.failWith e :: (pendingExcept f.slots i).map .cancel) }

def Fan.run (n : Nat) (is : List FanIn) : Fan := is.foldl Fan.step (Fan.init n)

def isTerminalEff : FanEff → Bool
  | .succeed _ => true
  | .failWith _ => true
  | .cancel _ => false

end Asl
