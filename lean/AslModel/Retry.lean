/-
L2 — the error-handling policy of `handle_error` (state_engine.py): which errors are
unrecoverable, how `ErrorEquals` matches, the retrier scan with back-off, the catcher scan.
Where the property (C07) is silent the code is copied: `"States.TaskFailed"` in an
`ErrorEquals` list matches every error; `States.ALL` is a wildcard only when it stands
alone; one shared `RetryCount` per state visit.
-/
import AslModel.Json
namespace Asl

def S (s : String) : Str := s.toList

/-- errors no Retry / Catch may intercept -/
def unrecoverable (e : Str) : Bool :=
  e = S "States.Runtime" || e = S "States.ExecutionTimeout" || e = S "Task.Terminated" ||
  e = S "States.ExecutionHistoryLimitExceeded"

def strList : Json → List Str
  | .arr xs => xs.filterMap (fun j => match j with | .str s => some s | _ => none)
  | _ => []

/-- `error_type in error_equals or "States.TaskFailed" in error_equals or error_equals == ["States.ALL"]` -/
def errMatches (eq : List Str) (e : Str) : Bool :=
  eq.contains e || eq.contains (S "States.TaskFailed") || eq = [S "States.ALL"]

def natOf : Option Json → Nat → Nat
  | some (.num n), _ => n.toNat
  | _, d => d

def parseNatStr (s : Str) : Option Nat :=
  if s.isEmpty || !s.all Char.isDigit then none
  else some (s.foldl (fun n c => n * 10 + (c.toNat - 48)) 0)

/-- a number given as an integer or as the text `"num/den"` (how the harness passes the
dyadic decimals it uses for BackoffRate: floats are outside `Json`) -/
def ratOf : Option Json → Rat → Rat
  | some (.num n), _ => (n : Rat)
  | some (.str s), d =>
    match s.splitOn '/' with
    | [a, b] => match parseNatStr a, parseNatStr b with
      | some x, some y => if y = 0 then d else (x : Rat) / (y : Rat)
      | _, _ => d
    | _ => d
  | _, d => d

structure Retrier where
  errorEquals : List Str
  interval : Rat := 1
  maxAttempts : Nat := 3
  backoff : Rat := 2
  deriving Repr

structure Catcher where
  errorEquals : List Str
  next : Option Str
  resultPath : Option (Option Str)    -- none: member absent (default "$"); some none: JSON null
  deriving Repr

def retrierOf (j : Json) : Retrier :=
  match j with
  | .obj kvs =>
    let b := ratOf (objGet kvs (S "BackoffRate")) 2
    { errorEquals := strList ((objGet kvs (S "ErrorEquals")).getD .null)
      interval := ratOf (objGet kvs (S "IntervalSeconds")) 1
      maxAttempts := natOf (objGet kvs (S "MaxAttempts")) 3
      backoff := if b < 1 then 1 else b }
  | _ => { errorEquals := [] }

def optStrOf : Option Json → Option (Option Str)
  | none => none
  | some (.str s) => some (some s)
  | some _ => some none

def catcherOf (j : Json) : Catcher :=
  match j with
  | .obj kvs =>
    { errorEquals := strList ((objGet kvs (S "ErrorEquals")).getD .null)
      next := match objGet kvs (S "Next") with | some (.str s) => some s | _ => none
      resultPath := optStrOf (objGet kvs (S "ResultPath")) }
  | _ => { errorEquals := [], next := none, resultPath := none }

def listOf : Option Json → List Json
  | some (.arr xs) => xs
  | _ => []

/-- delay (seconds) before the retry that follows `retries` earlier ones -/
def retryDelay (r : Retrier) (retries : Nat) : Rat := r.interval * r.backoff ^ retries

inductive RetryScan where
  | noMatch                              -- no retrier's ErrorEquals matches
  | exhausted                            -- the first matching retrier has no attempts left
  | retry (delay : Rat) (count : Nat)    -- re-run after `delay` seconds; new RetryCount
  deriving Repr

/-- the scan stops at the first matching retrier whether or not it has attempts left -/
def scanRetriers : List Retrier → Str → Nat → RetryScan
  | [], _, _ => .noMatch
  | r :: rs, e, retries =>
    if errMatches r.errorEquals e then
      if retries < r.maxAttempts then .retry (retryDelay r retries) (retries + 1) else .exhausted
    else scanRetriers rs e retries

def scanCatchers : List Catcher → Str → Option Catcher
  | [], _ => none
  | c :: cs, e => if errMatches c.errorEquals e then some c else scanCatchers cs e

inductive Decision where
  | retry (delay : Rat) (count : Nat)
  | caught (c : Catcher)
  | uncaught
  deriving Repr

/-- the decision of `handle_error` for error `e` in a state with the given retriers /
catchers, at the given RetryCount -/
def decideError (rs : List Retrier) (cs : List Catcher) (e : Str) (retries : Nat) : Decision :=
  if unrecoverable e then .uncaught
  else match scanRetriers rs e retries with
    | .retry d c => .retry d c
    | _ => match scanCatchers cs e with
      | some c => .caught c
      | none => .uncaught

end Asl
