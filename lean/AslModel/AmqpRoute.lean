/-
L6 — the abstract routing of events between engine instances (`EventDispatcher.publish`, the three
consumers of `EventDispatcher.start*` / `TaskDispatcher.start*`).

Instances and executions are natural numbers.  An execution's *start event* is the event whose
`context.State.Name` is empty; every other event of it is a *later* event (state transitions, branch
events, retries, the continuation after a task reply / timer / child completion).  What the code does,
and the model copies:

* `publish(item, use_shared_queue)` of instance `i` sends to the shared queue when the flag is set and to
  `i`'s own queue otherwise (`route`);
* the REST front end and asynchronous child launches (`startExecution`) publish start events with the flag
  set; synchronous launches (`.sync`, `.sync:2`, `.waitForTaskToken`) and every later event are published
  with the flag clear;
* the shared queue may be consumed by every instance, the queue of `j` only by `j` (exclusive consumer —
  enforced by the broker, DESIGN §5 C19 *Partial*);
* an instance publishes a later event of execution `e` only while it holds a continuation of `e` in memory
  (the handler of one of `e`'s events, a pending request, a timer), i.e. after an event of `e` was delivered
  to it (`holds`).
-/
namespace Asl.AmqpRoute

inductive QName where
  | shared
  | inst (i : Nat)
  deriving Repr, DecidableEq

/-- `EventDispatcher.publish`: the subject selects the queue -/
def route (i : Nat) (useShared : Bool) : QName := if useShared then .shared else .inst i

/-- who may consume from a queue -/
def canConsume : QName → Nat → Prop
  | .shared, _ => True
  | .inst j, i => i = j

instance : ∀ q i, Decidable (canConsume q i)
  | .shared, _ => isTrue trivial
  | .inst j, i => inferInstanceAs (Decidable (i = j))

inductive ExecSt where
  | unused
  | startQueued (q : QName)       -- its start event is in queue q
  | owned (i : Nat)               -- instance i consumed its start event
  deriving Repr, DecidableEq

structure Net where
  ex : List (Nat × ExecSt) := []           -- newest binding first
  later : List (QName × Nat) := []         -- queued later events: (queue, execution)
  holds : List (Nat × Nat) := []           -- (instance, execution): an event of it was delivered there
  deriving Repr, DecidableEq

def lookup : List (Nat × ExecSt) → Nat → ExecSt
  | [], _ => .unused
  | (k, v) :: rest, e => if k = e then v else lookup rest e

def Net.st (s : Net) (e : Nat) : ExecSt := lookup s.ex e

/-- what an instance publishes -/
inductive Out where
  | later (e : Nat)                 -- `publish(event)` of a later event of `e`
  | childSync (c : Nat)             -- start event of a child, `use_shared_queue=False`
  | childAsync (c : Nat)            -- start event of a child, `use_shared_queue=True`
  deriving Repr, DecidableEq

/-- one publish of instance `i`; `none` when the engine could not do that here -/
def pub (i : Nat) (s : Net) : Out → Option Net
  | .later e => if (i, e) ∈ s.holds then some { s with later := s.later ++ [(route i false, e)] } else none
  | .childSync c => if s.st c = .unused then some { s with ex := (c, .startQueued (route i false)) :: s.ex } else none
  | .childAsync c => if s.st c = .unused then some { s with ex := (c, .startQueued (route i true)) :: s.ex } else none

def pubs (i : Nat) : Net → List Out → Option Net
  | s, [] => some s
  | s, o :: os => match pub i s o with
    | some s' => pubs i s' os
    | none => none

inductive Act where
  | submit (via e : Nat)                                -- StartExecution accepted by instance `via`
  | deliverStart (e i : Nat) (outs : List Out)          -- e's start event is delivered to i, which publishes outs
  | deliverLater (q : QName) (e i : Nat) (outs : List Out)
  | spontaneous (i : Nat) (outs : List Out)             -- a timer / reply / callback handler of i publishes
  deriving Repr, DecidableEq

def removeOne (x : QName × Nat) : List (QName × Nat) → List (QName × Nat)
  | [] => []
  | y :: ys => if y = x then ys else y :: removeOne x ys

/-- one step; `none` when the action is not enabled -/
def step (s : Net) : Act → Option Net
  | .submit via e =>
    if s.st e = .unused then some { s with ex := (e, .startQueued (route via true)) :: s.ex } else none
  | .deliverStart e i outs =>
    match s.st e with
    | .startQueued q =>
      if canConsume q i then
        pubs i { s with ex := (e, .owned i) :: s.ex, holds := (i, e) :: s.holds } outs
      else none
    | _ => none
  | .deliverLater q e i outs =>
    if (q, e) ∈ s.later ∧ canConsume q i then
      pubs i { s with later := removeOne (q, e) s.later, holds := (i, e) :: s.holds } outs
    else none
  | .spontaneous i outs => pubs i s outs

def run : Net → List Act → Option Net
  | s, [] => some s
  | s, a :: as => match step s a with
    | some s' => run s' as
    | none => none

/-- states reachable from the empty network -/
def Reachable (s : Net) : Prop := ∃ acts, run {} acts = some s

end Asl.AmqpRoute
