/-
L4 — the acknowledgement ledger of one engine connection, read off the broker's frame log:
deliveries (tagged), acknowledgements, publishes.  `Ledger.run` replays a log; `bad` is raised
by an acknowledgement of a tag that is not outstanding (never delivered, or already acked).
`stepOrdered` is the ordering rule of one handler step: nothing is published after the first
acknowledgement of an event delivery in that step.
-/
import AslModel.Json
namespace Asl

inductive Fr where
  | deliver (tag : Nat)          -- an event / reply delivery to this connection
  | ack (tag : Nat)
  | pub                          -- a successor event, an RPC request or a notification is handed to the broker
  | recw                         -- the terminal record is written
  deriving Repr, DecidableEq

structure Ledger where
  unacked : List Nat := []
  acked : List Nat := []
  bad : Bool := false
  deriving Repr

def Ledger.step (l : Ledger) : Fr → Ledger
  | .deliver t => { l with unacked := t :: l.unacked }
  | .ack t =>
    if l.unacked.contains t then { l with unacked := l.unacked.erase t, acked := t :: l.acked }
    else { l with bad := true }
  | .pub => l
  | .recw => l

def Ledger.run (fs : List Fr) : Ledger := fs.foldl Ledger.step {}

def isAck : Fr → Bool
  | .ack _ => true
  | _ => false

def isOut : Fr → Bool
  | .pub => true
  | .recw => true
  | _ => false

/-- one handler step is ordered when no publish / record write follows an acknowledgement -/
def stepOrdered : List Fr → Bool
  | [] => true
  | f :: fs => if isAck f then !(fs.any isOut) && stepOrdered fs else stepOrdered fs

end Asl
