/-
L4 — the execution history log (`update_execution_history`) and the lifecycle of the execution
record / status notifications.
-/
import AslModel.Json
import AslModel.Retry
namespace Asl

structure HEvent where
  id : Nat
  prev : Nat
  ts : Int              -- timestamp in ms
  type : Str
  name : Str            -- state name for StateEntered / StateExited events, else empty
  deriving Repr, DecidableEq

/-- `history.append({... "id": len+1, "previousEventId": len})` -/
def History.append (h : List HEvent) (ts : Int) (type name : Str) : List HEvent :=
  h ++ [{ id := h.length + 1, prev := h.length, ts := ts, type := type, name := name }]

/-- ids are 1..n in order with previousEventId = id − 1 -/
def numbered : List HEvent → Nat → Bool
  | [], _ => true
  | e :: es, k => e.id == k + 1 && e.prev == k && numbered es (k + 1)

def tsMonotone : List HEvent → Bool
  | [] => true
  | [_] => true
  | a :: b :: rest => decide (a.ts ≤ b.ts) && tsMonotone (b :: rest)

def isTerminalType (t : Str) : Bool := t = S "ExecutionSucceeded" || t = S "ExecutionFailed"

def endsWith (s suffix : Str) : Bool := suffix.isSuffixOf s

/-- nothing follows a terminal event, and there is at most one -/
def terminalLast : List HEvent → Bool
  | [] => true
  | e :: es => if isTerminalType e.type then es.isEmpty else terminalLast es

def startsWithStarted : List HEvent → Bool
  | [] => true
  | e :: _ => e.type = S "ExecutionStarted"

def countEntered (name : Str) (h : List HEvent) : Nat :=
  (h.filter (fun e => endsWith e.type (S "StateEntered") && e.name = name)).length
def countExited (name : Str) (h : List HEvent) : Nat :=
  (h.filter (fun e => endsWith e.type (S "StateExited") && e.name = name)).length

/-- a state is never exited more often than it was entered, in every prefix -/
def bracketsOK : List HEvent → List HEvent → Bool
  | _, [] => true
  | seen, e :: es =>
    let seen' := seen ++ [e]
    (if endsWith e.type (S "StateExited") then decide (countExited e.name seen' ≤ countEntered e.name seen') else true)
      && bracketsOK seen' es

/-- event types that record the failure of a Parallel / Map state, one of its iterations, or the
cutting short of a sibling -/
def isFanFailureType (t : Str) : Bool :=
  endsWith t (S "StateFailed") || endsWith t (S "IterationFailed") || endsWith t (S "Aborted")

def endsSucceeded (h : List HEvent) : Bool :=
  match h.getLast? with
  | some e => e.type = S "ExecutionSucceeded"
  | none => false

/-- in an execution that SUCCEEDED and in which no Parallel / Map state failed or was retried, no state
failed without being caught and none was cut short: every StateEntered has its StateExited -/
def countType (t : Str) (h : List HEvent) : Nat := (h.filter (fun e => e.type = t)).length

/-- a Parallel / Map state was re-run by its Retry (its failed attempt logs no `…StateFailed`): it
was started more often than it was entered -/
def fanRetried (h : List HEvent) : Bool :=
  decide (countType (S "ParallelStateStarted") h > countType (S "ParallelStateEntered") h) ||
  decide (countType (S "MapStateStarted") h > countType (S "MapStateEntered") h) ||
  -- (a nested fan-out entered but not yet started when the attempt failed compensates the counts above: any task
  -- failure or time-out in the history may have failed a fan-out attempt that its Retry then re-ran, cutting siblings short)
  h.any (fun e => endsWith e.type (S "Failed") || endsWith e.type (S "TimedOut"))

def balancedIfClean (h : List HEvent) : Bool :=
  if endsSucceeded h && !(h.any (fun e => isFanFailureType e.type)) && !fanRetried h then
    h.all (fun e => if endsWith e.type (S "StateEntered") then countEntered e.name h == countExited e.name h else true)
  else true

def WFHistory (h : List HEvent) : Bool :=
  numbered h 0 && tsMonotone h && terminalLast h && startsWithStarted h && bracketsOK [] h && balancedIfClean h

/-! ### the lifecycle automaton of one execution (record + notifications) -/

inductive Phase where
  | new | running | done (succeeded : Bool)
  deriving Repr, DecidableEq

inductive LInput where
  | start                  -- the start event is handled
  | finish (ok : Bool)     -- a terminal transition is attempted
  | other                  -- any other event, reply or timer of this execution
  deriving Repr, DecidableEq

structure Life where
  phase : Phase := .new
  notes : List Str := []           -- notifications published, oldest first
  deriving Repr

def statusName : Bool → Str
  | true => S "SUCCEEDED"
  | false => S "FAILED"

/-- the specification: one RUNNING, then at most one terminal notification; a terminal execution
ignores everything -/
def Life.step (l : Life) : LInput → Life
  | .start => match l.phase with
    | .new => { phase := .running, notes := l.notes ++ [S "RUNNING"] }
    | _ => l
  | .finish ok => match l.phase with
    | .running => { phase := .done ok, notes := l.notes ++ [statusName ok] }
    | _ => l
  | .other => l

def Life.run (is : List LInput) : Life := is.foldl Life.step {}

/-- what an observer may see of one execution: a prefix of [RUNNING, T] -/
def notesOK : List Str → Bool
  | [] => true
  | [a] => a = S "RUNNING"
  | [a, b] => a = S "RUNNING" && (b = S "SUCCEEDED" || b = S "FAILED")
  | _ => false

end Asl
