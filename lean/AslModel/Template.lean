/-
L2 — payload templates (`Parameters`, `ItemSelector`, `ResultSelector`):
`evaluate_payload_template(input, context, template)`.

Only an object member whose name ends in `.$` and whose value is not an array/object is
evaluated (path or intrinsic function) and renamed without the suffix; every other member
keeps its name and its value is walked (so scalars are copied verbatim at any depth).
-/
import AslModel.Intrinsic
namespace Asl

/-- one Boolean per *open* finding; the property theorems are about `Quirks.none` -/
structure Quirks where
  /-- C13-F1: a string *array element* ending in `.$` is evaluated too -/
  arrayElems : Bool := false
  deriving Repr, DecidableEq

def Quirks.none : Quirks := {}

/-- `k.endswith(".$")` -/
def endsDollar (k : Str) : Bool :=
  match k.reverse with
  | '$' :: '.' :: _ => true
  | _ => false

/-- `k[:-2]` -/
def stripDollar (k : Str) : Str := k.take (k.length - 2)

def isContainer : Json → Bool
  | .arr _ => true
  | .obj _ => true
  | _ => false

/-- the value of a `.$` member: `$` is the input, `$…` a path, anything else an intrinsic
call; a value that is not a string is ill-formed -/
def evalValue (o : Oracles) (input ctx : Json) : Json → Except PErr Json
  | .str s =>
    if s = ['$'] then .ok input
    else match s with
      | '$' :: _ => applyPath input ctx (some s)
      | _ => evalIntrinsicText o input ctx s
  | _ => .error .intrinsic

mutual
def walk (o : Oracles) (q : Quirks) (input ctx : Json) : Json → Except PErr Json
  | .arr xs =>
    match walkL o q input ctx xs with
    | .ok ys => .ok (.arr ys)
    | .error e => .error e
  | .obj kvs =>
    match walkM o q input ctx kvs with
    | .ok m => .ok (.obj m)
    | .error e => .error e
  | .str s =>
    if q.arrayElems && endsDollar s then evalValue o input ctx (.str (stripDollar s))
    else .ok (.str s)
  | j => .ok j
def walkL (o : Oracles) (q : Quirks) (input ctx : Json) : List Json → Except PErr (List Json)
  | [] => .ok []
  | x :: xs =>
    match walk o q input ctx x with
    | .error e => .error e
    | .ok y =>
      match walkL o q input ctx xs with
      | .ok ys => .ok (y :: ys)
      | .error e => .error e
def walkM (o : Oracles) (q : Quirks) (input ctx : Json) :
    List (Str × Json) → Except PErr (List (Str × Json))
  | [] => .ok []
  | (k, v) :: kvs =>
    match (if endsDollar k && !isContainer v then
            (evalValue o input ctx v).map (fun r => (stripDollar k, r))
           else if isContainer v then (walk o q input ctx v).map (fun r => (k, r))
           else .ok (k, v)) with
    | .error e => .error e
    | .ok m =>
      match walkM o q input ctx kvs with
      | .ok ms => .ok (m :: ms)
      | .error e => .error e
end

/-- `evaluate_payload_template`: a null or empty-string template selects the input.
(The members of the result are listed in template order; two members that end up with the
same name collapse as in a Python `dict` when the value is printed — `normalise`.) -/
def evalTemplate (o : Oracles) (q : Quirks) (input ctx t : Json) : Except PErr Json :=
  if t = .null ∨ t = .str [] then .ok input else walk o q input ctx t

end Asl
