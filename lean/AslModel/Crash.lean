/-
L4 — the crash / redelivery protocol of ONE execution (property C04), as a small-step model.

The execution is a *skeleton*: a sequence of state visits — a Task visit (request to a worker, reply; `rc` is the
RetryCount its event carries: the event of a retry sends its request from the back-off timer), a visit handled in
one go (Pass, Choice, Succeed …), a visit that goes on from a timer (Wait), a Task that runs a synchronous child
execution (`startExecution.sync`: the child is a skeleton of its own, its terminal notification answers the
parent's Task) — and Parallel / Map states whose branches are skeletons again (`mc` = MaxConcurrency, 0: all at
once).  The *outcome* of a visit is what follows it: the rest of the skeleton, or a failure (`fail`) that is handled
by the `lvl`-th enclosing Parallel / Map state (its Retry or Catch: `cont` follows) or by none (the execution fails).

The configuration has what survives a crash — the event queue and the reply queue of the broker (a message is
ready or delivered-and-unacknowledged; a crash makes every unacknowledged message ready again, marked
redelivered), the requests the workers got (a worker answers every request once), the Map batches that were
started — and the engine's volatile state, which a crash wipes: armed timers (the deferred handlers of Task, Wait,
Parallel and Map states), pending requests, retained orphan replies, the joins (filled slots, held events).

The rules are copied from state_engine.py (`asl_state_Task` / `…_delegate` / `on_response`,
`asl_state_collect_results`, `handle_terminal_state`, `handle_error`, `end_execution`) and task_dispatcher.py
(`execute_task`: a redelivered Task event registers its request without sending it; `handle_rpcmessage_response`:
a reply nobody waits for is retained and matched later by `handle_orphaned_responses`; `handle_sfn_response`: a
child execution that ends hands its result to the parent's pending request by a call).  Every deviation from the
crash-safe protocol sits behind a switch (`Quirks`); with all of them off the model is the protocol C04 describes:
it decides "already requested" / "batch already started" from what is durable (the requests the workers received,
the batches started — records an implementation would have to write together with the publication), never from
the `redelivered` flag or from its own memory.

A handler invocation is a list of broker operations (publish / ack) in the order the code performs
them; it can be cut short after its first `k` operations by a crash (`cut`).
-/
import AslModel.Json
namespace Asl.Crash

mutual
/-- the rest of a sequence of state visits -/
inductive Sk where
  | done
  /-- a Task visit; `rc`: the RetryCount its event carries (0: not a retry) -/
  | task (rc : Nat) (rest : Sk)
  | step (rest : Sk)
  | wait (rest : Sk)
  | par (mc : Nat) (branches : Br) (rest : Sk)
  /-- a Task that starts a synchronous child execution `sub` and waits for it to end -/
  | child (rc : Nat) (sub : Sk) (rest : Sk)
  /-- the visit before ends in an error its own state does not handle: the `lvl`-th enclosing Parallel / Map state
  (0: the innermost) retries or catches it and `cont` follows there; `none` (or no such state): the execution fails -/
  | fail (lvl : Option Nat) (cont : Sk)
  /-- a path the crash-free run did not take: nothing is known about it -/
  | opaque
  deriving Repr, DecidableEq
inductive Br where
  | nil
  | cons (b : Sk) (bs : Br)
  deriving Repr, DecidableEq
end

def Br.toList : Br → List Sk
  | .nil => []
  | .cons b bs => b :: bs.toList

structure Quirks where
  /-- C04-F1: the Task's request is sent from a deferred timer, after its event has been accepted, and a redelivered
  event is taken to have been requested already -/
  requestFromTimer : Bool := false
  /-- C04-F2: inside a fan-out a reply is acknowledged once handled; its result is only in the volatile join -/
  replyAckedBeforeJoin : Bool := false
  /-- C04-F4: a nested fan-out that ends its branch acknowledges its branch events; its result is only in the
  enclosing join's memory -/
  nestedJoinAcksEarly : Bool := false
  /-- C04-F7: a (redelivered) branch event that completes a batch of a Map with MaxConcurrency publishes the event
  that starts the next batch whether or not that batch was started before -/
  batchRelaunched : Bool := false
  /-- C04-F8: a synchronous child execution that ends hands its result to the parent's pending request by a call;
  when the parent's Task has not registered its request again nothing keeps the result -/
  childAnswerInProcess : Bool := false
  /-- C04-F9: that a fan-out attempt has failed (its failure was retried or caught) is only in the engine's memory: after a
  crash what is left of its branches is taken up again, and a late failure among them fails the fan-out state a second time -/
  attemptFailureForgotten : Bool := false
  deriving Repr, DecidableEq

def Quirks.none : Quirks := {}
/-- the engine as it is (the open findings) -/
def Quirks.engine : Quirks :=
  { requestFromTimer := true, replyAckedBeforeJoin := true, nestedJoinAcksEarly := true, batchRelaunched := true,
    childAnswerInProcess := true, attemptFailureForgotten := true }

/-- where a branch reports to: the join, its slot, the join's width, the branches (for later batches) and
what follows the fan-out state -/
structure Frame where
  jid : Nat
  idx : Nat
  mc : Nat
  branches : Br
  rest : Sk
  deriving Repr, DecidableEq

inductive EvKind where
  /-- run `todo` (its head is the state to visit); `start`: the execution's first event; `owner`: the Task event of
  the parent execution when this is an event of a synchronous child -/
  | visit (todo : Sk) (stack : List Frame) (start : Bool) (owner : Option Nat)
  /-- a Map state re-entered for its next batch, from iteration `from_` -/
  | reenter (frame : Frame) (from_ : Nat) (stack : List Frame) (owner : Option Nat)
  deriving Repr, DecidableEq

structure QEv where
  id : Nat
  kind : EvKind
  redelivered : Bool := false
  unacked : Bool := false
  deriving Repr, DecidableEq

structure QRp where
  corr : Nat
  redelivered : Bool := false
  unacked : Bool := false
  deriving Repr, DecidableEq

structure Join where
  jid : Nat
  filled : List Nat := []
  /-- (slot, event): the events held for the branches, in slot order (the order in which they are acknowledged) -/
  heldEv : List (Nat × Nat) := []
  heldRp : List Nat := []
  /-- the engine's record that the fan-out attempt is over (`"terminated"`): it has failed, or an event of one of its
  branches was dropped; what is left of its branches is dropped, what its branches still deliver is absorbed -/
  dead : Bool := false
  /-- the execution has ended and the engine has kept its records of the attempts (something was still outstanding): whatever
  event of the execution arrives now is dropped -/
  ended : Bool := false
  deriving Repr, DecidableEq

structure Cfg where
  evq : List QEv := []
  rpq : List QRp := []
  /-- correlation ids of the requests the workers received (child executions started), with multiplicity -/
  sent : List Nat := []
  running : Nat := 0
  /-- terminal notifications -/
  notes : Nat := 0
  /-- notifications of child executions -/
  cnotes : Nat := 0
  nextId : Nat := 0
  nextJ : Nat := 0
  /-- (join, first iteration) of the Map batches whose re-entry event was published -/
  batches : List (Nat × Nat) := []
  /-- the run has left the paths the skeleton describes -/
  diverged : Bool := false
  /-- terminal notifications of a failed execution -/
  failed : Nat := 0
  /-- the fan-out attempts on record as failed (crash-safe protocol: written together with the publication of what follows
  the failure) -/
  deadJ : List Nat := []
  -- volatile
  timers : List Nat := []
  pending : List Nat := []
  orphans : List Nat := []
  joins : List Join := []
  deriving Repr, DecidableEq

/-- a broker operation of the engine's connection -/
inductive Act where
  | pubEv (k : EvKind)
  | pubReq (corr : Nat)
  /-- the request of a synchronous child: its first event -/
  | pubChild (corr : Nat) (sub : Sk)
  /-- the answer of a child execution that has ended, as a message of the reply queue (crash-safe protocol) -/
  | pubAns (corr : Nat)
  | note (terminal : Bool)
  /-- the terminal notification of an execution that failed -/
  | fnote
  /-- what follows a failure that a fan-out state retries / catches, published together with the record that the attempts
  `dead` are over (crash-safe protocol) -/
  | pubDead (k : EvKind) (dead : List Nat)
  /-- a notification of a child execution -/
  | cnote (terminal : Bool)
  | ackEv (id : Nat)
  | ackRp (corr : Nat)
  deriving Repr, DecidableEq

def removeFirst (p : QRp → Bool) : List QRp → List QRp
  | [] => []
  | r :: rs => if p r then rs else r :: removeFirst p rs

def batchKey : EvKind → List (Nat × Nat)
  | .reenter f from_ _ _ => [(f.jid, from_)]
  | _ => []

def Cfg.act (c : Cfg) : Act → Cfg
  | .pubEv k => { c with evq := c.evq ++ [{ id := c.nextId, kind := k }], nextId := c.nextId + 1,
                         batches := c.batches ++ batchKey k }
  | .pubReq corr => { c with sent := c.sent ++ [corr], rpq := c.rpq ++ [{ corr := corr }] }
  | .pubChild corr sub => { c with sent := c.sent ++ [corr], nextId := c.nextId + 1,
                                   evq := c.evq ++ [{ id := c.nextId, kind := .visit sub [] true (some corr) }] }
  | .pubAns corr => { c with rpq := c.rpq ++ [{ corr := corr }] }
  | .note true => { c with notes := c.notes + 1 }
  | .fnote => { c with notes := c.notes + 1, failed := c.failed + 1 }
  | .pubDead k dead => { c with evq := c.evq ++ [{ id := c.nextId, kind := k }], nextId := c.nextId + 1,
                                batches := c.batches ++ batchKey k, deadJ := c.deadJ ++ dead }
  | .note false => { c with running := c.running + 1 }
  | .cnote _ => { c with cnotes := c.cnotes + 1 }
  | .ackEv id => { c with evq := c.evq.filter (fun m => !(m.id == id && m.unacked)) }
  | .ackRp corr => { c with rpq := removeFirst (fun r => r.corr == corr && r.unacked) c.rpq }

/-- the volatile part of a configuration -/
structure Vol where
  timers : List Nat
  pending : List Nat
  orphans : List Nat
  joins : List Join
  deriving Repr, DecidableEq

def Cfg.vol (c : Cfg) : Vol := ⟨c.timers, c.pending, c.orphans, c.joins⟩
def Cfg.withVol (c : Cfg) (v : Vol) : Cfg :=
  { c with timers := v.timers, pending := v.pending, orphans := v.orphans, joins := v.joins }

/-- the engine dies: its volatile state is gone; the broker makes every unacknowledged message ready again -/
def Cfg.crash (c : Cfg) : Cfg :=
  { c with timers := [], pending := [], orphans := [], joins := [],
           evq := c.evq.map (fun m => if m.unacked then { m with unacked := false, redelivered := true } else m),
           rpq := c.rpq.map (fun m => if m.unacked then { m with unacked := false, redelivered := true } else m) }

/-- a handler invocation: its broker operations in order, then its volatile state.  Cut short after `k`
operations by a crash. -/
def Cfg.handler (c : Cfg) (acts : List Act) (v : Vol) (cut : Option Nat) : Cfg :=
  match cut with
  | none => (acts.foldl Cfg.act c).withVol v
  | some k => ((acts.take k).foldl Cfg.act c).crash

def getJoin (js : List Join) (jid : Nat) : Join :=
  match js.find? (fun j => j.jid == jid) with
  | some j => j
  | none => { jid := jid }

def setJoin (js : List Join) (j : Join) : List Join :=
  j :: js.filter (fun x => !(x.jid == j.jid))

def dropJoin (js : List Join) (jid : Nat) : List Join := js.filter (fun x => !(x.jid == jid))

def insertNat (x : Nat) (xs : List Nat) : List Nat := if xs.contains x then xs else xs ++ [x]

/-- hold event `ev` for slot `idx`: kept in slot order -/
def insertHeld (idx ev : Nat) (xs : List (Nat × Nat)) : List (Nat × Nat) :=
  if xs.any (fun p => p.2 == ev) then xs
  else xs.filter (fun p => p.1 ≤ idx) ++ [(idx, ev)] ++ xs.filter (fun p => idx < p.1)

/-- the indices of the batch that starts at `from_` -/
def batchOf (mc width from_ : Nat) : List Nat :=
  (List.range width).filter (fun i => from_ ≤ i && (mc == 0 || i < from_ + mc))

def launch (f : Frame) (from_ : Nat) (stack : List Frame) (owner : Option Nat) : List Act :=
  let bs := f.branches.toList
  (batchOf f.mc bs.length from_).filterMap (fun i =>
    match bs[i]? with
    | some b => some (.pubEv (.visit b ({ f with idx := i } :: stack) false owner))
    | none => none)

def evStack : EvKind → List Frame
  | .visit _ s _ _ => s
  | .reenter _ _ s _ => s

def evOwner : EvKind → Option Nat
  | .visit _ _ _ o => o
  | .reenter _ _ _ o => o

def findEv (c : Cfg) (id : Nat) (unacked : Bool) : Option QEv :=
  c.evq.find? (fun m => m.id == id && m.unacked == unacked)

/-- enough for every chain of joins (and parents) completing one another -/
def fuelOf (c : Cfg) : Nat := (c.evq.map (fun m => (evStack m.kind).length + 1)).sum + 2

/-- (join, slot) of the branch an event belongs to -/
def evSlot (m : QEv) : Nat × Nat :=
  match evStack m.kind with
  | f :: _ => (f.jid, f.idx)
  | [] => (0, 0)

def slotLe (a b : QEv) : Bool :=
  (evSlot a).1 < (evSlot b).1 || ((evSlot a).1 == (evSlot b).1 && (evSlot a).2 ≤ (evSlot b).2)

def insertBySlot (m : QEv) : List QEv → List QEv
  | [] => [m]
  | x :: xs => if slotLe x m then x :: insertBySlot m xs else m :: x :: xs

/-! ### a fan-out attempt fails

What the engine knows of a fan-out attempt is the join: its slots, the events it holds for them (`ids`: the event of a
slot is registered when it is delivered), and whether the attempt is over (`dead`).  When a failure has been dealt with —
the Retry / Catch of an enclosing Parallel / Map state took it, or the execution ended — `check_pending_results` tidies up:
it cancels the Tasks and Waits of the attempts that are over (a cancellation reports back at once, as the error
Task.Terminated, and acknowledges its event) and acknowledges the events held for them; attempts nested in the branches
of a failed attempt are gone through in the same way.  What an event still on its way, or a nested state about to be
launched, finally delivers to an attempt that is over is dropped or absorbed. -/

/-- the fan-out attempts an event belongs to, innermost first -/
def evJids : EvKind → List Nat
  | .visit _ s _ _ => s.map (·.jid)
  | .reenter f _ s _ => f.jid :: s.map (·.jid)

/-- is the attempt on record as over: in the engine's memory, or — crash-safe protocol — durably -/
def deadJid (q : Quirks) (c : Cfg) (v : Vol) (j : Nat) : Bool :=
  v.joins.any (fun x => x.jid == j && x.dead) || (!q.attemptFailureForgotten && c.deadJ.contains j)

def markDead (js : List Join) (jids : List Nat) : List Join :=
  jids.foldl (fun acc j => setJoin acc { getJoin acc j with dead := true }) js

/-- an event whose state is neither a Parallel nor a Map state, inside a branch: it is registered for its slot when delivered -/
def plainVisit : EvKind → Bool
  | .visit (.par _ _ _) _ _ _ => false
  | .visit _ (_ :: _) _ _ => true
  | _ => false

def waitVisit : EvKind → Bool
  | .visit (.wait _) _ _ _ => true
  | _ => false

/-- `ids`: the delivered events the engine holds for the slots of attempt `jid`, in slot order -/
def registered (c : Cfg) (owner : Option Nat) (jid : Nat) : List QEv :=
  (c.evq.filter (fun m => m.unacked && plainVisit m.kind && evOwner m.kind == owner && (evSlot m).1 == jid)).foldl
    (fun acc m => insertBySlot m acc) []

/-- a Task that waits for its reply, or a Wait whose timer is armed: it can be cancelled -/
def cancellable (v : Vol) (m : QEv) : Bool :=
  v.pending.contains m.id || (waitVisit m.kind && v.timers.contains m.id)

def insertSorted (x : Nat) : List Nat → List Nat
  | [] => [x]
  | y :: ys => if x == y then y :: ys else if x < y then x :: y :: ys else y :: insertSorted x ys

/-- `check_pending_results` while the execution goes on: in the attempts that are over (in the order they were made) first
what can be cancelled is (each cancellation acknowledges its event), then the events held for them are acknowledged.
`excl`: events the running handler acknowledges itself. -/
def tidy (c : Cfg) (v : Vol) (owner : Option Nat) (excl : List Nat) : List Act × Vol :=
  let deadJs := v.joins.filter (·.dead)
  let deadIds := deadJs.map (·.jid)
  -- an attempt nested (at any depth) in a branch of one that is over makes no further progress either: it is gone through
  -- like the one that is over (the engine knows of it through the events it holds for it)
  let nested := (c.evq.filter (fun m => m.unacked && plainVisit m.kind && evOwner m.kind == owner &&
      ((evJids m.kind).drop 1).any (fun j => deadIds.contains j))).map (fun m => (evSlot m).1)
  let jids := (deadIds ++ nested).foldl (fun acc x => insertSorted x acc) []
  let regs := (jids.flatMap (registered c owner)).filter (fun m => !excl.contains m.id)
  let ids := ((regs.filter (cancellable v)) ++ (regs.filter (fun m => !cancellable v m))).map (·.id)
  -- (a nested attempt one of whose Tasks / Waits is cancelled is over from then on)
  let newlyDead := ((regs.filter (cancellable v)).map (fun m => (evSlot m).1)).filter (fun j => !deadIds.contains j)
  let v := { v with joins := markDead v.joins newlyDead.eraseDups }
  -- (crash-safe protocol: what the joins themselves still hold — events of nested joins, replies)
  let heldE := ((deadJs.flatMap (fun j => j.heldEv.map (·.2))).filter (fun e => !ids.contains e && !excl.contains e)).eraseDups
  let heldR := (deadJs.flatMap (·.heldRp)).eraseDups
  (ids.map Act.ackEv ++ heldE.map Act.ackEv ++ heldR.map Act.ackRp,
   { v with pending := v.pending.filter (fun p => !ids.contains p), timers := v.timers.filter (fun t => !ids.contains t),
            joins := v.joins.map (fun j => if j.dead then { j with heldEv := [], heldRp := [] } else j) })

/-- `check_pending_results` once the execution has ended: every attempt is gone through.  The code walks the joins in the
order they were made and their slots in order and cancels what waits; a cancellation reports back at once, and when it is the
first failure its join sees it first tidies up everything else (recursively) and acknowledges its own event afterwards.  So:
the events of the joins that had already failed (`failedJ`: those around the failing visit) and of later cancellations in
slot order, then the first-cancelled ones, last first.  Every attempt is then on record as over. -/
def tidyEnd (c : Cfg) (v : Vol) (owner : Option Nat) (excl : List Nat) (failedJ : List Nat) : List Act × Vol :=
  let mine := c.evq.filter (fun m => evOwner m.kind == owner)
  let all := (mine.filter (fun m => m.unacked && plainVisit m.kind && !excl.contains m.id)).foldl
    (fun acc m => insertBySlot m acc) []
  let r := all.foldl (fun (r : List Nat × List Nat × List Nat) m =>
    let (selfAck, listAck, failed) := r
    if cancellable v m && !failed.contains (evSlot m).1 then
      (m.id :: selfAck, listAck, failed ++ (evStack m.kind).map (·.jid))
    else (selfAck, listAck ++ [m.id], failed)) ([], [], failedJ ++ (v.joins.filter (·.dead)).map (·.jid))
  let ids := r.2.1 ++ r.1
  let jall := ((mine.flatMap (fun m => evJids m.kind)) ++ failedJ).eraseDups
  let mineJ := v.joins.filter (fun j => jall.contains j.jid)
  let heldE := ((mineJ.flatMap (fun j => j.heldEv.map (·.2))).filter (fun e => !ids.contains e && !excl.contains e)).eraseDups
  let heldR := (mineJ.flatMap (·.heldRp)).eraseDups
  -- the records are kept while something of a branch is still outstanding (an event on its way, a nested state about to be
  -- launched); otherwise they are deleted
  let outstanding := mine.any (fun m => !(evJids m.kind).isEmpty && !ids.contains m.id && !heldE.contains m.id && !excl.contains m.id)
  let kept : List Join := if outstanding then jall.map (fun j => ({ jid := j, dead := true, ended := true } : Join)) else []
  (ids.map Act.ackEv ++ heldE.map Act.ackEv ++ heldR.map Act.ackRp,
   { v with pending := v.pending.filter (fun p => !ids.contains p), timers := v.timers.filter (fun t => !ids.contains t),
            joins := v.joins.filter (fun j => !jall.contains j.jid) ++ kept })

/-- the visit of event `ev` is over and `rest` is its outcome; `rp`: the reply that completed it (a Task visit).
Returns the broker operations and the new volatile state.  `fuel` bounds the nesting of joins (and parent
executions) completing one another. -/
def advance (q : Quirks) (c : Cfg) :
    Nat → Nat → Sk → List Frame → Option Nat → Option Nat → Vol → List Act × Vol
  | 0, _, _, _, _, _, v => ([], v)
  | fuel + 1, ev, rest, stack, owner, rp, v =>
    let ackR : List Act := match rp with | some r => [.ackRp r] | none => []
    let js := v.joins
    match rest, stack with
    | .fail lvl cont, stack =>
      -- a Task / Wait handler acknowledges its own event when everything else is done; the event of any other failing state is
      -- registered for its slot and acknowledged with the events held for the attempt
      let selfAcked : Bool := match findEv c ev true with
        | some m => (match m.kind with
          | .visit (.step _) (_ :: _) _ _ => false
          | _ => true)
        | none => true
      let excl : List Nat := if selfAcked then [ev] else []
      let own (acts : List Act) : List Act := if acts.contains (.ackEv ev) then [] else [.ackEv ev]
      let jids := stack.map (·.jid)
      let handledAt : Option Nat := match lvl with
        | some k => if k < stack.length then some k else none
        | none => none
      -- the failure goes up from join to join; an attempt that is already over absorbs it
      let firstDead : Option Nat := (List.range stack.length).find? (fun i =>
        match jids[i]? with
        | some j => deadJid q c v j
        | none => false)
      let absorbedAt : Option Nat := match firstDead, handledAt with
        | some i, some k => if i ≤ k then some i else none
        | some i, none => some i
        | none, _ => none
      match absorbedAt, handledAt with
      | some i, _ =>
        let (acts, v') := tidy c { v with joins := markDead js (jids.take i) } owner excl
        (acts ++ own acts ++ ackR, v')
      | none, some k =>
        -- the `k`-th enclosing fan-out state retries / catches the failure: `cont` follows at its level; the attempts up to
        -- there are over
        let gone := jids.take (k + 1)
        let next : EvKind := .visit cont (stack.drop (k + 1)) false owner
        let pub : Act := if q.attemptFailureForgotten then .pubEv next else .pubDead next gone
        let (acts, v') := tidy c { v with joins := markDead js gone } owner excl
        ([pub] ++ acts ++ own acts ++ ackR, v')
      | none, none =>
        -- the execution fails
        let endActs : List Act × Vol :=
          match owner with
          | none => ([.fnote], v)
          | some p =>
            if q.childAnswerInProcess then
              if v.pending.contains p then
                match findEv c p true with
                | some m =>
                  match m.kind with
                  | .visit (.child _ _ prest) pstack _ powner =>
                    let (acts, v') := advance q c fuel p prest pstack powner none { v with pending := v.pending.erase p }
                    (acts ++ [.cnote true], v')
                  | _ => ([.cnote true], v)
                | none => ([.cnote true], v)
              else ([.cnote true], v)
            else ([.pubAns p, .cnote true], v)
        let (acts, v') := tidyEnd c endActs.2 owner excl jids
        (endActs.1 ++ acts ++ own acts ++ ackR, v')
    | .done, [] =>
      match owner with
      | none =>
        if js.any (·.dead) then
          -- the execution ends while attempts that failed earlier are on record: what is left of them is tidied up
          let (acts, v') := tidyEnd c v none [ev] []
          ([.note true] ++ acts ++ [.ackEv ev] ++ ackR, v')
        else if (q.attemptFailureForgotten || q.batchRelaunched) && !js.isEmpty then
          -- the engine has other attempts on record (what a crash left of an attempt that had failed, a second launch of
          -- a fan-out state …), none of them known to be over: the events held for them are let go, nothing is cancelled
          let ids := (((js.map (·.jid)).foldl (fun acc x => insertSorted x acc) []).flatMap (registered c none)).map (·.id)
          let ids := ids.filter (fun i => i != ev)
          ([.note true] ++ ids.map Act.ackEv ++ [.ackEv ev] ++ ackR,
           { v with joins := [], timers := v.timers.filter (fun t => !ids.contains t) })
        else ([.note true, .ackEv ev] ++ ackR, v)
      | some p =>
        -- a child execution ends: its result answers the parent's Task
        if q.childAnswerInProcess then
          if v.pending.contains p then
            match findEv c p true with
            | some m =>
              match m.kind with
              | .visit (.child _ _ prest) pstack _ powner =>
                let (acts, v') := advance q c fuel p prest pstack powner none { v with pending := v.pending.erase p }
                (acts ++ [.cnote true, .ackEv ev] ++ ackR, v')
              | _ => ([.cnote true, .ackEv ev] ++ ackR, v)
            | none => ([.cnote true, .ackEv ev] ++ ackR, v)
          else ([.cnote true, .ackEv ev] ++ ackR, v)
        else ([.pubAns p, .cnote true, .ackEv ev] ++ ackR, v)
    | .done, f :: outer =>
      if deadJid q c v f.jid then
        -- the attempt is over: the result is of no use; the event, registered for its slot, goes with what is held for the attempt
        let (acts, v') := tidy c v owner []
        (acts ++ (if acts.contains (.ackEv ev) then [] else [.ackEv ev]) ++ ackR, v')
      else
      -- the branch ends: its result goes into slot `f.idx` of the join; its event is held
      let j := getJoin js f.jid
      let j := { j with filled := insertNat f.idx j.filled, heldEv := insertHeld f.idx ev j.heldEv,
                        heldRp := match rp with
                          | some r => if q.replyAckedBeforeJoin then j.heldRp else insertNat r j.heldRp
                          | none => j.heldRp }
      let width := f.branches.toList.length
      let early : List Act := if q.replyAckedBeforeJoin then ackR else []
      if j.filled.length ≥ width then
        -- the join is complete: what follows the fan-out state goes on; the held events (and replies) are released
        let release : List Act := (j.heldEv.map (fun p => Act.ackEv p.2)) ++ (j.heldRp.map .ackRp)
        -- (the engine keeps the record of a join that has completed: whatever is delivered to it again completes it again)
        let js' := if q.batchRelaunched then setJoin js { j with heldEv := [], heldRp := [] } else dropJoin js f.jid
        match f.rest, outer with
        | .done, g :: outer' =>
          -- a nested fan-out ends its branch: its result goes into the enclosing join
          if q.nestedJoinAcksEarly then
            -- the enclosing join gets the result (it may complete, or finish a batch: that goes first) but holds
            -- nothing for this slot; then the nested join's events are released
            let (acts, v3) := advance q c fuel ev .done (g :: outer') owner none { v with joins := js' }
            let js3 := v3.joins.map (fun x => if x.jid == g.jid then { x with heldEv := x.heldEv.filter (fun p => p.2 != ev) } else x)
            (acts.filter (fun a => a != .ackEv ev) ++ release ++ early, { v3 with joins := js3 })
          else
            -- crash-safe: the nested join's held events and replies stay held, by the enclosing join
            let jo := getJoin js' g.jid
            let jo := { jo with heldEv := j.heldEv.foldl (fun acc p => insertHeld g.idx p.2 acc) jo.heldEv,
                                heldRp := j.heldRp.foldl (fun acc x => insertNat x acc) jo.heldRp }
            let (acts, v3) := advance q c fuel ev .done (g :: outer') owner none { v with joins := setJoin js' jo }
            (acts ++ early, v3)
        | .done, [] =>
          -- the fan-out was the execution's last state
          let (acts, v3) := advance q c fuel ev .done [] owner none { v with joins := js' }
          (acts.filter (fun a => a != .ackEv ev) ++ release ++ early, v3)
        | .fail lvl cont, outer' =>
          -- the join completes and the fan-out state then fails (its result is refused …)
          let (acts, v3) := advance q c fuel ev (.fail lvl cont) outer' owner none { v with joins := js' }
          (acts.filter (fun a => a != .ackEv ev) ++ release ++ early, v3)
        | rest', outer' => ([.pubEv (.visit rest' outer' false owner)] ++ release ++ early, { v with joins := js' })
      else
        let from_ := f.idx / f.mc * f.mc
        let batchDone : Bool := f.mc != 0 && (batchOf f.mc width from_).all (fun i => j.filled.contains i)
        let v' := { v with joins := setJoin js j }
        -- (crash-safe protocol: a batch is re-entered once — the durable record — and only when there is one: after a crash
        -- the LAST batch may be refilled before the earlier held events are redelivered)
        if batchDone && (q.batchRelaunched || (decide (from_ + f.mc < width) && !c.batches.contains (f.jid, from_ + f.mc))) then
          ([.pubEv (.reenter f (from_ + f.mc) outer owner)] ++ early, v')
        else (early, v')
    | rest, stack => ([.pubEv (.visit rest stack false owner), .ackEv ev] ++ ackR, v)

def markEv (c : Cfg) (id : Nat) : Cfg :=
  { c with evq := c.evq.map (fun m => if m.id == id && !m.unacked then { m with unacked := true } else m) }

/-- mark the first ready reply for `corr` as delivered -/
def markRpL : List QRp → Nat → List QRp
  | [], _ => []
  | r :: rs, corr => if r.corr == corr && !r.unacked then { r with unacked := true } :: rs else r :: markRpL rs corr

inductive Op where
  /-- the broker delivers event `id` -/
  | ev (id : Nat)
  /-- the deferred handler of event `id` runs (Task / Parallel / Map delegate, Wait timer) -/
  | tm (id : Nat)
  /-- the broker delivers the reply to request `corr` -/
  | rp (corr : Nat)
  /-- `handle_orphaned_responses` -/
  | tick
  /-- the engine dies between two handler invocations and is restarted -/
  | crash
  deriving Repr, DecidableEq

/-- the reply to `corr` is handled: the Task visit of event `corr` is over -/
def onReply (q : Quirks) (c : Cfg) (corr : Nat) (v : Vol) : Option (List Act × Vol) :=
  match findEv c corr true with
  | some m =>
    match m.kind with
    | .visit (.task _ rest) stack _ owner =>
      some (advance q c (fuelOf c) corr rest stack owner (some corr) { v with pending := v.pending.erase corr })
    | .visit (.child _ _ rest) stack _ owner =>
      some (advance q c (fuelOf c) corr rest stack owner (some corr) { v with pending := v.pending.erase corr })
    | _ => none
  | none => none

/-- does the engine have attempts of execution `owner` on record (its branch metadata, made when the first event of a branch is
delivered or the first result arrives — not when a fan-out state launches its branches), leaving event `except` aside -/
def hasRecords (c : Cfg) (v : Vol) (owner : Option Nat) (except : Nat) : Bool :=
  v.joins.any (fun j => !j.filled.isEmpty || j.dead || j.ended) ||
    c.evq.any (fun m => m.unacked && m.id != except && evOwner m.kind == owner && !(evJids m.kind).isEmpty)

/-- The event is dropped (`branch_has_terminated`): it belongs to a fan-out attempt that is over, or — an event delivered for
the first time, at the top level or when the engine has no attempt of the execution on record — to an execution whose record
says that it has ended, or the engine has kept the attempts of the execution on record after its end. -/
def inDeadJoin (q : Quirks) (c : Cfg) (v : Vol) (m : QEv) : Bool :=
  (evJids m.kind).any (deadJid q c v) ||
    ((evOwner m.kind).isNone &&
      ((!(evJids m.kind).isEmpty && v.joins.any (·.ended)) ||
       (c.notes > 0 && !m.redelivered && ((evJids m.kind).isEmpty || !hasRecords c v none m.id)) ||
       (c.failed > 0 && !q.attemptFailureForgotten)))

/-- … it is acknowledged; when the engine has the attempt on record the attempt is now over as well, and is tidied up -/
def dropEv (q : Quirks) (c : Cfg) (v : Vol) (m : QEv) : List Act × Vol :=
  match evJids m.kind with
  | j :: _ =>
    if v.joins.any (·.ended) then
      -- kept after the end of the execution: when this was the last thing outstanding the records are deleted
      let others := c.evq.any (fun x => x.id != m.id && evOwner x.kind == evOwner m.kind && !(evJids x.kind).isEmpty)
      ([.ackEv m.id], if others then v else { v with joins := v.joins.filter (fun x => !x.ended) })
    else if (evJids m.kind).any (deadJid q c v) then
      let (acts, v') := tidy c { v with joins := markDead v.joins [j] } (evOwner m.kind) [m.id]
      (Act.ackEv m.id :: acts, v')
    else ([.ackEv m.id], v)
  | [] => ([.ackEv m.id], v)

/-- the request of a Task visit -/
def requestOf (id : Nat) : Sk → List Act
  | .child _ sub _ => [.pubChild id sub]
  | _ => [.pubReq id]

/-- one handler invocation (`cut = some k`: a crash after its first `k` broker operations); `none`: the
operation is not enabled -/
def step (q : Quirks) (c : Cfg) (op : Op) (cut : Option Nat) : Option Cfg :=
  if c.diverged then some c else
  match op with
  | .crash => some c.crash
  | .ev id =>
    match findEv c id false with
    | none => none
    | some m =>
      let c := markEv c id
      let v := c.vol
      if inDeadJoin q c v m then some (c.handler (dropEv q c v m).1 (dropEv q c v m).2 cut) else
      match m.kind with
      | .reenter _ _ _ _ => some (c.handler [] { v with timers := insertNat id v.timers } cut)
      | .visit todo stack start owner =>
        let pre : List Act := if start then [if owner.isSome then .cnote false else .note false] else []
        let isTask : Option Nat := match todo with
          | .task rc _ => some rc
          | .child rc _ _ => some rc
          | _ => none
        match isTask with
        | some rc =>
          if q.requestFromTimer || rc != 0 then some (c.handler pre { v with timers := insertNat id v.timers } cut)
          else
            -- crash-safe: the request is sent by the handler that accepts the event, before anything else it does
            -- (the deferred handler has nothing left to do: see `tm`), unless it is on record as sent
            let send : List Act := if c.sent.contains id then [] else requestOf id todo
            some (c.handler (send ++ pre) { v with pending := insertNat id v.pending } cut)
        | none =>
        match todo with
        | .wait _ | .par _ _ _ => some (c.handler pre { v with timers := insertNat id v.timers } cut)
        | .step rest =>
          let (acts, v') := advance q c (fuelOf c) id rest stack owner none v
          some (c.handler (pre ++ acts) v' cut)
        | .opaque => some { c with diverged := true }
        | rest =>
          -- `done` (an empty skeleton or branch), or a failure before any visit
          let (acts, v') := advance q c (fuelOf c) id rest stack owner none v
          some (c.handler (pre ++ acts) v' cut)
  | .tm id =>
    if !c.timers.contains id then
      -- crash-safe protocol: the deferred handler of a Task whose request went out with the delivery has nothing to do
      (match findEv c id true with
       | some m => (match m.kind with
         | .visit (.task 0 _) _ _ _ | .visit (.child 0 _ _) _ _ _ =>
           if q.requestFromTimer then none else some (c.handler [] c.vol cut)
         | _ => none)
       | none => none)
    else
    match findEv c id true with
    | none => none
    | some m =>
      let v := { c.vol with timers := c.timers.erase id }
      -- (the deferred handler of a Task, Parallel or Map state looks again: the attempt may have failed since the event was
      -- accepted; a Wait that is over does not)
      if !waitVisit m.kind && inDeadJoin q c v m then some (c.handler (dropEv q c v m).1 (dropEv q c v m).2 cut) else
      match m.kind with
      | .reenter f from_ stack owner => some (c.handler (launch f from_ stack owner ++ [.ackEv id]) v cut)
      | .visit todo stack _ owner =>
        match todo with
        | .task _ _ | .child _ _ _ =>
          -- the engine takes a redelivered event to have been requested; the crash-safe protocol looks at the record
          let already : Bool := if q.requestFromTimer then m.redelivered else c.sent.contains id
          let send : List Act := if already then [] else requestOf id todo
          some (c.handler send { v with pending := insertNat id v.pending } cut)
        | .wait rest =>
          let (acts, v') := advance q c (fuelOf c) id rest stack owner none v
          some (c.handler acts v' cut)
        | .par mc brs rest =>
          if brs.toList.isEmpty then
            let (acts, v') := advance q c (fuelOf c) id rest stack owner none v
            some (c.handler acts v' cut)
          else
            let f : Frame := { jid := c.nextJ, idx := 0, mc := mc, branches := brs, rest := rest }
            some (({ c with nextJ := c.nextJ + 1 } : Cfg).handler (launch f 0 stack owner ++ [Act.ackEv id])
              { v with joins := setJoin v.joins { jid := c.nextJ } } cut)
        | _ => none
  | .rp corr =>
    if !(c.rpq.any (fun r => r.corr == corr && !r.unacked)) then none else
    let c := { c with rpq := markRpL c.rpq corr }
    let v := c.vol
    if v.pending.contains corr then
      match onReply q c corr v with
      | some (acts, v') => some (c.handler acts v' cut)
      | none => none
    else some (c.handler [] { v with orphans := insertNat corr v.orphans } cut)
  | .tick =>
    match c.orphans.find? (fun o => c.pending.contains o) with
    | none => some (c.handler [] c.vol cut)
    | some corr =>
      match onReply q c corr { c.vol with orphans := c.orphans.erase corr } with
      | some (acts, v') => some (c.handler acts v' cut)
      | none => none

/-- the execution is started: its first event is published -/
def init (sk : Sk) : Cfg := { evq := [{ id := 0, kind := .visit sk [] true none }], nextId := 1 }

/-- a schedule: operations, each possibly cut short by a crash after `k` broker operations -/
abbrev Sched := List (Op × Option Nat)

def run (q : Quirks) : Cfg → Sched → Option Cfg
  | c, [] => some c
  | c, (op, cut) :: rest =>
    match step q c op cut with
    | some c' => run q c' rest
    | none => none

/-- the next operation of the canonical crash-free schedule: armed timers first (oldest), then the oldest
ready event, then a ready reply, then the orphan handler if it has something to match -/
def nextOp (c : Cfg) : Option Op :=
  match c.timers with
  | t :: _ => some (.tm t)
  | [] =>
    match c.evq.find? (fun m => !m.unacked) with
    | some m => some (.ev m.id)
    | none =>
      match c.rpq.find? (fun r => !r.unacked) with
      | some r => some (.rp r.corr)
      | none => if c.orphans.any (fun o => c.pending.contains o) then some .tick else none

/-- let the engine run, crash-free, until nothing is left to do (or the fuel is spent) -/
def drain (q : Quirks) : Nat → Cfg → Cfg
  | 0, c => c
  | fuel + 1, c =>
    if c.diverged then c else
    match nextOp c with
    | none => c
    | some op =>
      match step q c op none with
      | some c' => drain q fuel c'
      | none => c

def count (xs : List Nat) (x : Nat) : Nat := (xs.filter (· == x)).length

/-- what the harness observes of a finished run -/
structure Obs where
  terminal : Bool
  /-- terminal notifications -/
  notes : Nat
  /-- requests the workers received more than once -/
  resent : List Nat
  /-- requests the engine waits for that were never sent -/
  pendingUnsent : List Nat
  /-- requests the engine waits for whose reply is gone (sent, no reply left in the queue, and — a child execution —
  nothing of the child left to run) -/
  pendingLost : List Nat
  /-- nothing is enabled any more -/
  quiet : Bool
  deriving Repr, DecidableEq

def observe (c : Cfg) : Obs :=
  { terminal := c.notes > 0
    notes := c.notes
    resent := (c.sent.eraseDups).filter (fun x => count c.sent x > 1)
    pendingUnsent := c.pending.filter (fun p => !c.sent.contains p)
    pendingLost := c.pending.filter (fun p => c.sent.contains p && !(c.rpq.any (·.corr == p)) &&
                                               !(c.evq.any (fun m => evOwner m.kind == some p)))
    quiet := (nextOp c).isNone }

/-- a run is stuck: nothing is enabled and the execution has not ended -/
def stuck (c : Cfg) : Bool := (nextOp c).isNone && c.notes == 0

end Asl.Crash
