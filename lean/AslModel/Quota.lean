/-
Quota — service quotas at the exact boundary (property C16).

Every place where the engine enforces a size limit is a *site*.  A site measures a length
(characters of the JSON text it has in hand) and compares it with *its own copy* of the limit
constant; the copies are data of the code and come from `AslModel/Generated.lean`, which
`harness/extract.py` regenerates from the live modules on every run.  `Proofs/C16.lean` proves
that all copies are the documented numbers, hence that all sites decide alike.

What is measured (the property says "its JSON text"):
* API sites (StartExecution on both front ends, StartSyncExecution, SendTaskSuccess, the
  definition of Create/UpdateStateMachine): the text the caller submitted, `Str.length`;
* a state's output inside an execution: the text the engine itself writes for the data,
  Python `json.dumps(data)` = `render` of `AslModel/JsonText.lean`; `serLen` is its length;
  the property speaks of *a state output*, so the site covers every state that produces an
  output — with `Next` and with `End` alike;
* a task reply / a callback output: the characters of the reply text (the property's word;
  a reply is a JSON text, its size is its number of characters — not of UTF-8 bytes).

Names: 1..80 characters none of which is forbidden (`Names.lean` has the character class); the
length window is generated behaviourally (`Generated.nameLengthsAccepted`).

History: an abstract counter model of `StateEngine.notify`: entering a state appends the
`…StateEntered` event, then the length is compared with the limit; over the limit the execution
is failed (a constant number of closing events), otherwise the state runs and appends what it
appends.  No Mathlib.
-/
import AslModel.Json
import AslModel.JsonText
import AslModel.Names
import AslModel.Generated
namespace Asl.Quota
open Asl

/-! ### the data limit (262144) -/

/-- the places where the input/output/result size limit is enforced -/
inductive DataSite where
  | apiStartExecution        -- rest_api_asyncio StartExecution `input`
  | apiStartExecutionFlask   -- rest_api (Flask) StartExecution `input`
  | apiStartSyncExecution    -- rest_api_asyncio StartSyncExecution `input`
  | apiSendTaskSuccess       -- rest_api_asyncio SendTaskSuccess `output`
  | stateOutput              -- state_engine: a state's output (change_state / terminal state)
  | taskReply                -- task_dispatcher handle_rpcmessage_response: worker reply
  | callbackOutput           -- task_dispatcher handle_rpcmessage_response: SendTaskSuccess message
  deriving DecidableEq, Repr

def DataSite.all : List DataSite :=
  [.apiStartExecution, .apiStartExecutionFlask, .apiStartSyncExecution, .apiSendTaskSuccess,
   .stateOutput, .taskReply, .callbackOutput]

/-- each site compares with the constant of *its* module -/
def dataLimit : DataSite → Nat
  | .apiStartExecution => Generated.maxDataLengthRestApiAsyncio
  | .apiStartExecutionFlask => Generated.maxDataLengthRestApi
  | .apiStartSyncExecution => Generated.maxDataLengthRestApiAsyncio
  | .apiSendTaskSuccess => Generated.maxDataLengthRestApiAsyncio
  | .stateOutput => Generated.maxDataLength
  | .taskReply => Generated.maxDataLengthTaskDispatcher
  | .callbackOutput => Generated.maxDataLengthTaskDispatcher

/-- how a refusal is reported at a site: the documented validation error of the API action,
`States.DataLimitExceeded` inside an execution -/
def dataError : DataSite → Str
  | .apiStartExecution => "InvalidExecutionInput".toList
  | .apiStartExecutionFlask => "InvalidExecutionInput".toList
  | .apiStartSyncExecution => "InvalidExecutionInput".toList
  | .apiSendTaskSuccess => "InvalidOutput".toList
  | .stateOutput => "States.DataLimitExceeded".toList
  | .taskReply => "States.DataLimitExceeded".toList
  | .callbackOutput => "States.DataLimitExceeded".toList

inductive Verdict where
  | accepted
  | refused (error : Str)
  deriving DecidableEq, Repr

/-- the enforcement predicate of a site on a measured length (`len(x) > MAX` refuses) -/
def acceptsData (site : DataSite) (len : Nat) : Bool := decide (len ≤ dataLimit site)

def checkData (site : DataSite) (len : Nat) : Verdict :=
  if acceptsData site len then .accepted else .refused (dataError site)

/-- length of the engine's own JSON text of a value: `len(json.dumps(data))` -/
def serLen (j : Json) : Nat := (render j).length

/-- a state's output, measured the way the engine measures it -/
def checkStateOutput (data : Json) : Verdict := checkData .stateOutput (serLen data)

/-! #### recorded deviation (open finding C16-F1): one Boolean per known finding, default off -/

structure Quirks where
  /-- a terminal state (`End: true`, Succeed) hands its output to `end_execution` /
  `collect_results` without measuring it: only `change_state` (states with `Next`) checks -/
  terminalOutputUnchecked : Bool := false
  deriving DecidableEq, Repr

def Quirks.none : Quirks := {}

/-- a state's output of measured length `len`; `terminal` says whether the state ends its
(branch of the) execution.  With `Quirks.none` the flag is irrelevant. -/
def checkStateOutputLenQ (q : Quirks) (terminal : Bool) (len : Nat) : Verdict :=
  if q.terminalOutputUnchecked && terminal then .accepted else checkData .stateOutput len

/-- a text handed to an API site / a reply text -/
def checkText (site : DataSite) (text : Str) : Verdict := checkData site text.length

/-! ### padding documents of the generator: values whose JSON text has a chosen length -/

def padChars (n : Nat) : Str := List.replicate n 'a'

/-- `"aaa…"` — text length n + 2 -/
def padStr (n : Nat) : Json := .str (padChars n)

/-- `{"p": "aaa…"}` — text length n + 9 -/
def padObj (n : Nat) : Json := .obj [("p".toList, padStr n)]

/-- `["aaa…"]` — text length n + 4 (the output of a one-branch Parallel / one-item Map) -/
def padArr (n : Nat) : Json := .arr [padStr n]

/-- `["aaa…", 0]` — text length n + 7 (a two-branch Parallel) -/
def padArr2 (n : Nat) : Json := .arr [padStr n, .num 0]

/-! ### the definition limit (1..1048576) -/

inductive DefSite where
  | createStateMachine
  | updateStateMachine
  | createStateMachineFlask
  | updateStateMachineFlask
  deriving DecidableEq, Repr

def DefSite.all : List DefSite :=
  [.createStateMachine, .updateStateMachine, .createStateMachineFlask, .updateStateMachineFlask]

def defLimit : DefSite → Nat
  | .createStateMachine => Generated.maxStateMachineLengthRestApiAsyncio
  | .updateStateMachine => Generated.maxStateMachineLengthRestApiAsyncio
  | .createStateMachineFlask => Generated.maxStateMachineLengthRestApi
  | .updateStateMachineFlask => Generated.maxStateMachineLengthRestApi

/-- `len(definition) == 0 or len(definition) > MAX` refuses -/
def acceptsDefinition (site : DefSite) (len : Nat) : Bool :=
  decide (len ≠ 0) && decide (len ≤ defLimit site)

def checkDefinition (site : DefSite) (len : Nat) : Verdict :=
  if acceptsDefinition site len then .accepted else .refused "InvalidDefinition".toList

/-! ### names -/

inductive NameSite where
  | asyncio   -- rest_api_asyncio.valid_name
  | flask     -- rest_api.valid_name
  deriving DecidableEq, Repr

def nameLengths : NameSite → List Nat
  | .asyncio => Generated.nameLengthsAccepted
  | .flask => Generated.nameLengthsAcceptedRestApi

/-- the validator of a front end: a length it accepts and no forbidden character anywhere -/
def acceptsName (site : NameSite) (s : Str) : Bool :=
  (nameLengths site).contains s.length && s.all nameCharOk

def checkName (site : NameSite) (s : Str) : Verdict :=
  if acceptsName site s then .accepted else .refused "InvalidName".toList

/-! ### execution history -/

/-- events written when the history check fails the execution (`ExecutionFailed`) -/
def closingEvents : Nat := 1

structure HState where
  len : Nat          -- events recorded so far
  failed : Bool      -- the history check has failed the execution
  deriving DecidableEq, Repr

/-- one state visit of a STANDARD execution: the `…StateEntered` event is appended, then the
length is compared with the limit; `adds` is what the state itself appends afterwards -/
def visit (h : Nat) (adds : Nat) : HState :=
  if h + 1 > Generated.maxExecutionHistoryLength then ⟨h + 1 + closingEvents, true⟩
  else ⟨h + 1 + adds, false⟩

/-- a whole run: the visits in order, each with the number of events it appends; stops at the
visit on which the check fails the execution -/
def runHistory : Nat → List Nat → HState
  | h, [] => ⟨h, false⟩
  | h, a :: rest =>
    if (visit h a).failed then visit h a else runHistory (visit h a).len rest

/-- one pass of an event through `notify`, first entry or not: `e` = 1 when the `…StateEntered`
event is appended (a first entry), `e` = 0 on a re-entry that logs none (a retry of the state, the
re-entry of a Map state for its next batch); then the length is compared with the limit; `adds` is
what the state appends afterwards (each attempt of a Task logs its scheduling, for instance) -/
def pass (h e adds : Nat) : HState :=
  if h + e > Generated.maxExecutionHistoryLength then ⟨h + e + closingEvents, true⟩
  else ⟨h + e + adds, false⟩

/-- a whole run as passes `(e, adds)` in order; stops at the pass on which the check fails -/
def runPasses : Nat → List (Nat × Nat) → HState
  | h, [] => ⟨h, false⟩
  | h, p :: rest =>
    if (pass h p.1 p.2).failed then pass h p.1 p.2 else runPasses (pass h p.1 p.2).len rest

end Asl.Quota
