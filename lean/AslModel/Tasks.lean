/-
L5 — the task dispatcher: pending requests keyed by correlation id, cancellers keyed by the
Task/Wait state's event id, task tokens, callback handling, parent/child completion.

One `Disp` is the volatile state of one engine instance (`task_dispatcher.py`:
`pending_requests`, `cancellers`) plus two *ghost* logs that make the property statable:
`log` — every invocation of a Task state's `on_response` (who was completed, under which
correlation id, through which path, with what) — and `started` — the child executions published.

Where C15 speaks the model is the property's reading:
  * a synchronous child's result carries the DescribeExecution fields under their documented
    names (`ExecutionArn`, `StateMachineArn`, `StartDate`, `StopDate`, …), `Output`/`Input` as JSON
    for `.sync:2` and as text otherwise;
  * a callback completes the task with *exactly* the supplied output (whatever its shape);
  * a token that no waiting task of this instance holds is answered `InvalidToken`.
The recorded deviations of the implementation are the switches of `Quirks` (all `false` in every
theorem).  Everything else (error names of the validation, which cancellers cascade, the order of
the checks, ordinary replies to a `.waitForTaskToken` request being ignored unless they are errors)
is copied from the code.
-/
import AslModel.Json
import AslModel.Names
import AslModel.Intrinsic
namespace Asl.Tasks
open Asl

/-! ### association lists keyed by text (Python dicts with unique keys) -/

def aGet {α : Type} : List (Str × α) → Str → Option α
  | [], _ => none
  | (k', v) :: rest, k => if k' = k then some v else aGet rest k

def aDel {α : Type} : List (Str × α) → Str → List (Str × α)
  | [], _ => []
  | (k', v) :: rest, k => if k' = k then aDel rest k else (k', v) :: aDel rest k

def aSet {α : Type} (l : List (Str × α)) (k : Str) (v : α) : List (Str × α) := aDel l k ++ [(k, v)]

/-! ### task tokens -/

/-- `.waitForTaskToken` -/
def wfttSuffix : Str :=
  ['.', 'w', 'a', 'i', 't', 'F', 'o', 'r', 'T', 'a', 's', 'k', 'T', 'o', 'k', 'e', 'n']

/-- `asl_workflow_reply_to`: every instance's reply queue name starts with it -/
def replyFamily : Str :=
  ['a', 's', 'l', '_', 'w', 'o', 'r', 'k', 'f', 'l', 'o', 'w', '_', 'r', 'e', 'p', 'l', 'y', '_', 't', 'o']

def isPrefix : Str → Str → Bool
  | [], _ => true
  | _ :: _, [] => false
  | a :: as, b :: bs => if a = b then isPrefix as bs else false

def endsWith (s suf : Str) : Bool := isPrefix suf.reverse s.reverse

/-- the correlation id of a `.waitForTaskToken` task -/
def tokenCid (eventId : Str) : Str := eventId ++ wfttSuffix

/-- the raw token put into the context: `f'{correlation_id}:{reply_to}'` -/
def rawToken (cid queue : Str) : Str := cid ++ ':' :: queue

/-- `task_token.split(":")` must give exactly two parts, the first ending in `.waitForTaskToken`,
the second naming a reply queue of this engine family -/
def decodeRaw (t : Str) : Option (Str × Str) :=
  match breakAt ':' t with
  | none => none
  | some (c, q) =>
    if q.contains ':' then none
    else if endsWith c wfttSuffix && isPrefix replyFamily q then some (c, q) else none

/-- what `$$.Task.Token` evaluates to: base64 of the UTF-8 bytes of the raw token -/
def encodeToken (cid queue : Str) : Str := b64Enc (utf8Str (rawToken cid queue))

/-- what SendTaskSuccess / SendTaskFailure make of the presented token -/
def decodeToken (tok : Str) : Option (Str × Str) :=
  match b64Dec tok with
  | none => none
  | some bytes =>
    match utf8Dec bytes with
    | none => none
    | some t => decodeRaw t

/-! ### requests, cancellers, completions -/

inductive Form where
  | async      -- states:startExecution
  | sync       -- states:startExecution.sync
  | sync2      -- states:startExecution.sync:2
  | token      -- states:startExecution.waitForTaskToken
  | sdkSync    -- aws-sdk:sfn:startSyncExecution
  deriving DecidableEq, Repr

inductive MType where
  | standard | express
  deriving DecidableEq, Repr

inductive RKind where
  | fn                 -- function ARN used directly
  | invoke             -- rpcmessage:invoke
  | token              -- rpcmessage:invoke.waitForTaskToken / startExecution.waitForTaskToken
  | child (f : Form)   -- a synchronous child execution, keyed by the child's ARN
  deriving DecidableEq, Repr

structure Req where
  owner : Str          -- event id of the Task state that launched it
  exec : Str           -- execution the Task state belongs to
  kind : RKind
  deriving DecidableEq, Repr

inductive CType where
  | function | stepFunction | timeout
  deriving DecidableEq, Repr

structure Canc where
  type : CType
  taskId : Str         -- key into `pending` (Function / StepFunction) — the child's ARN for a child
  exec : Str           -- the execution the cancelled Task / Wait state belongs to
  deriving DecidableEq, Repr

inductive Via where
  | launch | reply | callback | childEnd | timeout | cancel | waitCancel
  deriving DecidableEq, Repr

inductive Outcome where
  | ok (v : Json)
  | err (name : Str) (cause : Json)
  deriving DecidableEq

structure Completion where
  owner : Str
  key : Str
  via : Via
  outcome : Outcome
  deriving DecidableEq

structure Quirks where
  /-- C15-F2: a callback output that is an object with a truthy `Error` / `errorType` member fails the task -/
  inBandCallbackError : Bool := false
  /-- C15-F3: a well-formed token is answered 200 (and forwarded) whether or not a task holds it -/
  statelessTokens : Bool := false
  deriving DecidableEq, Repr

def Quirks.none : Quirks := {}

structure Disp where
  replyQueue : Str
  pending : List (Str × Req) := []
  cancellers : List (Str × Canc) := []
  log : List Completion := []
  started : List (Str × Bool) := []     -- child ARN, published to the shared queue?

/-! ### the result a Task state makes of what its integration returned (`on_response`) -/

def sErrorType : Str := ['e', 'r', 'r', 'o', 'r', 'T', 'y', 'p', 'e']
def sErrorMessage : Str := ['e', 'r', 'r', 'o', 'r', 'M', 'e', 's', 's', 'a', 'g', 'e']
def sError : Str := ['E', 'r', 'r', 'o', 'r']
def sCause : Str := ['C', 'a', 'u', 's', 'e']
def sTaskFailed : Str := ['S', 't', 'a', 't', 'e', 's', '.', 'T', 'a', 's', 'k', 'F', 'a', 'i', 'l', 'e', 'd']
def sTimeout : Str := ['S', 't', 'a', 't', 'e', 's', '.', 'T', 'i', 'm', 'e', 'o', 'u', 't']
def sTerminated : Str := ['T', 'a', 's', 'k', '.', 'T', 'e', 'r', 'm', 'i', 'n', 'a', 't', 'e', 'd']

def truthyMember (kvs : List (Str × Json)) (k : Str) : Bool :=
  match objGet kvs k with
  | some v => v.truthy
  | none => false

/-- in-band convention of ordinary task replies: `{"Error": …}` (a failed child) or `{"errorType": …}` -/
def inBand : Json → Outcome
  | .obj kvs =>
    if truthyMember kvs sError then .err sTaskFailed (.obj kvs)
    else if truthyMember kvs sErrorType then
      .err (match objGet kvs sErrorType with | some (.str s) => s | _ => [])
           ((objGet kvs sErrorMessage).getD (.str []))
    else .ok (.obj kvs)
  | v => .ok v

def errBody (name : Str) (msg : Json) : Json := .obj [(sErrorType, .str name), (sErrorMessage, msg)]

/-! ### the result of a synchronous child (`handle_sfn_response`) -/

structure Detail where
  executionArn : Str
  name : Str
  stateMachineArn : Str
  status : Str
  input : Str                 -- JSON text
  output : Option Str         -- JSON text; none unless SUCCEEDED
  startDate : Int
  stopDate : Int
  failure : Option (Json × Json)   -- (error, cause) when the child failed
  deriving DecidableEq

def kExecutionArn : Str := ['E', 'x', 'e', 'c', 'u', 't', 'i', 'o', 'n', 'A', 'r', 'n']
def kInput : Str := ['I', 'n', 'p', 'u', 't']
def kName : Str := ['N', 'a', 'm', 'e']
def kOutput : Str := ['O', 'u', 't', 'p', 'u', 't']
def kStartDate : Str := ['S', 't', 'a', 'r', 't', 'D', 'a', 't', 'e']
def kStateMachineArn : Str := ['S', 't', 'a', 't', 'e', 'M', 'a', 'c', 'h', 'i', 'n', 'e', 'A', 'r', 'n']
def kStatus : Str := ['S', 't', 'a', 't', 'u', 's']
def kStopDate : Str := ['S', 't', 'o', 'p', 'D', 'a', 't', 'e']

def optText : Option Str → Json
  | some s => .str s
  | none => .null

/-- the Task result of `.sync` / `.sync:2` / `sfn:startSyncExecution`.
`inJ` / `outJ`: the child's input and final data as JSON (used by `.sync:2`). -/
def shape (f : Form) (d : Detail) (inJ outJ : Json) : Json :=
  .obj ([ (kExecutionArn, .str d.executionArn),
          (kInput, if f = .sync2 then inJ else .str d.input),
          (kName, .str d.name),
          (kOutput, if f = .sync2 then outJ else optText d.output),
          (kStartDate, .num d.startDate),
          (kStateMachineArn, .str d.stateMachineArn),
          (kStatus, .str d.status),
          (kStopDate, .num d.stopDate) ] ++
        (match d.failure with
         | some (e, c) => [(sError, e), (sCause, c)]
         | none => []))

/-- … and what the Task state makes of it: a failed child fails the task with `States.TaskFailed`
carrying the whole detail (which contains the child's `Error` and `Cause`) -/
def childOutcome (f : Form) (d : Detail) (inJ outJ : Json) : Outcome :=
  match d.failure with
  | some _ => .err sTaskFailed (shape f d inJ outJ)
  | none => .ok (shape f d inJ outJ)

/-! ### cancellation -/

def keysFor (cs : List (Str × Canc)) (exec : Str) : List Str :=
  (cs.filter (fun kc => kc.2.exec = exec)).map (·.1)

def terminated : Outcome := .err sTerminated (.str ['T', 'a', 's', 'k', ' ', 'h', 'a', 's', ' ', 'b', 'e', 'e', 'n', ' ', 'T', 'e', 'r', 'm', 'i', 'n', 'a', 't', 'e', 'd'])

def dropCanc (d : Disp) (e : Str) : Disp := { d with cancellers := aDel d.cancellers e }

/-- a cancelled Wait state's callback -/
def logWait (d : Disp) (e k : Str) : Disp := { d with log := d.log ++ [⟨e, k, .waitCancel, terminated⟩] }

/-- complete the pending request `k` (if it is still pending) with `Task.Terminated` -/
def cancelReq (d : Disp) (k : Str) : Disp :=
  match aGet d.pending k with
  | some r => { d with pending := aDel d.pending k, log := d.log ++ [⟨r.owner, k, .cancel, terminated⟩] }
  | none => d

/-- the non-recursive part of `cancel_task(e)` for canceller `c` -/
def cancelOne (d : Disp) (e : Str) (c : Canc) : Disp :=
  match c.type with
  | .timeout => logWait (dropCanc d e) e c.taskId
  | _ => cancelReq (dropCanc d e) c.taskId

/-- `cancel_task(event_id)`: drop the canceller; complete its pending request (or cancelled Wait)
with `Task.Terminated`; for a StepFunction task do the same for every canceller registered under
the child's ARN.  The recursion is bounded by the number of cancellers (each call removes one). -/
def cancelTask : Nat → Disp → Str → Disp
  | 0, d, _ => d
  | n + 1, d, e =>
    match aGet d.cancellers e with
    | none => d
    | some c =>
      if c.type = .stepFunction then
        (keysFor (cancelOne d e c).cancellers c.taskId).foldl (cancelTask n) (cancelOne d e c)
      else cancelOne d e c

/-- enough fuel for any cascade from this state -/
def Disp.fuel (d : Disp) : Nat := d.cancellers.length + 1

/-- a Task state's `on_response`: the completion is logged; an error cancels the task (which
cascades for a StepFunction task), a success just forgets the canceller -/
def complete (d : Disp) (c : Completion) : Disp :=
  let d1 := { d with log := d.log ++ [c] }
  match c.outcome with
  | .ok _ => { d1 with cancellers := aDel d1.cancellers c.owner }
  | .err _ _ => cancelTask d1.fuel d1 c.owner

/-! ### launching (`execute_task`) -/

structure Launch where
  eventId : Str
  exec : Str                   -- the parent execution
  parentType : MType
  form : Form
  childMachine : Option MType  -- what the store knows about Parameters.StateMachineArn
  childArn : Str               -- the execution ARN minted for the child
  deriving DecidableEq

/-- the validation of `asl_service_states_startExecution`, in the code's order -/
def validate (l : Launch) : Option Str :=
  if (l.form = .sync || l.form = .sync2) && l.parentType = .express then some ['I', 'n', 'v', 'a', 'l', 'i', 'd', 'R', 'e', 's', 'o', 'u', 'r', 'c', 'e', 'A', 'r', 'n']
  else match l.childMachine with
    | none => some ['S', 't', 'a', 't', 'e', 'M', 'a', 'c', 'h', 'i', 'n', 'e', 'D', 'o', 'e', 's', 'N', 'o', 't', 'E', 'x', 'i', 's', 't']
    | some t =>
      if l.form = .sdkSync && t ≠ .express then some ['I', 'n', 'v', 'a', 'l', 'i', 'd', 'R', 'e', 's', 'o', 'u', 'r', 'c', 'e', 'A', 'r', 'n'] else none

def corrId (l : Launch) : Str := if l.form = .token then tokenCid l.eventId else l.childArn

def launch (d : Disp) (l : Launch) (startInfo : Json) : Disp :=
  match validate l with
  | some e => complete d ⟨l.eventId, corrId l, .launch, .err e (.str [])⟩
  | none =>
    if l.form = .async then
      complete { d with started := d.started ++ [(l.childArn, true)] }
        ⟨l.eventId, l.childArn, .launch, .ok startInfo⟩
    else
      { d with cancellers := aSet d.cancellers l.eventId ⟨.stepFunction, corrId l, l.exec⟩,
               pending := aSet d.pending (corrId l)
                 ⟨l.eventId, l.exec, if l.form = .token then .token else .child l.form⟩,
               started := d.started ++ [(l.childArn, false)] }

inductive RpcKind where
  | fn | invoke | token
  deriving DecidableEq, Repr

def rpcCid (k : RpcKind) (eventId : Str) : Str :=
  match k with
  | .fn => eventId
  | .invoke => eventId ++ ['.', 'i', 'n', 'v', 'o', 'k', 'e']
  | .token => tokenCid eventId

def launchRpc (d : Disp) (k : RpcKind) (eventId exec : Str) : Disp :=
  { d with cancellers := aSet d.cancellers eventId ⟨.function, rpcCid k eventId, exec⟩,
           pending := aSet d.pending (rpcCid k eventId)
             ⟨eventId, exec, match k with | .fn => .fn | .invoke => .invoke | .token => .token⟩ }

/-- a Wait state arms its timer -/
def launchWait (d : Disp) (eventId exec : Str) : Disp :=
  { d with cancellers := aSet d.cancellers eventId ⟨.timeout, eventId, exec⟩ }

/-! ### messages on the reply queue (`handle_rpcmessage_response`) -/

def isErrorBody : Json → Bool
  | .obj kvs => truthyMember kvs sErrorType
  | _ => false

def wrapInvoke (cid : Str) (v : Json) : Json :=
  .obj [(['E', 'x', 'e', 'c', 'u', 't', 'e', 'd', 'V', 'e', 'r', 's', 'i', 'o', 'n'], .str ['$', 'L', 'A', 'T', 'E', 'S', 'T']), (['P', 'a', 'y', 'l', 'o', 'a', 'd'], v),
        (['S', 'd', 'k', 'R', 'e', 's', 'p', 'o', 'n', 's', 'e', 'M', 'e', 't', 'a', 'd', 'a', 't', 'a'], .obj [(['R', 'e', 'q', 'u', 'e', 's', 't', 'I', 'd'], .str cid)]),
        (['S', 't', 'a', 't', 'u', 's', 'C', 'o', 'd', 'e'], .num 200)]

/-- the outcome of a callback: success callbacks carry exactly the output (property), failure
callbacks the error and cause -/
def callbackOutcome (q : Quirks) (success : Bool) (body : Json) : Outcome :=
  if success then (if q.inBandCallbackError then inBand body else .ok body)
  else match body with
    | .obj kvs => .err (match objGet kvs sErrorType with | some (.str s) => s | _ => [])
                       ((objGet kvs sErrorMessage).getD .null)
    | v => .ok v

/-- one message taken from this instance's reply queue.  `cb = some success` for a message
carrying the `x-SendTaskSuccess` / `x-SendTaskFailure` header. -/
def onReply (q : Quirks) (d : Disp) (cid : Str) (cb : Option Bool) (body : Json) : Disp :=
  if endsWith cid wfttSuffix && cb.isNone && !isErrorBody body then d      -- ordinary reply: ignored
  else match aGet d.pending cid with
    | none => d                                                              -- orphan: inert
    | some r =>
      let d1 := { d with pending := aDel d.pending cid }
      match cb with
      | some s => complete d1 ⟨r.owner, cid, .callback, callbackOutcome q s body⟩
      | none =>
        let v := if r.kind = .invoke && !isErrorBody body then wrapInvoke cid body else body
        complete d1 ⟨r.owner, cid, .reply, inBand v⟩

/-- `handle_sfn_response`: an execution of this instance became terminal -/
def onChildEnd (d : Disp) (arn : Str) (det : Detail) (inJ outJ : Json) : Disp :=
  match aGet d.pending arn with
  | none => d
  | some r =>
    let d1 := { d with pending := aDel d.pending arn }
    match r.kind with
    | .child f => complete d1 ⟨r.owner, arn, .childEnd, childOutcome f det inJ outJ⟩
    | _ => complete d1 ⟨r.owner, arn, .childEnd, childOutcome .sdkSync det inJ outJ⟩

/-- the timeout timer of a request fires -/
def onTimeout (d : Disp) (cid : Str) : Disp :=
  match aGet d.pending cid with
  | none => d
  | some r =>
    complete { d with pending := aDel d.pending cid }
      ⟨r.owner, cid, .timeout, .err sTimeout (.str [])⟩

/-! ### SendTaskSuccess / SendTaskFailure -/

inductive ApiResp where
  | ok | invalidToken
  deriving DecidableEq, Repr

/-- the API call on this instance, the forwarded message (if any) delivered at once.
Returns the answer, the new state and the queue a message was published to. -/
def sendTask (q : Quirks) (d : Disp) (tok : Str) (success : Bool) (body : Json) :
    ApiResp × Disp × Option Str :=
  match decodeToken tok with
  | none => (.invalidToken, d, none)
  | some (cid, queue) =>
    if queue = d.replyQueue ∧ (aGet d.pending cid).isSome then
      (.ok, onReply q d cid (some success) body, some queue)
    else if q.statelessTokens then
      (.ok, if queue = d.replyQueue then onReply q d cid (some success) body else d, some queue)
    else (.invalidToken, d, none)

/-! ### operations and runs -/

inductive Op where
  | launch (l : Launch) (startInfo : Json)
  | rpc (k : RpcKind) (eventId exec : Str)
  | wait (eventId exec : Str)
  | reply (cid : Str) (cb : Option Bool) (body : Json)
  | childEnd (arn : Str) (det : Detail) (inJ outJ : Json)
  | timeout (cid : Str)
  | cancel (eventId : Str)
  | send (tok : Str) (success : Bool) (body : Json)

def step (q : Quirks) (d : Disp) : Op → Disp
  | .launch l si => launch d l si
  | .rpc k e x => launchRpc d k e x
  | .wait e x => launchWait d e x
  | .reply cid cb body => onReply q d cid cb body
  | .childEnd arn det i o => onChildEnd d arn det i o
  | .timeout cid => onTimeout d cid
  | .cancel e => cancelTask d.fuel d e
  | .send tok s body => (sendTask q d tok s body).2.1

def run (q : Quirks) (d : Disp) (ops : List Op) : Disp := ops.foldl (step q) d

/-- does the operation (re-)register correlation id `cid`? -/
def Op.registers (cid : Str) : Op → Bool
  | .launch l _ => corrId l = cid
  | .rpc k e _ => rpcCid k e = cid
  | _ => false

/-- completions of a *request* under correlation id `cid` (a cancelled Wait has no request) -/
def counts (cid : Str) (c : Completion) : Bool := c.key == cid && c.via != .waitCancel

def countKey (cid : Str) (log : List Completion) : Nat := (log.filter (counts cid)).length

end Asl.Tasks
