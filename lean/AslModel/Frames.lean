/-
L3/L4 — the broker frames of the engine connection, per handler step, as the reference semantics predicts
them (property C03).

A *step* is one handler invocation of the engine under the canonical schedule: the broker delivering an
event or a reply, or a deferred handler running from a timer (the delegate of a Task / Parallel / Map state,
a Wait state's timer, a Task's time limit).  Its frames are what that handler does on the engine's
connection, in order: `deliver m`, the publications (a successor / branch / retry / re-entry event, a task
request, a status notification), then the acknowledgements.

`FS` is the frame state the interpreter (`AslModel/Interp.lean`) threads through a run, next to the history
log: the closed steps, the step in progress of the current *thread* (the top level, or a branch / an
iteration), what that thread still has to acknowledge, and — per fan-out level — the last step of every
branch that has ended (`Tail`): which of them goes on with the join is only known when all have ended.
The rules are those of `AslModel/Crash.lean` (copied from state_engine.py / task_dispatcher.py), here for the
crash-free canonical run:

  * a state that is handled when its event arrives (Pass, Choice, Succeed, Fail, a Wait state's arming):
    `[deliver ev, …]`; the successor event is published, then the event is acknowledged, in the same step;
  * Task: `[deliver ev]`, the delegate `[pubReq]`, the reply `[deliver rp, pub successor, ack ev, ack rp]`;
  * Wait: `[deliver ev]`, the timer `[pub successor, ack ev]`;
  * Parallel / Map: `[deliver ev]`, the delegate `[pub branch events …, ack ev]`; a branch's last event is
    *held* until the join completes, a reply is acknowledged at once; the step of the branch that ends last
    goes on: `[deliver rp, pub successor, ack held events in slot order …, ack rp]`; Map with MaxConcurrency:
    the last of a batch publishes the event that re-enters the Map state;
  * a fan-out that ends a branch of another one acknowledges what it held in that same step (C04-F4), and
    holds nothing for its slot;
  * the terminal state: `[…, pub notification, acks]`.

Messages are numbered in the order the interpreter makes them (0 = the start event; a reply carries the
number of its request).  The steps are kept in the order the interpreter goes through the run — branch
after branch, the step that completes a join after all its branches —, which respects causality (a message
is delivered before it is acknowledged); each step carries its instant on the virtual clock.
-/
import AslModel.Retry
namespace Asl

/-- a frame of the engine's connection -/
inductive BFr where
  | deliver (m : Nat)
  /-- the event for state `name` in the branch `path` (indices, outermost first) is published -/
  | pubEv (m : Nat) (name : Str) (path : List Nat)
  /-- task request `m` (for the Task of event `ev`) is published; the reply is message `m` -/
  | pubReq (m : Nat) (ev : Nat)
  | pubNote (status : Str)
  | ack (m : Nat)
  deriving Repr, DecidableEq, Inhabited

def BFr.isAck : BFr → Bool
  | .ack _ => true
  | _ => false

def BFr.isPub : BFr → Bool
  | .pubEv _ _ _ => true
  | .pubReq _ _ => true
  | .pubNote _ => true
  | _ => false

/-- 0 deliver, 1 event, 2 request, 3 notification, 4 ack -/
def BFr.kind : BFr → Nat
  | .deliver _ => 0
  | .pubEv _ _ _ => 1
  | .pubReq _ _ => 2
  | .pubNote _ => 3
  | .ack _ => 4

/-- one handler step: its instant (ms on the run's clock) and its frames in order.  `early`: the last step
of a branch that does not complete its join (a reply is acknowledged, a nested fan-out lets go of what it
held, although nothing durable has been issued: C04-F2 / C04-F4) -/
structure BStep where
  t : Rat
  frames : List BFr
  early : Bool := false
  deriving DecidableEq, Inhabited

/-- one state visit (one event) of the run's *skeleton* — what the crash / redelivery protocol model
(AslModel/Crash.lean) needs to know of an execution: the visits in order, the fan-outs with their branches -/
inductive Tok where
  /-- a state handled when its event arrives (Pass, Choice, Succeed) -/
  | s
  /-- a Fail state -/
  | f
  /-- a Wait state -/
  | w
  /-- a Task whose request has not gone out -/
  | tq
  /-- a Task visit: request, reply -/
  | t
  /-- a Task visit whose error nobody handles: it fails its scope -/
  | x
  /-- a Parallel / Map state that has not launched its branches -/
  | fan
  /-- a Parallel / Map state (`mc`: MaxConcurrency, 0 = all at once) with the visits of its branches -/
  | par (mc : Nat) (branches : List (List Tok))
  deriving Inhabited

/-- the last step of a branch that has ended, not yet closed: `frames` most recent first; `hold`: the
events the join is to hold for it, `now`: what is acknowledged in this step whatever the join does;
`owed`: those of `hold ++ now` that were delivered in a step closed earlier; `seg`: the branch's closed steps -/
structure Tail where
  slot : Nat
  t : Rat
  frames : List BFr
  hold : List Nat
  now : List Nat
  owed : List Nat
  failed : Bool
  seg : List BStep
  toks : List Tok := []
  deriving Inhabited

/-- one fan-out level: the branches that have ended; `base` is the message number of slot `lo`'s event
(the current batch); `path`, `mark`: of the thread the fan-out state belongs to -/
structure Level where
  fins : List Tail := []
  base : Nat := 0
  lo : Nat := 0
  path : List Nat := []
  mark : Nat := 0
  /-- the visits of the thread the fan-out state belongs to (most recent first; the head is the fan-out state's own) -/
  toks : List Tok := []
  mc : Nat := 0
  deriving Inhabited

structure FS where
  /-- closed steps, most recent first -/
  steps : List BStep := []
  /-- the step in progress, most recent frame first: the start event has been delivered, RUNNING notified -/
  open_ : List BFr := [.pubNote (S "RUNNING"), .deliver 0]
  hold : List Nat := [0]
  now : List Nat := []
  owed : List Nat := []
  /-- the thread goes on after a join (it has not published a successor event since) -/
  rel : Bool := false
  lvl : Level := {}
  outer : List Level := []
  next : Nat := 1
  path : List Nat := []
  mark : Nat := 0
  /-- two branches were the last of a join (a batch) at the same instant without being alike: which of them
  the broker serves last is not decided by the clock -/
  tieJoin : Bool := false
  /-- a Task ran into its time limit: its reply, if any, arrives later and is not part of the prediction -/
  late : Bool := false
  /-- the visits of the current thread, most recent first -/
  toks : List Tok := []
  deriving Inhabited

namespace FS

/-- a state is visited (its event has arrived) -/
def visit (fs : FS) (k : Tok) : FS := { fs with toks := k :: fs.toks }

/-- the visit in progress is a Task's and its request goes out -/
def requested (toks : List Tok) : List Tok :=
  match toks with
  | .tq :: r => .t :: r
  | r => r

/-- the visit in progress fails its scope -/
def failTok (fs : FS) : FS :=
  { fs with toks := match fs.toks with
      | .t :: r => .x :: r
      | r => r }

/-- the fan-out state's visit, now with its branches -/
def withBranches (toks : List Tok) (mc : Nat) (bs : List (List Tok)) : List Tok :=
  match toks with
  | .fan :: r => .par mc bs :: r
  | r => .par mc bs :: r

def pub (fs : FS) (f : BFr) : FS := { fs with open_ := f :: fs.open_ }

def deliverHold (fs : FS) (m : Nat) : FS := { fs with open_ := .deliver m :: fs.open_, hold := fs.hold ++ [m] }

def deliverNow (fs : FS) (m : Nat) : FS := { fs with open_ := .deliver m :: fs.open_, now := fs.now ++ [m] }

def mkStep (t : Rat) (frames : List BFr) (early : Bool) (steps : List BStep) : List BStep :=
  if frames.isEmpty then steps else { t := t, frames := frames, early := early } :: steps

/-- the step ends; what the thread has to acknowledge stays with it -/
def closeKeep (fs : FS) (t : Rat) : FS :=
  { fs with steps := mkStep t fs.open_.reverse false fs.steps, open_ := [], owed := fs.hold ++ fs.now }

/-- the step ends with the acknowledgement of everything the thread has to acknowledge -/
def closeAck (fs : FS) (t : Rat) : FS :=
  { fs with steps := mkStep t (fs.open_.reverse ++ (fs.hold ++ fs.now).map .ack) false fs.steps,
            open_ := [], hold := [], now := [], owed := [] }

/-- the event for state `name` is published, the step ends with the acknowledgements, the new event is delivered -/
def handover (fs : FS) (t : Rat) (name : Str) : FS :=
  let fs1 := (fs.pub (.pubEv fs.next name fs.path)).closeAck t
  ({ fs1 with next := fs.next + 1, rel := false }).deliverHold fs.next

/-- the execution ends -/
def terminal (fs : FS) (t : Rat) (status : Str) : FS := (fs.pub (.pubNote status)).closeAck t

/-- the Task's delegate publishes the request and its step ends; unless the Task runs into its time limit
the reply is delivered (in a step of its own, closed later) -/
def request (fs : FS) (t : Rat) (timedOut : Bool) : FS :=
  let ev := fs.hold.getLastD 0
  let fs1 := ((fs.pub (.pubReq fs.next ev)).closeKeep t)
  let fs2 := { fs1 with next := fs.next + 1, toks := requested fs.toks }
  if timedOut then { fs2 with late := true } else fs2.deliverNow fs.next

def pushLevel (fs : FS) (mc : Nat) : FS :=
  { fs with outer := fs.lvl :: fs.outer, lvl := { path := fs.path, mark := fs.mark, toks := fs.toks, mc := mc }, toks := [] }

def pubBranches (base lo : Nat) (path : List Nat) : Nat → List Str → List BFr
  | _, [] => []
  | i, n :: ns => BFr.pubEv (base + i) n (path ++ [lo + i]) :: pubBranches base lo path (i + 1) ns

/-- the delegate of a Parallel / Map state (or of the event that re-enters a Map state) publishes the events of
the branches `names` (slots from the number of branches that have ended on), then acknowledges; nothing to
launch: nothing happens -/
def launch (fs : FS) (t : Rat) (names : List Str) : FS :=
  if names.isEmpty then fs else
  let lo := fs.lvl.fins.length
  let fs1 := { fs with open_ := (pubBranches fs.next lo fs.lvl.path 0 names).reverse ++ fs.open_ }
  let fs2 := fs1.closeAck t
  { fs2 with next := fs.next + names.length, lvl := { fs.lvl with base := fs.next, lo := lo } }

/-- a branch starts: its event is delivered (the thread of the fan-out state has nothing left at this point) -/
def startBranch (fs : FS) : FS :=
  let slot := fs.lvl.fins.length
  let id := fs.lvl.base + (slot - fs.lvl.lo)
  ({ fs with rel := false, path := fs.lvl.path ++ [slot], mark := fs.steps.length, toks := [] }).deliverHold id

/-- a branch has ended: its last step is put aside -/
def endBranch (fs : FS) (t : Rat) (failed : Bool) : FS :=
  let fin : Tail :=
    { slot := fs.lvl.fins.length, t := t, frames := fs.open_,
      hold := if fs.rel then [] else fs.hold, now := if fs.rel then fs.hold ++ fs.now else fs.now,
      owed := fs.owed, failed := failed, seg := fs.steps.take (fs.steps.length - fs.mark), toks := fs.toks }
  { fs with lvl := { fs.lvl with fins := fs.lvl.fins ++ [fin] }, open_ := [], hold := [], now := [], owed := [],
            rel := false, toks := [] }

def finLater (a b : Tail) : Bool := a.t < b.t || (a.t == b.t && a.slot ≤ b.slot)

/-- the one that ends last (of those at the same instant: the highest slot) -/
def latest : List Tail → Option Tail
  | [] => none
  | f :: fs => match latest fs with
    | none => some f
    | some g => if finLater g f then some f else some g

/-- the one that failed first (of those at the same instant: the lowest slot) -/
def firstFailed : List Tail → Option Tail
  | [] => none
  | f :: fs => match firstFailed fs with
    | none => if f.failed then some f else none
    | some g => if f.failed && (f.t < g.t || f.t == g.t) then some f else some g

def stepShape (s : BStep) : Rat × List Nat := (s.t, s.frames.map BFr.kind)

def tailShape (f : Tail) : List (Rat × List Nat) × List Nat := (f.seg.map stepShape, f.frames.map BFr.kind)

/-- another branch ends at the instant `c` does and is not like it -/
def tied (c : Tail) (fins : List Tail) : Bool :=
  fins.any (fun f => f.slot != c.slot && f.t == c.t && decide (tailShape f ≠ tailShape c))

/-- the last step of a branch that does not go on with the join: what it acknowledges at once is acknowledged
(`extra`: what it publishes before) -/
def closeFin (f : Tail) (extra : List BFr) (steps : List BStep) : List BStep :=
  mkStep f.t (f.frames.reverse ++ extra ++ f.now.map .ack) true steps

/-- the last steps of the branches `fs` are closed, in order -/
def closeWith (ex : Tail → List BFr) : List Tail → List BStep → List BStep
  | [], steps => steps
  | f :: fs, steps => closeWith ex fs (closeFin f (ex f) steps)

/-- a branch whose last step is closed: it only holds -/
def holding (f : Tail) : Tail := { f with frames := [], now := [], owed := f.hold }

def popLevel (fs : FS) : FS :=
  match fs.outer with
  | [] => { fs with lvl := {} }
  | l :: ls => { fs with lvl := l, outer := ls }

def closeAll : List Tail → List BStep → List BStep := closeWith (fun _ => [])

/-- all branches have ended.  The step of the one that ends last (if the fan-out failed: of the one whose
failure is the fan-out's) goes on; the others' last steps are closed, in slot order; the thread of the fan-out
state now has to acknowledge what was held, in slot order, then what the step that goes on acknowledges anyway -/
def joinOn (fs : FS) (c : Tail) (tie : Bool) : FS :=
  let fins := fs.lvl.fins
  let same := fins.filter (fun f => f.slot == c.slot)
  let rest := fins.filter (fun f => !(f.slot == c.slot))
  popLevel
    { fs with steps := closeAll rest fs.steps,
              open_ := same.flatMap (·.frames) ++ fs.open_,
              hold := fs.hold ++ fins.flatMap (·.hold), now := fs.now ++ same.flatMap (·.now),
              owed := fs.owed ++ rest.flatMap (·.hold) ++ same.flatMap (·.owed),
              rel := true, path := fs.lvl.path, mark := fs.lvl.mark,
              tieJoin := fs.tieJoin || tie,
              toks := withBranches fs.lvl.toks fs.lvl.mc (fins.map (·.toks.reverse)),
              lvl := { fs.lvl with fins := [] } }

def join (fs : FS) (failed : Bool) : FS :=
  let fins := fs.lvl.fins
  let cur := fins.filter (fun f => fs.lvl.lo ≤ f.slot)
  let pick : Option Tail := match latest cur with | some f => some f | none => latest fins
  let co : Option Tail := if failed then (match firstFailed fins with | some f => some f | none => pick) else pick
  match co with
  | none => { popLevel fs with path := fs.lvl.path, mark := fs.lvl.mark, toks := withBranches fs.lvl.toks fs.lvl.mc [] }
  | some c => fs.joinOn c (tied c cur)

/-- … of a batch: the one in slot `c` publishes the re-entry event `rp` -/
def closeBatch (c : Nat) (rp : BFr) : List Tail → List BStep → List BStep :=
  closeWith (fun f => if f.slot = c then [rp] else [])

/-- a batch of a Map state with MaxConcurrency is complete (more are to come): the last of the batch publishes
the event that re-enters the Map state (`name`); every last step of the batch is closed; the re-entry event is
delivered; its delegate launches the next batch (`names`) -/
def batchOn (fs : FS) (t : Rat) (name : Str) (names : List Str) (c : Tail) (tie : Bool) : FS :=
  let fins := fs.lvl.fins
  let cur := fins.filter (fun f => fs.lvl.lo ≤ f.slot)
  let r := fs.next
  let fs1 : FS :=
    { fs with steps := closeBatch c.slot (.pubEv r name fs.lvl.path) cur fs.steps,
              lvl := { fs.lvl with fins := fins.map (fun f => if fs.lvl.lo ≤ f.slot then holding f else f) },
              next := r + 1, rel := false,
              tieJoin := fs.tieJoin || tie }
  ((fs1.deliverHold r).closeKeep t).launch t names

def batch (fs : FS) (t : Rat) (name : Str) (names : List Str) : FS :=
  let cur := fs.lvl.fins.filter (fun f => fs.lvl.lo ≤ f.slot)
  match latest cur with
  | none => fs
  | some c => fs.batchOn t name names c (tied c cur)

/-- the frames of all closed steps, oldest first -/
def frames (fs : FS) : List BFr := fs.steps.reverse.flatMap (·.frames)

end FS
end Asl
