/-
L2 — intrinsic functions: abstract syntax, printer, parser, evaluator.

The text of an intrinsic call (the value of a `.$` member that does not begin with `$`):

    call  ::= name ws '(' ws [ arg { ws ',' ws arg } ] ws ')'
    arg   ::= string | integer | 'null' | 'true' | 'false' | path | call
    string::= ''' { any char but ' and \  |  \'  |  \\  |  \c } '''
    path  ::= '$' { path character }
    name  ::= (letter | '_') { letter | digit | '_' | '.' }
    path character = anything but white space , ( )

A string literal denotes its body with `\'` read as `'` and `\\` as `\`; any other `\c`
denotes the two characters `\c` (so `\{` and `\}` reach `States.Format`, which reads them
as literal braces).  Here the property speaks (strings containing commas, parentheses,
escaped apostrophes, nested calls at any depth are parsed correctly), so the parser is the
property's reading, not the implementation's regular-expression tokeniser.

`States.Hash`, `States.MathRandom` and `States.UUID` are parameters (`Oracles`).
-/
import AslModel.Path
namespace Asl

inductive Arg where
  | str (s : Str)
  | int (n : Int)
  | null
  | bool (b : Bool)
  | path (p : Str)
  | call (f : Str) (args : List Arg)
  deriving Repr, Inhabited

/-! ### decimal integers (own printer: the round trip is proved about it) -/

def idigitChar (d : Nat) : Char := Char.ofNat (48 + d)

def natStr (n : Nat) : Str :=
  if _h : n < 10 then [idigitChar n] else natStr (n / 10) ++ [idigitChar (n % 10)]
termination_by n
decreasing_by omega

def intStr (n : Int) : Str :=
  if n < 0 then '-' :: natStr n.natAbs else natStr n.natAbs

/-- value of a digit string, most significant first -/
def digitsNat (s : Str) : Nat := s.foldl (fun acc c => acc * 10 + (c.toNat - 48)) 0

/-! ### printer -/

def escStr : Str → Str
  | [] => []
  | c :: cs =>
    if c = '\'' then '\\' :: '\'' :: escStr cs
    else if c = '\\' then '\\' :: '\\' :: escStr cs
    else c :: escStr cs

mutual
def printArg : Arg → Str
  | .str s => '\'' :: (escStr s ++ ['\''])
  | .int n => intStr n
  | .null => ['n', 'u', 'l', 'l']
  | .bool true => ['t', 'r', 'u', 'e']
  | .bool false => ['f', 'a', 'l', 's', 'e']
  | .path p => p
  | .call f args => f ++ ('(' :: (printArgs args ++ [')']))
def printArgs : List Arg → Str
  | [] => []
  | [a] => printArg a
  | a :: b :: rest => printArg a ++ (',' :: ' ' :: printArgs (b :: rest))
end

mutual
def Arg.size : Arg → Nat
  | .call _ args => 2 + Arg.sizeL args
  | _ => 1
def Arg.sizeL : List Arg → Nat
  | [] => 0
  | a :: as => a.size + 1 + Arg.sizeL as
end

/-! ### well-formed syntax trees (what the printer can print unambiguously) -/

def identStart (c : Char) : Bool := c.isAlpha || c = '_'
def identChar (c : Char) : Bool := c.isAlphanum || c = '_' || c = '.'
/-- a path token runs up to white space, a comma or a bracket -/
def pathChar (c : Char) : Bool := !(isWs c || c = ',' || c = '(' || c = ')')

def allIdent : Str → Bool
  | [] => true
  | c :: cs => identChar c && allIdent cs

def allPath : Str → Bool
  | [] => true
  | c :: cs => pathChar c && allPath cs

def identOk : Str → Bool
  | [] => false
  | c :: cs => identStart c && allIdent cs

def pathOk : Str → Bool
  | '$' :: cs => allPath cs
  | _ => false

mutual
def Arg.wf : Arg → Bool
  | .path p => pathOk p
  | .call f args => identOk f && Arg.wfL args
  | _ => true
def Arg.wfL : List Arg → Bool
  | [] => true
  | a :: as => a.wf && Arg.wfL as
end

/-! ### parser -/

/-- body of a string literal after the opening apostrophe; `esc` = the previous character
was an unconsumed backslash -/
def parseQ : Bool → Str → Option (Str × Str)
  | _, [] => none
  | false, c :: rest =>
    if c = '\'' then some ([], rest)
    else if c = '\\' then parseQ true rest
    else (parseQ false rest).map (fun p => (c :: p.1, p.2))
  | true, e :: rest =>
    if e = '\'' then (parseQ false rest).map (fun p => ('\'' :: p.1, p.2))
    else if e = '\\' then (parseQ false rest).map (fun p => ('\\' :: p.1, p.2))
    else (parseQ false rest).map (fun p => ('\\' :: e :: p.1, p.2))

def takeIdent : Str → Str × Str
  | [] => ([], [])
  | c :: cs => if identChar c then let (n, r) := takeIdent cs; (c :: n, r) else ([], c :: cs)

def takePath : Str → Str × Str
  | [] => ([], [])
  | c :: cs => if pathChar c then let (n, r) := takePath cs; (c :: n, r) else ([], c :: cs)

/-- what a keyword / identifier not followed by `(` denotes -/
def keyword (n : Str) : Option Arg :=
  if n = ['n', 'u', 'l', 'l'] then some .null
  else if n = ['t', 'r', 'u', 'e'] then some (.bool true)
  else if n = ['f', 'a', 'l', 's', 'e'] then some (.bool false)
  else none

/-- a token may be followed by white space, `,`, `)` or the end only -/
def tokenEnd : Str → Bool
  | [] => true
  | c :: _ => isWs c || c = ',' || c = ')'

def parseNat (cs : Str) : Option (Nat × Str) :=
  match takeDigits cs with
  | ([], _) => none
  | (ds, rest) => if tokenEnd rest then some (digitsNat ds, rest) else none

mutual
def parseArg : Nat → Str → Option (Arg × Str)
  | 0, _ => none
  | fuel + 1, cs =>
    match skipWs cs with
    | [] => none
    | c :: rest =>
      if c = '\'' then
        match parseQ false rest with
        | some (s, r) => some (.str s, r)
        | none => none
      else if c = '$' then
        match takePath rest with
        | (p, r) => if tokenEnd r then some (.path ('$' :: p), r) else none
      else if identStart c then
        match takeIdent rest with
        | (n, r) =>
          match skipWs r with
          | '(' :: r' =>
            match parseArgs fuel r' with
            | some (as, r'') => some (.call (c :: n) as, r'')
            | none => none
          | _ =>
            match keyword (c :: n) with
            | some a => if tokenEnd r then some (a, r) else none
            | none => none
      else if c = '-' then
        match parseNat rest with
        | some (n, r) => some (.int (-(n : Int)), r)
        | none => none
      else if c.isDigit then
        match parseNat (c :: rest) with
        | some (n, r) => some (.int (n : Int), r)
        | none => none
      else none
/-- arguments after `(` up to and including `)` -/
def parseArgs : Nat → Str → Option (List Arg × Str)
  | 0, _ => none
  | fuel + 1, cs =>
    match skipWs cs with
    | ')' :: r => some ([], r)
    | _ => parseArgs1 fuel cs
/-- a non-empty argument list up to and including `)` -/
def parseArgs1 : Nat → Str → Option (List Arg × Str)
  | 0, _ => none
  | fuel + 1, cs =>
    match parseArg fuel cs with
    | none => none
    | some (a, r) =>
      match skipWs r with
      | ',' :: r' =>
        match parseArgs1 fuel r' with
        | some (as, r'') => some (a :: as, r'')
        | none => none
      | ')' :: r' => some ([a], r')
      | _ => none
end

/-- the whole text must be one call (white space around it allowed) -/
def parseIntrinsic (cs : Str) : Option Arg :=
  match parseArg (2 * cs.length + 2) cs with
  | some (.call f as, rest) => if skipWs rest = [] then some (.call f as) else none
  | _ => none

/-! ### the functions -/

structure Oracles where
  /-- `hash alg data` = lower-case hex digest -/
  hash : Str → Str → Str
  /-- `rand lo hi seed?`, assumed `lo ≤ rand lo hi < hi` -/
  rand : Int → Int → Int
  uuid : Str

/-- JSON equality as Python compares decoded values: member order is irrelevant -/
def jeq (a b : Json) : Bool := decide (canon a = canon b)

/-- text substituted for a `{}` by `States.Format` (`str(x)` of the decoded value; for
arrays and objects the JSON text — the implementation prints Python's `repr` there, the
correspondence check does not compare those) -/
def argText : Json → Str
  | .str s => s
  | .num n => intStr n
  | .null => ['N', 'o', 'n', 'e']
  | .bool true => ['T', 'r', 'u', 'e']
  | .bool false => ['F', 'a', 'l', 's', 'e']
  | j => render j

inductive FSt where
  | plain   -- ordinary position
  | esc     -- just after an unconsumed backslash
  | opened  -- just after `{`
  deriving DecidableEq, Repr

/-- put a literal character in front of the first chunk -/
def consChunk (c : Char) : Option (List Str) → Option (List Str)
  | some (p :: ps) => some ((c :: p) :: ps)
  | _ => none

/-- `States.Format` template scan: the literal chunks around the `{}` place holders.
`\{` and `\}` are literal braces; a backslash before anything else is itself; a brace
that is neither escaped nor part of `{}` is an error. -/
def fmtSplit : FSt → Str → Option (List Str)
  | .plain, [] => some [[]]
  | .esc, [] => some [['\\']]
  | .opened, [] => none
  | .plain, c :: cs =>
    if c = '\\' then fmtSplit .esc cs
    else if c = '{' then fmtSplit .opened cs
    else if c = '}' then none
    else consChunk c (fmtSplit .plain cs)
  | .esc, c :: cs =>
    if c = '{' then consChunk '{' (fmtSplit .plain cs)
    else if c = '}' then consChunk '}' (fmtSplit .plain cs)
    else if c = '\\' then consChunk '\\' (fmtSplit .esc cs)
    else consChunk '\\' (consChunk c (fmtSplit .plain cs))
  | .opened, c :: cs =>
    if c = '}' then (fmtSplit .plain cs).map (fun l => [] :: l) else none

/-- interleave chunks `c₀ … cₙ` with the first `n` argument texts -/
def fmtJoin : List Str → List Str → Option Str
  | [], _ => none
  | [c], _ => some c
  | c :: d :: rest, a :: as => (fmtJoin (d :: rest) as).map (fun t => c ++ a ++ t)
  | _ :: _ :: _, [] => none

def fnFormat : List Json → Except PErr Json
  | .str t :: args =>
    match fmtSplit .plain t with
    | none => .error .intrinsic
    | some chunks =>
      match fmtJoin chunks (args.map argText) with
      | some s => .ok (.str s)
      | none => .error .intrinsic
  | _ => .error .intrinsic

/-- JSON forbids a number with a leading zero (`09`); the shared reader `parseJson` is
lenient there, so the text is screened first.  States: inside a string literal / after a
backslash in one / the previous character belongs to the same number. -/
def leadingZero : Bool → Bool → Bool → Str → Bool
  | _, _, _, [] => false
  | true, true, _, _ :: cs => leadingZero true false false cs
  | true, false, _, c :: cs =>
    if c = '\\' then leadingZero true true false cs
    else if c = '"' then leadingZero false false false cs
    else leadingZero true false false cs
  | false, _, prevNum, c :: cs =>
    if c = '"' then leadingZero true false false cs
    else if c = '0' && !prevNum && (match cs with | d :: _ => d.isDigit | [] => false) then true
    else leadingZero false false (c.isDigit || c = '.') cs

def fnStringToJson : List Json → Except PErr Json
  | [.str s] =>
    if leadingZero false false false s then .error .intrinsic
    else match parseJson s with
      | some v => .ok v
      | none => .error .intrinsic
  | _ => .error .intrinsic

def fnJsonToString : List Json → Except PErr Json
  | [v] => .ok (.str (render v))
  | _ => .error .intrinsic

def fnArray (args : List Json) : Except PErr Json := .ok (.arr args)

/-- consecutive chunks of `n` elements (`fuel ≥ length`) -/
def chunks (n : Nat) : Nat → List Json → List (List Json)
  | 0, _ => []
  | _ + 1, [] => []
  | fuel + 1, x :: xs => (x :: xs).take n :: chunks n fuel ((x :: xs).drop n)

def fnArrayPartition : List Json → Except PErr Json
  | [.arr xs, .num n] =>
    if n ≤ 0 then .error .intrinsic
    else .ok (.arr ((chunks n.toNat xs.length xs).map .arr))
  | _ => .error .intrinsic

def fnArrayContains : List Json → Except PErr Json
  | [.arr xs, v] => .ok (.bool (xs.any (fun x => jeq x v)))
  | _ => .error .intrinsic

/-- ascending: `x, x+s, …` while `≤ hi` -/
def rangeUp (hi s : Int) : Nat → Int → List Int
  | 0, _ => []
  | fuel + 1, x => if x ≤ hi then x :: rangeUp hi s fuel (x + s) else []

/-- descending: `x, x+s, …` (s < 0) while `≥ lo` -/
def rangeDown (lo s : Int) : Nat → Int → List Int
  | 0, _ => []
  | fuel + 1, x => if lo ≤ x then x :: rangeDown lo s fuel (x + s) else []

/-- the inclusive range, cut after 1001 elements (more than 1000 is an error) -/
def rangeList (a b s : Int) : List Int :=
  if 0 < s then rangeUp b s 1001 a else rangeDown b s 1001 a

def fnArrayRange : List Json → Except PErr Json
  | [.num a, .num b, .num s] =>
    if s = 0 then .error .intrinsic
    else if (rangeList a b s).length > 1000 then .error .intrinsic
    else .ok (.arr ((rangeList a b s).map .num))
  | _ => .error .intrinsic

def fnArrayGetItem : List Json → Except PErr Json
  | [.arr xs, .num i] =>
    if i < 0 then .error .intrinsic
    else match xs[i.toNat]? with
      | some v => .ok v
      | none => .error .intrinsic
  | _ => .error .intrinsic

def fnArrayLength : List Json → Except PErr Json
  | [.arr xs] => .ok (.num xs.length)
  | _ => .error .intrinsic

/-- first occurrences, in order — no hashing anywhere -/
def uniq : List Json → List Json
  | [] => []
  | x :: xs => x :: (uniq xs).filter (fun y => !jeq x y)

def fnArrayUnique : List Json → Except PErr Json
  | [.arr xs] => .ok (.arr (uniq xs))
  | _ => .error .intrinsic

/-! base64 over UTF-8 -/

def utf8 (c : Char) : List Nat :=
  let n := c.toNat
  if n < 128 then [n]
  else if n < 2048 then [192 + n / 64, 128 + n % 64]
  else if n < 65536 then [224 + n / 4096, 128 + n / 64 % 64, 128 + n % 64]
  else [240 + n / 262144, 128 + n / 4096 % 64, 128 + n / 64 % 64, 128 + n % 64]

def utf8Str : Str → List Nat
  | [] => []
  | c :: cs => utf8 c ++ utf8Str cs

def b64Char (n : Nat) : Char :=
  if n < 26 then Char.ofNat (65 + n)
  else if n < 52 then Char.ofNat (71 + n)
  else if n < 62 then Char.ofNat (n - 4)
  else if n = 62 then '+' else '/'

def b64Enc : List Nat → Str
  | [] => []
  | [a] => [b64Char (a / 4), b64Char (a % 4 * 16), '=', '=']
  | [a, b] => [b64Char (a / 4), b64Char (a % 4 * 16 + b / 16), b64Char (b % 16 * 4), '=']
  | a :: b :: c :: rest =>
    b64Char (a / 4) :: b64Char (a % 4 * 16 + b / 16) :: b64Char (b % 16 * 4 + c / 64)
      :: b64Char (c % 64) :: b64Enc rest

def b64Val (c : Char) : Option Nat :=
  let n := c.toNat
  if 65 ≤ n ∧ n ≤ 90 then some (n - 65)
  else if 97 ≤ n ∧ n ≤ 122 then some (n - 71)
  else if 48 ≤ n ∧ n ≤ 57 then some (n + 4)
  else if c = '+' then some 62
  else if c = '/' then some 63
  else none

/-- strict decoding: groups of four, padding only in the last group -/
def b64Dec : Str → Option (List Nat)
  | [] => some []
  | [a, b, '=', '='] =>
    match b64Val a, b64Val b with
    | some x, some y => some [x * 4 + y / 16]
    | _, _ => none
  | [a, b, c, '='] =>
    match b64Val a, b64Val b, b64Val c with
    | some x, some y, some z => some [x * 4 + y / 16, y % 16 * 16 + z / 4]
    | _, _, _ => none
  | a :: b :: c :: d :: rest =>
    match b64Val a, b64Val b, b64Val c, b64Val d with
    | some x, some y, some z, some w =>
      (b64Dec rest).map (fun t => (x * 4 + y / 16) :: (y % 16 * 16 + z / 4) :: (z % 4 * 64 + w) :: t)
    | _, _, _, _ => none
  | _ => none

def isCont (b : Nat) : Bool := 128 ≤ b && b < 192

/-- strict UTF-8 decoding (no overlong forms, no surrogates, ≤ U+10FFFF) -/
def utf8Dec : List Nat → Option Str
  | [] => some []
  | a :: rest =>
    if a < 128 then (utf8Dec rest).map (Char.ofNat a :: ·)
    else if a < 224 then
      match rest with
      | b :: r =>
        let n := (a - 192) * 64 + (b - 128)
        if 192 ≤ a ∧ isCont b ∧ 128 ≤ n then (utf8Dec r).map (Char.ofNat n :: ·) else none
      | _ => none
    else if a < 240 then
      match rest with
      | b :: c :: r =>
        let n := (a - 224) * 4096 + (b - 128) * 64 + (c - 128)
        if isCont b ∧ isCont c ∧ 2048 ≤ n ∧ ¬ (55296 ≤ n ∧ n < 57344) then
          (utf8Dec r).map (Char.ofNat n :: ·) else none
      | _ => none
    else if a < 248 then
      match rest with
      | b :: c :: d :: r =>
        let n := (a - 240) * 262144 + (b - 128) * 4096 + (c - 128) * 64 + (d - 128)
        if isCont b ∧ isCont c ∧ isCont d ∧ 65536 ≤ n ∧ n < 1114112 then
          (utf8Dec r).map (Char.ofNat n :: ·) else none
      | _ => none
    else none

def fnBase64Encode : List Json → Except PErr Json
  | [.str s] => .ok (.str (b64Enc (utf8Str s)))
  | _ => .error .intrinsic

def fnBase64Decode : List Json → Except PErr Json
  | [.str s] =>
    match b64Dec s with
    | some bytes => match utf8Dec bytes with
      | some t => .ok (.str t)
      | none => .error .intrinsic
    | none => .error .intrinsic
  | _ => .error .intrinsic

def hashAlgs : List Str :=
  ["MD5".toList, "SHA-1".toList, "SHA-256".toList, "SHA-384".toList, "SHA-512".toList]

def fnHash (o : Oracles) : List Json → Except PErr Json
  | [.str d, .str a] => if hashAlgs.contains a then .ok (.str (o.hash a d)) else .error .intrinsic
  | _ => .error .intrinsic

/-- `{**a, **b}` -/
def mergeObj (a b : List (Str × Json)) : List (Str × Json) :=
  b.foldl (fun acc kv => objSet acc kv.1 kv.2) a

def fnJsonMerge : List Json → Except PErr Json
  | [.obj a, .obj b, .bool false] => .ok (.obj (mergeObj a b))
  | _ => .error .intrinsic

def seedOk : Json → Bool
  | .arr _ => false
  | .obj _ => false
  | _ => true

def fnMathRandom (o : Oracles) : List Json → Except PErr Json
  | [.num a, .num b] => if a < b then .ok (.num (o.rand a b)) else .error .intrinsic
  | [.num a, .num b, s] =>
    if seedOk s ∧ a < b then .ok (.num (o.rand a b)) else .error .intrinsic
  | _ => .error .intrinsic

def fnMathAdd : List Json → Except PErr Json
  | [.num a, .num b] => .ok (.num (a + b))
  | _ => .error .intrinsic

def consHead (c : Char) : List Str → List Str
  | [] => [[c]]
  | p :: ps => (c :: p) :: ps

/-- split at every character that is one of the separators; empty pieces are kept -/
def splitOn (seps : Str) : Str → List Str
  | [] => [[]]
  | c :: cs => if seps.contains c then [] :: splitOn seps cs else consHead c (splitOn seps cs)

def fnStringSplit : List Json → Except PErr Json
  | [.str d, .str seps] =>
    if seps = [] then .error .intrinsic else .ok (.arr ((splitOn seps d).map .str))
  | _ => .error .intrinsic

def fnUUID (o : Oracles) : List Json → Except PErr Json
  | [] => .ok (.str o.uuid)
  | _ => .error .intrinsic

/-- the 18 functions, by name -/
def applyFn (o : Oracles) (f : Str) (vs : List Json) : Except PErr Json :=
  if f = "States.Format".toList then fnFormat vs
  else if f = "States.StringToJson".toList then fnStringToJson vs
  else if f = "States.JsonToString".toList then fnJsonToString vs
  else if f = "States.Array".toList then fnArray vs
  else if f = "States.ArrayPartition".toList then fnArrayPartition vs
  else if f = "States.ArrayContains".toList then fnArrayContains vs
  else if f = "States.ArrayRange".toList then fnArrayRange vs
  else if f = "States.ArrayGetItem".toList then fnArrayGetItem vs
  else if f = "States.ArrayLength".toList then fnArrayLength vs
  else if f = "States.ArrayUnique".toList then fnArrayUnique vs
  else if f = "States.Base64Encode".toList then fnBase64Encode vs
  else if f = "States.Base64Decode".toList then fnBase64Decode vs
  else if f = "States.Hash".toList then fnHash o vs
  else if f = "States.JsonMerge".toList then fnJsonMerge vs
  else if f = "States.MathRandom".toList then fnMathRandom o vs
  else if f = "States.MathAdd".toList then fnMathAdd vs
  else if f = "States.StringSplit".toList then fnStringSplit vs
  else if f = "States.UUID".toList then fnUUID o vs
  else .error .intrinsic

/-! ### evaluation -/

mutual
/-- arguments are evaluated left to right, the first failure is the call's failure -/
def evalArg (o : Oracles) (input ctx : Json) : Arg → Except PErr Json
  | .str s => .ok (.str s)
  | .int n => .ok (.num n)
  | .null => .ok .null
  | .bool b => .ok (.bool b)
  | .path p => applyPath input ctx (some p)
  | .call f args =>
    match evalArgs o input ctx args with
    | .ok vs => applyFn o f vs
    | .error e => .error e
def evalArgs (o : Oracles) (input ctx : Json) : List Arg → Except PErr (List Json)
  | [] => .ok []
  | a :: as =>
    match evalArg o input ctx a with
    | .error e => .error e
    | .ok v =>
      match evalArgs o input ctx as with
      | .ok vs => .ok (v :: vs)
      | .error e => .error e
end

/-- the value of a `.$` member whose text does not begin with `$` -/
def evalIntrinsicText (o : Oracles) (input ctx : Json) (text : Str) : Except PErr Json :=
  match parseIntrinsic text with
  | some a => evalArg o input ctx a
  | none => .error .intrinsic

end Asl
