/-
L2 — Choice rules: the 39 comparison operators, And/Or/Not rule trees, the `*` glob of
StringMatches, first-match / Default / States.NoChoiceMatched.

The 39 operators are
  * 16 value comparisons `Cmp`: BooleanEquals, {Numeric,String,Timestamp} ×
    {Equals, LessThan, GreaterThan, LessThanEquals, GreaterThanEquals}
    — each with a `…Path` variant (32), plus StringMatches (33);
  * 6 type tests `IsOp`: IsPresent, IsNull, IsNumeric, IsString, IsBoolean, IsTimestamp.

Reading of the property: a value comparison matches exactly when the Variable exists,
both operands have the operator's type and the relation holds; a type test other than
IsPresent on a missing Variable matches neither `true` nor `false` (that is what the
code's own IsBoolean does); `\*` is a literal star and `\\` a literal backslash, any
other backslash is an ordinary character (the repository's own test relies on `\t`
matching backslash-t), nothing else is a metacharacter.
-/
import AslModel.Path
import AslModel.Timestamp
namespace Asl

inductive Rel where
  | eq | lt | gt | le | ge
  deriving Repr, DecidableEq, Inhabited

inductive Cmp where
  | boolEq
  | num (r : Rel)
  | str (r : Rel)
  | ts (r : Rel)
  | strMatches
  deriving Repr, DecidableEq, Inhabited

inductive IsOp where
  | present | null | numeric | string | boolean | timestamp
  deriving Repr, DecidableEq, Inhabited

inductive Rule where
  /-- `{"Variable": var, "<Op>": const}` -/
  | cmp (c : Cmp) (var : Str) (const : Json)
  /-- `{"Variable": var, "<Op>Path": path}` -/
  | cmpPath (c : Cmp) (var : Str) (path : Str)
  /-- `{"Variable": var, "Is<T>": b}` -/
  | is (t : IsOp) (var : Str) (b : Bool)
  | and (rs : List Rule)
  | or (rs : List Rule)
  | not (r : Rule)
  deriving Repr, Inhabited

/-! ### orders -/

/-- strict lexicographic order of strings by code point (Python's `str.__lt__`) -/
def strLt : Str → Str → Bool
  | [], [] => false
  | [], _ :: _ => true
  | _ :: _, [] => false
  | c :: cs, d :: ds =>
    if c.toNat < d.toNat then true
    else if c = d then strLt cs ds
    else false

def Rel.evalInt : Rel → Int → Int → Bool
  | .eq, a, b => decide (a = b)
  | .lt, a, b => decide (a < b)
  | .gt, a, b => decide (b < a)
  | .le, a, b => decide (a ≤ b)
  | .ge, a, b => decide (b ≤ a)

def Rel.evalStr : Rel → Str → Str → Bool
  | .eq, a, b => decide (a = b)
  | .lt, a, b => strLt a b
  | .gt, a, b => strLt b a
  | .le, a, b => strLt a b || decide (a = b)
  | .ge, a, b => strLt b a || decide (a = b)

/-! ### StringMatches -/

/-- does `f` hold of some suffix of `s` (the candidates for what follows a `*`) -/
def anySuffix (f : Str → Bool) : Str → Bool
  | [] => f []
  | c :: cs => f (c :: cs) || anySuffix f cs

/-- `glob p s`: does string `s` match pattern `p`?  `*` matches any run of characters,
`\*` a star, `\\` a backslash; every other character (a backslash before anything else
included) matches itself. -/
def glob : Str → Str → Bool
  | [], s => s.isEmpty
  | [c], s =>
    if c = '*' then anySuffix (glob []) s
    else
      match s with
      | d :: s' => decide (d = c) && glob [] s'
      | [] => false
  | c :: e :: p, s =>
    if c = '*' then anySuffix (glob (e :: p)) s
    else if c = '\\' ∧ (e = '*' ∨ e = '\\') then
      match s with
      | d :: s' => decide (d = e) && glob p s'
      | [] => false
    else
      match s with
      | d :: s' => decide (d = c) && glob (e :: p) s'
      | [] => false

/-! ### comparisons -/

/-- one value comparison on two JSON values -/
def evalCmp : Cmp → Json → Json → Bool
  | .boolEq, .bool a, .bool b => a == b
  | .num r, .num a, .num b => r.evalInt a b
  | .str r, .str a, .str b => r.evalStr a b
  | .ts r, .str a, .str b =>
    match parseTs a, parseTs b with
    | some ta, some tb => r.evalInt ta.instant tb.instant
    | _, _ => false
  | .strMatches, .str s, .str p => glob p s
  | _, _, _ => false

/-- the type facts the `Is…` operators (other than IsPresent) report -/
def isType : IsOp → Json → Bool
  | .present, _ => true
  | .null, .null => true
  | .numeric, .num _ => true
  | .string, .str _ => true
  | .boolean, .bool _ => true
  | .timestamp, .str s => (parseTs s).isSome
  | _, _ => false

/-- the data a rule is evaluated against: the state's effective input and the context -/
structure CEnv where
  input : Json
  ctx : Json
  deriving Repr, Inhabited

/-- the value a Path selects, `none` when it selects nothing -/
def CEnv.lookup (e : CEnv) (path : Str) : Option Json :=
  match applyPath e.input e.ctx (some path) with
  | .ok v => some v
  | .error _ => none

mutual
def evalRule (e : CEnv) : Rule → Bool
  | .cmp c var k =>
    match e.lookup var with
    | some x => evalCmp c x k
    | none => false
  | .cmpPath c var p =>
    match e.lookup var, e.lookup p with
    | some x, some k => evalCmp c x k
    | _, _ => false
  | .is .present var b => (e.lookup var).isSome == b
  | .is t var b =>
    match e.lookup var with
    | some x => isType t x == b
    | none => false
  | .and rs => evalAll e rs
  | .or rs => evalAny e rs
  | .not r => !evalRule e r
def evalAll (e : CEnv) : List Rule → Bool
  | [] => true
  | r :: rs => evalRule e r && evalAll e rs
def evalAny (e : CEnv) : List Rule → Bool
  | [] => false
  | r :: rs => evalRule e r || evalAny e rs
end

/-! ### the Choice state -/

/-- `Next` of the first rule that matches, in array order -/
def firstMatch (e : CEnv) : List (Rule × Str) → Option Str
  | [] => none
  | (r, next) :: rest => if evalRule e r then some next else firstMatch e rest

inductive ChoiceErr where
  | noChoiceMatched
  deriving Repr, DecidableEq, Inhabited

def ChoiceErr.name : ChoiceErr → String
  | .noChoiceMatched => "States.NoChoiceMatched"

/-- the transition a Choice state takes -/
def choose (e : CEnv) (choices : List (Rule × Str)) (default : Option Str) : Except ChoiceErr Str :=
  match firstMatch e choices with
  | some n => .ok n
  | none =>
    match default with
    | some d => .ok d
    | none => .error .noChoiceMatched

/-! ### the declarative reading of the property (independent of the evaluator)

Nothing below is executed; the theorems of `Proofs/C14.lean` relate it to `evalRule`. -/

/-- `*` wildcard with backslash escape, no other metacharacter -/
inductive GlobMatch : Str → Str → Prop where
  /-- the empty pattern matches the empty string -/
  | nil : GlobMatch [] []
  /-- `*` matches any run of characters `s` -/
  | star (p s t : Str) : GlobMatch p t → GlobMatch ('*' :: p) (s ++ t)
  /-- `\*` matches a star -/
  | escStar (p s : Str) : GlobMatch p s → GlobMatch ('\\' :: '*' :: p) ('*' :: s)
  /-- `\\` matches one backslash -/
  | escBackslash (p s : Str) : GlobMatch p s → GlobMatch ('\\' :: '\\' :: p) ('\\' :: s)
  /-- any other character (a backslash that escapes nothing included) matches itself -/
  | lit (c : Char) (p s : Str) : c ≠ '*' →
      ¬ (c = '\\' ∧ ∃ e p', p = e :: p' ∧ (e = '*' ∨ e = '\\')) →
      GlobMatch p s → GlobMatch (c :: p) (c :: s)

/-- strict lexicographic order by code point -/
inductive CodeLt : Str → Str → Prop where
  /-- a proper prefix comes first -/
  | nil (c : Char) (cs : Str) : CodeLt [] (c :: cs)
  /-- the first differing character decides, by code point -/
  | head (c d : Char) (cs ds : Str) : c.toNat < d.toNat → CodeLt (c :: cs) (d :: ds)
  | tail (c : Char) (cs ds : Str) : CodeLt cs ds → CodeLt (c :: cs) (c :: ds)

/-- the five relations over a strict order -/
def Rel.Holds {α : Type} (r : Rel) (lt : α → α → Prop) (a b : α) : Prop :=
  match r with
  | .eq => a = b
  | .lt => lt a b
  | .gt => lt b a
  | .le => lt a b ∨ a = b
  | .ge => lt b a ∨ a = b

/-- `Matches c x k`: value `x` and constant `k` both have the type comparison `c` is defined
for, and the relation holds — numbers numerically, strings by code point, booleans by
identity, timestamps by the instant they denote, StringMatches by `GlobMatch`. -/
inductive Matches : Cmp → Json → Json → Prop where
  | boolEq (a : Bool) : Matches .boolEq (.bool a) (.bool a)
  | num (r : Rel) (a b : Int) : r.Holds (· < ·) a b → Matches (.num r) (.num a) (.num b)
  | str (r : Rel) (a b : Str) : r.Holds CodeLt a b → Matches (.str r) (.str a) (.str b)
  | ts (r : Rel) (a b : Str) (ta tb : Ts) : parseTs a = some ta → parseTs b = some tb →
      r.Holds (· < ·) ta.instant tb.instant → Matches (.ts r) (.str a) (.str b)
  | glob (p s : Str) : GlobMatch p s → Matches .strMatches (.str s) (.str p)

/-- the JSON type a comparison is defined for -/
def HasType : Cmp → Json → Prop
  | .boolEq, x => ∃ b, x = .bool b
  | .num _, x => ∃ n, x = .num n
  | .str _, x => ∃ s, x = .str s
  | .ts _, x => ∃ s t, x = .str s ∧ parseTs s = some t
  | .strMatches, x => ∃ s, x = .str s

/-- the type fact an `Is…` operator reports about an existing value -/
def TypeFact : IsOp → Json → Prop
  | .present, _ => True
  | .null, x => x = .null
  | .numeric, x => ∃ n, x = .num n
  | .string, x => ∃ s, x = .str s
  | .boolean, x => ∃ b, x = .bool b
  | .timestamp, x => ∃ s t, x = .str s ∧ parseTs s = some t

end Asl
