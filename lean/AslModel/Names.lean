/-
L2 — names and ARNs (property C17).

* `validName`      — the API's name validator (`valid_name` in rest_api_asyncio.py / rest_api.py):
                     a string of 1..80 characters none of which is in `forbiddenNameChars`.
                     The property speaks here ("names that would break the round trips are
                     refused"), so the model is the property's reading: a forbidden character
                     *anywhere* in the name refuses it.
* `createArn` / `parseArn` — `arn.py`, copied from the code: six ':'-separated fields, the sixth
                     optionally `type:resource` (written) / `type/resource` or `type:resource` (read).
* `mintStateMachineArn`, `mintExecutionArn` — how CreateStateMachine / StartExecution /
                     `StateEngine.start_execution` / the child-execution service integration mint ARNs.
* `splitDerive`    — how the engine re-derives (state machine ARN, execution name) from an
                     execution ARN: split at the last ':', parse the prefix, retag it `stateMachine`.
* `derive`         — every site that needs the pair, and where it gets it from.

Strings are `List Char`; no Mathlib.
-/
import AslModel.Json
namespace Asl

/-! ### character scanners -/

/-- split at the first occurrence of `c`: Python `s.split(c, 1)` when `c` occurs -/
def breakAt (c : Char) : Str → Option (Str × Str)
  | [] => none
  | x :: xs =>
    if x = c then some ([], xs)
    else match breakAt c xs with
      | some (a, b) => some (x :: a, b)
      | none => none

/-- split at the last occurrence of `c`: Python `s.rpartition(c)` when `c` occurs -/
def rbreakAt (c : Char) (s : Str) : Option (Str × Str) :=
  match breakAt c s.reverse with
  | some (a, b) => some (b.reverse, a.reverse)
  | none => none

/-! ### the name validator -/

/-- the characters of the validator's class `[ <>{}[\]?*"#%\\^|~`$&,;:/]` -/
def forbiddenNameChars : List Char :=
  [' ', '<', '>', '{', '}', '[', ']', '?', '*', '"', '#', '%', '\\', '^', '|', '~', '`', '$',
   '&', ',', ';', ':', '/']

def maxNameLength : Nat := 80

def nameCharOk (c : Char) : Bool := !(forbiddenNameChars.contains c)

/-- `valid_name` on a string (non-strings are refused before this is reached) -/
def validName (s : Str) : Bool :=
  decide (0 < s.length) && decide (s.length ≤ maxNameLength) && s.all nameCharOk

/-! ### ARNs -/

structure Arn where
  arn : Str
  partition : Str
  service : Str
  region : Str
  account : Str
  resourceType : Option Str
  resource : Str
  deriving DecidableEq, Repr

/-- the sixth field as `create_arn` writes it (`if resource_type:` — `None` and `""` are both falsy) -/
def resourceText (t : Option Str) (r : Str) : Str :=
  match t with
  | none => r
  | some [] => r
  | some (c :: cs) => (c :: cs) ++ ':' :: r

/-- `create_arn(**parts)` -/
def createArn (p : Arn) : Str :=
  p.arn ++ ':' :: (p.partition ++ ':' :: (p.service ++ ':' :: (p.region ++ ':' ::
    (p.account ++ ':' :: resourceText p.resourceType p.resource))))

/-- how `parse_arn` splits the sixth field: at the first '/', else at the first ':' -/
def splitResource (r : Str) : Option Str × Str :=
  match breakAt '/' r with
  | some (t, x) => (some t, x)
  | none =>
    match breakAt ':' r with
    | some (t, x) => (some t, x)
    | none => (none, r)

/-- `parse_arn`: `arn.split(":", 5)`; fewer than six fields is an `IndexError` (`none`) -/
def parseArn (s : Str) : Option Arn :=
  match breakAt ':' s with
  | none => none
  | some (a, s1) =>
  match breakAt ':' s1 with
  | none => none
  | some (p, s2) =>
  match breakAt ':' s2 with
  | none => none
  | some (sv, s3) =>
  match breakAt ':' s3 with
  | none => none
  | some (rg, s4) =>
  match breakAt ':' s4 with
  | none => none
  | some (ac, r) =>
    some ⟨a, p, sv, rg, ac, (splitResource r).1, (splitResource r).2⟩

/-! ### minting -/

def sArn : Str := ['a', 'r', 'n']
def sAws : Str := ['a', 'w', 's']
def sStates : Str := ['s', 't', 'a', 't', 'e', 's']
def sStateMachine : Str := ['s', 't', 'a', 't', 'e', 'M', 'a', 'c', 'h', 'i', 'n', 'e']
def sExecution : Str := ['e', 'x', 'e', 'c', 'u', 't', 'i', 'o', 'n']

/-- CreateStateMachine: `create_arn(service="states", region=…, account=…,
resource_type="stateMachine", resource=name)` -/
def mintStateMachineArn (region account name : Str) : Str :=
  createArn ⟨sArn, sAws, sStates, region, account, some sStateMachine, name⟩

/-- StartExecution / StartSyncExecution / `start_execution` / child execution:
`create_arn(service="states", region=arn["region"], account=arn["account"],
resource_type="execution", resource=arn["resource"] + ":" + name)` with `arn = parse_arn(smArn)` -/
def mintExecutionArn (smArn name : Str) : Option Str :=
  match parseArn smArn with
  | none => none
  | some a => some (createArn ⟨sArn, sAws, sStates, a.region, a.account, some sExecution,
      a.resource ++ ':' :: name⟩)

/-- the sites that mint an execution ARN -/
inductive MintSite where
  | apiStartExecution | apiStartSyncExecution | engineStartExecution | childExecution
  deriving DecidableEq, Repr

def mint (_site : MintSite) (smArn name : Str) : Option Str := mintExecutionArn smArn name

/-! ### re-deriving the state machine from the execution ARN -/

/-- `split = execution_arn.rpartition(':'); arn = parse_arn(split[0]);
arn["resource_type"] = "stateMachine"; (create_arn(arn), split[2])`.
Without any ':' the prefix is empty and `parse_arn("")` raises (`none`). -/
def splitDerive (execArn : Str) : Option (Str × Str) :=
  match rbreakAt ':' execArn with
  | none => none
  | some (pre, name) =>
    match parseArn pre with
    | none => none
    | some a => some (createArn { a with resourceType := some sStateMachine }, name)

/-- what an event's context object carries: `$$.StateMachine.Id`, `$$.Execution.Name`,
`$$.Execution.Id` -/
structure ExecCtx where
  smArn : Str
  name : Str
  execArn : Str
  deriving DecidableEq, Repr

/-- every place that needs the (state machine ARN, execution name) pair -/
inductive DeriveSite where
  /-- `start_execution`: the record stored for DescribeExecution -/
  | recordCreation
  /-- `start_execution`: the RUNNING notification (its subject and detail) -/
  | startNotification
  /-- `end_execution` of an EXPRESS execution: synthesised detail and terminal notification -/
  | expressDetail
  /-- `update_execution_history` when the record is missing after a restart -/
  | restartRecovery
  /-- terminal notification of a STANDARD execution whose record was recovered -/
  | recoveredNotification
  /-- `check_for_expired_branch_results`: which state machine is looked up -/
  | timeoutBackstop
  deriving DecidableEq, Repr

def derive : DeriveSite → ExecCtx → Option (Str × Str)
  | .recordCreation, c => some (c.smArn, c.name)
  | .startNotification, c => some (c.smArn, c.name)
  | .expressDetail, c => splitDerive c.execArn
  | .restartRecovery, c => splitDerive c.execArn
  | .recoveredNotification, c => splitDerive c.execArn
  | .timeoutBackstop, c => splitDerive c.execArn

/-- `broadcast_notification`: the `account` and `region` of the event are read from the
execution ARN -/
def notifyAccountRegion (execArn : Str) : Option (Str × Str) :=
  match parseArn execArn with
  | none => none
  | some a => some (a.account, a.region)

end Asl
