/-
L6 — reference model of the state-machine / execution API (property C10).

The API is a keyed store: two association maps ARN ↦ record (`machines`, `executions`)
and nine actions.  `step` is *atomic by construction* (that is the property's reading):
a handler first validates everything (`Except Str …`, the error is the documented
`__type`) and only a successful validation commits.  Where the property is silent the
model copies `rest_api_asyncio.py` / `rest_api.py`: order of the checks, Python
truthiness of "missing" arguments, the regular expressions of the validators
(including what `.` and `$` do with a line feed), `parse_arn`, the default of `type`,
`level`, `input`, the treatment of an unknown `statusFilter` as "no filter", the
`definition` being stored decoded and described back as `json.dumps` text.

Inputs that are not the model's to decide are parameters of a step (`Env`): the wall
clock, the uuid that names an unnamed execution, the statelint verdict on the decoded
definition (C18 covers statelint).  `Cfg.logging` distinguishes the asyncio front end
(handles `loggingConfiguration` and statelint) from the blocking one (neither).

`Response.internalError` exists and the model never produces it (`no_internal_error`);
the implementation's answers are compared with the model's.
-/
import AslModel.JsonText
namespace Asl.Api
open Asl

/-! ### keyed store -/

def lookup {α : Type} : List (Str × α) → Str → Option α
  | [], _ => none
  | (k', v) :: rest, k => if k' = k then some v else lookup rest k

/-- `d[k] = v`: replace in place or append (Python dict order) -/
def insert {α : Type} : List (Str × α) → Str → α → List (Str × α)
  | [], k, v => [(k, v)]
  | (k', v') :: rest, k, v => if k' = k then (k', v) :: rest else (k', v') :: insert rest k v

/-- `del d[k]` -/
def erase {α : Type} : List (Str × α) → Str → List (Str × α)
  | [], _ => []
  | (k', v') :: rest, k => if k' = k then erase rest k else (k', v') :: erase rest k

def keys {α : Type} (m : List (Str × α)) : List Str := m.map (·.1)

/-! ### records -/

/-- a DescribeStateMachine-shaped record; its ARN is the store key, `status` is always ACTIVE -/
structure Machine where
  name : Str
  roleArn : Str
  definition : Json
  logging : Option Json
  type : Str
  creationDate : Int
  updateDate : Int
  deriving DecidableEq, Inhabited

/-- a DescribeExecution-shaped record (written by the engine); its ARN is the store key -/
structure Exec where
  name : Str
  stateMachineArn : Str
  status : Str
  input : Json
  output : Json
  startDate : Int
  stopDate : Json
  /-- further members the engine adds (`error`, `cause` of a failed execution) -/
  extra : List (Str × Json)
  deriving DecidableEq, Inhabited

structure State where
  machines : List (Str × Machine)
  executions : List (Str × Exec)
  deriving DecidableEq, Inhabited

def State.empty : State := ⟨[], []⟩

structure Cfg where
  region : Str
  validateAsl : Bool
  /-- asyncio front end: `loggingConfiguration` and statelint are handled -/
  logging : Bool

structure Env where
  now : Int
  fresh : Str
  lintBad : Bool

structure Call where
  action : Str
  /-- `none`: the request body was not JSON text -/
  params : Option Json

inductive Response where
  | ok (body : Json)
  | okEmpty
  | error (type : Str)
  | invalidAction
  | internalError
  deriving DecidableEq, Inhabited

def Response.isError : Response → Bool
  | .ok _ => false
  | .okEmpty => false
  | _ => true

def Response.status : Response → Nat
  | .ok _ => 200
  | .okEmpty => 200
  | .error _ => 400
  | .invalidAction => 400
  | .internalError => 500

/-! ### JSON shapes -/

def S (s : String) : Str := s.toList
def jstr (s : String) : Json := .str s.toList

def Machine.toJson (arn : Str) (m : Machine) : Json :=
  .obj ([(S "creationDate", .num m.creationDate), (S "definition", m.definition)]
    ++ (match m.logging with
        | some l => [(S "loggingConfiguration", l)]
        | none => [])
    ++ [(S "name", .str m.name), (S "roleArn", .str m.roleArn), (S "stateMachineArn", .str arn),
        (S "updateDate", .num m.updateDate), (S "status", jstr "ACTIVE"), (S "type", .str m.type)])

/-- DescribeStateMachine: the record with `definition` as `json.dumps` text -/
def Machine.describe (arn : Str) (m : Machine) : Json :=
  Machine.toJson arn { m with definition := .str (render m.definition) }

def Machine.summary (arn : Str) (m : Machine) : Json :=
  .obj [(S "creationDate", .num m.creationDate), (S "name", .str m.name),
        (S "stateMachineArn", .str arn), (S "type", .str m.type)]

def Machine.forExecution (arn : Str) (m : Machine) : Json :=
  .obj [(S "definition", .str (render m.definition)), (S "name", .str m.name),
        (S "roleArn", .str m.roleArn), (S "stateMachineArn", .str arn),
        (S "updateDate", .num m.updateDate)]

def Exec.toJson (arn : Str) (e : Exec) : Json :=
  .obj ([(S "executionArn", .str arn), (S "input", e.input), (S "name", .str e.name),
        (S "output", e.output), (S "startDate", .num e.startDate),
        (S "stateMachineArn", .str e.stateMachineArn), (S "status", .str e.status),
        (S "stopDate", e.stopDate)] ++ e.extra)

def Exec.summary (arn : Str) (e : Exec) : Json :=
  .obj [(S "executionArn", .str arn), (S "name", .str e.name), (S "startDate", .num e.startDate),
        (S "stateMachineArn", .str e.stateMachineArn), (S "status", .str e.status),
        (S "stopDate", e.stopDate)]

/-! ### validators (the regular expressions of rest_api*.py, `re.search`, no flags) -/

/-- where `$` may sit: a single trailing line feed is not part of the matched text -/
def stripNl (s : Str) : Str :=
  match s.reverse with
  | c :: r => if c = '\n' then r.reverse else s
  | [] => s

def hasNl (s : Str) : Bool := s.any (· = '\n')

def forbiddenNameChars : Str := " <>{}[]?*\"#%\\^|~`$&,;:/".toList

/-- `re.search(r"[ <>{}[\]?*\"#%\\^|~`$&,;:/]", name)`: a forbidden character anywhere in the name
(the earlier pattern `^.*[…].*$` did not look past a line feed; repaired by the C17-F1 fix) -/
def nameRegex (s : Str) : Bool := s.any (fun c => forbiddenNameChars.contains c)

def validName (s : Str) : Bool := 0 < s.length && s.length < 81 && !nameRegex s

def isDig (c : Char) : Bool := '0' ≤ c && c ≤ '9'

def spanDigits : Str → Str × Str
  | [] => ([], [])
  | c :: cs => if isDig c then ((spanDigits cs).1.cons c, (spanDigits cs).2) else ([], c :: cs)

/-- `^arn:aws:iam::[0-9]+:role\/.+$` → the account digits -/
def roleAccount (s : Str) : Option Str :=
  let b := stripNl s
  if hasNl b then none else
  match startsWith b (S "arn:aws:iam::") with
  | none => none
  | some r =>
    let (ds, rest) := spanDigits r
    if ds.isEmpty then none else
    match startsWith rest (S ":role/") with
    | some (_ :: _) => some ds
    | _ => none

def validRoleArn (s : Str) : Bool :=
  0 < s.length && s.length < 257 && (roleAccount s).isSome

/-- after a `:` — `[0-9]+:<kind>:.+` -/
def tailOk (kind : Str) (cs : Str) : Bool :=
  let (ds, rest) := spanDigits cs
  !ds.isEmpty &&
  match startsWith rest (':' :: (kind ++ [':'])) with
  | some (_ :: _) => true
  | _ => false

def scanTail (kind : Str) : Str → Bool
  | [] => false
  | c :: cs => (c = ':' && tailOk kind cs) || scanTail kind cs

/-- `^arn:aws:states:.+:[0-9]+:<kind>:.+$` -/
def resRegex (kind : Str) (s : Str) : Bool :=
  let b := stripNl s
  !hasNl b &&
  match startsWith b (S "arn:aws:states:") with
  | some (_ :: cs) => scanTail kind cs
  | _ => false

def validResArn (kind : Str) (s : Str) : Bool :=
  0 < s.length && s.length < 257 && resRegex kind s

def validSmArn (s : Str) : Bool := validResArn (S "stateMachine") s
def validExecArn (s : Str) : Bool := validResArn (S "execution") s

/-! ### arn.py -/

/-- `s.split(":", n)` -/
def splitColon : Nat → Str → List Str
  | 0, s => [s]
  | n + 1, s =>
    match s.span (· ≠ ':') with
    | (a, []) => [a]
    | (a, _ :: rest) => a :: splitColon n rest

def splitAt1 (sep : Char) (s : Str) : Option (Str × Str) :=
  match s.span (· ≠ sep) with
  | (_, []) => none
  | (a, _ :: rest) => some (a, rest)

/-- `parse_arn`: (region, account, resource) -/
def parseArn (s : Str) : Option (Str × Str × Str) :=
  match splitColon 5 s with
  | [_, _, _, region, account, resource] =>
    let res := match splitAt1 '/' resource with
      | some (_, r) => r
      | none => match splitAt1 ':' resource with
        | some (_, r) => r
        | none => resource
    some (region, account, res)
  | _ => none

def smArnOf (region account name : Str) : Str :=
  S "arn:aws:states:" ++ region ++ (':' :: account) ++ S ":stateMachine:" ++ name

def execArnOf (region account resource name : Str) : Str :=
  S "arn:aws:states:" ++ region ++ (':' :: account) ++ S ":execution:" ++ resource ++ (':' :: name)

/-! ### argument handling -/

def maxDefinitionLength : Nat := 1048576
def maxDataLength : Nat := 262144

abbrev Params := List (Str × Json)

def arg (p : Params) (k : String) : Option Json := objGet p k.toList

def truthyArg : Option Json → Bool
  | some j => j.truthy
  | none => false

/-- a required ARN argument: falsy → MissingRequiredParameter, not matching → InvalidArn -/
def arnArg (valid : Str → Bool) (a : Option Json) : Except Str Str :=
  if !truthyArg a then .error (S "MissingRequiredParameter") else
  match a with
  | some (.str s) => if valid s then .ok s else .error (S "InvalidArn")
  | _ => .error (S "InvalidArn")

/-- decode a `definition` argument that is present and non-empty -/
def decodeDefinition (cfg : Cfg) (env : Env) (j : Json) : Except Str Json :=
  match j with
  | .str t =>
    if t.length = 0 || t.length > maxDefinitionLength then .error (S "InvalidDefinition") else
    match parseJson t with
    | none => .error (S "InvalidDefinition")
    | some d =>
      if cfg.logging && cfg.validateAsl && env.lintBad then .error (S "InvalidDefinition")
      else .ok d
  | _ => .error (S "InvalidDefinition")

def logLevels : List Str := [S "OFF", S "ALL", S "ERROR", S "FATAL"]

def checkLogging (lc : Json) : Except Str Json :=
  match lc with
  | .obj kvs =>
    let level := (objGet kvs (S "level")).getD (jstr "OFF")
    let kvs' := objSet kvs (S "level") level
    match level with
    | .str l =>
      if !logLevels.contains l then .error (S "InvalidLoggingConfiguration")
      else if l = S "OFF" then .ok (.obj kvs')
      else match objGet kvs' (S "destinations") with
        | some (.arr [_]) => .ok (.obj kvs')
        | _ => .error (S "InvalidLoggingConfiguration")
    | _ => .error (S "InvalidLoggingConfiguration")
  | _ => .error (S "InvalidLoggingConfiguration")

/-! ### the nine actions: validation, then commit -/

/-- CreateStateMachine, the arguments that name the machine: (ARN, name, role, type) -/
def createKey (cfg : Cfg) (p : Params) : Except Str (Str × Str × Str × Str) :=
  match arg p "name" with
  | some (.str name) =>
    if !validName name then .error (S "InvalidName") else
    match arg p "roleArn" with
    | some (.str role) =>
      if !validRoleArn role then .error (S "InvalidArn") else
      match roleAccount role with
      | none => .error (S "InvalidArn")
      | some account =>
        match (arg p "type").getD (jstr "STANDARD") with
        | .str ty =>
          if !(ty = S "STANDARD" || ty = S "EXPRESS") then .error (S "StateMachineTypeNotSupported")
          else .ok (smArnOf cfg.region account name, name, role, ty)
        | _ => .error (S "StateMachineTypeNotSupported")
    | _ => .error (S "InvalidArn")
  | _ => .error (S "InvalidName")

def createLogging (cfg : Cfg) (p : Params) : Except Str (Option Json) :=
  if cfg.logging then
    match checkLogging ((arg p "loggingConfiguration").getD (.obj [])) with
    | .error e => .error e
    | .ok lc => .ok (some lc)
  else .ok none

/-- CreateStateMachine: the key and the record to store -/
def validateCreate (cfg : Cfg) (env : Env) (s : State) (p : Params) : Except Str (Str × Machine) :=
  match createKey cfg p with
  | .error e => .error e
  | .ok (arn, name, role, ty) =>
    if (lookup s.machines arn).isSome then .error (S "StateMachineAlreadyExists") else
    match decodeDefinition cfg env ((arg p "definition").getD (.str [])) with
    | .error e => .error e
    | .ok d =>
      if !d.truthy then .error (S "MissingRequiredParameter") else
      match createLogging cfg p with
      | .error e => .error e
      | .ok lg => .ok (arn, ⟨name, role, d, lg, ty, env.now, env.now⟩)

/-- the `roleArn` argument of an update: `none` = not supplied -/
def updRole (p : Params) : Except Str (Option Str) :=
  if !truthyArg (arg p "roleArn") then .ok none else
  match arg p "roleArn" with
  | some (.str r) => if validRoleArn r then .ok (some r) else .error (S "InvalidArn")
  | _ => .error (S "InvalidArn")

def updDefinition (cfg : Cfg) (env : Env) (p : Params) : Except Str (Option Json) :=
  if !truthyArg (arg p "definition") then .ok none else
  match decodeDefinition cfg env ((arg p "definition").getD (.str [])) with
  | .error e => .error e
  | .ok d => .ok (some d)

def updLogging (cfg : Cfg) (p : Params) : Except Str (Option Json) :=
  if !cfg.logging || !truthyArg (arg p "loggingConfiguration") then .ok none else
  match checkLogging ((arg p "loggingConfiguration").getD (.obj [])) with
  | .error e => .error e
  | .ok lc => .ok (some lc)

/-- UpdateStateMachine: the key and the new record -/
def validateUpdate (cfg : Cfg) (env : Env) (s : State) (p : Params) : Except Str (Str × Machine) :=
  match arnArg validSmArn (arg p "stateMachineArn") with
  | .error e => .error e
  | .ok arn =>
    match lookup s.machines arn with
    | none => .error (S "StateMachineDoesNotExist")
    | some m =>
      match updRole p with
      | .error e => .error e
      | .ok role =>
        match updDefinition cfg env p with
        | .error e => .error e
        | .ok d =>
          -- `if not role_arn and not definition` looks at the *decoded* definition
          if role.isNone && !(truthyArg d) then .error (S "MissingRequiredParameter") else
          match updLogging cfg p with
          | .error e => .error e
          | .ok lc =>
            .ok (arn, { m with
              roleArn := role.getD m.roleArn
              definition := d.getD m.definition
              logging := match lc with
                | some l => some l
                | none => m.logging
              updateDate := env.now })

def statusNames : List Str := [S "RUNNING", S "SUCCEEDED", S "FAILED", S "TIMED_OUT", S "ABORTED"]

/-- the effective `statusFilter`: `none` = every status -/
def statusFilter (a : Option Json) : Option Json :=
  match a with
  | none => none
  | some .null => none
  | some j =>
    if !j.truthy then some j else
    match j with
    | .str f => if statusNames.contains f then some j else none
    | _ => none

def execMatches (arn : Str) (f : Option Json) (e : Exec) : Bool :=
  e.stateMachineArn = arn &&
  match f with
  | none => true
  | some j => j = .str e.status

def listExecutions (s : State) (arn : Str) (f : Option Json) : List Json :=
  (s.executions.filter (fun kv => execMatches arn f kv.2)).map (fun kv => Exec.summary kv.1 kv.2)

/-- StartExecution, the arguments checked before the machine is looked up: (ARN, name, input) -/
def startArgs (env : Env) (p : Params) : Except Str (Str × Str × Json) :=
  match arnArg validSmArn (arg p "stateMachineArn") with
  | .error e => .error e
  | .ok arn =>
    match (arg p "name").getD (.str env.fresh) with
    | .str name =>
      if !validName name then .error (S "InvalidName") else
      match (arg p "input").getD (jstr "{}") with
      | .str t =>
        if t.length > maxDataLength then .error (S "InvalidExecutionInput") else
        match parseJson t with
        | none => .error (S "InvalidExecutionInput")
        | some input => .ok (arn, name, input)
      | _ => .error (S "InvalidExecutionInput")
    | _ => .error (S "InvalidName")

/-- StartExecution: (execution ARN, name, decoded input, machine ARN, machine) -/
def validateStart (env : Env) (s : State) (p : Params) :
    Except Str (Str × Str × Json × Str × Machine) :=
  match startArgs env p with
  | .error e => .error e
  | .ok (arn, name, input) =>
    match lookup s.machines arn with
    | none => .error (S "StateMachineDoesNotExist")
    | some m =>
      match parseArn arn with
      | none => .error (S "InvalidArn")
      | some (region, account, resource) =>
        .ok (execArnOf region account resource name, name, input, arn, m)

/-- the start event handed to the event dispatcher (the projection the API determines) -/
def startEvent (x : Str × Str × Json × Str × Machine) : Json :=
  match x with
  | (earn, name, input, arn, m) =>
    .obj [(S "data", input),
          (S "Execution", .obj [(S "Id", .str earn), (S "Input", input), (S "Name", .str name),
                                (S "RoleArn", .str m.roleArn)]),
          (S "StateMachine", .obj [(S "Id", .str arn), (S "Name", .str m.name)])]

inductive Reply where
  | json (j : Json)
  | empty

/-- one action on an object body -/
def handle (cfg : Cfg) (env : Env) (s : State) (action : Str) (p : Params) :
    Option (Except Str (State × Reply)) :=
  if action = S "CreateStateMachine" then some <|
    match validateCreate cfg env s p with
    | .error e => .error e
    | .ok (arn, m) =>
      .ok ({ s with machines := insert s.machines arn m },
           .json (.obj [(S "creationDate", .num m.creationDate), (S "stateMachineArn", .str arn)]))
  else if action = S "UpdateStateMachine" then some <|
    match validateUpdate cfg env s p with
    | .error e => .error e
    | .ok (arn, m) =>
      .ok ({ s with machines := insert s.machines arn m },
           .json (.obj [(S "updateDate", .num m.updateDate)]))
  else if action = S "DeleteStateMachine" then some <|
    match arnArg validSmArn (arg p "stateMachineArn") with
    | .error e => .error e
    | .ok arn =>
      match lookup s.machines arn with
      | none => .error (S "StateMachineDoesNotExist")
      | some _ => .ok ({ s with machines := erase s.machines arn }, .empty)
  else if action = S "DescribeStateMachine" then some <|
    match arnArg validSmArn (arg p "stateMachineArn") with
    | .error e => .error e
    | .ok arn =>
      match lookup s.machines arn with
      | none => .error (S "StateMachineDoesNotExist")
      | some m => .ok (s, .json (m.describe arn))
  else if action = S "DescribeStateMachineForExecution" then some <|
    match arnArg validExecArn (arg p "executionArn") with
    | .error e => .error e
    | .ok earn =>
      match lookup s.executions earn with
      | none => .error (S "ExecutionDoesNotExist")
      | some e =>
        if !validSmArn e.stateMachineArn then .error (S "InvalidArn") else
        match lookup s.machines e.stateMachineArn with
        | none => .error (S "StateMachineDoesNotExist")
        | some m => .ok (s, .json (m.forExecution e.stateMachineArn))
  else if action = S "ListStateMachines" then some <|
    .ok (s, .json (.obj [(S "stateMachines", .arr (s.machines.map (fun kv => Machine.summary kv.1 kv.2)))]))
  else if action = S "StartExecution" then some <|
    match validateStart env s p with
    | .error e => .error e
    | .ok (earn, _) =>
      .ok (s, .json (.obj [(S "executionArn", .str earn), (S "startDate", .num env.now)]))
  else if action = S "ListExecutions" then some <|
    match arnArg validSmArn (arg p "stateMachineArn") with
    | .error e => .error e
    | .ok arn =>
      match lookup s.machines arn with
      | none => .error (S "StateMachineDoesNotExist")
      | some _ =>
        .ok (s, .json (.obj [(S "executions",
          .arr (listExecutions s arn (statusFilter (arg p "statusFilter"))))]))
  else if action = S "DescribeExecution" then some <|
    match arnArg validExecArn (arg p "executionArn") with
    | .error e => .error e
    | .ok earn =>
      match lookup s.executions earn with
      | none => .error (S "ExecutionDoesNotExist")
      | some e => .ok (s, .json (e.toJson earn))
  else none

/-- actions the front ends implement but this model does not cover -/
def otherActions : List Str :=
  [S "StartSyncExecution", S "GetExecutionHistory", S "SendTaskSuccess", S "SendTaskFailure"]

/-- the reference model: one request -/
def step (cfg : Cfg) (env : Env) (s : State) (c : Call) : State × Response :=
  match c.params with
  | some (.obj p) =>
    match handle cfg env s c.action p with
    | none => (s, .invalidAction)
    | some (.error e) => (s, .error e)
    | some (.ok (s', .json j)) => (s', .ok j)
    | some (.ok (s', .empty)) => (s', .okEmpty)
  | _ => (s, .error (S "SerializationException"))

/-- what a request hands to the event dispatcher -/
def published (env : Env) (s : State) (c : Call) : Option Json :=
  match c.params with
  | some (.obj p) =>
    if c.action = S "StartExecution" then
      match validateStart env s p with
      | .ok x => some (startEvent x)
      | .error _ => none
    else none
  | _ => none

/-- the engine (not the API) records an execution -/
def engineWrite (s : State) (arn : Str) (e : Exec) : State :=
  { s with executions := insert s.executions arn e }

/-- a history: API requests (each with its environment) and engine writes -/
inductive Event where
  | call (env : Env) (c : Call)
  | engine (arn : Str) (e : Exec)

def apply (cfg : Cfg) (s : State) : Event → State
  | .call env c => (step cfg env s c).1
  | .engine arn e => engineWrite s arn e

def run (cfg : Cfg) (s : State) : List Event → State
  | [] => s
  | ev :: rest => run cfg (apply cfg s ev) rest

end Asl.Api
