/-
L6 — reference model of the state-machine / execution API (property C10).

The API is a keyed store: association maps ARN ↦ record (`machines`, `executions`) plus the
per-execution event log the engine keeps (`histories`), and thirteen actions (the nine of the
property, GetExecutionHistory, StartSyncExecution and — refused like any unknown action by the
blocking front end — the asyncio-only ones).  A handler sees the stores only through lookups:
`decideAction` is a function of the three *maps* `ARN → Option record` and answers with a
`Verdict` (what to write, what to answer, what to publish); `step` interprets the verdict on
the association lists, `Spec.step` (ApiSpec.lean) on plain functions.  `step` is *atomic by
construction* (that is the property's reading): a handler first validates everything
(`Except Str …`, the error is the documented `__type`) and only a successful validation commits.  Where the property is silent the
model copies `rest_api_asyncio.py` / `rest_api.py`: order of the checks, Python
truthiness of "missing" arguments, the regular expressions of the validators
(including what `.` and `$` do with a line feed), `parse_arn`, the default of `type`,
`level`, `input`, the treatment of an unknown `statusFilter` as "no filter", the
`definition` being stored decoded and described back as `json.dumps` text.

Inputs that are not the model's to decide are parameters of a step (`Env`): the wall
clock, the uuid that names an unnamed execution, the statelint verdict on the decoded
definition (C18 covers statelint), whether the broker takes the start message, and what the
engine (or the timer) answers to an accepted StartSyncExecution.  `Cfg.logging` distinguishes
the asyncio front end (handles `loggingConfiguration`, statelint, StartSyncExecution) from the
blocking one (none of them).  `maxResults` / `nextToken` are read by neither front end (the
code says TODO): a list answer is always the whole live set in one page, without `nextToken`.

`Response.internalError` exists and the model produces it only for the documented case, a
start message the broker refused (`no_internal_error`, `internal_error_only_failed_publish`);
the implementation's answers are compared with the model's.
-/
import AslModel.JsonText
namespace Asl.Api
open Asl

/-! ### keyed store -/

def lookup {α : Type} : List (Str × α) → Str → Option α
  | [], _ => none
  | (k', v) :: rest, k => if k' = k then some v else lookup rest k

/-- `d[k] = v`: replace in place or append (Python dict order) -/
def insert {α : Type} : List (Str × α) → Str → α → List (Str × α)
  | [], k, v => [(k, v)]
  | (k', v') :: rest, k, v => if k' = k then (k', v) :: rest else (k', v') :: insert rest k v

/-- `del d[k]` -/
def erase {α : Type} : List (Str × α) → Str → List (Str × α)
  | [], _ => []
  | (k', v') :: rest, k => if k' = k then erase rest k else (k', v') :: erase rest k

def keys {α : Type} (m : List (Str × α)) : List Str := m.map (·.1)

/-! ### records -/

/-- a DescribeStateMachine-shaped record; its ARN is the store key, `status` is always ACTIVE -/
structure Machine where
  name : Str
  roleArn : Str
  definition : Json
  logging : Option Json
  type : Str
  creationDate : Int
  updateDate : Int
  deriving DecidableEq, Inhabited

/-- a DescribeExecution-shaped record (written by the engine); its ARN is the store key -/
structure Exec where
  name : Str
  stateMachineArn : Str
  status : Str
  input : Json
  output : Json
  startDate : Int
  stopDate : Json
  /-- further members the engine adds (`error`, `cause` of a failed execution) -/
  extra : List (Str × Json)
  deriving DecidableEq, Inhabited

structure State where
  machines : List (Str × Machine)
  executions : List (Str × Exec)
  /-- the event log of an execution (written by the engine, read by GetExecutionHistory) -/
  histories : List (Str × List Json)
  deriving DecidableEq, Inhabited

def State.empty : State := ⟨[], [], []⟩

/-- one switch per recorded, unrepaired deviation of the code (DESIGN §2.2); all off = the
behaviour the property describes -/
structure Quirks where
  /-- C10-F5: CreateStateMachine does not check the ARN it forms, so it can store a machine
  under an ARN every other action refuses as InvalidArn -/
  createUncheckedArn : Bool := false
  deriving DecidableEq, Inhabited

def Quirks.none : Quirks := {}

structure Cfg where
  region : Str
  validateAsl : Bool
  /-- asyncio front end: `loggingConfiguration`, statelint and StartSyncExecution are handled -/
  logging : Bool
  quirks : Quirks := {}

structure Env where
  now : Int
  fresh : Str
  lintBad : Bool
  /-- the broker refuses the start message (`publish` raises) -/
  publishFails : Bool := false
  /-- what the engine hands back to an accepted StartSyncExecution; `none`: the timer fired first -/
  syncOutcome : Option Json := none

structure Call where
  action : Str
  /-- `none`: the request body was not JSON text -/
  params : Option Json

inductive Response where
  | ok (body : Json)
  | okEmpty
  | error (type : Str)
  | invalidAction
  /-- 408 "Execution Timed Out": an accepted StartSyncExecution the engine did not finish in time -/
  | timedOut
  | internalError
  deriving DecidableEq, Inhabited

def Response.isError : Response → Bool
  | .ok _ => false
  | .okEmpty => false
  | _ => true

/-- the request was turned away (as opposed to accepted and then timed out) -/
def Response.isRefusal : Response → Bool
  | .error _ => true
  | .invalidAction => true
  | .internalError => true
  | _ => false

def Response.status : Response → Nat
  | .ok _ => 200
  | .okEmpty => 200
  | .error _ => 400
  | .invalidAction => 400
  | .timedOut => 408
  | .internalError => 500

/-! ### JSON shapes -/

def S (s : String) : Str := s.toList
def jstr (s : String) : Json := .str s.toList

def Machine.toJson (arn : Str) (m : Machine) : Json :=
  .obj ([(S "creationDate", .num m.creationDate), (S "definition", m.definition)]
    ++ (match m.logging with
        | some l => [(S "loggingConfiguration", l)]
        | none => [])
    ++ [(S "name", .str m.name), (S "roleArn", .str m.roleArn), (S "stateMachineArn", .str arn),
        (S "updateDate", .num m.updateDate), (S "status", jstr "ACTIVE"), (S "type", .str m.type)])

/-- DescribeStateMachine: the record with `definition` as `json.dumps` text -/
def Machine.describe (arn : Str) (m : Machine) : Json :=
  Machine.toJson arn { m with definition := .str (render m.definition) }

def Machine.summary (arn : Str) (m : Machine) : Json :=
  .obj [(S "creationDate", .num m.creationDate), (S "name", .str m.name),
        (S "stateMachineArn", .str arn), (S "type", .str m.type)]

def Machine.forExecution (arn : Str) (m : Machine) : Json :=
  .obj [(S "definition", .str (render m.definition)), (S "name", .str m.name),
        (S "roleArn", .str m.roleArn), (S "stateMachineArn", .str arn),
        (S "updateDate", .num m.updateDate)]

def Exec.toJson (arn : Str) (e : Exec) : Json :=
  .obj ([(S "executionArn", .str arn), (S "input", e.input), (S "name", .str e.name),
        (S "output", e.output), (S "startDate", .num e.startDate),
        (S "stateMachineArn", .str e.stateMachineArn), (S "status", .str e.status),
        (S "stopDate", e.stopDate)] ++ e.extra)

def Exec.summary (arn : Str) (e : Exec) : Json :=
  .obj [(S "executionArn", .str arn), (S "name", .str e.name), (S "startDate", .num e.startDate),
        (S "stateMachineArn", .str e.stateMachineArn), (S "status", .str e.status),
        (S "stopDate", e.stopDate)]

/-! ### validators (the regular expressions of rest_api*.py, `re.search`, no flags) -/

/-- where `$` may sit: a single trailing line feed is not part of the matched text -/
def stripNl (s : Str) : Str :=
  match s.reverse with
  | c :: r => if c = '\n' then r.reverse else s
  | [] => s

def hasNl (s : Str) : Bool := s.any (· = '\n')

def forbiddenNameChars : Str := " <>{}[]?*\"#%\\^|~`$&,;:/".toList

/-- `re.search(r"[ <>{}[\]?*\"#%\\^|~`$&,;:/]", name)`: a forbidden character anywhere in the name
(the earlier pattern `^.*[…].*$` did not look past a line feed; repaired by the C17-F1 fix) -/
def nameRegex (s : Str) : Bool := s.any (fun c => forbiddenNameChars.contains c)

def validName (s : Str) : Bool := 0 < s.length && s.length < 81 && !nameRegex s

def isDig (c : Char) : Bool := '0' ≤ c && c ≤ '9'

def spanDigits : Str → Str × Str
  | [] => ([], [])
  | c :: cs => if isDig c then ((spanDigits cs).1.cons c, (spanDigits cs).2) else ([], c :: cs)

/-- `^arn:aws:iam::[0-9]+:role\/.+$` → the account digits -/
def roleAccount (s : Str) : Option Str :=
  let b := stripNl s
  if hasNl b then none else
  match startsWith b (S "arn:aws:iam::") with
  | none => none
  | some r =>
    let (ds, rest) := spanDigits r
    if ds.isEmpty then none else
    match startsWith rest (S ":role/") with
    | some (_ :: _) => some ds
    | _ => none

def validRoleArn (s : Str) : Bool :=
  0 < s.length && s.length < 257 && (roleAccount s).isSome

/-- after a `:` — `[0-9]+:<kind>:.+` -/
def tailOk (kind : Str) (cs : Str) : Bool :=
  let (ds, rest) := spanDigits cs
  !ds.isEmpty &&
  match startsWith rest (':' :: (kind ++ [':'])) with
  | some (_ :: _) => true
  | _ => false

def scanTail (kind : Str) : Str → Bool
  | [] => false
  | c :: cs => (c = ':' && tailOk kind cs) || scanTail kind cs

/-- `^arn:aws:states:.+:[0-9]+:<kind>:.+$` -/
def resRegex (kind : Str) (s : Str) : Bool :=
  let b := stripNl s
  !hasNl b &&
  match startsWith b (S "arn:aws:states:") with
  | some (_ :: cs) => scanTail kind cs
  | _ => false

def validResArn (kind : Str) (s : Str) : Bool :=
  0 < s.length && s.length < 257 && resRegex kind s

def validSmArn (s : Str) : Bool := validResArn (S "stateMachine") s
def validExecArn (s : Str) : Bool := validResArn (S "execution") s

/-! ### arn.py -/

/-- `s.split(":", n)` -/
def splitColon : Nat → Str → List Str
  | 0, s => [s]
  | n + 1, s =>
    match s.span (· ≠ ':') with
    | (a, []) => [a]
    | (a, _ :: rest) => a :: splitColon n rest

def splitAt1 (sep : Char) (s : Str) : Option (Str × Str) :=
  match s.span (· ≠ sep) with
  | (_, []) => none
  | (a, _ :: rest) => some (a, rest)

/-- `parse_arn`: (region, account, resource) -/
def parseArn (s : Str) : Option (Str × Str × Str) :=
  match splitColon 5 s with
  | [_, _, _, region, account, resource] =>
    let res := match splitAt1 '/' resource with
      | some (_, r) => r
      | none => match splitAt1 ':' resource with
        | some (_, r) => r
        | none => resource
    some (region, account, res)
  | _ => none

def smArnOf (region account name : Str) : Str :=
  S "arn:aws:states:" ++ region ++ (':' :: account) ++ S ":stateMachine:" ++ name

def execArnOf (region account resource name : Str) : Str :=
  S "arn:aws:states:" ++ region ++ (':' :: account) ++ S ":execution:" ++ resource ++ (':' :: name)

/-! ### argument handling -/

def maxDefinitionLength : Nat := 1048576
def maxDataLength : Nat := 262144

abbrev Params := List (Str × Json)

def arg (p : Params) (k : String) : Option Json := objGet p k.toList

def truthyArg : Option Json → Bool
  | some j => j.truthy
  | none => false

/-- a required ARN argument: falsy → MissingRequiredParameter, not matching → InvalidArn -/
def arnArg (valid : Str → Bool) (a : Option Json) : Except Str Str :=
  if !truthyArg a then .error (S "MissingRequiredParameter") else
  match a with
  | some (.str s) => if valid s then .ok s else .error (S "InvalidArn")
  | _ => .error (S "InvalidArn")

/-- the text repeats a member name somewhere: reading it with `dict` semantics (last value
wins) loses something.  With `validate_asl` on, the asyncio front end reads definitions with
`object_pairs_hook=raise_on_duplicates` and refuses these. -/
def hasDuplicateNames (t : Str) : Bool :=
  match parseValue (t.length + 1) t with
  | some (v, _) => decide (normalise v ≠ v)
  | none => false

/-- decode a `definition` argument that is present and non-empty -/
def decodeDefinition (cfg : Cfg) (env : Env) (j : Json) : Except Str Json :=
  match j with
  | .str t =>
    if t.length = 0 || t.length > maxDefinitionLength then .error (S "InvalidDefinition") else
    match parseJson t with
    | none => .error (S "InvalidDefinition")
    | some d =>
      if cfg.logging && cfg.validateAsl && (env.lintBad || hasDuplicateNames t) then
        .error (S "InvalidDefinition")
      else .ok d
  | _ => .error (S "InvalidDefinition")

def logLevels : List Str := [S "OFF", S "ALL", S "ERROR", S "FATAL"]

def checkLogging (lc : Json) : Except Str Json :=
  match lc with
  | .obj kvs =>
    let level := (objGet kvs (S "level")).getD (jstr "OFF")
    let kvs' := objSet kvs (S "level") level
    match level with
    | .str l =>
      if !logLevels.contains l then .error (S "InvalidLoggingConfiguration")
      else if l = S "OFF" then .ok (.obj kvs')
      else match objGet kvs' (S "destinations") with
        | some (.arr [_]) => .ok (.obj kvs')
        | _ => .error (S "InvalidLoggingConfiguration")
    | _ => .error (S "InvalidLoggingConfiguration")
  | _ => .error (S "InvalidLoggingConfiguration")

/-! ### the actions: validation against the maps, then a verdict -/

/-- a store as the handlers see it: `ARN ↦ record`, nothing else -/
abbrev Lk (α : Type) := Str → Option α

/-- CreateStateMachine, the arguments that name the machine: (ARN, name, role, type) -/
def createKey (cfg : Cfg) (p : Params) : Except Str (Str × Str × Str × Str) :=
  match arg p "name" with
  | some (.str name) =>
    if !validName name then .error (S "InvalidName") else
    match arg p "roleArn" with
    | some (.str role) =>
      if !validRoleArn role then .error (S "InvalidArn") else
      match roleAccount role with
      | none => .error (S "InvalidArn")
      | some account =>
        -- the ARN the other actions will be given must be one they accept (C10-F5 when not checked)
        if !cfg.quirks.createUncheckedArn && !validSmArn (smArnOf cfg.region account name) then
          .error (S "InvalidArn") else
        match (arg p "type").getD (jstr "STANDARD") with
        | .str ty =>
          if !(ty = S "STANDARD" || ty = S "EXPRESS") then .error (S "StateMachineTypeNotSupported")
          else .ok (smArnOf cfg.region account name, name, role, ty)
        | _ => .error (S "StateMachineTypeNotSupported")
    | _ => .error (S "InvalidArn")
  | _ => .error (S "InvalidName")

def createLogging (cfg : Cfg) (p : Params) : Except Str (Option Json) :=
  if cfg.logging then
    match checkLogging ((arg p "loggingConfiguration").getD (.obj [])) with
    | .error e => .error e
    | .ok lc => .ok (some lc)
  else .ok none

/-- CreateStateMachine: the key and the record to store -/
def validateCreate (cfg : Cfg) (env : Env) (ms : Lk Machine) (p : Params) : Except Str (Str × Machine) :=
  match createKey cfg p with
  | .error e => .error e
  | .ok (arn, name, role, ty) =>
    if (ms arn).isSome then .error (S "StateMachineAlreadyExists") else
    match decodeDefinition cfg env ((arg p "definition").getD (.str [])) with
    | .error e => .error e
    | .ok d =>
      if !d.truthy then .error (S "MissingRequiredParameter") else
      match createLogging cfg p with
      | .error e => .error e
      | .ok lg => .ok (arn, ⟨name, role, d, lg, ty, env.now, env.now⟩)

/-- the `roleArn` argument of an update: `none` = not supplied -/
def updRole (p : Params) : Except Str (Option Str) :=
  if !truthyArg (arg p "roleArn") then .ok none else
  match arg p "roleArn" with
  | some (.str r) => if validRoleArn r then .ok (some r) else .error (S "InvalidArn")
  | _ => .error (S "InvalidArn")

def updDefinition (cfg : Cfg) (env : Env) (p : Params) : Except Str (Option Json) :=
  if !truthyArg (arg p "definition") then .ok none else
  match decodeDefinition cfg env ((arg p "definition").getD (.str [])) with
  | .error e => .error e
  | .ok d => .ok (some d)

def updLogging (cfg : Cfg) (p : Params) : Except Str (Option Json) :=
  if !cfg.logging || !truthyArg (arg p "loggingConfiguration") then .ok none else
  match checkLogging ((arg p "loggingConfiguration").getD (.obj [])) with
  | .error e => .error e
  | .ok lc => .ok (some lc)

/-- UpdateStateMachine: the key and the new record -/
def validateUpdate (cfg : Cfg) (env : Env) (ms : Lk Machine) (p : Params) : Except Str (Str × Machine) :=
  match arnArg validSmArn (arg p "stateMachineArn") with
  | .error e => .error e
  | .ok arn =>
    match ms arn with
    | none => .error (S "StateMachineDoesNotExist")
    | some m =>
      match updRole p with
      | .error e => .error e
      | .ok role =>
        match updDefinition cfg env p with
        | .error e => .error e
        | .ok d =>
          -- `if not role_arn and not definition` looks at the *decoded* definition
          if role.isNone && !(truthyArg d) then .error (S "MissingRequiredParameter") else
          match updLogging cfg p with
          | .error e => .error e
          | .ok lc =>
            .ok (arn, { m with
              roleArn := role.getD m.roleArn
              definition := d.getD m.definition
              logging := match lc with
                | some l => some l
                | none => m.logging
              updateDate := env.now })

def statusNames : List Str := [S "RUNNING", S "SUCCEEDED", S "FAILED", S "TIMED_OUT", S "ABORTED"]

/-- the effective `statusFilter`: `none` = every status -/
def statusFilter (a : Option Json) : Option Json :=
  match a with
  | none => none
  | some .null => none
  | some j =>
    if !j.truthy then some j else
    match j with
    | .str f => if statusNames.contains f then some j else none
    | _ => none

def execMatches (arn : Str) (f : Option Json) (e : Exec) : Bool :=
  e.stateMachineArn = arn &&
  match f with
  | none => true
  | some j => j = .str e.status

/-- StartExecution / StartSyncExecution, the arguments checked before the machine is looked up:
(ARN, name, input) -/
def startArgs (env : Env) (p : Params) : Except Str (Str × Str × Json) :=
  match arnArg validSmArn (arg p "stateMachineArn") with
  | .error e => .error e
  | .ok arn =>
    match (arg p "name").getD (.str env.fresh) with
    | .str name =>
      if !validName name then .error (S "InvalidName") else
      match (arg p "input").getD (jstr "{}") with
      | .str t =>
        if t.length > maxDataLength then .error (S "InvalidExecutionInput") else
        match parseJson t with
        | none => .error (S "InvalidExecutionInput")
        | some input => .ok (arn, name, input)
      | _ => .error (S "InvalidExecutionInput")
    | _ => .error (S "InvalidName")

/-- StartExecution: (execution ARN, name, decoded input, machine ARN, machine) -/
def validateStart (env : Env) (ms : Lk Machine) (p : Params) :
    Except Str (Str × Str × Json × Str × Machine) :=
  match startArgs env p with
  | .error e => .error e
  | .ok (arn, name, input) =>
    match ms arn with
    | none => .error (S "StateMachineDoesNotExist")
    | some m =>
      match parseArn arn with
      | none => .error (S "InvalidArn")
      | some (region, account, resource) =>
        .ok (execArnOf region account resource name, name, input, arn, m)

/-- StartSyncExecution: everything StartExecution asks, and the machine must be EXPRESS -/
def validateStartSync (env : Env) (ms : Lk Machine) (p : Params) :
    Except Str (Str × Str × Json × Str × Machine) :=
  match validateStart env ms p with
  | .error e => .error e
  | .ok (earn, name, input, arn, m) =>
    if m.type = S "EXPRESS" then .ok (earn, name, input, arn, m)
    else .error (S "StateMachineTypeNotSupported")

/-- the start event handed to the event dispatcher (the projection the API determines);
`shared`: published to the queue all engine instances share (StartExecution) or to this
instance's own queue (StartSyncExecution, whose answer this instance must give) -/
def startEvent (shared : Bool) (x : Str × Str × Json × Str × Machine) : Json :=
  match x with
  | (earn, name, input, arn, m) =>
    .obj [(S "data", input),
          (S "Execution", .obj [(S "Id", .str earn), (S "Input", input), (S "Name", .str name),
                                (S "RoleArn", .str m.roleArn)]),
          (S "StateMachine", .obj [(S "Id", .str arn), (S "Name", .str m.name)]),
          (S "shared", .bool shared)]

/-- what a handler writes -/
inductive Effect where
  | none
  | putMachine (arn : Str) (m : Machine)
  | delMachine (arn : Str)
  deriving DecidableEq, Inhabited

/-- what a handler answers -/
inductive Reply where
  | json (j : Json)
  | empty
  /-- every stored machine, summarised -/
  | machines
  /-- every stored execution of the machine whose status passes the filter, summarised -/
  | executions (arn : Str) (filter : Option Json)
  /-- accepted StartSyncExecution: the engine's answer, or the timer's -/
  | sync
  /-- the start message could not be published -/
  | publishFailed
  deriving DecidableEq, Inhabited

structure Verdict where
  effect : Effect
  reply : Reply
  publish : Option Json
  deriving DecidableEq, Inhabited

def Verdict.read (j : Json) : Verdict := ⟨.none, .json j, none⟩

/-- a start that passed validation: publish, unless the broker refuses -/
def startVerdict (env : Env) (shared : Bool) (x : Str × Str × Json × Str × Machine)
    (answer : Reply) : Verdict :=
  if env.publishFails then ⟨.none, .publishFailed, none⟩
  else ⟨.none, answer, some (startEvent shared x)⟩

/-- the actions of the model -/
inductive Action where
  | create | update | delete | describe | describeForExecution | list
  | start | startSync | listExecutions | describeExecution | history
  deriving DecidableEq, Inhabited

def Action.name : Action → Str
  | .create => S "CreateStateMachine"
  | .update => S "UpdateStateMachine"
  | .delete => S "DeleteStateMachine"
  | .describe => S "DescribeStateMachine"
  | .describeForExecution => S "DescribeStateMachineForExecution"
  | .list => S "ListStateMachines"
  | .start => S "StartExecution"
  | .startSync => S "StartSyncExecution"
  | .listExecutions => S "ListExecutions"
  | .describeExecution => S "DescribeExecution"
  | .history => S "GetExecutionHistory"

def Action.all : List Action :=
  [.create, .update, .delete, .describe, .describeForExecution, .list, .start, .startSync,
   .listExecutions, .describeExecution, .history]

/-- dispatch on the `x-amz-target` action name -/
def actionOf (a : Str) : Option Action := Action.all.find? (fun k => k.name = a)

/-- one action on an object body, as a function of the three maps.
`none`: the front end has no such action. -/
def decideKind (cfg : Cfg) (env : Env) (ms : Lk Machine) (es : Lk Exec) (hs : Lk (List Json))
    (p : Params) : Action → Option (Except Str Verdict)
  | .create => some <|
    match validateCreate cfg env ms p with
    | .error e => .error e
    | .ok (arn, m) =>
      .ok ⟨.putMachine arn m,
           .json (.obj [(S "creationDate", .num m.creationDate), (S "stateMachineArn", .str arn)]), none⟩
  | .update => some <|
    match validateUpdate cfg env ms p with
    | .error e => .error e
    | .ok (arn, m) =>
      .ok ⟨.putMachine arn m, .json (.obj [(S "updateDate", .num m.updateDate)]), none⟩
  | .delete => some <|
    match arnArg validSmArn (arg p "stateMachineArn") with
    | .error e => .error e
    | .ok arn =>
      match ms arn with
      | none => .error (S "StateMachineDoesNotExist")
      | some _ => .ok ⟨.delMachine arn, .empty, none⟩
  | .describe => some <|
    match arnArg validSmArn (arg p "stateMachineArn") with
    | .error e => .error e
    | .ok arn =>
      match ms arn with
      | none => .error (S "StateMachineDoesNotExist")
      | some m => .ok (.read (m.describe arn))
  | .describeForExecution => some <|
    match arnArg validExecArn (arg p "executionArn") with
    | .error e => .error e
    | .ok earn =>
      match es earn with
      | none => .error (S "ExecutionDoesNotExist")
      | some e =>
        if !validSmArn e.stateMachineArn then .error (S "InvalidArn") else
        match ms e.stateMachineArn with
        | none => .error (S "StateMachineDoesNotExist")
        | some m => .ok (.read (m.forExecution e.stateMachineArn))
  | .list =>
    -- `maxResults` / `nextToken` are not read
    some (.ok ⟨.none, .machines, none⟩)
  | .start => some <|
    match validateStart env ms p with
    | .error e => .error e
    | .ok x =>
      .ok (startVerdict env true x
        (.json (.obj [(S "executionArn", .str x.1), (S "startDate", .num env.now)])))
  | .startSync =>
    if !cfg.logging then none else some <|
    match validateStartSync env ms p with
    | .error e => .error e
    | .ok x => .ok (startVerdict env false x .sync)
  | .listExecutions => some <|
    match arnArg validSmArn (arg p "stateMachineArn") with
    | .error e => .error e
    | .ok arn =>
      match ms arn with
      | none => .error (S "StateMachineDoesNotExist")
      | some _ => .ok ⟨.none, .executions arn (statusFilter (arg p "statusFilter")), none⟩
  | .describeExecution => some <|
    match arnArg validExecArn (arg p "executionArn") with
    | .error e => .error e
    | .ok earn =>
      match es earn with
      | none => .error (S "ExecutionDoesNotExist")
      | some e => .ok (.read (e.toJson earn))
  | .history => some <|
    match arnArg validExecArn (arg p "executionArn") with
    | .error e => .error e
    | .ok earn =>
      -- `if not history`: no log, or an empty one
      match hs earn with
      | none => .error (S "ExecutionDoesNotExist")
      | some [] => .error (S "ExecutionDoesNotExist")
      | some (ev :: log) =>
        .ok (.read (.obj [(S "events",
          .arr (if truthyArg (arg p "reverseOrder") then (ev :: log).reverse else ev :: log))]))

def decideAction (cfg : Cfg) (env : Env) (ms : Lk Machine) (es : Lk Exec) (hs : Lk (List Json))
    (action : Str) (p : Params) : Option (Except Str Verdict) :=
  match actionOf action with
  | none => none
  | some k => decideKind cfg env ms es hs p k

/-! ### the reference model: the verdict interpreted on association lists -/

def listExecutions (s : State) (arn : Str) (f : Option Json) : List Json :=
  (s.executions.filter (fun kv => execMatches arn f kv.2)).map (fun kv => Exec.summary kv.1 kv.2)

def State.apply (s : State) : Effect → State
  | .none => s
  | .putMachine arn m => { s with machines := insert s.machines arn m }
  | .delMachine arn => { s with machines := erase s.machines arn }

def State.answer (env : Env) (s : State) : Reply → Response
  | .json j => .ok j
  | .empty => .okEmpty
  | .machines =>
    .ok (.obj [(S "stateMachines", .arr (s.machines.map (fun kv => Machine.summary kv.1 kv.2)))])
  | .executions arn f => .ok (.obj [(S "executions", .arr (listExecutions s arn f))])
  | .sync =>
    match env.syncOutcome with
    | some detail => .ok detail
    | none => .timedOut
  | .publishFailed => .internalError

/-- one action on an object body -/
def handle (cfg : Cfg) (env : Env) (s : State) (action : Str) (p : Params) :
    Option (Except Str Verdict) :=
  decideAction cfg env (lookup s.machines) (lookup s.executions) (lookup s.histories) action p

/-- actions the asyncio front end implements but this model does not cover (C15 does) -/
def otherActions : List Str := [S "SendTaskSuccess", S "SendTaskFailure"]

/-- the reference model: one request -/
def step (cfg : Cfg) (env : Env) (s : State) (c : Call) : State × Response :=
  match c.params with
  | some (.obj p) =>
    match handle cfg env s c.action p with
    | none => (s, .invalidAction)
    | some (.error e) => (s, .error e)
    | some (.ok v) => (s.apply v.effect, s.answer env v.reply)
  | _ => (s, .error (S "SerializationException"))

/-- what a request hands to the event dispatcher -/
def published (cfg : Cfg) (env : Env) (s : State) (c : Call) : Option Json :=
  match c.params with
  | some (.obj p) =>
    match handle cfg env s c.action p with
    | some (.ok v) => v.publish
    | _ => none
  | _ => none

/-- the engine (not the API) records an execution -/
def engineWrite (s : State) (arn : Str) (e : Exec) : State :=
  { s with executions := insert s.executions arn e }

/-- the engine (not the API) sets the event log of an execution -/
def engineLog (s : State) (arn : Str) (log : List Json) : State :=
  { s with histories := insert s.histories arn log }

/-- a history: API requests (each with its environment) and engine writes -/
inductive Event where
  | call (env : Env) (c : Call)
  | engine (arn : Str) (e : Exec)
  | engineLog (arn : Str) (log : List Json)

def apply (cfg : Cfg) (s : State) : Event → State
  | .call env c => (step cfg env s c).1
  | .engine arn e => engineWrite s arn e
  | .engineLog arn log => engineLog s arn log

def run (cfg : Cfg) (s : State) : List Event → State
  | [] => s
  | ev :: rest => run cfg (apply cfg s ev) rest

end Asl.Api
