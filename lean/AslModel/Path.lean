/-
L1 — reference paths: reading (`apply_jsonpath` / `apply_path` restricted to definite
paths) and placing (`apply_resultpath`).

A definite path is a list of segments; a segment is a string.  Whether a segment
addresses an object member or an array element is decided by the *value* it is applied
to (that is how both the `jsonpath` library and `update_path` work): on an array a
segment made of decimal digits is an index, on an object a segment is a member name.
-/
import AslModel.JsonText
namespace Asl

inductive PErr where
  | pathMatch      -- States.Runtime-class "path matched nothing" (PathMatchFailure)
  | resultPath     -- ResultPathMatchFailure
  | paramPath      -- ParameterPathFailure
  | intrinsic      -- IntrinsicFailure
  deriving Repr, DecidableEq, Inhabited

def PErr.name : PErr → String
  | .pathMatch => "PathMatchFailure"
  | .resultPath => "ResultPathMatchFailure"
  | .paramPath => "ParameterPathFailure"
  | .intrinsic => "IntrinsicFailure"

def allDigits : Str → Bool
  | [] => true
  | c :: cs => c.isDigit && allDigits cs

/-- `str.isdigit()` on ASCII text -/
def isDigits (s : Str) : Bool := !s.isEmpty && allDigits s

def digitsVal (s : Str) : Nat := (parseDigits s 0).1

/-! ### reading -/

/-- one step of the `jsonpath` trace on a plain segment -/
def getStep (t : Json) (k : Str) : Option Json :=
  match t with
  | .obj kvs => objGet kvs k
  | .arr xs => if isDigits k then xs[digitsVal k]? else none
  | _ => none

/-- value addressed by a definite path, if any -/
def get? (t : Json) : List Str → Option Json
  | [] => some t
  | k :: ks => match getStep t k with
    | some t' => get? t' ks
    | none => none

/-! ### placing -/

def pyWs (c : Char) : Bool := c = ' ' || c = '\n' || c = '\r' || c = '\t' || c.toNat = 11 || c.toNat = 12

def dropWs : Str → Str
  | [] => []
  | c :: cs => if pyWs c then dropWs cs else c :: cs

/-- digits with single underscores between them; `prev` = the previous char was a digit -/
def intBody : Str → Bool → Bool
  | [], prev => prev
  | c :: cs, prev =>
    if c.isDigit then intBody cs true
    else if c = '_' && prev then intBody cs false
    else false

/-- Python's `int(s)` succeeds -/
def pyIntLike (s : Str) : Bool :=
  let t := (dropWs (dropWs s).reverse).reverse
  match t with
  | '+' :: r => intBody r false
  | '-' :: r => intBody r false
  | r => intBody r false

def listSet : List Json → Nat → Json → List Json
  | [], _, _ => []
  | _ :: xs, 0, v => v :: xs
  | x :: xs, n + 1, v => x :: listSet xs n v

/-- `update_path(target, keys, result)`.  On an array the model accepts plain decimal
indices only; the other spellings Python's `int()` accepts (`-1`, `+1`, `1_0`, padded)
are outside the reference-path grammar and are compared on the error projection only. -/
def put (t : Json) : List Str → Json → Except PErr Json
  | [], v => .ok v
  | k :: ks, v =>
    match t with
    | .arr xs =>
      if isDigits k then
        match xs[digitsVal k]? with
        | some sub => match put sub ks v with
          | .ok sub' => .ok (.arr (listSet xs (digitsVal k) sub'))
          | .error e => .error e
        | none => .error .resultPath
      else .error .resultPath
    | .obj kvs =>
      if pyIntLike k then .error .resultPath
      else match put ((objGet kvs k).getD (.obj [])) ks v with
        | .ok sub' => .ok (.obj (objSet kvs k sub'))
        | .error e => .error e
    | _ => .error .resultPath

/-! ### the text of a reference path -/

/-- characters a member name may contain in the supported grammar -/
def nameChar (c : Char) : Bool := c.isAlphanum || c = '_' || c = '-' || c = ' '

def takeName : Str → Str × Str
  | [] => ([], [])
  | c :: cs => if nameChar c then let (n, r) := takeName cs; (c :: n, r) else ([], c :: cs)

def takeDigits : Str → Str × Str
  | [] => ([], [])
  | c :: cs => if c.isDigit then let (n, r) := takeDigits cs; (c :: n, r) else ([], c :: cs)

/-- segments after the leading `$`; fuel ≥ length -/
def parseSegs : Nat → Str → Option (List Str)
  | _, [] => some []
  | 0, _ :: _ => none
  | fuel + 1, c :: cs =>
    if c = '.' then
      match takeName cs with
      | ([], _) => none
      | (n, rest) => (parseSegs fuel rest).map (n :: ·)
    else if c = '[' then
      match cs with
      | '\'' :: cs' =>
        match takeName cs' with
        | ([], _) => none
        | (n, '\'' :: ']' :: rest) => (parseSegs fuel rest).map (n :: ·)
        | _ => none
      | _ =>
        match takeDigits cs with
        | ([], _) => none
        | (n, ']' :: rest) => (parseSegs fuel rest).map (n :: ·)
        | _ => none
    else none

/-- a Reference Path: `$` followed by `.name`, `['name']`, `[digits]` segments -/
def parseRef : Str → Option (List Str)
  | '$' :: cs => parseSegs cs.length cs
  | _ => none

inductive Seg where
  | dot (n : Str)      -- .name
  | brq (n : Str)      -- ['name']
  | idx (n : Str)      -- [digits]
  deriving Repr, DecidableEq

def Seg.name : Seg → Str
  | .dot n => n
  | .brq n => n
  | .idx n => n

def Seg.print : Seg → Str
  | .dot n => '.' :: n
  | .brq n => '[' :: '\'' :: (n ++ ['\'', ']'])
  | .idx n => '[' :: (n ++ [']'])

def printSegs : List Seg → Str
  | [] => []
  | s :: ss => s.print ++ printSegs ss

def printRef (ss : List Seg) : Str := '$' :: printSegs ss

def allNameChars : Str → Bool
  | [] => true
  | c :: cs => nameChar c && allNameChars cs

/-- a segment the grammar admits -/
def Seg.ok : Seg → Bool
  | .dot n => !n.isEmpty && allNameChars n
  | .brq n => !n.isEmpty && allNameChars n
  | .idx n => isDigits n

/-! ### the engine's entry points, on text -/

/-- `apply_jsonpath(input, path)` for `path` a string -/
def applyJsonPathText (input : Json) (path : Str) : Except PErr Json :=
  if input = .null then .ok (.obj [])
  else if path = ['$'] then .ok input
  else match parseRef path with
    | none => .error .pathMatch
    | some segs =>
      if !input.truthy then .error .pathMatch     -- `if expr and obj:` in the library
      else match get? input segs with
        | some v => .ok v
        | none => .error .pathMatch

/-- `apply_path(input, context, path)`; `path = none` is JSON null -/
def applyPath (input ctx : Json) : Option Str → Except PErr Json
  | none => .ok (.obj [])
  | some p =>
    match p with
    | '$' :: '$' :: rest => applyJsonPathText ctx ('$' :: rest)
    | '$' :: _ => applyJsonPathText input p
    | _ => .error .paramPath

/-- `apply_resultpath(input, result, path)`; `path = none` is JSON null -/
def applyResultPath (input result : Json) : Option Str → Except PErr Json
  | none => .ok (if input = .null then .obj [] else input)
  | some p =>
    if p = ['$'] then .ok result
    else match p with
      | '$' :: '$' :: _ => .error .resultPath
      | _ => match parseRef p with
        | none => .error .resultPath
        | some segs => put (if input = .null then .obj [] else input) segs result

end Asl
