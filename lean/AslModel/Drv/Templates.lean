/- driver handler of the `templates` stream (line protocol, see Main.lean) -/
import AslModel.Drv.Util
namespace Asl.Drv.Templates
open Asl

def handle : List String → String
  | _ => "bad-op"

end Asl.Drv.Templates
