/- driver handler of the `templates` stream (line protocol, see Main.lean)

  templates  eval   <quirks: 0|1>  <input>  <context>  <template>  <hash table [[alg,data,hex],…]>
  templates  parse  <JSON string: intrinsic text>       → the syntax tree as JSON
-/
import AslModel.Drv.Util
import AslModel.Intrinsic
import AslModel.Template
namespace Asl.Drv.Templates
open Asl Asl.Drv

def sentinel : Char := Char.ofNat 0xE000

def hashFrom (table : List Json) (alg data : Str) : Str :=
  match table.find? (fun e => match e with
      | .arr [.str a, .str d, .str _] => a = alg && d = data
      | _ => false) with
  | some (.arr [_, _, .str h]) => h
  | _ => [sentinel]

def oracles (table : List Json) : Oracles :=
  { hash := hashFrom table, rand := fun a _ => a,
    uuid := "00000000-0000-4000-8000-000000000000".toList }

/-- paths the model's reader supports: `$`, or a reference path, possibly behind `$$` -/
def pathSupported (p : Str) : Bool :=
  match p with
  | '$' :: '$' :: rest => ('$' :: rest) = ['$'] || (parseRef ('$' :: rest)).isSome
  | '$' :: rest => rest = [] || (parseRef p).isSome
  | _ => true

mutual
def argSupported : Arg → Bool
  | .path p => pathSupported p
  | .call _ args => argsSupported args
  | _ => true
def argsSupported : List Arg → Bool
  | [] => true
  | a :: as => argSupported a && argsSupported as
end

def textSupported (s : Str) : Bool :=
  match s with
  | '$' :: _ => pathSupported s
  | _ => match parseIntrinsic s with
    | some a => argSupported a
    | none => true

mutual
def tplSupported (q : Quirks) : Json → Bool
  | .arr xs => tplSupportedL q xs
  | .obj kvs => tplSupportedM q kvs
  | .str s => if q.arrayElems && endsDollar s then textSupported (stripDollar s) else true
  | _ => true
def tplSupportedL (q : Quirks) : List Json → Bool
  | [] => true
  | x :: xs => tplSupported q x && tplSupportedL q xs
def tplSupportedM (q : Quirks) : List (Str × Json) → Bool
  | [] => true
  | (k, v) :: kvs =>
    (match v with
     | .str s => if endsDollar k then textSupported s else true
     | .arr xs => tplSupportedL q xs
     | .obj m => tplSupportedM q m
     | _ => true) && tplSupportedM q kvs
end

mutual
def argJson : Arg → Json
  | .str s => .obj [("s".toList, .str s)]
  | .int n => .obj [("i".toList, .num n)]
  | .null => .obj [("k".toList, .null)]
  | .bool b => .obj [("k".toList, .bool b)]
  | .path p => .obj [("p".toList, .str p)]
  | .call f args => .obj [("f".toList, .str f), ("a".toList, .arr (argsJson args))]
def argsJson : List Arg → List Json
  | [] => []
  | a :: as => argJson a :: argsJson as
end

def handle : List String → String
  | ["eval", qs, input, ctx, tpl, table] =>
    match rd input, rd ctx, rd tpl, rd table with
    | some i, some c, some t, some (.arr tb) =>
      let q : Quirks := { arrayElems := qs = "1" }
      let topOk := match t with
        | .obj _ => true
        | .arr _ => true
        | .null => true
        | .str [] => true
        | _ => false
      if !topOk || !tplSupported q t then "unsupported"
      else
        match evalTemplate (oracles tb) q i c t with
        | .ok v =>
          let out := js (normalise v)
          if (out.splitOn "\\ue000").length > 1 then "unsupported" else "ok\t" ++ out
        | .error e => "err\t" ++ e.name
    | _, _, _, _ => "unsupported"
  | ["parse", text] =>
    match rd text with
    | some (.str s) => match parseIntrinsic s with
      | some a => "ok\t" ++ js (argJson a)
      | none => "err\tnoparse"
    | _ => "unsupported"
  | _ => "bad-op"

end Asl.Drv.Templates
