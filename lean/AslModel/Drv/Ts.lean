/- driver handler of the `ts` stream (line protocol, see Main.lean)

  ts  parse  "<text>"      → ok <record+instant> | reject
  ts  print  <record>      → ok "<text>"         | unsupported   (record not `Ts.ok`)
-/
import AslModel.Drv.Util
import AslModel.Timestamp
namespace Asl.Drv.Ts
open Asl Asl.Drv

def k (s : String) : Str := s.toList

def showTs (t : Ts) : Json :=
  .obj [(k "y", .num t.year), (k "mo", .num t.month), (k "d", .num t.day), (k "h", .num t.hour),
        (k "mi", .num t.minute), (k "s", .num t.second), (k "us", .num (fracMicros t.frac)),
        (k "frac", .arr (t.frac.map fun (d : Nat) => Json.num (d : Int))),
        (k "off", .num t.off), (k "z", .bool t.zulu), (k "instant", .num t.instant)]

def natOf : Option Json → Option Nat
  | some (.num n) => if 0 ≤ n then some n.toNat else none
  | _ => none

def digitsOf : List Json → Option (List Nat)
  | [] => some []
  | .num n :: rest => if 0 ≤ n then (digitsOf rest).map (n.toNat :: ·) else none
  | _ :: _ => none

def readTs (j : Json) : Option Ts := do
  let y ← natOf (j.get "y")
  let mo ← natOf (j.get "mo")
  let d ← natOf (j.get "d")
  let h ← natOf (j.get "h")
  let mi ← natOf (j.get "mi")
  let s ← natOf (j.get "s")
  let fr ← match j.get "frac" with
    | some (.arr xs) => digitsOf xs
    | _ => none
  let off ← match j.get "off" with
    | some (.num n) => some n
    | _ => none
  let z ← match j.get "z" with
    | some (.bool b) => some b
    | _ => none
  some { year := y, month := mo, day := d, hour := h, minute := mi, second := s, frac := fr,
         off := off, zulu := z }

def handle : List String → String
  | ["parse", text] =>
    match rd text with
    | some (.str s) =>
      match parseTs s with
      | some t => "ok\t" ++ js (showTs t)
      | none => "reject"
    | _ => "unsupported"
  | ["print", rec] =>
    match (rd rec).bind readTs with
    | some t => if t.ok then "ok\t" ++ js (.str (printTs t)) else "unsupported"
    | none => "unsupported"
  | _ => "bad-op"

end Asl.Drv.Ts
