/- driver handler of the `ts` stream (line protocol, see Main.lean) -/
import AslModel.Drv.Util
namespace Asl.Drv.Ts
open Asl

def handle : List String → String
  | _ => "bad-op"

end Asl.Drv.Ts
