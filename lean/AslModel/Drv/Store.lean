/- driver handler of the `store` stream (line protocol, see Main.lean):
   `store <TAB> run <TAB> <case JSON>` → `ok <TAB> [out, …, final dump]` -/
import AslModel.Drv.Util
import AslModel.Store
namespace Asl.Drv.Store
open Asl Asl.Drv Asl.Store

def nat? : Json → Option Nat
  | .num n => if n ≥ 0 then some n.toNat else none
  | _ => none

def bool? : Json → Option Bool
  | .bool b => some b
  | _ => none

/-- `drain` is a harness step: deliver until the client's queue is empty -/
def isDrain : Json → Option Nat
  | .arr [c, .str name] => if String.ofList name = "drain" then nat? c else none
  | _ => none

def decOp : Json → Option (Nat × Op)
  | .arr (c :: .str name :: args) =>
    match nat? c with
    | none => none
    | some c =>
      match String.ofList name, args with
      | "set", [.str k, v] => some (c, .set k v)
      | "upd", [.str k, .str f, v] => some (c, .upd k f v)
      | "app", [.str k, v] => some (c, .app k v)
      | "get", [.str k] => some (c, .get k)
      | "cget", [.str k] => some (c, .cget k)
      | "del", [.str k] => some (c, .del k)
      | "has", [.str k] => some (c, .has k)
      | "iter", [] => some (c, .iter)
      | "len", [] => some (c, .len)
      | "ttl", [.str k, n] => (nat? n).map (fun n => (c, .ttl k n))
      | "gttl", [.str k] => some (c, .gttl k)
      | "reopen", [] => some (c, .reopen)
      | "deliver", [] => some (c, .deliver)
      | _, _ => none
  | _ => none

def decOps : List Json → Option (List (Nat × Op ⊕ Nat))
  | [] => some []
  | j :: js =>
    match isDrain j with
    | some c => (decOps js).map (fun os => .inr c :: os)
    | none => match decOp j, decOps js with
      | some o, some os => some (.inl o :: os)
      | _, _ => none

def plainOps : List (Nat × Op ⊕ Nat) → List (Nat × Op)
  | [] => []
  | .inl o :: r => o :: plainOps r
  | .inr c :: r => (c, .deliver) :: plainOps r

/-- Redis schedule with `drain` expanded into as many `deliver` steps as the queue is long -/
def runR (q : Quirks) (cfgs : Nat → Cfg) (w : RWorld) : List (Nat × Op ⊕ Nat) → RWorld × List Out
  | [] => (w, [])
  | .inl (c, op) :: rest =>
    let r := rstep q cfgs w c op
    let r2 := runR q cfgs r.1 rest
    (r2.1, r.2 :: r2.2)
  | .inr c :: rest =>
    let n := (w.cl c).pending.length
    let r := rrun q cfgs w (List.replicate n (c, .deliver))
    let r2 := runR q cfgs r.1 rest
    (r2.1, .done :: r2.2)

def decCfg (j : Json) : Option Cfg :=
  match j.get "pre", (j.get "isList").bind bool?, (j.get "cap").bind nat?, (j.get "legacy").bind bool? with
  | some (.str p), some l, some cap, some lg => some { pre := p, isList := l, cap := cap, legacy := lg }
  | _, _, _, _ => none

def decCfgs : List Json → Option (List Cfg)
  | [] => some []
  | j :: js => match decCfg j, decCfgs js with
    | some o, some os => some (o :: os)
    | _, _ => none

def decFile (j : Json) : Option FileC :=
  match j.get "t" with
  | some (.str t) =>
    match String.ofList t, j.get "j" with
    | "missing", _ => some .missing
    | "garbage", _ => some .garbage
    | "doc", some d => some (.doc d)
    | _, _ => none
  | _ => none

def encOut : Out → Json
  | .done => .null
  | .val j => .obj [("v".toList, j)]
  | .dflt => .obj [("dflt".toList, .bool true)]
  | .keyError => .obj [("err".toList, .str "KeyError".toList)]
  | .typeError => .obj [("err".toList, .str "TypeError".toList)]
  | .flag b => .bool b
  | .keys ks => .obj [("keys".toList, .arr (ks.map .str))]
  | .count n => .num n
  | .ttlv none => .num (-2)
  | .ttlv (some none) => .num (-1)
  | .ttlv (some (some n)) => .num n

def encFile : FileC → Json
  | .missing => .obj [("t".toList, .str "missing".toList)]
  | .garbage => .obj [("t".toList, .str "garbage".toList)]
  | .doc j => .obj [("t".toList, .str "doc".toList), ("j".toList, j)]

def decTtl : List (Str × Json) → Option (List (Str × Nat))
  | [] => some []
  | (k, v) :: r => match nat? v, decTtl r with
    | some n, some r' => some ((k, n) :: r')
    | _, _ => none

def runCase (j : Json) : Option Json :=
  let q : Quirks := {
    emptyAbsent := (((j.get "q").bind (·.get "emptyAbsent")).bind bool?).getD false,
    nestedMemOnly := (((j.get "q").bind (·.get "nestedMemOnly")).bind bool?).getD false }
  match j.get "kind", j.get "ops" with
  | some (.str kind), some (.arr ops) =>
    match decOps ops with
    | none => none
    | some ops =>
      match String.ofList kind with
      | "mem" =>
        let r := mrun [] ((plainOps ops).map (·.2))
        some (.arr (r.2.map encOut ++ [.obj [("mem".toList, .obj r.1)]]))
      | "json" =>
        match (j.get "file").bind decFile with
        | none => none
        | some f =>
          let r := jrun q (jopen f) (plainOps ops)
          some (.arr (r.2.map encOut ++ [.obj [("file".toList, encFile r.1.file)]]))
      | "redis" =>
        match j.get "cfgs", j.get "srv", j.get "ttl" with
        | some (.arr cs), some (.obj srv), some (.obj ttl) =>
          match decCfgs cs, decTtl ttl with
          | some cfgs, some ttl =>
            let r := runR q (fun c => cfgs.getD c default) (ropen srv ttl) ops
            some (.arr (r.2.map encOut ++
              [.obj [("srv".toList, .obj r.1.srv), ("ttl".toList, .obj (r.1.ttl.map (fun e => (e.1, .num e.2))))]]))
          | _, _ => none
        | _, _, _ => none
      | _ => none
  | _, _ => none

def handle : List String → String
  | ["run", c] =>
    match rd c with
    | some j => match runCase j with
      | some r => "ok\t" ++ js r
      | none => "unsupported"
    | none => "unsupported"
  | _ => "bad-op"

end Asl.Drv.Store
