/- driver handler of the `store` stream (line protocol, see Main.lean) -/
import AslModel.Drv.Util
namespace Asl.Drv.Store
open Asl

def handle : List String → String
  | _ => "bad-op"

end Asl.Drv.Store
