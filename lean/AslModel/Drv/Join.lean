/- driver handler of the `join` stream -/
import AslModel.Drv.Util
import AslModel.Join
import AslModel.Retry
namespace Asl.Drv.Join
open Asl Asl.Drv

def pairs : Json → Option (List (Nat × Json))
  | .arr xs => xs.mapM (fun p => match p with
      | .arr [.num i, v] => if i < 0 then none else some (i.toNat, v)
      | _ => none)
  | _ => none

def optArr : Option (List Json) → Json
  | some vs => .arr vs
  | none => .null

def handle : List String → String
  | ["feed", n, sigma] =>
    match n.toNat?, (rd sigma).bind pairs with
    | some n, some σ => "ok\t" ++ js (optArr (Join.result (Join.feed (Join.init n) σ)))
    | _, _ => "unsupported"
  | ["map", n, m, cs] =>
    match n.toNat?, m.toNat?, (rd cs).bind pairs with
    | some n, some m, some cs =>
      let step := fun (acc : MapSt × Nat) (c : Nat × Json) =>
        let st := acc.1.complete c.1 c.2
        (st, max acc.2 st.inFlight)
      let st0 := MapSt.init n m
      let (st, mx) := cs.foldl step (st0, st0.inFlight)
      "ok\t" ++ js (.obj [(S "launched", .arr (st.launched.map (fun i => Json.num (Int.ofNat i)))),
                         (S "inFlight", .num (Int.ofNat st.inFlight)), (S "maxInFlight", .num (Int.ofNat mx)),
                         (S "result", optArr (Join.result st.slots))])
    | _, _, _ => "unsupported"
  | _ => "bad-op"

end Asl.Drv.Join
