/- driver handler of the `join` stream (line protocol, see Main.lean) -/
import AslModel.Drv.Util
namespace Asl.Drv.Join
open Asl

def handle : List String → String
  | _ => "bad-op"

end Asl.Drv.Join
