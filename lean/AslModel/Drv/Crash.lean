/- driver handler of the `crash` stream -/
import AslModel.Drv.Util
import AslModel.Crash
import AslModel.Retry
namespace Asl.Drv.Crash
open Asl Asl.Drv Asl.Crash

def natOf? : Json → Option Nat
  | .num n => if n < 0 then none else some n.toNat
  | _ => none

mutual
/-- a skeleton: a JSON array of "T" (Task; {"T": rc}: the event of a retry), "S" (a visit handled in one go), "W" (a visit
that goes on from a timer), {"par": [skeleton, …], "mc": n}, {"child": skeleton, "rc": n, "then": …} (a synchronous child
execution), "?" (a path the crash-free run did not take) and, as the last item, {"fail": null | level, "cont": skeleton}
(the visit before fails; "X" = "T" followed by {"fail": null}) -/
def skOf : Nat → List Json → Option Sk
  | 0, _ => none
  | _ + 1, [] => some .done
  | fuel + 1, x :: rest =>
    match x with
    | .str s =>
      if s = S "T" then (skOf fuel rest).map (.task 0)
      else if s = S "X" then some (.task 0 (.fail none .done))
      else if s = S "S" then (skOf fuel rest).map .step
      else if s = S "W" then (skOf fuel rest).map .wait
      else if s = S "?" then some .opaque
      else none
    | .obj kvs =>
      match objGet kvs (S "T") with
      | some n => (match natOf? n with
        | some rc => (skOf fuel rest).map (.task rc)
        | none => none)
      | none =>
      match objGet kvs (S "fail") with
      | some lv =>
        let cont := match objGet kvs (S "cont") with
          | some (.arr xs) => skOf fuel xs
          | _ => some .done
        cont.map (fun k => .fail (natOf? lv) k)
      | none =>
      match objGet kvs (S "child") with
      | some (.arr xs) =>
        let rc := match objGet kvs (S "rc") with | some (.num n) => n.toNat | _ => 0
        (match skOf fuel xs, skOf fuel rest with
         | some sub, some r => some (.child rc sub r)
         | _, _ => none)
      | some _ => none
      | none =>
      match objGet kvs (S "par"), skOf fuel rest with
      | some (.arr bs), some r =>
        let mc := match objGet kvs (S "mc") with | some (.num n) => n.toNat | _ => 0
        (brOf fuel bs).map (fun b => .par mc b r)
      | _, _ => none
    | _ => none
def brOf : Nat → List Json → Option Br
  | 0, _ => none
  | _ + 1, [] => some .nil
  | fuel + 1, b :: bs =>
    match b with
    | .arr xs =>
      match skOf fuel xs, brOf fuel bs with
      | some s, some r => some (.cons s r)
      | _, _ => none
    | _ => none
end

/-- ["ev" | "tm" | "rp", id, cut?] / ["tick", null, cut?] / ["crash"] -/
def opOf : Json → Option (Op × Option Nat)
  | .arr (.str k :: more) =>
    let arg := more[0]?.bind natOf?
    let cut := more[1]?.bind natOf?
    if k = S "crash" then some (.crash, none)
    else if k = S "tick" then some (.tick, cut)
    else match arg with
      | none => none
      | some a =>
        if k = S "ev" then some (.ev a, cut)
        else if k = S "tm" then some (.tm a, cut)
        else if k = S "rp" then some (.rp a, cut)
        else none
  | _ => none

def quirksOf (s : String) : Quirks :=
  let has (x : String) : Bool := (s.splitOn ",").contains x
  { requestFromTimer := has "F1", replyAckedBeforeJoin := has "F2", nestedJoinAcksEarly := has "F4",
    batchRelaunched := has "F7", childAnswerInProcess := has "F8", attemptFailureForgotten := has "F9" }

def nats (xs : List Nat) : Json := .arr (xs.map (fun n => Json.num (Int.ofNat n)))

/-- run the schedule as far as it is enabled: (configuration, index of the first operation that is not) -/
def runTo (q : Quirks) : Cfg → Sched → Nat → Cfg × Option Nat
  | c, [], _ => (c, none)
  | c, (op, cut) :: rest, i =>
    match step q c op cut with
    | some c' => runTo q c' rest (i + 1)
    | none => (c, some i)

/-- a configuration in short (for `trace`) -/
def cfgJson (c : Cfg) : Json :=
  .obj [(S "ev", .arr (c.evq.map (fun m => Json.str (S (toString m.id ++ (if m.unacked then "u" else "") ++ (if m.redelivered then "r" else "")))))),
        (S "rp", .arr (c.rpq.map (fun r => Json.str (S (toString r.corr ++ (if r.unacked then "u" else "") ++ (if r.redelivered then "r" else "")))))),
        (S "tm", nats c.timers), (S "pend", nats c.pending), (S "orph", nats c.orphans), (S "sent", nats c.sent),
        (S "joins", .arr (c.joins.map (fun j => Json.str (S (toString j.jid ++ (if j.dead then "†" else "") ++ ":" ++ toString j.filled ++ "/" ++ toString (j.heldEv.map (·.2))))))),
        (S "notes", .num (Int.ofNat c.notes)), (S "failed", .num (Int.ofNat c.failed)), (S "div", .bool c.diverged)]

/-- the configurations after every operation, as far as the schedule is enabled -/
def traceTo (q : Quirks) : Cfg → Sched → List Json
  | _, [] => []
  | c, (op, cut) :: rest =>
    match step q c op cut with
    | some c' => cfgJson c' :: traceTo q c' rest
    | none => [.str (S "not enabled")]

/-- run the schedule, leaving out the operations that are not enabled: (configuration, how many were left out) -/
def runSkipping (q : Quirks) : Cfg → Sched → Nat → Cfg × Nat
  | c, [], n => (c, n)
  | c, (op, cut) :: rest, n =>
    match step q c op cut with
    | some c' => runSkipping q c' rest n
    | none => runSkipping q c rest (n + 1)

def answer (q : Quirks) (c : Cfg) (skipped : Nat) : String :=
  let c' := drain q 4000 c
  let o := observe c'
  "ok\t" ++ js (.obj [(S "sync", .bool true), (S "terminal", .bool o.terminal), (S "notes", .num (Int.ofNat o.notes)),
    (S "resent", nats o.resent), (S "pendingUnsent", nats o.pendingUnsent), (S "pendingLost", nats o.pendingLost),
    (S "quiet", .bool o.quiet), (S "requests", .num (Int.ofNat c'.sent.length)),
    (S "diverged", .bool c'.diverged), (S "failed", .bool (c'.failed > 0)), (S "skipped", .num (Int.ofNat skipped)),
    (S "heldEvents", nats ((c'.evq.filter (·.unacked)).map (·.id))),
    (S "joins", .num (Int.ofNat c'.joins.length))])

def handle : List String → String
  | ["runl", quirks, skeleton, schedule] =>
    -- what the protocol with these switches does under (as much as it has of) this schedule
    match rd skeleton, rd schedule with
    | some (.arr items), some (.arr ops) =>
      match skOf 400 items, ops.mapM opOf with
      | some sk, some sched =>
        let q := quirksOf quirks
        let r := runSkipping q (init sk) sched 0
        answer q r.1 r.2
      | _, _ => "unsupported"
    | _, _ => "unsupported"
  | ["trace", quirks, skeleton, schedule] =>
    match rd skeleton, rd schedule with
    | some (.arr items), some (.arr ops) =>
      match skOf 400 items, ops.mapM opOf with
      | some sk, some sched => "ok\t" ++ js (.arr (traceTo (quirksOf quirks) (init sk) sched))
      | _, _ => "unsupported"
    | _, _ => "unsupported"
  | ["run", quirks, skeleton, schedule] =>
    match rd skeleton, rd schedule with
    | some (.arr items), some (.arr ops) =>
      match skOf 400 items, ops.mapM opOf with
      | some sk, some sched =>
        let q := quirksOf quirks
        match runTo q (init sk) sched 0 with
        | (_, some i) => "ok\t" ++ js (.obj [(S "sync", .bool false), (S "at", .num (Int.ofNat i))])
        | (c, none) => answer q c 0
      | _, _ => "unsupported"
    | _, _ => "unsupported"
  | _ => "bad-op"

end Asl.Drv.Crash
