/- driver handler of the `engine` stream (line protocol, see Main.lean) -/
import AslModel.Drv.Util
namespace Asl.Drv.Engine
open Asl

def handle : List String → String
  | _ => "bad-op"

end Asl.Drv.Engine
