/- driver handler of the `engine` stream: the protocol-level recognisers run over what the real
engine did (frame logs, histories, notification sequences) -/
import AslModel.Drv.Util
import AslModel.Ledger
import AslModel.History
namespace Asl.Drv.Engine
open Asl Asl.Drv

def frOf : Json → Option Fr
  | .arr [.str ['d'], .num t] => some (.deliver t.toNat)
  | .arr [.str ['a'], .num t] => some (.ack t.toNat)
  | .arr [.str ['p']] => some .pub
  | .arr [.str ['r']] => some .recw
  | _ => none

def frames : Json → Option (List Fr)
  | .arr xs => xs.mapM frOf
  | _ => none

def evOf : Json → Option HEvent
  | .arr [.num i, .num p, .num ts, .str ty, .str nm] =>
    some { id := i.toNat, prev := p.toNat, ts := ts, type := ty, name := nm }
  | _ => none

def b (x : Bool) : Json := .bool x

def handle : List String → String
  | ["ledger", fs] =>
    match (rd fs).bind frames with
    | some fs =>
      let l := Ledger.run fs
      "ok\t" ++ js (.obj [(S "bad", b l.bad), (S "unacked", .arr (l.unacked.reverse.map (fun t => .num (Int.ofNat t))))])
    | none => "unsupported"
  | ["ordered", fs] =>
    match (rd fs).bind frames with
    | some fs => "ok\t" ++ js (b (stepOrdered fs))
    | none => "unsupported"
  | ["history", evs] =>
    match rd evs with
    | some (.arr xs) =>
      match xs.mapM evOf with
      | some h => "ok\t" ++ js (.obj [(S "wf", b (WFHistory h)), (S "numbered", b (numbered h 0)),
          (S "ts", b (tsMonotone h)), (S "terminalLast", b (terminalLast h)),
          (S "started", b (startsWithStarted h)), (S "brackets", b (bracketsOK [] h)),
          (S "balanced", b (balancedIfClean h))])
      | none => "unsupported"
    | _ => "unsupported"
  | ["notes", ns] =>
    match rd ns with
    | some (.arr xs) =>
      match xs.mapM (fun j => match j with | .str s => some s | _ => none) with
      | some l => "ok\t" ++ js (b (notesOK l))
      | none => "unsupported"
    | _ => "unsupported"
  | _ => "bad-op"

end Asl.Drv.Engine
