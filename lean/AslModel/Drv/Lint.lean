/- driver handler of the `lint` stream (line protocol, see Main.lean) -/
import AslModel.Drv.Util
namespace Asl.Drv.Lint
open Asl

def handle : List String → String
  | _ => "bad-op"

end Asl.Drv.Lint
