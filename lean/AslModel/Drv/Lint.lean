/- driver handler of the `lint` stream (line protocol, see Main.lean)

  lint wf  <definition>                               -> ok | problems <json array of codes>
  lint ill <definition> <input> <ctx> <oracle> <fuel> -> ok {"wf":b,"ill":b,"status":s,"error":e} | unsupported
-/
import AslModel.Drv.Util
import AslModel.Drv.Interp
import AslModel.Machine
namespace Asl.Drv.Lint
open Asl Asl.Drv Asl.Machine

def problemJson : Problem → Json
  | .notAnObject => .str (S "notAnObject")
  | .noStates => .str (S "noStates")
  | .noStartAt => .str (S "noStartAt")
  | .startAtUndefined => .str (S "startAtUndefined")
  | .duplicateNames => .str (S "duplicateNames")
  | .illFormedState n => .arr [.str (S "illFormedState"), .str n]
  | .illFormed => .str (S "illFormed")

def handle : List String → String
  | ["wf", d] =>
    match rd d with
    | some m =>
      match lint m with
      | [] => "ok"
      | ps => "problems\t" ++ jsOrd (.arr (ps.map problemJson))
    | none => "unsupported"
  | ["ill", asl, input, ctx, oracle, fuel] =>
    match rd asl, rd input, rd ctx, rd oracle, fuel.toNat? with
    | some a, some i, some c, some o, some f =>
      if !Lite.machineSupported 200 a then "unsupported"
      else
        let env : Env := { tmpl := Lite.tmpl, choose := Lite.choose, task := Asl.Drv.Interp.oracleFn o }
        let out := run env f a i c
        "ok\t" ++ js (.obj [(S "wf", .bool (WF a)), (S "ill", .bool (illRun env f a i c)),
                            (S "status", .str out.status),
                            (S "error", match out.error with | some e => .str e | none => .null)])
    | _, _, _, _, _ => "unsupported"
  | _ => "bad-op"

end Asl.Drv.Lint
