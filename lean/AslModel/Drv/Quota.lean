/- driver handler of the `quota` stream (line protocol, see Main.lean) -/
import AslModel.Drv.Util
namespace Asl.Drv.Quota
open Asl

def handle : List String → String
  | _ => "bad-op"

end Asl.Drv.Quota
