/- driver handler of the `quota` stream (line protocol, see Main.lean)

  quota data <site> <n>            -> accepted | refused <error>     (a measured length at a data site)
  quota stateq <none|terminalOutputUnchecked> <0|1 terminal> <n> -> verdict of a state output of length n
  quota state <json>               -> accepted <serLen> | refused <error> <serLen>   (a state's output)
  quota text <site> "<text>"       -> accepted <chars> | refused <error> <chars>     (a submitted / reply text)
  quota serlen <json>              -> ok <n>                         (len(json.dumps(value)))
  quota pad <str|obj|arr|arr2> <n> -> ok <serLen of the padding document>
  quota def <site> <n>             -> accepted | refused InvalidDefinition
  quota name <asyncio|flask> "<s>" -> accepted | refused InvalidName
  quota hist <h0> [adds…]          -> ok {"failed":b,"len":n}
  quota histp <h0> [[e,adds]…]     -> ok {"failed":b,"len":n}   (passes: e = 1 first entry, 0 re-entry)
  quota limits                     -> ok {…the generated constants…}
-/
import AslModel.Drv.Util
import AslModel.Quota
namespace Asl.Drv.Quota
open Asl Asl.Drv Asl.Quota

def dataSite : String → Option DataSite
  | "apiStartExecution" => some .apiStartExecution
  | "apiStartExecutionFlask" => some .apiStartExecutionFlask
  | "apiStartSyncExecution" => some .apiStartSyncExecution
  | "apiSendTaskSuccess" => some .apiSendTaskSuccess
  | "stateOutput" => some .stateOutput
  | "taskReply" => some .taskReply
  | "callbackOutput" => some .callbackOutput
  | _ => none

def defSite : String → Option DefSite
  | "createStateMachine" => some .createStateMachine
  | "updateStateMachine" => some .updateStateMachine
  | "createStateMachineFlask" => some .createStateMachineFlask
  | "updateStateMachineFlask" => some .updateStateMachineFlask
  | _ => none

def nameSite : String → Option NameSite
  | "asyncio" => some .asyncio
  | "flask" => some .flask
  | _ => none

def showVerdict : Verdict → String
  | .accepted => "accepted"
  | .refused e => "refused\t" ++ String.ofList e

def natOf (s : String) : Option Nat := s.toNat?

def natList : List Json → Option (List Nat)
  | [] => some []
  | .num n :: rest =>
    if n < 0 then none else
    match natList rest with
    | some xs => some (n.toNat :: xs)
    | none => none
  | _ => none

def pairList : List Json → Option (List (Nat × Nat))
  | [] => some []
  | .arr [.num e, .num a] :: rest =>
    if e < 0 || a < 0 then none else
    match pairList rest with
    | some xs => some ((e.toNat, a.toNat) :: xs)
    | none => none
  | _ => none

def nat (n : Nat) : Json := .num (Int.ofNat n)

def handle : List String → String
  | ["data", s, n] =>
    match dataSite s, natOf n with
    | some site, some k => showVerdict (checkData site k)
    | _, _ => "unsupported"
  | ["stateq", quirk, term, n] =>
    match natOf n with
    | some k =>
      let q : Quirks := { terminalOutputUnchecked := quirk = "terminalOutputUnchecked" }
      if quirk = "none" || quirk = "terminalOutputUnchecked" then
        showVerdict (checkStateOutputLenQ q (term = "1") k)
      else "unsupported"
    | none => "unsupported"
  | ["state", j] =>
    match rd j with
    | some v => showVerdict (checkStateOutput v) ++ "\t" ++ toString (serLen v)
    | none => "unsupported"
  | ["text", s, j] =>
    match dataSite s, rd j with
    | some site, some (.str t) => showVerdict (checkText site t) ++ "\t" ++ toString t.length
    | _, _ => "unsupported"
  | ["serlen", j] =>
    match rd j with
    | some v => "ok\t" ++ toString (serLen v)
    | none => "unsupported"
  | ["pad", shape, n] =>
    match natOf n with
    | some k =>
      if shape = "str" then "ok\t" ++ toString (serLen (padStr k))
      else if shape = "obj" then "ok\t" ++ toString (serLen (padObj k))
      else if shape = "arr" then "ok\t" ++ toString (serLen (padArr k))
      else if shape = "arr2" then "ok\t" ++ toString (serLen (padArr2 k))
      else "unsupported"
    | none => "unsupported"
  | ["def", s, n] =>
    match defSite s, natOf n with
    | some site, some k => showVerdict (checkDefinition site k)
    | _, _ => "unsupported"
  | ["name", s, j] =>
    match nameSite s, rd j with
    | some site, some (.str t) => showVerdict (checkName site t)
    | _, _ => "unsupported"
  | ["hist", h0, j] =>
    match natOf h0, rd j with
    | some h, some (.arr xs) =>
      match natList xs with
      | some adds =>
        let r := runHistory h adds
        "ok\t" ++ js (.obj [("failed".toList, .bool r.failed), ("len".toList, nat r.len)])
      | none => "unsupported"
    | _, _ => "unsupported"
  | ["histp", h0, j] =>
    match natOf h0, rd j with
    | some h, some (.arr xs) =>
      match pairList xs with
      | some ps =>
        let r := runPasses h ps
        "ok\t" ++ js (.obj [("failed".toList, .bool r.failed), ("len".toList, nat r.len)])
      | none => "unsupported"
    | _, _ => "unsupported"
  | ["limits"] =>
    "ok\t" ++ js (.obj [
      ("maxDataLength".toList, nat Generated.maxDataLength),
      ("maxDataLengthTaskDispatcher".toList, nat Generated.maxDataLengthTaskDispatcher),
      ("maxDataLengthRestApiAsyncio".toList, nat Generated.maxDataLengthRestApiAsyncio),
      ("maxDataLengthRestApi".toList, nat Generated.maxDataLengthRestApi),
      ("maxStateMachineLength".toList, nat Generated.maxStateMachineLength),
      ("maxStateMachineLengthRestApiAsyncio".toList, nat Generated.maxStateMachineLengthRestApiAsyncio),
      ("maxStateMachineLengthRestApi".toList, nat Generated.maxStateMachineLengthRestApi),
      ("maxExecutionHistoryLength".toList, nat Generated.maxExecutionHistoryLength)])
  | _ => "bad-op"

end Asl.Drv.Quota
