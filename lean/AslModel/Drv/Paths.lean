/- driver handler of the `paths` stream -/
import AslModel.Drv.Util
namespace Asl.Drv.Paths
open Asl Asl.Drv

def handle : List String → String
  | ["put", doc, path, res] =>
    match rd doc, rdOptStr path, rd res with
    | some d, some p, some r => showRes (applyResultPath d r p)
    | _, _, _ => "unsupported"
  | ["get", doc, path] =>
    match rd doc, rd path with
    | some d, some (.str p) => showRes (applyJsonPathText d p)
    | _, _ => "unsupported"
  | ["path", doc, ctx, path] =>
    match rd doc, rd ctx, rdOptStr path with
    | some d, some c, some p => showRes (applyPath d c p)
    | _, _, _ => "unsupported"
  | ["parse", path] =>
    match rd path with
    | some (.str p) => match parseRef p with
      | some segs => "ok\t" ++ js (.arr (segs.map .str))
      | none => "err\tnoparse"
    | _ => "unsupported"
  | _ => "bad-op"

end Asl.Drv.Paths
