/- driver handler of the `fanproto` stream: an abstract input sequence of the fan-out protocol → the outputs and
the state after every input -/
import AslModel.Drv.Util
import AslModel.FanProto
import AslModel.Retry
namespace Asl.Drv.Fanproto
open Asl Asl.Drv Asl.FanProto

def natOf : Json → Option Nat
  | .num n => if n < 0 then none else some n.toNat
  | _ => none

def errOf : Json → Option Err
  | .str ['t', 't'] => some .taskTerminated
  | .str ['f', 'a', 't', 'a', 'l'] => some .fatal
  | .num n => if n < 0 then none else some (.plain n.toNat)
  | _ => none

def handledOf : Json → Option Handled
  | .str ['u'] => some .uncaught
  | .str ['r'] => some .retried
  | .str ['c'] => some .caught
  | _ => none

def boolOf : Json → Option Bool
  | .bool b => some b
  | _ => none

def kontOf : Json → Option Kont
  | .arr [.str tag] =>
    if tag = S "goesOn" then some .goesOn
    else if tag = S "arm" then some .arm
    else if tag = S "caughtOn" then some .caughtOn
    else none
  | .arr [.str tag, v, x, .arr ys] =>
    if tag = S "doneFail" then
      match natOf v, errOf x, ys.mapM handledOf with
      | some v, some e, some hs => some (.doneFail v e hs)
      | _, _, _ => none
    else none
  | .arr [.str tag, x, .arr ys] =>
    if tag = S "done" then
      match natOf x, ys.mapM boolOf with
      | some v, some ups => some (.done v ups)
      | _, _ => none
    else if tag = S "fail" then
      match errOf x, ys.mapM handledOf with
      | some e, some hs => some (.fail e hs)
      | _, _ => none
    else none
  | _ => none

def parOf : Json → Option (Option (Nat × Nat))
  | .null => some none
  | .arr [p, i] =>
    match natOf p, natOf i with
    | some p, some i => some (some (p, i))
    | _, _ => none
  | _ => none

def inpOf : Json → Option Inp
  | .arr [.str tag] => if tag = S "backstop" then some .backstop else none
  | .arr [.str tag, .bool ok] => if tag = S "topEnd" then some (.topEnd ok) else none
  | .arr [.str tag, a, i] =>
    if tag = S "echo" then
      match natOf a, natOf i with
      | some a, some i => some (.echo a i)
      | _, _ => none
    else none
  | .arr [.str tag, a, i, k] =>
    match natOf a, natOf i, kontOf k with
    | some a, some i, some k =>
      if tag = S "event" then some (.event a i k)
      else if tag = S "deferred" then some (.deferred a i k)
      else if tag = S "reply" then some (.reply a i k)
      else none
    | _, _, _ => none
  | .arr [.str tag, a, n, par, k] =>
    if tag = S "launch" then
      match natOf a, natOf n, parOf par, natOf k with
      | some a, some n, some par, some k => some (.launch a n n par k)
      | _, _, _, _ => none
    else if tag = S "batch" then
      match natOf a, natOf n, natOf par, boolOf k with
      | some a, some lo, some hi, some l => some (.batch a lo hi l)
      | _, _, _, _ => none
    else none
  | .arr [.str tag, a, n, hi, par, k] =>
    if tag = S "launchMap" then
      match natOf a, natOf n, natOf hi, parOf par, natOf k with
      | some a, some n, some hi, some par, some k => some (.launch a n hi par k)
      | _, _, _, _, _ => none
    else none
  | _ => none

def quirksOf (s : String) : Quirks :=
  { refail := s.contains 'r', oneLevel := s.contains 'o', topUnguarded := s.contains 't',
    nestedSurvive := s.contains 'n' }

def n (k : Nat) : Json := .num (Int.ofNat k)
def t (s : String) : Json := .str s.toList

def errJ : Err → Json
  | .taskTerminated => t "tt"
  | .fatal => t "fatal"
  | .plain k => n k

def outJ : Out → Json
  | .launched a => .arr [t "launched", n a]
  | .progress a i => .arr [t "progress", n a, n i]
  | .drop a i => .arr [t "drop", n a, n i]
  | .succeed a vs => .arr [t "succeed", n a, .arr (vs.map n)]
  | .failAttempt a e => .arr [t "fail", n a, errJ e]
  | .aborted a => .arr [t "aborted", n a]
  | .retry a k => .arr [t "retry", n a, n k]
  | .caughtTo a => .arr [t "caughtTo", n a]
  | .cancel a i => .arr [t "cancel", n a, n i]
  | .endExecution ok => .arr [t "end", .bool ok]
  | .discard => .arr [t "discard"]
  | .orphan a i => .arr [t "orphan", n a, n i]
  | .unknown a => .arr [t "unknown", n a]
  | .refused => .arr [t "refused"]
  | .joinFailed a e => .arr [t "joinFailed", n a, errJ e]

def slotJ : Slot → Json
  | .pending => t "P"
  | .task => t "T"
  | .cancelling => t "X"
  | .caught => t "C"
  | .caughtTask => t "CT"
  | .done _ => t "D"
  | .terminated => t "Z"
  | .unlaunched => t "U"

def attJ (x : Attempt) : Json :=
  .arr [n x.id, .bool x.seen, .bool x.terminated, .bool x.joined, .arr (x.slots.map slotJ)]

def stateJ (s : Proto) : Json :=
  .obj [(S "meta", .bool s.hasMeta),
        (S "ended", match s.ended with | some ok => .bool ok | none => .null),
        (S "atts", .arr (s.atts.reverse.map attJ))]

def runJ (q : Quirks) : Proto → List Inp → List Json
  | _, [] => []
  | s, i :: is =>
    let r := step q s i
    .obj [(S "outs", .arr (r.2.map outJ)), (S "state", stateJ r.1)] :: runJ q r.1 is

def handle : List String → String
  | ["run", quirks, inputs] =>
    match rd inputs with
    | some (.arr xs) =>
      match xs.mapM inpOf with
      | some is => "ok\t" ++ js (.arr (runJ (quirksOf quirks) FanProto.init is))
      | none => "unsupported"
    | _ => "unsupported"
  | _ => "bad-op"

end Asl.Drv.Fanproto
