/- driver handler of the `interp` stream -/
import AslModel.Drv.Util
import AslModel.Interp
import AslModel.Lite
namespace Asl.Drv.Interp
open Asl Asl.Drv

mutual
/-- engine-generated Cause texts are masked on both sides (an Error Output `{Error, Cause}`) -/
def maskCause : Json → Json
  | .obj kvs =>
    let kvs' := maskCauseM kvs
    if kvs'.all (fun kv => kv.1 = S "Error" || kv.1 = S "Cause") && (objGet kvs' (S "Error")).isSome then
      match objGet kvs' (S "Cause") with
      | some (.str _) => .obj (objSet kvs' (S "Cause") (.str (S "<cause>")))
      | _ => .obj kvs'
    else .obj kvs'
  | .arr xs => .arr (maskCauseL xs)
  | j => j
def maskCauseL : List Json → List Json
  | [] => []
  | x :: xs => maskCause x :: maskCauseL xs
def maskCauseM : List (Str × Json) → List (Str × Json)
  | [] => []
  | (k, v) :: kvs => (k, maskCause v) :: maskCauseM kvs
end

/-- oracle document: {"<fn>": [[payload, [reply0, reply1, …]], …], …}; the last reply repeats;
a function or payload not listed answers `{}` -/
def oracleFn (o : Json) : TaskFn := fun fn payload n =>
  match o with
  | .obj kvs =>
    match objGet kvs fn with
    | some (.arr entries) =>
      let rec find : List Json → Json
        | [] => .obj []
        | (.arr [p, .arr replies]) :: rest =>
          if canon (maskCause p) = canon (maskCause payload) then
            (match replies[n]? with
             | some r => r
             | none => replies.getLast?.getD (.obj []))
          else find rest
        | _ :: rest => find rest
      find entries
    | _ => .obj []
  | _ => .obj []

def optJ : Option Json → Json
  | some j => j
  | none => .null

def outcomeJson (o : Outcome) : Json :=
  .obj [(S "status", .str o.status), (S "output", optJ o.output),
        (S "error", match o.error with | some e => .str e | none => .null),
        (S "cause", optJ o.cause), (S "failState", .bool o.failState),
        (S "trace", .arr (o.trace.map .str)), (S "multiFail", .bool o.multiFail)]

def handle : List String → String
  | ["run", asl, input, ctx, oracle, fuel] =>
    match rd asl, rd input, rd ctx, rd oracle, fuel.toNat? with
    | some a, some i, some c, some o, some f =>
      if !Lite.machineSupported 200 a then "unsupported"
      else
        let env : Env := { tmpl := Lite.tmpl, choose := Lite.choose, task := oracleFn o }
        "ok\t" ++ js (outcomeJson (run env f a i c))
    | _, _, _, _, _ => "unsupported"
  | _ => "bad-op"

end Asl.Drv.Interp
