/- driver handler of the `interp` stream (line protocol, see Main.lean) -/
import AslModel.Drv.Util
namespace Asl.Drv.Interp
open Asl

def handle : List String → String
  | _ => "bad-op"

end Asl.Drv.Interp
