/- driver handler of the `interp` stream -/
import AslModel.Drv.Util
import AslModel.Interp
import AslModel.Lite
import AslModel.Drv.Templates
import AslModel.Drv.Choice
namespace Asl.Drv.Interp
open Asl Asl.Drv

mutual
/-- engine-generated Cause texts are masked on both sides (an Error Output `{Error, Cause}`) -/
def maskCause : Json → Json
  | .obj kvs =>
    let kvs' := maskCauseM kvs
    if (objGet kvs' (S "Error")).isSome then
      match objGet kvs' (S "Cause") with
      | some (.str _) => .obj (objSet kvs' (S "Cause") (.str (S "<cause>")))
      | _ => .obj kvs'
    else .obj kvs'
  | .arr xs => .arr (maskCauseL xs)
  | j => j
def maskCauseL : List Json → List Json
  | [] => []
  | x :: xs => maskCause x :: maskCauseL xs
def maskCauseM : List (Str × Json) → List (Str × Json)
  | [] => []
  | (k, v) :: kvs => (k, maskCause v) :: maskCauseM kvs
end

/-- oracle document: {"<fn>": [[payload, [reply0, reply1, …], [delay0, delay1, …]?], …], …}; the last reply
(and its delay) repeats; a function or payload not listed answers `{}` after 10 ms.  A delay is a number of
milliseconds, or `null` for a worker that never answers. -/
def oracleEntry (o : Json) (fn : Str) (payload : Json) : Option (List Json × List Json) :=
  match o with
  | .obj kvs =>
    match objGet kvs fn with
    | some (.arr entries) =>
      let rec find : List Json → Option (List Json × List Json)
        | [] => none
        | (.arr (p :: .arr replies :: more)) :: rest =>
          if canon (maskCause p) = canon (maskCause payload) then
            some (replies, match more with | [.arr ds] => ds | _ => [])
          else find rest
        | _ :: rest => find rest
      find entries
    | _ => none
  | _ => none

def nthOrLast (xs : List Json) (n : Nat) : Option Json :=
  match xs[n]? with
  | some r => some r
  | none => xs.getLast?

def oracleFn (o : Json) : TaskFn := fun fn payload n =>
  match oracleEntry o fn payload with
  | some (replies, _) => (nthOrLast replies n).getD (.obj [])
  | none => .obj []

def oracleDelay (o : Json) : Str → Json → Nat → Option Rat := fun fn payload n =>
  match oracleEntry o fn payload with
  | some (_, delays) =>
    (match nthOrLast delays n with
     | some (.num d) => some (d : Rat)
     | some .null => none
     | _ => some 10)
  | none => some 10

def optJ : Option Json → Json
  | some j => j
  | none => .null

/-- the state events of the log in the short form `["in" | "out", name, data]` -/
def evShort : Ev → Option Json
  | .entered _ n d => some (.arr [.str (S "in"), .str n, d])
  | .exited _ n d => some (.arr [.str (S "out"), .str n, d])
  | _ => none

def optNat : Option Nat → Json
  | some n => .num n
  | none => .null

/-- a history event as `[type, name-or-null, detail-or-null]` (the detail fields that are compared) -/
def evJson : Ev → Json
  | .entered ty n d => .arr [.str (ty ++ S "StateEntered"), .str n, .obj [(S "input", d)]]
  | .exited ty n d => .arr [.str (ty ++ S "StateExited"), .str n, .obj [(S "output", d)]]
  | .lambdaScheduled i r => .arr [.str (S "LambdaFunctionScheduled"), .null, .obj [(S "input", i), (S "resource", .str r)]]
  | .lambdaSucceeded o => .arr [.str (S "LambdaFunctionSucceeded"), .null, .obj [(S "output", o)]]
  | .lambdaFailed e c => .arr [.str (S "LambdaFunctionFailed"), .null, .obj [(S "error", e), (S "cause", c)]]
  | .lambdaTimedOut => .arr [.str (S "LambdaFunctionTimedOut"), .null, .obj [(S "error", .str (S "States.Timeout"))]]
  | .fanStarted ty l => .arr [.str (ty ++ S "StateStarted"), .null,
      (match l with | some n => .obj [(S "length", .num n)] | none => .obj [])]
  | .iterStarted n i => .arr [.str (S "MapIterationStarted"), .str n, .obj [(S "index", .num i)]]
  | .iterFailed n i => .arr [.str (S "MapIterationFailed"), .str n, .obj [(S "index", .num i)]]
  | .fanFailed ty => .arr [.str (ty ++ S "StateFailed"), .null, .obj []]
  | .execStarted i => .arr [.str (S "ExecutionStarted"), .null, .obj [(S "input", i)]]
  | .execSucceeded o => .arr [.str (S "ExecutionSucceeded"), .null, .obj [(S "output", o)]]
  | .execFailed e c => .arr [.str (S "ExecutionFailed"), .null, .obj [(S "error", .str e), (S "cause", optJ c)]]

/-- an instant: a whole number of milliseconds as a number, else the text "num/den" -/
def ratJson (r : Rat) : Json :=
  if r.den = 1 then .num r.num else .str ((toString r.num ++ "/" ++ toString r.den).toList)

/-- `[type, name, detail, t_ms]` -/
def timedJson (e : Ev) (t : Rat) : Json :=
  match evJson e with
  | .arr xs => .arr (xs ++ [ratJson t])
  | j => j

/-- a frame: ["d", m] | ["e", m, name, path] | ["q", m, ev] | ["n", status] | ["a", m] -/
def frJson : BFr → Json
  | .deliver m => .arr [.str (S "d"), .num m]
  | .pubEv m n p => .arr [.str (S "e"), .num m, .str n, .arr (p.map (fun (i : Nat) => Json.num (i : Int)))]
  | .pubReq m e => .arr [.str (S "q"), .num m, .num e]
  | .pubNote s => .arr [.str (S "n"), .str s]
  | .ack m => .arr [.str (S "a"), .num m]

/-- a step: [t_ms, early, [frames]] -/
def stepJson (s : BStep) : Json := .arr [ratJson s.t, .bool s.early, .arr (s.frames.map frJson)]

mutual
/-- a visit of the skeleton: "S" | "F" | "W" | "Q" (a Task without request) | "T" | "X" | "P" (a fan-out that launched
nothing) | {"par": [[…], …], "mc": n} -/
def tokJson : Tok → Json
  | .s => .str (S "S")
  | .f => .str (S "F")
  | .w => .str (S "W")
  | .tq => .str (S "Q")
  | .t => .str (S "T")
  | .x => .str (S "X")
  | .fan => .str (S "P")
  | .par mc bs => .obj [(S "par", .arr (toksJsonL bs)), (S "mc", .num mc)]
def toksJson : List Tok → List Json
  | [] => []
  | t :: ts => tokJson t :: toksJson ts
def toksJsonL : List (List Tok) → List Json
  | [] => []
  | b :: bs => .arr (toksJson b) :: toksJsonL bs
end

def outcomeJson (o : Outcome) : Json :=
  .obj [(S "status", .str o.status), (S "output", optJ o.output),
        (S "error", match o.error with | some e => .str e | none => .null),
        (S "cause", optJ o.cause), (S "failState", .bool o.failState),
        (S "trace", .arr (o.trace.map .str)), (S "multiFail", .bool o.multiFail), (S "tieFail", .bool o.tieFail),
        (S "log", .arr (o.log.filterMap evShort)), (S "requests", .num o.requests), (S "fanFail", .bool o.fanFail),
        (S "history", .arr (List.zipWith timedJson o.history o.times)), (S "endTime", ratJson o.endTime),
        (S "notifications", .arr (o.notifications.map (fun n => .arr [.str n.1, n.2]))),
        (S "steps", .arr (o.steps.map stepJson)), (S "tieJoin", .bool o.tieJoin), (S "late", .bool o.late),
        (S "sk", .arr (toksJson o.sk)), (S "execTimeout", .bool o.execTimeout)]

mutual
/-- every payload template and every Choice rule of the definition is inside what the full
Template / Choice models support (definite paths; no Hash / random intrinsics) -/
def fullSupported : Nat → Json → Bool
  | 0, _ => false
  | fuel + 1, .obj kvs => fullSupportedM fuel kvs
  | fuel + 1, .arr xs => fullSupportedL fuel xs
  | _, _ => true
def fullSupportedL : Nat → List Json → Bool
  | 0, _ => false
  | _ + 1, [] => true
  | fuel + 1, x :: xs => fullSupported fuel x && fullSupportedL fuel xs
def fullSupportedM : Nat → List (Str × Json) → Bool
  | 0, _ => false
  | _ + 1, [] => true
  | fuel + 1, (k, v) :: kvs =>
    (if k = S "Parameters" || k = S "ResultSelector" || k = S "ItemSelector" then
       Templates.tplSupported Quirks.none v
     else if k = S "Choices" then
       (match v with
        | .arr rs => (Choice.decodeChoices rs).isSome
        | _ => false)
     else if k = S "Result" then true
     else fullSupported fuel v) && fullSupportedM fuel kvs
end

/-- the full Choice model as the interpreter's `choose` parameter -/
def fullChoose (state input _raw ctx : Json) : Option Str :=
  match Choice.decodeChoices (listOf (state.get "Choices")) with
  | some rules => firstMatch { input := input, ctx := ctx } rules
  | none => none

def fullTmpl (input ctx t : Json) : Except PErr Json :=
  (evalTemplate (Templates.oracles []) Quirks.none input ctx t).map normalise

/-- a top-level `TimeoutSeconds`, if the definition has one, is a number (anything else is an illegal definition) -/
def limitSupported (a : Json) : Bool :=
  match a.get "TimeoutSeconds" with
  | none => true
  | some (.num _) => true
  | some _ => false

/-- `run` with the full Template / Choice models; `maxData` is the size limit of the engine run
(`MAX_DATA_LENGTH`), by default the model's own default (262144); `quirks`: the switches of open findings, by name
(comma-separated; `retryPastDeadline` = C08-F1).  The execution's time limit is the definition's top-level
`TimeoutSeconds` (`Asl.run` reads it). -/
def runFull (asl input ctx oracle fuel : String) (maxData : Option Nat) (quirks : String := "") : String :=
  match rd asl, rd input, rd ctx, rd oracle, fuel.toNat? with
  | some a, some i, some c, some o, some f =>
    if !fullSupported 200 a || !limitSupported a then "unsupported"
    else
      let env0 : Env := { tmpl := fullTmpl, choose := fullChoose, task := oracleFn o, delay := oracleDelay o,
                          retryPastDeadline := (quirks.splitOn ",").contains "retryPastDeadline" }
      let env : Env := match maxData with
        | some l => { env0 with maxData := l }
        | none => env0
      "ok\t" ++ js (outcomeJson (run env f a i c))
  | _, _, _, _, _ => "unsupported"

def handle : List String → String
  | ["run", asl, input, ctx, oracle, fuel] => runFull asl input ctx oracle fuel none
  -- small-limit mode: a seventh field, the size limit in characters ("-": the default)
  | ["run", asl, input, ctx, oracle, fuel, maxData] =>
    match maxData.toNat? with
    | some l => runFull asl input ctx oracle fuel (some l)
    | none => if maxData = "-" then runFull asl input ctx oracle fuel none else "unsupported"
  -- an eighth field: the switches of open findings the model is to run with
  | ["run", asl, input, ctx, oracle, fuel, maxData, quirks] =>
    match maxData.toNat? with
    | some l => runFull asl input ctx oracle fuel (some l) quirks
    | none => if maxData = "-" then runFull asl input ctx oracle fuel none quirks else "unsupported"
  -- the length the size checks measure: `(render j).length`, to be compared with Python's `len(json.dumps(j))`
  | ["renderlen", j] =>
    match rd j with
    | some v => "ok\t" ++ toString (render v).length
    | none => "unsupported"
  | ["runlite", asl, input, ctx, oracle, fuel] =>
    match rd asl, rd input, rd ctx, rd oracle, fuel.toNat? with
    | some a, some i, some c, some o, some f =>
      if !Lite.machineSupported 200 a then "unsupported"
      else
        let env : Env := { tmpl := Lite.tmpl, choose := Lite.choose, task := oracleFn o, delay := oracleDelay o }
        "ok\t" ++ js (outcomeJson (run env f a i c))
    | _, _, _, _, _ => "unsupported"
  | _ => "bad-op"

end Asl.Drv.Interp
