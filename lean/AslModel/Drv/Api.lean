/- driver handler of the `api` stream (line protocol, see Main.lean) -/
import AslModel.Drv.Util
namespace Asl.Drv.Api
open Asl

def handle : List String → String
  | _ => "bad-op"

end Asl.Drv.Api
