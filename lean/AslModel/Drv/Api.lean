/- driver handler of the `api` stream (line protocol, see Main.lean)

  step   <cfg> <env> <state> <call>  →  ok <{"state":…, "resp":…, "published":…}>
  engine <state> <arn> <record>      →  ok <state>      (executions[arn] := record)
  log    <state> <arn> <events>      →  ok <state>      (histories[arn] := events)

  cfg   = {"region": str, "validateAsl": bool, "logging": bool, "quirks": [name, …]?}
  env   = {"now": int, "fresh": str, "lintBad": bool, "publishFails": bool?, "syncOutcome": json?}
  state = {"machines": {arn: record}, "executions": {arn: record}, "histories": {arn: [event]}}
          (store order kept)
  call  = {"action": str, "params": json} | {"action": str}          (no params: body not JSON)
-/
import AslModel.Drv.Util
import AslModel.Api
namespace Asl.Drv.Api
open Asl Asl.Api

def getStr (kvs : List (Str × Json)) (k : String) : Option Str :=
  match objGet kvs k.toList with
  | some (.str s) => some s
  | _ => none

def getInt (kvs : List (Str × Json)) (k : String) : Option Int :=
  match objGet kvs k.toList with
  | some (.num n) => some n
  | _ => none

def getBool (kvs : List (Str × Json)) (k : String) : Option Bool :=
  match objGet kvs k.toList with
  | some (.bool b) => some b
  | _ => none

def rdCfg : Json → Option Cfg
  | .obj kvs => do
    let r ← getStr kvs "region"
    let v ← getBool kvs "validateAsl"
    let l ← getBool kvs "logging"
    let q := match objGet kvs "quirks".toList with
      | some (.arr qs) => qs
      | _ => []
    pure ⟨r, v, l, ⟨q.contains (.str "createUncheckedArn".toList)⟩⟩
  | _ => none

def rdEnv : Json → Option Env
  | .obj kvs => do
    let n ← getInt kvs "now"
    let f ← getStr kvs "fresh"
    let l ← getBool kvs "lintBad"
    pure ⟨n, f, l, (getBool kvs "publishFails").getD false, objGet kvs "syncOutcome".toList⟩
  | _ => none

def machineKeys : List String :=
  ["creationDate", "definition", "loggingConfiguration", "name", "roleArn", "stateMachineArn",
   "updateDate", "status", "type"]

def rdMachine (arn : Str) : Json → Option Machine
  | .obj kvs => do
    let name ← getStr kvs "name"
    let role ← getStr kvs "roleArn"
    let d ← objGet kvs "definition".toList
    let ty ← getStr kvs "type"
    let c ← getInt kvs "creationDate"
    let u ← getInt kvs "updateDate"
    let a ← getStr kvs "stateMachineArn"
    let st ← getStr kvs "status"
    if a ≠ arn || st ≠ "ACTIVE".toList then none
    else if kvs.any (fun kv => !(machineKeys.contains (String.ofList kv.1))) then none
    else pure ⟨name, role, d, objGet kvs "loggingConfiguration".toList, ty, c, u⟩
  | _ => none

def execKeys : List String :=
  ["executionArn", "input", "name", "output", "startDate", "stateMachineArn", "status", "stopDate"]

def rdExec (arn : Str) : Json → Option Exec
  | .obj kvs => do
    let name ← getStr kvs "name"
    let sm ← getStr kvs "stateMachineArn"
    let st ← getStr kvs "status"
    let i ← objGet kvs "input".toList
    let o ← objGet kvs "output".toList
    let sd ← getInt kvs "startDate"
    let sp ← objGet kvs "stopDate".toList
    let a ← getStr kvs "executionArn"
    if a ≠ arn then none
    else pure ⟨name, sm, st, i, o, sd, sp,
               kvs.filter (fun kv => !(execKeys.contains (String.ofList kv.1)))⟩
  | _ => none

def rdMap {α : Type} (f : Str → Json → Option α) : List (Str × Json) → Option (List (Str × α))
  | [] => some []
  | (k, v) :: rest => do
    let x ← f k v
    let xs ← rdMap f rest
    pure ((k, x) :: xs)

def rdLog (_ : Str) : Json → Option (List Json)
  | .arr evs => some evs
  | _ => none

def rdState : Json → Option State
  | .obj kvs =>
    match objGet kvs "machines".toList, objGet kvs "executions".toList,
          (objGet kvs "histories".toList).getD (.obj []) with
    | some (.obj ms), some (.obj es), .obj hs => do
      let m ← rdMap rdMachine ms
      let e ← rdMap rdExec es
      let h ← rdMap rdLog hs
      pure ⟨m, e, h⟩
    | _, _, _ => none
  | _ => none

def rdCall : Json → Option Call
  | .obj kvs => do
    let a ← getStr kvs "action"
    pure ⟨a, objGet kvs "params".toList⟩
  | _ => none

def showState (s : State) : Json :=
  .obj [("machines".toList, .obj (s.machines.map (fun kv => (kv.1, Machine.toJson kv.1 kv.2)))),
        ("executions".toList, .obj (s.executions.map (fun kv => (kv.1, Exec.toJson kv.1 kv.2)))),
        ("histories".toList, .obj (s.histories.map (fun kv => (kv.1, .arr kv.2))))]

def showResp : Response → Json
  | .ok b => .obj [("status".toList, .num 200), ("body".toList, b)]
  | .okEmpty => .obj [("status".toList, .num 200), ("text".toList, .str [])]
  | .error t => .obj [("status".toList, .num 400), ("type".toList, .str t)]
  | .invalidAction => .obj [("status".toList, .num 400), ("text".toList, .str "InvalidAction".toList)]
  | .timedOut => .obj [("status".toList, .num 408), ("text".toList, .str "Execution Timed Out".toList)]
  | .internalError => .obj [("status".toList, .num 500), ("type".toList, .str "InternalError".toList)]

def handle : List String → String
  | ["step", cfg, env, state, call] =>
    match (rd cfg).bind rdCfg, (rd env).bind rdEnv, (rd state).bind rdState, (rd call).bind rdCall with
    | some cfg, some env, some s, some c =>
      if otherActions.contains c.action then "unsupported" else
      let (s', r) := step cfg env s c
      "ok\t" ++ js (.obj [("state".toList, showState s'), ("resp".toList, showResp r),
                          ("published".toList, (published cfg env s c).getD .null)])
    | _, _, _, _ => "unsupported"
  | ["engine", state, arn, record] =>
    match (rd state).bind rdState, rd arn, rd record with
    | some s, some (.str a), some r =>
      match rdExec a r with
      | some e => "ok\t" ++ js (showState (engineWrite s a e))
      | none => "unsupported"
    | _, _, _ => "unsupported"
  | ["log", state, arn, events] =>
    match (rd state).bind rdState, rd arn, rd events with
    | some s, some (.str a), some (.arr evs) => "ok\t" ++ js (showState (engineLog s a evs))
    | _, _, _ => "unsupported"
  | _ => "bad-op"

end Asl.Drv.Api
