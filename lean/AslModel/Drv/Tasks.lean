/- driver handler of the `tasks` stream (line protocol, see Main.lean) -/
import AslModel.Drv.Util
namespace Asl.Drv.Tasks
open Asl

def handle : List String → String
  | _ => "bad-op"

end Asl.Drv.Tasks
