/- driver handler of the `tasks` stream (line protocol, see Main.lean):
   tasks <TAB> enc <TAB> "cid" <TAB> "queue"                → ok <TAB> "token"
   tasks <TAB> dec <TAB> "token"                            → ok <TAB> ["cid","queue"] | ok <TAB> null
   tasks <TAB> shape <TAB> form <TAB> detail <TAB> in <TAB> out  → ok <TAB> {"outcome":…}
   tasks <TAB> validate <TAB> form <TAB> parentType <TAB> childType|none → ok <TAB> "Error" | ok <TAB> null
   tasks <TAB> run <TAB> quirks <TAB> "replyQueue" <TAB> [ops]   → ok <TAB> {"log":…,"pending":…,"cancellers":…,"api":…} -/
import AslModel.Drv.Util
import AslModel.Tasks
namespace Asl.Drv.Tasks
open Asl Asl.Drv Asl.Tasks

def S (s : String) : Str := s.toList

def form? (s : String) : Option Form :=
  match s with
  | "async" => some .async
  | "sync" => some .sync
  | "sync2" => some .sync2
  | "token" => some .token
  | "sdkSync" => some .sdkSync
  | _ => none

def mtype? (s : String) : Option MType :=
  match s with
  | "STANDARD" => some .standard
  | "EXPRESS" => some .express
  | _ => none

def str? : Json → Option Str
  | .str s => some s
  | _ => none

def int? : Json → Option Int
  | .num n => some n
  | _ => none

def decDetail (j : Json) : Option Detail :=
  match (j.get "executionArn").bind str?, (j.get "name").bind str?, (j.get "stateMachineArn").bind str?,
        (j.get "status").bind str?, (j.get "input").bind str?, j.get "output",
        (j.get "startDate").bind int?, (j.get "stopDate").bind int? with
  | some a, some n, some m, some st, some i, some o, some sd, some ed =>
    let out : Option (Option Str) := match o with
      | .str s => some (some s)
      | .null => some none
      | _ => none
    match out with
    | none => none
    | some out =>
      let failure := match j.get "error", j.get "cause" with
        | some e, some c => some (e, c)
        | some e, none => some (e, .null)
        | _, _ => none
      some { executionArn := a, name := n, stateMachineArn := m, status := st, input := i, output := out,
             startDate := sd, stopDate := ed, failure := failure }
  | _, _, _, _, _, _, _, _ => none

def viaText : Via → String
  | .launch => "launch" | .reply => "reply" | .callback => "callback"
  | .childEnd => "childEnd" | .timeout => "timeout" | .cancel => "cancel" | .waitCancel => "waitCancel"

def outcomeJ : Outcome → Json
  | .ok v => .obj [(S "outcome", .str (S "ok")), (S "value", v)]
  | .err n c => .obj [(S "outcome", .str (S "err")), (S "name", .str n), (S "cause", c)]

def completionJ (c : Completion) : Json :=
  .obj [(S "owner", .str c.owner), (S "key", .str c.key), (S "via", .str (S (viaText c.via))),
        (S "result", outcomeJ c.outcome)]

def decOp : Json → Option Op
  | .arr (.str name :: args) =>
    match String.ofList name, args with
    | "launch", [.str e, .str x, .str pt, .str f, ct, .str arn, si] =>
      let cm : Option (Option MType) := match ct with
        | .null => some none
        | .str t => (mtype? (String.ofList t)).map some
        | _ => none
      match mtype? (String.ofList pt), form? (String.ofList f), cm with
      | some pt, some f, some cm => some (.launch ⟨e, x, pt, f, cm, arn⟩ si)
      | _, _, _ => none
    | "rpc", [.str k, .str e, .str x] =>
      (match String.ofList k with
       | "fn" => some RpcKind.fn | "invoke" => some .invoke | "token" => some .token | _ => none).map
        (fun k => .rpc k e x)
    | "wait", [.str e, .str x] => some (.wait e x)
    | "reply", [.str cid, cb, body] =>
      (match cb with
       | .null => some none | .bool b => some (some b) | _ => (none : Option (Option Bool))).map
        (fun cb => .reply cid cb body)
    | "childEnd", [.str arn, det, i, o] => (decDetail det).map (fun d => .childEnd arn d i o)
    | "timeout", [.str cid] => some (.timeout cid)
    | "cancel", [.str e] => some (.cancel e)
    | "send", [.str tok, .bool s, body] => some (.send tok s body)
    | _, _ => none
  | _ => none

def decOps : List Json → Option (List Op)
  | [] => some []
  | j :: js => match decOp j, decOps js with
    | some o, some os => some (o :: os)
    | _, _ => none

def decQuirks (j : Json) : Option Quirks :=
  match j.get "inBandCallbackError", j.get "statelessTokens" with
  | some (.bool a), some (.bool b) => some { inBandCallbackError := a, statelessTokens := b }
  | _, _ => none

def respJ : ApiResp → Json
  | .ok => .str (S "ok")
  | .invalidToken => .str (S "InvalidToken")

/-- run, collecting the API answers (and the queue published to) of the `send` operations -/
def runApi (q : Quirks) : Disp → List Op → Disp × List Json
  | d, [] => (d, [])
  | d, op :: rest =>
    let api : List Json := match op with
      | .send tok s body =>
        let r := sendTask q d tok s body
        [.obj [(S "resp", respJ r.1), (S "queue", match r.2.2 with | some x => .str x | none => .null)]]
      | _ => []
    let r := runApi q (step q d op) rest
    (r.1, api ++ r.2)

/-- the model reads base64 strictly; Python's decoder skips foreign characters: leave those to the harness -/
def b64Plain (s : Str) : Bool :=
  let body := s.reverse.dropWhile (· = '=')
  (s.length - body.length ≤ 2) && body.all (fun c => (b64Val c).isSome)

def handle : List String → String
  | ["enc", c, q] =>
    match rd c, rd q with
    | some (.str c), some (.str q) => "ok\t" ++ js (.str (encodeToken c q))
    | _, _ => "unsupported"
  | ["dec", t] =>
    match rd t with
    | some (.str t) =>
      if !b64Plain t then "unsupported"
      else match decodeToken t with
        | some (c, q) => "ok\t" ++ js (.arr [.str c, .str q])
        | none => "ok\tnull"
    | _ => "unsupported"
  | ["shape", f, det, i, o] =>
    match form? f, (rd det).bind decDetail, rd i, rd o with
    | some f, some d, some i, some o => "ok\t" ++ js (outcomeJ (childOutcome f d i o))
    | _, _, _, _ => "unsupported"
  | ["validate", f, pt, ct] =>
    match form? f, mtype? pt with
    | some f, some pt =>
      let cm : Option (Option MType) := if ct = "none" then some none else (mtype? ct).map some
      match cm with
      | some cm =>
        (match validate ⟨[], [], pt, f, cm, []⟩ with
         | some e => "ok\t" ++ js (.str e)
         | none => "ok\tnull")
      | none => "unsupported"
    | _, _ => "unsupported"
  | ["run", q, rq, ops] =>
    match (rd q).bind decQuirks, rd rq, rd ops with
    | some q, some (.str rq), some (.arr ops) =>
      match decOps ops with
      | some ops =>
        let r := runApi q { replyQueue := rq } ops
        "ok\t" ++ js (.obj [(S "log", .arr (r.1.log.map completionJ)),
                           (S "pending", .arr (r.1.pending.map (fun p => Json.str p.1))),
                           (S "cancellers", .arr (r.1.cancellers.map (fun p => Json.str p.1))),
                           (S "started", .arr (r.1.started.map (fun p => Json.arr [.str p.1, .bool p.2]))),
                           (S "api", .arr r.2)])
      | none => "unsupported"
    | _, _, _ => "unsupported"
  | _ => "bad-op"

end Asl.Drv.Tasks
