/- driver handler of the `choice` stream (line protocol, see Main.lean)

  choice  state  <Choices array>  <Default: string|null>  <input>  <context>
      → next <state name> | fail States.NoChoiceMatched | unsupported
  choice  rule   <rule object>  <input>  <context>   → true | false | unsupported

A rule object is what the States Language writes: `Variable`, exactly one operator
member, and (top level only) `Next`.  Anything else is `unsupported`.
-/
import AslModel.Drv.Util
import AslModel.Choice
namespace Asl.Drv.Choice
open Asl Asl.Drv

def relOf (s : String) : Option Rel :=
  if s = "Equals" then some .eq
  else if s = "LessThan" then some .lt
  else if s = "GreaterThan" then some .gt
  else if s = "LessThanEquals" then some .le
  else if s = "GreaterThanEquals" then some .ge
  else none

/-- operator name (without any `Path` suffix) → comparison -/
def cmpOf (s : String) : Option Cmp :=
  if s = "BooleanEquals" then some .boolEq
  else if s = "StringMatches" then some .strMatches
  else if s.startsWith "Numeric" then (relOf (s.drop 7).toString).map .num
  else if s.startsWith "String" then (relOf (s.drop 6).toString).map .str
  else if s.startsWith "Timestamp" then (relOf (s.drop 9).toString).map .ts
  else none

def isOf (s : String) : Option IsOp :=
  if s = "IsPresent" then some .present
  else if s = "IsNull" then some .null
  else if s = "IsNumeric" then some .numeric
  else if s = "IsString" then some .string
  else if s = "IsBoolean" then some .boolean
  else if s = "IsTimestamp" then some .timestamp
  else none

/-- paths the model's reader covers: `$`, definite reference paths, and the same after `$$` -/
def pathSupported (p : Str) : Bool :=
  match p with
  | '$' :: '$' :: rest => rest = [] || (parseRef ('$' :: rest)).isSome
  | '$' :: rest => rest = [] || (parseRef p).isSome
  | _ => false

partial def decodeRule (top : Bool) (j : Json) : Option Rule :=
  match j with
  | .obj kvs =>
    let kvs' := kvs.filter fun (key, _) => !(top && key = "Next".toList)
    let var := objGet kvs' "Variable".toList
    let ops := kvs'.filter fun (key, _) => key ≠ "Variable".toList
    if top && !(objHas kvs "Next".toList) then none else
    match ops with
    | [(key, v)] =>
      let name := String.ofList key
      if name = "And" || name = "Or" then
        match var, v with
        | none, .arr xs =>
          let rs := xs.map (decodeRule false)
          if rs.all Option.isSome then
            let rs' := rs.filterMap id
            some (if name = "And" then .and rs' else .or rs')
          else none
        | _, _ => none
      else if name = "Not" then
        match var with
        | none => (decodeRule false v).map .not
        | some _ => none
      else
        match var with
        | some (.str vp) =>
          if !pathSupported vp then none else
          match isOf name with
          | some t =>
            match v with
            | .bool b => some (.is t vp b)
            | _ => none
          | none =>
            match cmpOf name with
            | some c => some (.cmp c vp v)
            | none =>
              if name.endsWith "Path" then
                match cmpOf (name.dropEnd 4).toString, v with
                | some .strMatches, _ => none
                | some c, .str pp => some (.cmpPath c vp pp)
                | _, _ => none
              else none
        | _ => none
    | _ => none
  | _ => none

def decodeChoices : List Json → Option (List (Rule × Str))
  | [] => some []
  | j :: rest =>
    match decodeRule true j, j.get "Next", decodeChoices rest with
    | some r, some (.str n), some rs => some ((r, n) :: rs)
    | _, _, _ => none

def handle : List String → String
  | ["state", choices, dflt, input, ctx] =>
    match rd choices, rdOptStr dflt, rd input, rd ctx with
    | some (.arr cs), some d, some i, some c =>
      match decodeChoices cs with
      | some rules =>
        match choose { input := i, ctx := c } rules d with
        | .ok n => "next\t" ++ String.ofList n
        | .error e => "fail\t" ++ e.name
      | none => "unsupported"
    | _, _, _, _ => "unsupported"
  | ["rule", rule, input, ctx] =>
    match rd rule, rd input, rd ctx with
    | some r, some i, some c =>
      match decodeRule false r with
      | some r' => if evalRule { input := i, ctx := c } r' then "true" else "false"
      | none => "unsupported"
    | _, _, _ => "unsupported"
  | _ => "bad-op"

end Asl.Drv.Choice
