/- driver handler of the `choice` stream (line protocol, see Main.lean) -/
import AslModel.Drv.Util
namespace Asl.Drv.Choice
open Asl

def handle : List String → String
  | _ => "bad-op"

end Asl.Drv.Choice
