/- driver handler of the `names` stream (line protocol, see Main.lean) -/
import AslModel.Drv.Util
namespace Asl.Drv.Names
open Asl

def handle : List String → String
  | _ => "bad-op"

end Asl.Drv.Names
