/- driver handler of the `names` stream (line protocol, see Main.lean)

  names valid <json>                               -> ok true|false       (non-strings: false)
  names create [arn,part,svc,region,acct,type|null,res] -> ok "<arn>"
  names parse "<arn>"                              -> ok [arn,part,svc,region,acct,type|null,res] | err
  names mintsm "<region>" "<account>" "<name>"     -> ok "<arn>"
  names mint <site> "<smArn>" "<name>"             -> ok "<arn>" | err
  names split "<execArn>"                          -> ok ["<smArn>","<name>"] | err
  names derive <site> "<smArn>" "<name>" "<execArn>" -> ok ["<smArn>","<name>"] | err
  names notify "<execArn>"                         -> ok ["<account>","<region>"] | err
  names forbidden                                  -> ok ["c",…]          (the validator's class)
  names maxlen                                     -> ok <n>
-/
import AslModel.Drv.Util
import AslModel.Names
namespace Asl.Drv.Names
open Asl Asl.Drv

def rdStr (s : String) : Option Str :=
  match rd s with
  | some (.str p) => some p
  | _ => none

def optStr : Option Str → Json
  | some t => .str t
  | none => .null

def mintSite : String → Option MintSite
  | "apiStartExecution" => some .apiStartExecution
  | "apiStartSyncExecution" => some .apiStartSyncExecution
  | "engineStartExecution" => some .engineStartExecution
  | "childExecution" => some .childExecution
  | _ => none

def deriveSite : String → Option DeriveSite
  | "recordCreation" => some .recordCreation
  | "startNotification" => some .startNotification
  | "expressDetail" => some .expressDetail
  | "restartRecovery" => some .restartRecovery
  | "recoveredNotification" => some .recoveredNotification
  | "timeoutBackstop" => some .timeoutBackstop
  | _ => none

def showPair : Option (Str × Str) → String
  | some (a, b) => "ok\t" ++ js (.arr [.str a, .str b])
  | none => "err"

def showStr : Option Str → String
  | some a => "ok\t" ++ js (.str a)
  | none => "err"

def handle : List String → String
  | ["valid", j] =>
    match rd j with
    | some (.str s) => if validName s then "ok\ttrue" else "ok\tfalse"
    | some _ => "ok\tfalse"
    | none => "unsupported"
  | ["create", j] =>
    match rd j with
    | some (.arr [.str a, .str p, .str sv, .str rg, .str ac, .str t, .str r]) =>
      showStr (some (createArn ⟨a, p, sv, rg, ac, some t, r⟩))
    | some (.arr [.str a, .str p, .str sv, .str rg, .str ac, .null, .str r]) =>
      showStr (some (createArn ⟨a, p, sv, rg, ac, none, r⟩))
    | _ => "unsupported"
  | ["parse", j] =>
    match rdStr j with
    | some s =>
      match parseArn s with
      | some a => "ok\t" ++ js (.arr [.str a.arn, .str a.partition, .str a.service, .str a.region,
          .str a.account, optStr a.resourceType, .str a.resource])
      | none => "err"
    | none => "unsupported"
  | ["mintsm", rg, ac, n] =>
    match rdStr rg, rdStr ac, rdStr n with
    | some rg, some ac, some n => showStr (some (mintStateMachineArn rg ac n))
    | _, _, _ => "unsupported"
  | ["mint", site, sm, n] =>
    match mintSite site, rdStr sm, rdStr n with
    | some st, some sm, some n => showStr (mint st sm n)
    | _, _, _ => "unsupported"
  | ["split", e] =>
    match rdStr e with
    | some e => showPair (splitDerive e)
    | none => "unsupported"
  | ["derive", site, sm, n, e] =>
    match deriveSite site, rdStr sm, rdStr n, rdStr e with
    | some st, some sm, some n, some e => showPair (derive st ⟨sm, n, e⟩)
    | _, _, _, _ => "unsupported"
  | ["notify", e] =>
    match rdStr e with
    | some e => showPair (notifyAccountRegion e)
    | none => "unsupported"
  | ["forbidden"] => "ok\t" ++ jsOrd (.arr (forbiddenNameChars.map fun c => .str [c]))
  | ["maxlen"] => "ok\t" ++ js (.num maxNameLength)
  | _ => "bad-op"

end Asl.Drv.Names
