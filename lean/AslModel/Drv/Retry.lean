/- driver handler of the `retry` stream (line protocol, see Main.lean) -/
import AslModel.Drv.Util
namespace Asl.Drv.Retry
open Asl

def handle : List String → String
  | _ => "bad-op"

end Asl.Drv.Retry
