/- driver handler of the `retry` stream -/
import AslModel.Drv.Util
import AslModel.Retry
import AslModel.Interp
namespace Asl.Drv.Retry
open Asl Asl.Drv

def ratText (r : Rat) : String := toString r.num ++ "/" ++ toString r.den

def handle : List String → String
  | ["decide", state, err, count] =>
    match rd state, rd err, count.toNat? with
    | some st, some (.str e), some n =>
      let rs := (listOf (fld st "Retry")).map retrierOf
      let cs := (listOf (fld st "Catch")).map catcherOf
      match decideError rs cs e n with
      | .retry d k => "retry\t" ++ ratText d ++ "\t" ++ toString k
      | .caught c =>
        let nx : Json := match c.next with | some s => .str s | none => .null
        let rp : Json := match c.resultPath with
          | none => .str ['$']
          | some (some p) => .str p
          | some none => .null
        "caught\t" ++ js nx ++ "\t" ++ js rp
      | .uncaught => "uncaught"
    | _, _, _ => "unsupported"
  | _ => "bad-op"

end Asl.Drv.Retry
