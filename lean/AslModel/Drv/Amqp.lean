/- driver handler of the `amqp` stream (line protocol, see Main.lean)

amqp consumer <transport> <env> <address> <capacity|null> -> ok {"ops":[…],"queue":…,"creates":[…]} | err parse|noExchange | unsupported
amqp producer <transport> <env> <address>      -> ok {"ops":[…],"exchange":…,"subject":…,"creates":[…]} | err parse | unsupported
amqp send     <transport> <target+queues> <message> -> ok {"frame":…,"delivered":…,"is_returned":…,"returned":…} | unsupported
amqp sendseq  <transport> <target+queues> <messages> <order> -> ok [{"i":…,"frame":…,"delivered":…,"routed_to":[…]}…] | unsupported
amqp clamp    <expiry>                         -> ok <text|null> | unsupported
amqp ack      <transport> <unacked> <tag> <multiple> -> ok <unacked'>
amqp names    <queue name> <queue type> <instance id> -> ok {names and address strings of the engine}
amqp route    <actions>                        -> ok <n> | bad <index>
              (actions of the REST front end carry the queue the start event was seen in: ["submit"|"submitSync", via, e, queue])
-/
import AslModel.Drv.Util
import AslModel.Amqp
import AslModel.AmqpRoute
namespace Asl.Drv.Amqp
open Asl Asl.Drv Asl.Amqp

def s (x : String) : Str := x.toList
def jstr (x : Str) : Json := .str x
def o (kvs : List (String × Json)) : Json := .obj (kvs.map (fun kv => (kv.1.toList, kv.2)))

def chanJson : Channel → Json
  | .session => .str (s "session")
  | .temp => .str (s "temp")

/-- every frame with every argument the client library sends (pika's defaults written out) -/
def opJson (op : Op) : Json :=
  let ch := ("channel", chanJson op.channel)
  match op with
  | .probe e =>
    o [("op", .str (s "exchange_declare")), ch, ("exchange", .str e), ("type", .str (s "direct")), ("passive", .bool true),
       ("durable", .bool false), ("auto_delete", .bool false), ("internal", .bool false), ("arguments", .null)]
  | .qos n =>
    o [("op", .str (s "qos")), ch, ("prefetch_size", .num 0), ("prefetch_count", .num n), ("global_qos", .bool false)]
  | .exchangeDeclare e t p d a i g =>
    o [("op", .str (s "exchange_declare")), ch, ("exchange", e), ("type", t), ("passive", p), ("durable", d),
       ("auto_delete", a), ("internal", i), ("arguments", g)]
  | .queueDeclare q p d x a g =>
    o [("op", .str (s "queue_declare")), ch, ("queue", q), ("passive", p), ("durable", d), ("exclusive", x),
       ("auto_delete", a), ("arguments", g)]
  | .queueBind q e k g =>
    o [("op", .str (s "queue_bind")), ch, ("queue", q), ("exchange", e), ("key", k), ("arguments", g)]
  | .consume q k x g =>
    o [("op", .str (s "consume")), ch, ("queue", q), ("auto_ack", k), ("exclusive", x), ("consumer_tag", .null),
       ("arguments", g)]

def entityJson : Entity → Json
  | .exchange n t d a i g =>
    o [("entity", .str (s "exchange")), ("exchange", n), ("type", t), ("durable", d), ("auto_delete", a), ("internal", i),
       ("arguments", g)]
  | .queue n d x a g =>
    o [("entity", .str (s "queue")), ("queue", n), ("durable", d), ("exclusive", x), ("auto_delete", a), ("arguments", g)]
  | .binding q e k g =>
    o [("entity", .str (s "binding")), ("queue", q), ("exchange", e), ("key", k), ("arguments", g)]
  | .subscription q k x g =>
    o [("entity", .str (s "subscription")), ("queue", q), ("auto_ack", k), ("exclusive", x), ("arguments", g)]

/-- the optional capacity field of `amqp consumer`: `null` or a natural number -/
def rdCap (t : String) : Option (Option Nat) :=
  match rd t with
  | some .null => some none
  | some (.num n) => if n < 0 then none else some (some n.toNat)
  | _ => none

def rdTransport : String → Option Transport
  | "asyncio" => some .asyncio
  | "blocking" => some .blocking
  | _ => none

def strList : List Json → Option (List Str)
  | [] => some []
  | .str x :: rest => (strList rest).map (x :: ·)
  | _ => none

def rdEnv (t : String) : Option Env :=
  match rd t with
  | some (.obj kvs) =>
    match objGet kvs (s "exchanges"), objGet kvs (s "anon") with
    | some (.arr xs), some (.str a) => (strList xs).map (fun l => ⟨l, a⟩)
    | _, _ => none
  | _ => none

def ascii (x : Str) : Bool := x.all (fun c => c.toNat < 128)

def showErr : AErr → String
  | .parse => "err\tparse"
  | .noExchange => "err\tnoExchange"
  | .shape => "unsupported"

/-- the region where `float` arithmetic is exact, so that `int(float(x))` is the model's truncation:
at most 15 significant digits and a value below 10^15; no digit-group underscores; ASCII -/
def exactText (t : Str) : Bool :=
  ascii t && !t.contains '_' &&
  match parseFloatText t with
  | .fin _ m e => m == 0 || (decide (m < 10 ^ 15) && decide (-30 ≤ e) && decide (e ≤ 15) &&
      decide ((truncNum false m e).toNat < 10 ^ 15))
  | _ => true

def exactExpiry : Expiry → Bool
  | .none => true
  | .int n => decide (n.natAbs < 2 ^ 53)
  | .text t => exactText t

def rdExpiry : Json → Option Expiry
  | .obj kvs =>
    match objGet kvs (s "k"), objGet kvs (s "v") with
    | some (.str k), v =>
      if k = s "none" then some .none
      else if k = s "int" then match v with
        | some (.num n) => some (.int n)
        | _ => none
      else if k = s "text" then match v with
        | some (.str t) => some (.text t)
        | _ => none
      else none
    | _, _ => none
  | _ => none

def optStrJson : Option Str → Json
  | some x => .str x
  | none => .null

def g (kvs : Dict) (k : String) : Json := (objGet kvs (s k)).getD .null

/-- a field left out of the case is left to the `Message` constructor's default (the structure's) -/
def optBool (dflt : Bool) : Json → Option Bool
  | .bool b => some b
  | .null => some dflt
  | _ => none

def rdMsg (j : Json) : Option Msg :=
  match j with
  | .obj kvs =>
    let d : Msg := { properties := [] }
    let body : Option Str := match g kvs "body" with
      | .str b => some b
      | .null => some d.body
      | _ => none
    match body, g kvs "properties", optBool d.durable (g kvs "durable"), optBool d.mandatory (g kvs "mandatory"),
        rdExpiry (g kvs "expiration") with
    | some body, .obj props, some dur, some man, some ex =>
      let m : Msg := { body := body, properties := props, contentType := g kvs "content_type",
                       contentEncoding := g kvs "content_encoding", durable := dur, mandatory := man,
                       priority := g kvs "priority", correlationId := g kvs "correlation_id",
                       replyTo := g kvs "reply_to", expiration := ex, messageId := g kvs "message_id",
                       timestamp := g kvs "timestamp", type := g kvs "type", userId := g kvs "user_id",
                       appId := g kvs "app_id", clusterId := g kvs "cluster_id" }
      some (m.setSubject (g kvs "subject"))
    | _, _, _, _, _ => none
  | _ => none

def expiryJson : Expiry → Json
  | .none => .null
  | .int n => .num n
  | .text t => .str t

def msgJson (m : Msg) : Json :=
  o [("body", .str m.body), ("properties", .obj m.properties), ("subject", m.subject),
     ("content_type", m.contentType), ("content_encoding", m.contentEncoding),
     ("redelivered", .bool m.redelivered), ("durable", .bool m.durable), ("priority", m.priority),
     ("correlation_id", m.correlationId), ("reply_to", m.replyTo), ("expiration", expiryJson m.expiration),
     ("message_id", m.messageId), ("timestamp", m.timestamp), ("type", m.type), ("user_id", m.userId),
     ("app_id", m.appId), ("cluster_id", m.clusterId), ("tag", .num m.tag)]

def frameJson (f : Frame) : Json :=
  o [("exchange", .str f.exchange), ("routing_key", f.routingKey), ("body", .str f.body),
     ("mandatory", .bool f.mandatory),
     ("props", o [("headers", .obj f.props.headers), ("content_type", f.props.contentType),
       ("content_encoding", f.props.contentEncoding), ("delivery_mode", .num f.props.deliveryMode),
       ("priority", f.props.priority), ("correlation_id", f.props.correlationId), ("reply_to", f.props.replyTo),
       ("expiration", optStrJson f.props.expiration), ("message_id", f.props.messageId),
       ("timestamp", f.props.timestamp), ("type", f.props.type), ("user_id", f.props.userId),
       ("app_id", f.props.appId), ("cluster_id", f.props.clusterId)])]

def natList : List Json → Option (List Nat)
  | [] => some []
  | .num n :: rest => if n < 0 then none else (natList rest).map (n.toNat :: ·)
  | _ => none

open Asl.AmqpRoute in
def rdQ : Json → Option QName
  | .str x => if x = s "shared" then some .shared else none
  | .num n => if n < 0 then none else some (.inst n.toNat)
  | _ => none

open Asl.AmqpRoute in
def rdOuts : List Json → Option (List Out)
  | [] => some []
  | .arr [.str k, .num e] :: rest =>
    if e < 0 then none else
    let out : Option Out :=
      if k = s "later" then some (.later e.toNat)
      else if k = s "childSync" then some (.childSync e.toNat)
      else if k = s "childAsync" then some (.childAsync e.toNat)
      else none
    match out, rdOuts rest with
    | some x, some xs => some (x :: xs)
    | _, _ => none
  | _ => none

open Asl.AmqpRoute in
def rdAct : Json → Option Act
  | .arr [.str k, .num a, .num b] =>
    if k = s "submit" ∧ 0 ≤ a ∧ 0 ≤ b then some (.submit a.toNat b.toNat) else none
  | .arr [.str k, .num e, .num i, .arr outs] =>
    if k = s "deliverStart" ∧ 0 ≤ e ∧ 0 ≤ i then (rdOuts outs).map (.deliverStart e.toNat i.toNat ·) else none
  | .arr [.str k, q, .num e, .num i, .arr outs] =>
    if k = s "deliverLater" ∧ 0 ≤ e ∧ 0 ≤ i then
      match rdQ q, rdOuts outs with
      | some q', some os => some (.deliverLater q' e.toNat i.toNat os)
      | _, _ => none
    else none
  | .arr [.str k, .num i, .arr outs] =>
    if k = s "spontaneous" ∧ 0 ≤ i then (rdOuts outs).map (.spontaneous i.toNat ·) else none
  | _ => none

open Asl.AmqpRoute in
/-- what the REST front end had published, with the queue the start event was *seen* to go to:
`["submit", via, e, queue]` (StartExecution: `publish(use_shared_queue=True)` of instance `via`) and
`["submitSync", via, e, queue]` (StartSyncExecution: `via` publishes the start event with the flag clear).  The
queue must be the model's `route via flag`; the action is then the model's own (`submit`, resp. `via`
publishing a synchronous start).  `none`: not such an action -/
def rdRest : Json → Option (Option Act)
  | .arr [.str k, .num via, .num e, q] =>
    if 0 ≤ via ∧ 0 ≤ e ∧ (k = s "submit" ∨ k = s "submitSync") then
      let shared := decide (k = s "submit")
      if rdQ q = some (route via.toNat shared) then
        some (some (if shared then .submit via.toNat e.toNat else .spontaneous via.toNat [.childSync e.toNat]))
      else some none
    else none
  | _ => none

open Asl.AmqpRoute in
/-- run the actions; the index of the first one that is not enabled -/
def runIdx : Net → List Json → Nat → Except String Nat
  | _, [], n => .ok n
  | st, a :: rest, n =>
    let act : Except String Act := match rdRest a with
      | some (some x) => .ok x
      | some none => .error ("bad\t" ++ toString n)
      | none => match rdAct a with
        | some x => .ok x
        | none => .error "unsupported"
    match act with
    | .error e => .error e
    | .ok act => match step st act with
      | some st' => runIdx st' rest (n + 1)
      | none => .error ("bad\t" ++ toString n)

def rdQType : String → Option QType
  | "classic" => some .classic
  | "quorum" => some .quorum
  | _ => none

def handle : List String → String
  | ["consumer", t, env, addr, cap] =>
    match rdTransport t, rdEnv env, rd addr, rdCap cap with
    | some tr, some e, some (.str a), some c =>
      if !ascii a then "unsupported" else
      match consumerOps tr e a c with
      | .ok (ops, q) => "ok\t" ++ js (o [("ops", .arr (ops.map opJson)), ("queue", .str q),
                                          ("creates", .arr ((created ops).map entityJson))])
      | .error er => showErr er
    | _, _, _, _ => "unsupported"
  | ["producer", t, env, addr] =>
    match rdTransport t, rdEnv env, rd addr with
    | some tr, some e, some (.str a) =>
      if !ascii a then "unsupported" else
      match producerOps tr e a with
      | .ok (ops, tg) => "ok\t" ++ js (o [("ops", .arr (ops.map opJson)), ("exchange", .str tg.exchange),
                                           ("subject", .str tg.subject), ("creates", .arr ((created ops).map entityJson))])
      | .error er => showErr er
    | _, _, _ => "unsupported"
  | ["send", t, tgt, msg] =>
    match rdTransport t, rd tgt, (rd msg).bind rdMsg with
    | some tr, some (.obj tk), some m =>
      match g tk "exchange", g tk "subject" with
      | .str ex, .str su =>
        if !exactExpiry m.expiration then "unsupported" else
        let f := send tr ⟨ex, su⟩ m
        let qs : List Str := match g tk "queues" with
          | .arr xs => (strList xs).getD []
          | _ => []
        "ok\t" ++ js (o [("frame", frameJson f), ("delivered", msgJson (deliver tr f 1 false)),
                         ("is_returned", .bool (isReturned qs f)), ("returned", msgJson (returned tr f))])
      | _, _ => "unsupported"
    | _, _, _ => "unsupported"
  | ["sendseq", t, tgt, msgs, order] =>
    match rdTransport t, rd tgt, rd msgs, rd order with
    | some tr, some (.obj tk), some (.arr ms), some (.arr ord) =>
      match g tk "exchange", g tk "subject", ms.mapM rdMsg, natList ord with
      | .str ex, .str su, some ms', some ord' =>
        if !(ms'.all (fun m => exactExpiry m.expiration)) then "unsupported" else
        let qs : List Str := match g tk "queues" with
          | .arr xs => (strList xs).getD []
          | _ => []
        let out := (sendSeq tr ⟨ex, su⟩ ms' ord').map (fun p =>
          o [("i", .num p.1), ("frame", frameJson p.2), ("delivered", msgJson (deliver tr p.2 1 false)),
             ("routed_to", .arr ((routeDefault qs p.2.routingKey).map Json.str))])
        "ok\t" ++ js (.arr out)
      | _, _, _, _ => "unsupported"
    | _, _, _, _ => "unsupported"
  | ["clamp", e] =>
    match (rd e).bind rdExpiry with
    | some ex => if exactExpiry ex then "ok\t" ++ js (optStrJson (clamp ex)) else "unsupported"
    | none => "unsupported"
  | ["ack", t, unacked, tag, multiple] =>
    match rdTransport t, rd unacked, rd tag, rd multiple with
    | some tr, some (.arr us), some (.num tg), some (.bool mu) =>
      match natList us with
      | some c =>
        if tg < 0 then "unsupported" else
        let m : Msg := { body := [], properties := [], tag := tg.toNat }
        let c' := if mu then acknowledge c m true else engineAck tr c m
        "ok\t" ++ js (.arr (c'.map (fun (n : Nat) => Json.num (n : Int))))
      | none => "unsupported"
    | _, _, _, _ => "unsupported"
  | ["names", qn, qt, iid] =>
    match rd qn, rdQType qt, rd iid with
    | some (.str q), some ty, some (.str i) =>
      "ok\t" ++ js (o [("shared", .str (sharedName q ty)), ("instance", .str (instanceName q ty i)),
        ("reply", .str (replyName ty i)), ("shared_addr", .str (sharedAddr q ty)),
        ("instance_addr", .str (instanceAddr q ty i)), ("reply_addr", .str (replyAddr ty i)),
        ("topic_addr", .str topicAddr)])
    | _, _, _ => "unsupported"
  | ["route", acts] =>
    match rd acts with
    | some (.arr as) => match runIdx {} as 0 with
      | .ok n => "ok\t" ++ toString n
      | .error e => e
    | _ => "unsupported"
  | _ => "bad-op"

end Asl.Drv.Amqp
