/- driver handler of the `amqp` stream (line protocol, see Main.lean) -/
import AslModel.Drv.Util
namespace Asl.Drv.Amqp
open Asl

def handle : List String → String
  | _ => "bad-op"

end Asl.Drv.Amqp
