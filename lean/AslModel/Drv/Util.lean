/- helpers shared by the driver handlers -/
import AslModel.JsonText
import AslModel.Path
namespace Asl.Drv
open Asl

/-- canonical compact JSON text of a value (object members sorted) -/
def js (j : Json) : String := String.ofList (renderC (canon j))

/-- compact JSON text keeping member order -/
def jsOrd (j : Json) : String := String.ofList (renderC j)

def rd (s : String) : Option Json := parseJson s.toList

/-- a JSON string or null → optional text -/
def rdOptStr (s : String) : Option (Option Str) :=
  match rd s with
  | some (.str p) => some (some p)
  | some .null => some none
  | _ => none

def showRes : Except PErr Json → String
  | .ok v => "ok\t" ++ js v
  | .error e => "err\t" ++ e.name

end Asl.Drv
