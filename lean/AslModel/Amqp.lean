/-
L6 — the JMS-like messaging layer over AMQP 0-9-1 (`amqp_0_9_1_messaging.py` and
`amqp_0_9_1_messaging_asyncio.py`; the two files hold the same logic, so there is one model and a
`Transport` parameter that nothing depends on — `transports_alike`).

* address strings: `Destination.parse_address` (split on `;` and `/`, `json.loads` of the options map,
  node / link / x-declare / x-bindings / x-subscribe) and what `Consumer.open` +
  `set_message_listener` / `Producer.open` then ask of the broker: the complete list of frames
  (`Op`), in order — the prefetch of the Consumer constructor, the *passive* existence probe on a
  temporary channel (its answer is an input of the model — `Env.exchanges`), the declarations, bindings
  and the subscription on the session channel — and what those frames can create (`Entity`);
* `Message` ↔ `BasicProperties` (`Producer.send`, `Consumer.message_listener`), the expiration clamp,
  the subject → routing-key rule and the default exchange's routing by queue name;
* `Message.acknowledge` / `Session.acknowledge` over the channel's outstanding delivery tags;
* the queue names and the four address strings of `EventDispatcher.start*` / `TaskDispatcher.start*`.

Where the property is silent the model copies the code (Python truthiness of option values, `dict.update`
of the defaults, `strip()` of name and subject, flags passed through unconverted).  Broker failures other
than the existence probe are not modelled (the generators declare what they bind to).
-/
import AslModel.JsonText
namespace Asl.Amqp
open Asl

/-! ### text helpers (Python `str.split(sep)`, `str.strip()`) -/

/-- ASCII characters `str.strip()` removes (the driver refuses non-ASCII addresses) -/
def pyWs (c : Char) : Bool :=
  c = ' ' || c = '\t' || c = '\n' || c = '\r' || c.toNat = 11 || c.toNat = 12 ||
  (28 ≤ c.toNat && c.toNat ≤ 31)

def lstrip : Str → Str
  | [] => []
  | c :: cs => if pyWs c then lstrip cs else c :: cs

def strip (s : Str) : Str := (lstrip (lstrip s).reverse).reverse

/-- `s.split(sep)` for a one-character separator: always at least one piece -/
def splitOn (sep : Char) : Str → List Str
  | [] => [[]]
  | c :: cs =>
    if c = sep then [] :: splitOn sep cs
    else match splitOn sep cs with
      | p :: ps => (c :: p) :: ps
      | [] => [[c]]

/-- the three parts `parse_address` cuts an address into before `json.loads` -/
structure Split where
  name : Str
  subject : Str
  options : Str
  deriving Repr, DecidableEq

def splitAddress (addr : Str) : Split :=
  let kv := splitOn ';' addr
  let opts : Str := match kv with
    | [_, o] => o
    | _ => ['{', '}']
  let head : Str := match kv with
    | h :: _ => h
    | [] => []
  let kv2 := splitOn '/' head
  let subject : Str := match kv2 with
    | [_, s] => strip s
    | _ => []
  let name : Str := match kv2 with
    | h :: _ => strip h
    | [] => []
  -- "Handle case where address comprises just the options string."
  if 2 ≤ name.length ∧ name.head? = some '{' then ⟨[], subject, name⟩ else ⟨name, subject, opts⟩

/-! ### the Destination -/

abbrev Dict := List (Str × Json)

/-- text constants are written as character lists: `String.toList` of a literal does not reduce in the kernel
in reasonable time, and the theorems evaluate the parser on the engine's concrete option texts -/
abbrev key (s : Str) : Str := s

/-- `d.get(k)` with `None` for a missing key -/
def dget (d : Dict) (k : Str) : Json := (objGet d k).getD .null

/-- `d.update(x)` -/
def upd (d x : Dict) : Dict := x.foldl (fun acc kv => objSet acc kv.1 kv.2) d

def declare0 : Dict :=
  [(key ['q', 'u', 'e', 'u', 'e'], .str []), (key ['e', 'x', 'c', 'h', 'a', 'n', 'g', 'e'], .str []), (key ['e', 'x', 'c', 'h', 'a', 'n', 'g', 'e', '-', 't', 'y', 'p', 'e'], .str (key ['d', 'i', 'r', 'e', 'c', 't'])),
   (key ['p', 'a', 's', 's', 'i', 'v', 'e'], .bool false), (key ['i', 'n', 't', 'e', 'r', 'n', 'a', 'l'], .bool false), (key ['d', 'u', 'r', 'a', 'b', 'l', 'e'], .bool false),
   (key ['e', 'x', 'c', 'l', 'u', 's', 'i', 'v', 'e'], .bool false), (key ['a', 'u', 't', 'o', '-', 'd', 'e', 'l', 'e', 't', 'e'], .bool false), (key ['a', 'r', 'g', 'u', 'm', 'e', 'n', 't', 's'], .null)]

def linkDeclare0 : Dict :=
  [(key ['q', 'u', 'e', 'u', 'e'], .str []), (key ['p', 'a', 's', 's', 'i', 'v', 'e'], .bool false), (key ['i', 'n', 't', 'e', 'r', 'n', 'a', 'l'], .bool false),
   (key ['d', 'u', 'r', 'a', 'b', 'l', 'e'], .bool false), (key ['e', 'x', 'c', 'l', 'u', 's', 'i', 'v', 'e'], .bool true), (key ['a', 'u', 't', 'o', '-', 'd', 'e', 'l', 'e', 't', 'e'], .bool true),
   (key ['a', 'r', 'g', 'u', 'm', 'e', 'n', 't', 's'], .null)]

def linkSubscribe0 : Dict := [(key ['e', 'x', 'c', 'l', 'u', 's', 'i', 'v', 'e'], .bool false), (key ['a', 'r', 'g', 'u', 'm', 'e', 'n', 't', 's'], .null)]

structure Dest where
  name : Str
  subject : Str
  declare : Dict
  linkDeclare : Dict
  linkSubscribe : Dict
  bindings : List Json
  deriving Repr, DecidableEq

/-- why an address is refused: `parse` = `json.loads` raised (the layers turn that into
ProducerError / ConsumerError); `noExchange` = a subject was given but the node is not an exchange
(ConsumerError); `shape` = a value of the wrong JSON type where the code dereferences it (the code
raises AttributeError / TypeError / KeyError there; outside the documented grammar — the driver answers
`unsupported`) -/
inductive AErr where
  | parse | noExchange | shape
  deriving Repr, DecidableEq

/-- `if x:` then `x.get(...)`: a falsy value is skipped, a truthy one must be a map -/
def truthyObj : Json → Except AErr (Option Dict)
  | .obj (kv :: kvs) => .ok (some (kv :: kvs))
  | j => if j.truthy then .error .shape else .ok none

/-- `x and type(x) == dict` -/
def nonEmptyObj : Json → Option Dict
  | .obj (kv :: kvs) => some (kv :: kvs)
  | _ => none

/-- `x and type(x) == list` -/
def nonEmptyArr : Json → Option (List Json)
  | .arr (x :: xs) => some (x :: xs)
  | _ => none

def isStr (j : Json) (s : Str) : Bool := decide (j = .str s)

def strOf : Json → Except AErr Str
  | .str s => .ok s
  | _ => .error .shape

/-- the node part of `parse_address`: (name, declare, bindings) -/
def nodePart (name : Str) (nd : Dict) : Except AErr (Str × Dict × List Json) := do
  let ty := dget nd ['t', 'y', 'p', 'e']
  let (name1, d1) ← match nonEmptyObj (dget nd ['x', '-', 'd', 'e', 'c', 'l', 'a', 'r', 'e']) with
    | none => pure (name, declare0)
    | some xd =>
      let d := upd declare0 xd
      if name ≠ [] then
        let d := if isStr ty ['q', 'u', 'e', 'u', 'e'] && !(dget d ['q', 'u', 'e', 'u', 'e']).truthy then objSet d (key ['q', 'u', 'e', 'u', 'e']) (.str name) else d
        let d := if isStr ty ['t', 'o', 'p', 'i', 'c'] && !(dget d ['e', 'x', 'c', 'h', 'a', 'n', 'g', 'e']).truthy then objSet d (key ['e', 'x', 'c', 'h', 'a', 'n', 'g', 'e']) (.str name) else d
        pure (name, d)
      else
        let nm : Json := .str []
        let nm := if isStr ty ['q', 'u', 'e', 'u', 'e'] then dget d ['q', 'u', 'e', 'u', 'e'] else nm
        let nm := if isStr ty ['t', 'o', 'p', 'i', 'c'] then dget d ['e', 'x', 'c', 'h', 'a', 'n', 'g', 'e'] else nm
        let nm := if !nm.truthy then dget d ['e', 'x', 'c', 'h', 'a', 'n', 'g', 'e'] else nm
        let nm := if !nm.truthy then dget d ['q', 'u', 'e', 'u', 'e'] else nm
        match strOf nm with
        | .ok s => pure (s, d)
        | .error e => throw e
  let d2 := if (dget nd ['d', 'u', 'r', 'a', 'b', 'l', 'e']).truthy then objSet d1 (key ['d', 'u', 'r', 'a', 'b', 'l', 'e']) (.bool true) else d1
  let d3 := if (dget nd ['a', 'u', 't', 'o', '-', 'd', 'e', 'l', 'e', 't', 'e']).truthy then objSet d2 (key ['a', 'u', 't', 'o', '-', 'd', 'e', 'l', 'e', 't', 'e']) (.bool true) else d2
  let bs := match nonEmptyArr (dget nd ['x', '-', 'b', 'i', 'n', 'd', 'i', 'n', 'g', 's']) with
    | some xs => xs
    | none => []
  pure (name1, d3, bs)

def linkPart (lk : Dict) : Dict × Dict :=
  let ld := match nonEmptyObj (dget lk ['x', '-', 'd', 'e', 'c', 'l', 'a', 'r', 'e']) with
    | some xd => upd linkDeclare0 xd
    | none => linkDeclare0
  let ls := match nonEmptyObj (dget lk ['x', '-', 's', 'u', 'b', 's', 'c', 'r', 'i', 'b', 'e']) with
    | some xs => upd linkSubscribe0 xs
    | none => linkSubscribe0
  (ld, ls)

/-- `parse_address` after `json.loads` -/
def destOf (name subject : Str) (options : Json) : Except AErr Dest :=
  match options with
  | .obj o => do
    let node ← truthyObj (dget o ['n', 'o', 'd', 'e'])
    let (name1, decl, bs) ← match node with
      | none => pure (name, declare0, [])
      | some nd => nodePart name nd
    let link ← truthyObj (dget o ['l', 'i', 'n', 'k'])
    let (ld, ls) := match link with
      | none => (linkDeclare0, linkSubscribe0)
      | some lk => linkPart lk
    pure ⟨name1, subject, decl, ld, ls, bs⟩
  | _ => .error .shape

/-- `Destination.parse_address` -/
def parseAddress (addr : Str) : Except AErr Dest :=
  let sp := splitAddress addr
  match parseJson sp.options with
  | none => .error .parse
  | some o => destOf sp.name sp.subject o

/-! ### what is asked of the broker -/

/-- one frame sent to the broker while a Consumer / Producer is set up; flag and argument values are passed
through as given.  Everything is sent on the session channel except `probe`:
* `probe x` — `exchange_declare(x, passive=True)` (every other argument at pika's default) on a temporary
  channel that is closed afterwards: it asks whether the exchange exists and can create nothing;
* `qos n` — `basic_qos(prefetch_count=n)` (prefetch size 0, not global);
* `consume` — `basic_consume` without a consumer tag; `autoAck` is the session's flag. -/
inductive Op where
  | probe (exchange : Str)
  | qos (prefetch : Nat)
  | exchangeDeclare (exchange type passive durable autoDelete internal arguments : Json)
  | queueDeclare (queue passive durable exclusive autoDelete arguments : Json)
  | queueBind (queue exchange key arguments : Json)
  | consume (queue autoAck exclusive arguments : Json)
  deriving Repr, DecidableEq

/-- the channel a frame is sent on -/
inductive Channel where
  | session | temp
  deriving Repr, DecidableEq

def Op.channel : Op → Channel
  | .probe _ => .temp
  | _ => .session

/-- what the broker holds after a frame (AMQP 0-9-1: a passive declaration creates nothing) -/
inductive Entity where
  | exchange (name type durable autoDelete internal arguments : Json)
  | queue (name durable exclusive autoDelete arguments : Json)
  | binding (queue exchange key arguments : Json)
  | subscription (queue autoAck exclusive arguments : Json)
  deriving Repr, DecidableEq

def Op.creates : Op → List Entity
  | .probe _ => []
  | .qos _ => []
  | .exchangeDeclare e t p d a i g => if p.truthy then [] else [.exchange e t d a i g]
  | .queueDeclare q p d x a g => if p.truthy then [] else [.queue q d x a g]
  | .queueBind q e k g => [.binding q e k g]
  | .consume q k x g => [.subscription q k x g]

/-- everything a list of frames can create, in order -/
def created : List Op → List Entity
  | [] => []
  | op :: ops => op.creates ++ created ops

/-- the prefetch every Consumer starts with ("Set default capacity/message prefetch to 500") -/
def defaultCapacity : Nat := 500

/-- the broker as the layers see it: which exchanges exist (the passive probe) and which name the
server gives to a queue declared with the empty name -/
structure Env where
  exchanges : List Str
  anon : Str
  deriving Repr

def exchangeOp (d : Dict) : List Op :=
  if (dget d ['e', 'x', 'c', 'h', 'a', 'n', 'g', 'e']).truthy then
    [.exchangeDeclare (dget d ['e', 'x', 'c', 'h', 'a', 'n', 'g', 'e']) (dget d ['e', 'x', 'c', 'h', 'a', 'n', 'g', 'e', '-', 't', 'y', 'p', 'e']) (dget d ['p', 'a', 's', 's', 'i', 'v', 'e']) (dget d ['d', 'u', 'r', 'a', 'b', 'l', 'e'])
      (dget d ['a', 'u', 't', 'o', '-', 'd', 'e', 'l', 'e', 't', 'e']) (dget d ['i', 'n', 't', 'e', 'r', 'n', 'a', 'l']) (dget d ['a', 'r', 'g', 'u', 'm', 'e', 'n', 't', 's'])]
  else []

/-- `binding["exchange"]`, `binding["queue"]` (KeyError when missing), `.get("key")`, `.get("arguments")` -/
def bindOps : List Json → Except AErr (List Op)
  | [] => .ok []
  | .obj b :: rest =>
    match objGet b (key ['e', 'x', 'c', 'h', 'a', 'n', 'g', 'e']), bindOps rest with
    | some ex, .ok ops =>
      if ex = .str [] then .ok ops
      else match objGet b (key ['q', 'u', 'e', 'u', 'e']) with
        | some q => .ok (.queueBind q ex (dget b ['k', 'e', 'y']) (dget b ['a', 'r', 'g', 'u', 'm', 'e', 'n', 't', 's']) :: ops)
        | none => .error .shape
    | none, _ => .error .shape
    | _, .error e => .error e
  | _ :: _ => .error .shape

/-- the existence probe: made exactly when the address names something -/
def probeOp (dst : Dest) : List Op := if dst.name ≠ [] then [.probe dst.name] else []

/-- the Consumer constructor + `Consumer.open`: the frames, in order, and the queue to consume from -/
def consumerOpen (env : Env) (dst : Dest) : Except AErr (List Op × Str) := do
  -- the existence probe
  let exchange : Option Str ←
    if dst.name ≠ [] then
      if dst.name ∈ env.exchanges then pure (some dst.name)
      else if dst.subject ≠ [] then
        if dget dst.declare ['e', 'x', 'c', 'h', 'a', 'n', 'g', 'e'] = .str dst.name then pure (some dst.name)
        else throw AErr.noExchange
      else pure none
    else pure none
  -- an exchange: a subscription queue and a binding with the subject as key
  let (qname, bindings) ← match exchange with
    | none => pure (Json.str dst.name, dst.bindings)
    | some ex =>
      let qn : Json :=
        if (dget dst.declare ['q', 'u', 'e', 'u', 'e']).truthy then dget dst.declare ['q', 'u', 'e', 'u', 'e']
        else if (dget dst.linkDeclare ['q', 'u', 'e', 'u', 'e']).truthy then dget dst.linkDeclare ['q', 'u', 'e', 'u', 'e']
        else .str []
      let bs := if dst.bindings.isEmpty ∧ dst.subject ≠ [] then
          [Json.obj [(key ['q', 'u', 'e', 'u', 'e'], qn), (key ['e', 'x', 'c', 'h', 'a', 'n', 'g', 'e'], .str ex), (key ['k', 'e', 'y'], .str dst.subject)]]
        else dst.bindings
      pure (qn, bs)
  let qn ← strOf qname
  let decl := if exchange.isSome ∧ !(dget dst.declare ['q', 'u', 'e', 'u', 'e']).truthy then dst.linkDeclare else dst.declare
  let decl := if qn = [] then objSet decl (key ['a', 'u', 't', 'o', '-', 'd', 'e', 'l', 'e', 't', 'e']) (.bool true) else decl
  let qd := Op.queueDeclare (.str qn) (dget decl ['p', 'a', 's', 's', 'i', 'v', 'e']) (dget decl ['d', 'u', 'r', 'a', 'b', 'l', 'e']) (dget decl ['e', 'x', 'c', 'l', 'u', 's', 'i', 'v', 'e'])
    (dget decl ['a', 'u', 't', 'o', '-', 'd', 'e', 'l', 'e', 't', 'e']) (dget decl ['a', 'r', 'g', 'u', 'm', 'e', 'n', 't', 's'])
  let actual := if qn = [] then env.anon else qn
  let binds ← bindOps bindings
  pure ([.qos defaultCapacity] ++ probeOp dst ++ exchangeOp dst.declare ++ [qd] ++ binds, actual)

/-- `set_message_listener`: the subscription (`autoAck`: the session's flag — sessions are opened with
`auto_ack=False`) -/
def listenOp (dst : Dest) (queue : Str) : Op :=
  .consume (.str queue) (.bool false) (dget dst.linkSubscribe ['e', 'x', 'c', 'l', 'u', 's', 'i', 'v', 'e']) (dget dst.linkSubscribe ['a', 'r', 'g', 'u', 'm', 'e', 'n', 't', 's'])

/-- `consumer.capacity = n` between `open` and `set_message_listener` (what the engine does), or not at all -/
def capacityOp : Option Nat → List Op
  | some n => [.qos n]
  | none => []

/-- where a Producer publishes: the exchange and the default subject -/
structure Target where
  exchange : Str
  subject : Str
  deriving Repr, DecidableEq

/-- `Producer.open` -/
def producerOpen (env : Env) (dst : Dest) : List Op × Target :=
  let tgt : Target :=
    if dst.name ≠ [] ∧ dst.name ∉ env.exchanges ∧ dget dst.declare ['e', 'x', 'c', 'h', 'a', 'n', 'g', 'e'] ≠ .str dst.name then
      ⟨[], dst.name⟩          -- "assume default direct exchange": the name becomes the subject
    else ⟨dst.name, dst.subject⟩
  (probeOp dst ++ exchangeOp dst.declare, tgt)

/-- the two transports; nothing in the model depends on it -/
inductive Transport where
  | asyncio | blocking
  deriving Repr, DecidableEq

/-- a parsed address as a Consumer: open, optionally `.capacity = n`, then `.set_message_listener(f)` -/
def consumerOf (env : Env) (capacity : Option Nat) : Except AErr Dest → Except AErr (List Op × Str)
  | .ok d => match consumerOpen env d with
    | .ok (ops, q) => .ok (ops ++ capacityOp capacity ++ [listenOp d q], q)
    | .error e => .error e
  | .error e => .error e

/-- `session.consumer(addr)`, optionally `.capacity = n`, then `.set_message_listener(f)` -/
def consumerOps (_t : Transport) (env : Env) (addr : Str) (capacity : Option Nat := none) : Except AErr (List Op × Str) :=
  consumerOf env capacity (parseAddress addr)

def producerOps (_t : Transport) (env : Env) (addr : Str) : Except AErr (List Op × Target) :=
  match parseAddress addr with
  | .ok d => .ok (producerOpen env d)
  | .error e => .error e

/-! ### the engine's names and address strings (`EventDispatcher.__init__/start*`, `TaskDispatcher`) -/

inductive QType where
  | classic | quorum
  deriving Repr, DecidableEq

def qq : QType → Str
  | .classic => []
  | .quorum => key ['-', 'q', 'q']

def sharedName (qn : Str) (qt : QType) : Str := qn ++ qq qt
def instanceName (qn : Str) (qt : QType) (iid : Str) : Str := qn ++ qq qt ++ '-' :: iid
def replyName (qt : QType) (iid : Str) : Str := key ['a', 's', 'l', '_', 'w', 'o', 'r', 'k', 'f', 'l', 'o', 'w', '_', 'r', 'e', 'p', 'l', 'y', '_', 't', 'o'] ++ qq qt ++ '-' :: iid

/-- `, "x-declare": {"arguments": {"x-queue-type": "quorum"}}` for quorum queues -/
def xDeclareText : QType → Str
  | .classic => []
  | .quorum => key [',', ' ', '"', 'x', '-', 'd', 'e', 'c', 'l', 'a', 'r', 'e', '"', ':', ' ', '{', '"', 'a', 'r', 'g', 'u', 'm', 'e', 'n', 't', 's', '"', ':', ' ', '{', '"', 'x', '-', 'q', 'u', 'e', 'u', 'e', '-', 't', 'y', 'p', 'e', '"', ':', ' ', '"', 'q', 'u', 'o', 'r', 'u', 'm', '"', '}', '}']

/-- ` {"node": {"durable": true<x-declare>}}` -/
def sharedTail (qt : QType) : Str := key [' ', '{', '"', 'n', 'o', 'd', 'e', '"', ':', ' ', '{', '"', 'd', 'u', 'r', 'a', 'b', 'l', 'e', '"', ':', ' ', 't', 'r', 'u', 'e'] ++ xDeclareText qt ++ key ['}', '}']
/-- ` {"node": {"durable": true<x-declare>}, "link": {"x-subscribe": {"exclusive": true}}}` -/
def instanceTail (qt : QType) : Str :=
  key [' ', '{', '"', 'n', 'o', 'd', 'e', '"', ':', ' ', '{', '"', 'd', 'u', 'r', 'a', 'b', 'l', 'e', '"', ':', ' ', 't', 'r', 'u', 'e'] ++ xDeclareText qt ++ key ['}', ',', ' '] ++
  key ['"', 'l', 'i', 'n', 'k', '"', ':', ' ', '{', '"', 'x', '-', 's', 'u', 'b', 's', 'c', 'r', 'i', 'b', 'e', '"', ':', ' ', '{', '"', 'e', 'x', 'c', 'l', 'u', 's', 'i', 'v', 'e', '"', ':', ' ', 't', 'r', 'u', 'e', '}', '}', '}']
/-- ` {"node": {"durable": true<x-declare>}, "link": {"x-subscribe": {"arguments": {"x-priority": 10}}}}` -/
def replyTail (qt : QType) : Str :=
  key [' ', '{', '"', 'n', 'o', 'd', 'e', '"', ':', ' ', '{', '"', 'd', 'u', 'r', 'a', 'b', 'l', 'e', '"', ':', ' ', 't', 'r', 'u', 'e'] ++ xDeclareText qt ++ key ['}', ',', ' '] ++
  key ['"', 'l', 'i', 'n', 'k', '"', ':', ' ', '{', '"', 'x', '-', 's', 'u', 'b', 's', 'c', 'r', 'i', 'b', 'e', '"', ':', ' ', '{', '"', 'a', 'r', 'g', 'u', 'm', 'e', 'n', 't', 's', '"', ':', ' ', '{', '"', 'x', '-', 'p', 'r', 'i', 'o', 'r', 'i', 't', 'y', '"', ':', ' ', '1', '0', '}', '}', '}', '}']

def sharedAddr (qn : Str) (qt : QType) : Str := sharedName qn qt ++ ';' :: sharedTail qt
def instanceAddr (qn : Str) (qt : QType) (iid : Str) : Str := instanceName qn qt iid ++ ';' :: instanceTail qt
def replyAddr (qt : QType) (iid : Str) : Str := replyName qt iid ++ ';' :: replyTail qt
/-- the notification topic of the shipped `config.json` (read verbatim from the configuration) -/
/- `{"node": {"x-declare": {"exchange": "asl_workflow_engine", "exchange-type": "topic", "durable": true}}}` -/
def topicAddr : Str :=
  key ['{', '"', 'n', 'o', 'd', 'e', '"', ':', ' ', '{', '"', 'x', '-', 'd', 'e', 'c', 'l', 'a', 'r', 'e', '"', ':', ' ', '{', '"', 'e', 'x', 'c', 'h', 'a', 'n', 'g', 'e', '"', ':', ' ', '"', 'a', 's', 'l', '_', 'w', 'o', 'r', 'k', 'f', 'l', 'o', 'w', '_', 'e', 'n', 'g', 'i', 'n', 'e', '"', ',', ' ', '"', 'e', 'x', 'c', 'h', 'a', 'n', 'g', 'e', '-', 't', 'y', 'p', 'e', '"', ':', ' ', '"', 't', 'o', 'p', 'i', 'c', '"', ',', ' ', '"', 'd', 'u', 'r', 'a', 'b', 'l', 'e', '"', ':', ' ', 't', 'r', 'u', 'e', '}', '}', '}']

def queueArgs : QType → Json
  | .classic => .null
  | .quorum => .obj [(key ['x', '-', 'q', 'u', 'e', 'u', 'e', '-', 't', 'y', 'p', 'e'], .str (key ['q', 'u', 'o', 'r', 'u', 'm']))]

/-! ### Message ↔ BasicProperties -/

/-- the value given as `expiration`: nothing, a Python `int`, or text (a `str`, or the `repr` of a
Python `float` — `float(repr(x)) == x`) -/
inductive Expiry where
  | none
  | int (n : Int)
  | text (s : Str)
  deriving Repr, DecidableEq

/-- a `Message`; the defaults are those of `Message.__init__` (empty body, persistent, not mandatory) -/
structure Msg where
  body : Str := []
  properties : Dict            -- application properties (carries the subject)
  contentType : Json := .null
  contentEncoding : Json := .null
  redelivered : Bool := false
  durable : Bool := true
  mandatory : Bool := false
  priority : Json := .null
  correlationId : Json := .null
  replyTo : Json := .null
  expiration : Expiry := .none
  messageId : Json := .null
  timestamp : Json := .null
  type : Json := .null
  userId : Json := .null
  appId : Json := .null
  clusterId : Json := .null
  tag : Nat := 0               -- `_delivery_tag` (0: not a delivery)
  deriving Repr, DecidableEq

def subjectKey : Str := key ['x', '-', 'a', 'm', 'q', 'p', '-', '0', '-', '9', '-', '1', '.', 's', 'u', 'b', 'j', 'e', 'c', 't']

/-- `message.subject` -/
def Msg.subject (m : Msg) : Json := (objGet m.properties subjectKey).getD .null

/-- `message.subject = s` — a falsy subject is ignored -/
def Msg.setSubject (m : Msg) (s : Json) : Msg :=
  if s.truthy then { m with properties := objSet m.properties subjectKey s } else m

structure Props where
  headers : Dict
  contentType : Json
  contentEncoding : Json
  deliveryMode : Nat
  priority : Json
  correlationId : Json
  replyTo : Json
  expiration : Option Str
  messageId : Json
  timestamp : Json
  type : Json
  userId : Json
  appId : Json
  clusterId : Json
  deriving Repr, DecidableEq

/-! #### the expiration clamp: `str(int(float(x)))`, "0" when that is negative or cannot be computed -/

inductive Num where
  | fin (neg : Bool) (mant : Nat) (exp : Int)     -- ± mant · 10^exp
  | inf (neg : Bool)
  | nan
  | bad
  deriving Repr, DecidableEq

def digitsOf : Str → Nat × Nat × Str      -- (value, count, rest)
  | [] => (0, 0, [])
  | c :: cs =>
    if c.isDigit then
      let (v, n, r) := digitsOf cs
      ((c.toNat - 48) * 10 ^ n + v, n + 1, r)
    else (0, 0, c :: cs)

def lower (s : Str) : Str := s.map Char.toLower

/-- exponent part: `e[±]digits` or nothing; anything else is not a number -/
def expPart : Str → Option Int
  | [] => some 0
  | c :: cs =>
    if c = 'e' ∨ c = 'E' then
      let (neg, ds) := match cs with
        | '-' :: r => (true, r)
        | '+' :: r => (false, r)
        | r => (false, r)
      match digitsOf ds with
      | (v, _ + 1, []) => some (if neg then -(v : Int) else (v : Int))
      | _ => none
    else none

/-- the text grammar of Python's `float(str)` without digit-group underscores (ASCII) -/
def parseFloatText (s : Str) : Num :=
  let t := strip s
  let (neg, u) := match t with
    | '-' :: r => (true, r)
    | '+' :: r => (false, r)
    | r => (false, r)
  let w := lower u
  if w = key ['i', 'n', 'f'] ∨ w = key ['i', 'n', 'f', 'i', 'n', 'i', 't', 'y'] then .inf neg
  else if w = key ['n', 'a', 'n'] then .nan
  else
    let (iv, ic, r1) := digitsOf u
    let (fv, fc, r2) := match r1 with
      | '.' :: r => digitsOf r
      | r => (0, 0, r)
    let dotted := match r1 with
      | '.' :: _ => true
      | _ => false
    if ic + fc = 0 then .bad
    else if !dotted ∧ fc ≠ 0 then .bad
    else match expPart r2 with
      | some e => .fin neg (iv * 10 ^ fc + fv) (e - fc)
      | none => .bad

/-- `int(x)`: truncation towards zero -/
def truncNum (neg : Bool) (mant : Nat) (exp : Int) : Int :=
  let a : Nat := if exp ≥ 0 then mant * 10 ^ exp.toNat else mant / 10 ^ (-exp).toNat
  if neg then -(a : Int) else (a : Int)

def clampInt (v : Int) : Str := if v < 0 then ['0'] else natDigits v.toNat

/-- the `expiration` property that is sent -/
def clamp : Expiry → Option Str
  | .none => none
  | .int n => some (clampInt n)
  | .text s => match parseFloatText s with
    | .fin neg m e => some (clampInt (truncNum neg m e))
    | _ => some ['0']

/-- one `basic_publish` -/
structure Frame where
  exchange : Str
  routingKey : Json
  body : Str
  props : Props
  mandatory : Bool
  deriving Repr, DecidableEq

/-- `Producer.send` -/
def send (_t : Transport) (tgt : Target) (m : Msg) : Frame :=
  { exchange := tgt.exchange,
    routingKey := if m.subject.truthy then m.subject else .str tgt.subject,
    body := m.body,
    props := { headers := m.properties, contentType := m.contentType, contentEncoding := m.contentEncoding,
               deliveryMode := if m.durable then 2 else 1, priority := m.priority,
               correlationId := m.correlationId, replyTo := m.replyTo, expiration := clamp m.expiration,
               messageId := m.messageId, timestamp := m.timestamp, type := m.type, userId := m.userId,
               appId := m.appId, clusterId := m.clusterId },
    mandatory := m.mandatory }

/-- a run of sends through one Producer.  `ms` are the Messages in the order they were built, `order` lists —
in the order the frames go on the wire — the indices of the messages: a direct `send` publishes at once, a
`send(threadsafe=True)` (what the REST front end does from its own thread) publishes when the connection's loop
gets round to its callback, possibly after later Messages were built, given a subject and sent.  Every `Message`
carries its own state (`Msg` is a value: its application properties, and with them its subject, are its own —
`Message.__init__` gives each Message built without `properties` a fresh map), so the frame of message `i` is
`send` of that message, whenever it is published and whatever else was built or sent in between. -/
def sendSeq (t : Transport) (tgt : Target) (ms : List Msg) (order : List Nat) : List (Nat × Frame) :=
  order.filterMap (fun i => (ms[i]?).map (fun m => (i, send t tgt m)))

/-- `Consumer.message_listener`: the Message built from a delivery -/
def deliver (_t : Transport) (f : Frame) (tag : Nat) (redelivered : Bool) : Msg :=
  { body := f.body, properties := f.props.headers, contentType := f.props.contentType,
    contentEncoding := f.props.contentEncoding, redelivered := redelivered,
    durable := decide (f.props.deliveryMode = 2), mandatory := false, priority := f.props.priority,
    correlationId := f.props.correlationId, replyTo := f.props.replyTo,
    expiration := match f.props.expiration with
      | some s => .text s
      | none => .none,
    messageId := f.props.messageId, timestamp := f.props.timestamp, type := f.props.type,
    userId := f.props.userId, appId := f.props.appId, clusterId := f.props.clusterId, tag := tag }

/-- `Producer.return_callback`: the Message built from a `Basic.Return` — the broker hands an unroutable
mandatory message back with the properties and body it was published with; its delivery tag is 0
("returned Messages should not be acknowledged") -/
def returned (t : Transport) (f : Frame) : Msg := deliver t f 0 false

/-- the request `TaskDispatcher.execute_task` builds for an rpcmessage function (task_dispatcher.py, "Actually
invoke the Task"): subject = the function's name, reply-to = this instance's reply queue, correlation id =
the id of the Task state's event (with the resource suffix, if any), expiration = the state's timeout in ms -/
def rpcRequest (qt : QType) (iid fn corr payload : Str) (carrier : Dict) (timeoutMs : Int) : Msg :=
  Msg.setSubject
    { body := payload, properties := carrier, contentType := .str ['a', 'p', 'p', 'l', 'i', 'c', 'a', 't', 'i', 'o', 'n', '/', 'j', 's', 'o', 'n'],
      correlationId := .str corr, replyTo := .str (replyName qt iid), expiration := .int timeoutMs,
      mandatory := true }
    (.str fn)

/-- the default exchange routes to the queue named by the routing key, if it exists -/
def routeDefault (queues : List Str) (routingKey : Json) : List Str :=
  match routingKey with
  | .str k => if k ∈ queues then [k] else []
  | _ => []

/-- a publish on the default exchange comes back (`Basic.Return`) when it asked to (`mandatory`) and no
queue bears the routing key -/
def isReturned (queues : List Str) (f : Frame) : Bool :=
  f.mandatory && (routeDefault queues f.routingKey).isEmpty

/-! ### acknowledgement -/

/-- the outstanding (delivered, unacknowledged) delivery tags of a channel -/
abbrev Chan := List Nat

/-- `basic_ack(delivery_tag, multiple)` -/
def basicAck (c : Chan) (tag : Nat) (multiple : Bool) : Chan :=
  if multiple then (if tag = 0 then [] else c.filter (fun t => decide (tag < t)))
  else c.filter (fun t => decide (t ≠ tag))

/-- `Message.acknowledge(multiple)` — `multiple=True` is the JMS "everything consumed by the session" -/
def acknowledge (c : Chan) (m : Msg) (multiple : Bool) : Chan :=
  if multiple then basicAck c 0 true
  else if m.tag ≠ 0 then basicAck c m.tag false
  else c

/-- what `EventDispatcher.acknowledge` / `dispatch` (poison message) / `Session.acknowledge(message)` do -/
def engineAck (_t : Transport) (c : Chan) (m : Msg) : Chan := acknowledge c m false

end Asl.Amqp
