/-
L4 — the status-change notification (`broadcast_notification`): the CloudWatch-shaped event is a
function of the stored execution record; dates are converted from epoch seconds (stored, here in
microseconds to stay in integers) to integer milliseconds; the subject is
`<stateMachineArn>.<status>`.  Publishing returns the record unchanged.
-/
import AslModel.Json
import AslModel.Retry
namespace Asl

structure ExecRec where
  executionArn : Str
  stateMachineArn : Str
  name : Str
  status : Str
  input : Option Str
  output : Option Str
  error : Option Str
  cause : Option Str
  startMicros : Int               -- startDate in µs since epoch (the record stores float seconds)
  stopMicros : Option Int
  deriving Repr, DecidableEq

structure Detail where
  executionArn : Str
  stateMachineArn : Str
  name : Str
  status : Str
  input : Option Str
  output : Option Str
  error : Option Str
  cause : Option Str
  startMs : Int
  stopMs : Option Int
  deriving Repr, DecidableEq

/-- `int(seconds * 1000)` for a non-negative time given in µs -/
def toMs (micros : Int) : Int := micros / 1000

def detailOf (r : ExecRec) : Detail :=
  { executionArn := r.executionArn, stateMachineArn := r.stateMachineArn, name := r.name, status := r.status,
    input := r.input, output := r.output, error := r.error, cause := r.cause,
    startMs := toMs r.startMicros, stopMs := r.stopMicros.map toMs }

def subjectOf (r : ExecRec) : Str := r.stateMachineArn ++ ('.' :: r.status)

/-- publish: the message (subject, detail) and the record as it is afterwards -/
def publish (r : ExecRec) : (Str × Detail) × ExecRec := ((subjectOf r, detailOf r), r)

end Asl
