/-
Line-protocol driver: one operation per input line (tab-separated fields, JSON payloads),
one answer line per operation.  Runs the executable definitions of the model so that the
correspondence check can diff them against the implementation.
-/
import AslModel
open Asl

def js (j : Json) : String := String.ofList (renderC (canon j))

def rd (s : String) : Option Json := parseJson s.toList

/-- a JSON string or null → optional path text -/
def rdPath (s : String) : Option (Option Str) :=
  match rd s with
  | some (.str p) => some (some p)
  | some .null => some none
  | _ => none

def showRes : Except PErr Json → String
  | .ok v => "ok\t" ++ js v
  | .error e => "err\t" ++ e.name

def handlePaths : List String → String
  | ["put", doc, path, res] =>
    match rd doc, rdPath path, rd res with
    | some d, some p, some r => showRes (applyResultPath d r p)
    | _, _, _ => "unsupported"
  | ["get", doc, path] =>
    match rd doc, rd path with
    | some d, some (.str p) => showRes (applyJsonPathText d p)
    | _, _ => "unsupported"
  | ["path", doc, ctx, path] =>
    match rd doc, rd ctx, rdPath path with
    | some d, some c, some p => showRes (applyPath d c p)
    | _, _, _ => "unsupported"
  | ["parse", path] =>
    match rd path with
    | some (.str p) => match parseRef p with
      | some segs => "ok\t" ++ js (.arr (segs.map .str))
      | none => "err\tnoparse"
    | _ => "unsupported"
  | _ => "bad-op"

def handle (line : String) : String :=
  match line.splitOn "\t" with
  | "paths" :: rest => handlePaths rest
  | "echo" :: [j] => match rd j with
    | some v => "ok\t" ++ js v
    | none => "unsupported"
  | "render" :: [j] => match rd j with
    | some v => "ok\t" ++ String.ofList (quote (render v))
    | none => "unsupported"
  | _ => "bad-op"

partial def loop (h : IO.FS.Stream) (out : IO.FS.Stream) : IO Unit := do
  let line ← h.getLine
  if line.isEmpty then return ()
  let l := if line.endsWith "\n" then (line.dropEnd 1).toString else line
  out.putStrLn (handle l)
  loop h out

def main : IO Unit := do
  let out ← IO.getStdout
  loop (← IO.getStdin) out
  out.flush
