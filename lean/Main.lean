/-
Line-protocol driver: one operation per input line (tab-separated fields, JSON payloads),
one answer line per operation.  Runs the executable definitions of the model so that the
correspondence check can diff them against the implementation.  The first field names
the stream; each stream's handler lives in AslModel/Drv/<Stream>.lean.
-/
import AslModel
open Asl Asl.Drv

def handle (line : String) : String :=
  match line.splitOn "\t" with
  | "paths" :: rest => Asl.Drv.Paths.handle rest
  | "names" :: rest => Asl.Drv.Names.handle rest
  | "store" :: rest => Asl.Drv.Store.handle rest
  | "api" :: rest => Asl.Drv.Api.handle rest
  | "choice" :: rest => Asl.Drv.Choice.handle rest
  | "ts" :: rest => Asl.Drv.Ts.handle rest
  | "templates" :: rest => Asl.Drv.Templates.handle rest
  | "quota" :: rest => Asl.Drv.Quota.handle rest
  | "retry" :: rest => Asl.Drv.Retry.handle rest
  | "interp" :: rest => Asl.Drv.Interp.handle rest
  | "engine" :: rest => Asl.Drv.Engine.handle rest
  | "amqp" :: rest => Asl.Drv.Amqp.handle rest
  | "lint" :: rest => Asl.Drv.Lint.handle rest
  | "join" :: rest => Asl.Drv.Join.handle rest
  | "tasks" :: rest => Asl.Drv.Tasks.handle rest
  | "crash" :: rest => Asl.Drv.Crash.handle rest
  | "fanproto" :: rest => Asl.Drv.Fanproto.handle rest
  | "echo" :: [j] => match rd j with
    | some v => "ok\t" ++ js v
    | none => "unsupported"
  | "render" :: [j] => match rd j with
    | some v => "ok\t" ++ String.ofList (quote (render v))
    | none => "unsupported"
  | _ => "bad-op"

partial def loop (h : IO.FS.Stream) (out : IO.FS.Stream) : IO Unit := do
  let line ← h.getLine
  if line.isEmpty then return ()
  let l := if line.endsWith "\n" then (line.dropEnd 1).toString else line
  out.putStrLn (handle l)
  loop h out

def main : IO Unit := do
  let out ← IO.getStdout
  loop (← IO.getStdin) out
  out.flush
