/-
C05 — Parallel and Map joins are order-independent, complete and concurrency-bounded.
-/
import AslModel.Join
import Proofs.Lemmas.Join
import Proofs.Lemmas.MapProto
import Proofs.C01
namespace Asl.C05
open Asl

/-- Order independence.  Let `o` be the branch outputs (branch i produced `o[i]`).  For **every**
completion list σ — any order, repeated deliveries allowed — that only reports true outputs and
mentions every branch at least once, the join yields exactly `o`: branch i's output at position i. -/
theorem join_order_independent (o : List Json) (σ : List (Nat × Json))
    (hσ : ∀ p ∈ σ, o[p.1]? = some p.2)
    (hall : ∀ i, i < o.length → ∃ v, (i, v) ∈ σ) :
    Join.result (Join.feed (Join.init o.length) σ) = some o := by
  apply Join.result_of_all
  · simp [Join.feed_length]
  · intro i hi
    obtain ⟨v, hv⟩ := hall i hi
    obtain ⟨w, hw⟩ := Join.feed_fills (Join.init o.length) σ i v hv (by simpa using hi)
    have hag := Join.feed_agrees o (Join.init o.length) σ
      (by intro j w hj; simp [Join.init, List.getElem?_replicate] at hj) hσ i w hw
    rw [hw, hag]

/-- corollary: any two such completion orders give the same result -/
theorem join_any_two_orders (o : List Json) (σ τ : List (Nat × Json))
    (hσ : ∀ p ∈ σ, o[p.1]? = some p.2) (hτ : ∀ p ∈ τ, o[p.1]? = some p.2)
    (h1 : ∀ i, i < o.length → ∃ v, (i, v) ∈ σ) (h2 : ∀ i, i < o.length → ∃ v, (i, v) ∈ τ) :
    Join.result (Join.feed (Join.init o.length) σ) = Join.result (Join.feed (Join.init o.length) τ) := by
  rw [join_order_independent o σ hσ h1, join_order_independent o τ hτ h2]

/-- Completeness: while some branch has not finished there is no result — the state after the
join cannot start early. -/
theorem join_incomplete (n : Nat) (σ : List (Nat × Json)) (i : Nat) (hi : i < n)
    (hmiss : ∀ p ∈ σ, p.1 ≠ i) : Join.result (Join.feed (Join.init n) σ) = none := by
  apply Join.result_none_of_missing _ i
  apply Join.feed_untouched _ σ i _ hmiss
  simp [Join.init, List.getElem?_replicate, hi]

/-- the batches of a Map with MaxConcurrency m > 0 partition the items: consecutive, disjoint,
covering `0..n-1`, each of size ≤ m -/
theorem batch_size_le (n m start : Nat) (hm : 0 < m) : batchEnd n m start - start ≤ m := by
  unfold batchEnd; split <;> omega

theorem batch_progress (n m start : Nat) (hm : 0 < m) (hs : start < n) :
    start < batchEnd n m start ∧ batchEnd n m start ≤ n := by
  unfold batchEnd; split <;> omega

/-- Concurrency bound: with MaxConcurrency m > 0, in every reachable state of the launch protocol
— for every sequence of completions whatsoever — at most m iterations are in flight. -/
theorem inflight_le_maxConcurrency (n m : Nat) (hm : 0 < m) (cs : List (Nat × Json)) :
    (cs.foldl (fun st c => st.complete c.1 c.2) (MapSt.init n m)).inFlight ≤ m :=
  MapSt.inflight_le n m hm cs

/-- each Map item is launched exactly once: no index is ever launched twice, for every sequence
of completions -/
theorem map_each_item_at_most_once (n m : Nat) (cs : List (Nat × Json)) :
    (cs.foldl (fun st c => st.complete c.1 c.2) (MapSt.init n m)).launched.Nodup :=
  MapSt.launched_nodup n m cs

/-- … and only items of the array are launched -/
theorem map_launches_only_items (n m : Nat) (cs : List (Nat × Json)) :
    ∀ i ∈ (cs.foldl (fun st c => st.complete c.1 c.2) (MapSt.init n m)).launched, i < n :=
  MapSt.launched_lt n m cs

/-- The join and the reference semantics agree: if the States Language semantics gives the branch
outputs `vs` (branch k's output at position k, C01), then feeding the engine-style join with the
completions of those branches in **any** order — with repetitions — produces exactly `vs`. -/
theorem fanout_output_order_independent (env : Env) (fuel : Nat) (bs : List Json) (params ctx : Json)
    (st st' : St) (vs : List Json) (h : runBranches env fuel bs params ctx st = (.ok vs, st'))
    (σ : List (Nat × Json)) (hσ : ∀ p ∈ σ, vs[p.1]? = some p.2)
    (hall : ∀ i, i < vs.length → ∃ v, (i, v) ∈ σ) :
    Join.result (Join.feed (Join.init bs.length) σ) = some vs := by
  have hl := (C01.parallel_results_in_branch_order env fuel bs params ctx st st' vs h).1
  rw [← hl]
  exact join_order_independent vs σ hσ hall

/-- the same for Map iterations -/
theorem map_output_order_independent (env : Env) (fuel : Nat) (proc : Json) (sel : Option Json) (input : Json)
    (items : List Json) (mc : Nat) (be : Rat) (ctx : Json) (st st' : St) (vs : List Json)
    (h : runItems env fuel proc sel input items 0 mc be ctx false st = (.ok vs, st'))
    (σ : List (Nat × Json)) (hσ : ∀ p ∈ σ, vs[p.1]? = some p.2)
    (hall : ∀ i, i < vs.length → ∃ v, (i, v) ∈ σ) :
    Join.result (Join.feed (Join.init items.length) σ) = some vs := by
  have hl := (C01.map_results_in_item_order env fuel proc sel input items 0 mc be ctx st st' vs h).1
  rw [← hl]
  exact join_order_independent vs σ hσ hall

/-! ### non-vacuity -/
private def o3 : List Json := [.num 10, .num 11, .num 12]
example : (∀ p ∈ [(2, Json.num 12), (0, .num 10), (2, .num 12), (1, .num 11)], o3[p.1]? = some p.2) ∧
    (∀ i, i < o3.length → ∃ v, (i, v) ∈ [(2, Json.num 12), (0, .num 10), (2, .num 12), (1, .num 11)]) := by
  constructor
  · decide
  · intro i hi
    have : i = 0 ∨ i = 1 ∨ i = 2 := by simp [o3] at hi; omega
    rcases this with h | h | h <;> subst h
    · exact ⟨.num 10, by decide⟩
    · exact ⟨.num 11, by decide⟩
    · exact ⟨.num 12, by decide⟩
example : Join.result (Join.feed (Join.init 3) [(2, .num 12), (0, .num 10)]) = none := by decide
example : ((MapSt.init 5 2).complete 1 .null).inFlight = 1 ∧
    (((MapSt.init 5 2).complete 1 .null).complete 0 .null).launched = [0, 1, 2, 3] := by decide

end Asl.C05
