/-
The history log of the reference semantics (`St.log`, `AslModel/Interp.lean`) only grows, and the
`trace` grows with it: whatever one of the seven mutually recursive functions does to the state, the
new log is the old one with some events put in front, and the new trace is the old one with the names
of the `entered` events among them put in front (`Grows`).  Mutual induction on the fuel.
-/
import AslModel.Interp
namespace Asl

def Ev.enteredName : Ev → Option Str
  | .entered n _ => some n
  | .exited _ _ => none

/-- the names of the `entered` events, in the order of the list -/
def enteredNames (l : List Ev) : List Str := l.filterMap Ev.enteredName

/-- `st'` is `st` after some more events (most recent first) -/
def Grows (st st' : St) : Prop :=
  ∃ evs, st'.log = evs ++ st.log ∧ st'.trace = enteredNames evs ++ st.trace

theorem Grows.refl (st : St) : Grows st st := ⟨[], rfl, rfl⟩

theorem Grows.trans {a b c : St} (h1 : Grows a b) (h2 : Grows b c) : Grows a c := by
  obtain ⟨e1, l1, t1⟩ := h1
  obtain ⟨e2, l2, t2⟩ := h2
  refine ⟨e2 ++ e1, ?_, ?_⟩
  · rw [l2, l1, List.append_assoc]
  · rw [t2, t1, enteredNames, enteredNames, enteredNames, List.filterMap_append, List.append_assoc]

/-- changes to the other fields -/
theorem grows_same (st st' : St) (hl : st'.log = st.log) (ht : st'.trace = st.trace) : Grows st st' :=
  ⟨[], by simpa using hl, by simpa [enteredNames] using ht⟩

theorem grows_enter (st : St) (name : Str) (data : Json) (r : Nat) : Grows st (st.enter name data r) := by
  unfold St.enter
  split
  · exact ⟨[.entered name data], rfl, rfl⟩
  · exact Grows.refl _

theorem grows_exit (st : St) (name : Str) (data : Json) : Grows st (st.exit name data) :=
  ⟨[.exited name data], rfl, rfl⟩

/-- the seven functions at fuel `n` -/
structure GrowsAll (env : Env) (n : Nat) : Prop where
  runFrom : ∀ states name data ctx r st, Grows st (runFrom env n states name data ctx r st).2
  leave : ∀ states name state raw data ctx r st, Grows st (leave env n states name state raw data ctx r st).2
  handleErr : ∀ states name state data ctx r e msg st, Grows st (handleErr env n states name state data ctx r e msg st).2
  runState : ∀ states name state data ctx r st, Grows st (runState env n states name state data ctx r st).2
  joinAndLeave : ∀ states name state data ctx r res st,
    Grows st (joinAndLeave env n states name state data ctx r res st).2
  runBranches : ∀ bs params ctx st, Grows st (runBranches env n bs params ctx st).2
  runItems : ∀ proc sel input items i ctx st, Grows st (runItems env n proc sel input items i ctx st).2

theorem growsAll_zero (env : Env) : GrowsAll env 0 := by
  constructor <;> intros <;> simp [runFrom, leave, handleErr, runState, joinAndLeave, runBranches, runItems] <;>
    exact Grows.refl _

section step
variable (env : Env) (n : Nat) (ih : GrowsAll env n)
include ih

theorem grows_runFrom_step (states : Json) (name : Str) (data ctx : Json) (r : Nat) (st : St) :
    Grows st (runFrom env (n + 1) states name data ctx r st).2 := by
  simp only [runFrom]
  split
  · exact Grows.refl _
  · exact (grows_enter _ _ _ _).trans (ih.runState _ _ _ _ _ _ _)

theorem grows_leave_step (states : Json) (name : Str) (state raw data ctx : Json) (r : Nat) (st : St) :
    Grows st (leave env (n + 1) states name state raw data ctx r st).2 := by
  simp only [leave]
  repeat' (first
    | exact Grows.refl _
    | exact grows_exit _ _ _
    | exact ih.handleErr _ _ _ _ _ _ _ _ _
    | exact (grows_exit _ _ _).trans (ih.runFrom _ _ _ _ _ _)
    | split)

theorem grows_handleErr_step (states : Json) (name : Str) (state data ctx : Json) (r : Nat) (e msg : Str) (st : St) :
    Grows st (handleErr env (n + 1) states name state data ctx r e msg st).2 := by
  simp only [handleErr]
  repeat' (first
    | exact Grows.refl _
    | exact ih.runFrom _ _ _ _ _ _
    | exact (grows_exit _ _ _).trans (ih.runFrom _ _ _ _ _ _)
    | split)

theorem grows_joinAndLeave_step (states : Json) (name : Str) (state data ctx : Json) (r : Nat)
    (res : Except Res (List Json)) (st : St) :
    Grows st (joinAndLeave env (n + 1) states name state data ctx r res st).2 := by
  simp only [joinAndLeave]
  repeat' (first
    | exact Grows.refl _
    | exact ih.handleErr _ _ _ _ _ _ _ _ _
    | exact ih.leave _ _ _ _ _ _ _ _
    | exact (grows_same _ _ rfl rfl).trans (ih.handleErr _ _ _ _ _ _ _ _ _)
    | split)

set_option hygiene false in
local macro "grow_step" : tactic => `(tactic|
  repeat' (first
    | exact Grows.refl _
    | exact grows_exit _ _ _
    | exact ih.handleErr _ _ _ _ _ _ _ _ _
    | exact ih.leave _ _ _ _ _ _ _ _
    | exact (grows_exit _ _ _).trans (ih.runFrom _ _ _ _ _ _)
    | exact (grows_same _ _ rfl rfl).trans (ih.handleErr _ _ _ _ _ _ _ _ _)
    | exact (grows_same _ _ rfl rfl).trans (ih.leave _ _ _ _ _ _ _ _)
    | exact (ih.runBranches _ _ _ _).trans (ih.joinAndLeave _ _ _ _ _ _ _ _)
    | exact (ih.runItems _ _ _ _ _ _ _).trans (ih.joinAndLeave _ _ _ _ _ _ _ _)
    | split))

theorem grows_runState_step (states : Json) (name : Str) (state data ctx : Json) (r : Nat) (st : St) :
    Grows st (runState env (n + 1) states name state data ctx r st).2 := by
  simp only [runState]
  by_cases h1 : stateType state = S "Pass"
  · simp only [if_pos h1]; grow_step
  simp only [if_neg h1]
  by_cases h2 : stateType state = S "Succeed"
  · simp only [if_pos h2]; grow_step
  simp only [if_neg h2]
  by_cases h3 : stateType state = S "Fail"
  · simp only [if_pos h3]; grow_step
  simp only [if_neg h3]
  by_cases h4 : stateType state = S "Wait"
  · simp only [if_pos h4]; grow_step
  simp only [if_neg h4]
  by_cases h5 : stateType state = S "Choice"
  · simp only [if_pos h5]; grow_step
  simp only [if_neg h5]
  by_cases h6 : stateType state = S "Task"
  · simp only [if_pos h6]; grow_step
  simp only [if_neg h6]
  by_cases h7 : stateType state = S "Parallel"
  · simp only [if_pos h7]; grow_step
  simp only [if_neg h7]
  by_cases h8 : stateType state = S "Map"
  · simp only [if_pos h8]; grow_step
  simp only [if_neg h8]
  exact Grows.refl _

theorem grows_runBranches_step (bs : List Json) (params ctx : Json) (st : St) :
    Grows st (runBranches env (n + 1) bs params ctx st).2 := by
  cases bs with
  | nil => simp only [runBranches]; exact Grows.refl _
  | cons b bs =>
    simp only [runBranches]
    split
    · rename_i start states hs hst
      have g1 := ih.runFrom states start params ctx 0 st
      cases hr : runFrom env n states start params ctx 0 st with
      | mk r1 s1 =>
        rw [hr] at g1
        have g2 := ih.runBranches bs params ctx s1
        cases hrest : runBranches env n bs params ctx s1 with
        | mk rest s2 =>
          rw [hrest] at g2
          have g := g1.trans g2
          simp only
          split <;> first | exact g | exact g.trans (grows_same _ _ rfl rfl)
    · exact Grows.refl _

theorem grows_runItems_step (proc : Json) (sel : Option Json) (input : Json) (items : List Json) (i : Nat)
    (ctx : Json) (st : St) :
    Grows st (runItems env (n + 1) proc sel input items i ctx st).2 := by
  cases items with
  | nil => simp only [runItems]; exact Grows.refl _
  | cons item items =>
    simp only [runItems]
    split
    · exact grows_same _ _ rfl rfl
    · rename_i params hp
      split
      · rename_i start states hs hst
        have g1 := ih.runFrom states start params ctx 0 st
        cases hr : runFrom env n states start params ctx 0 st with
        | mk r1 s1 =>
          rw [hr] at g1
          have g2 := ih.runItems proc sel input items (i + 1) ctx s1
          cases hrest : runItems env n proc sel input items (i + 1) ctx s1 with
          | mk rest s2 =>
            rw [hrest] at g2
            have g := g1.trans g2
            simp only
            split <;> first | exact g | exact g.trans (grows_same _ _ rfl rfl)
      · exact Grows.refl _

end step

theorem growsAll (env : Env) (n : Nat) : GrowsAll env n := by
  induction n with
  | zero => exact growsAll_zero env
  | succ n ih =>
    exact ⟨grows_runFrom_step env n ih, grows_leave_step env n ih, grows_handleErr_step env n ih,
      grows_runState_step env n ih, grows_joinAndLeave_step env n ih, grows_runBranches_step env n ih,
      grows_runItems_step env n ih⟩

/-- the names of the `entered` events of a log given oldest first -/
theorem enteredNames_reverse (l : List Ev) : enteredNames l.reverse = (enteredNames l).reverse := by
  simp [enteredNames, List.filterMap_reverse]

end Asl
