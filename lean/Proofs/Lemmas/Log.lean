/-
The history log of the reference semantics (`St.log`, `AslModel/Interp.lean`) only grows, and the
`trace` grows with it: whatever one of the seven mutually recursive functions does to the state, the
new log is the old one with some events put in front — none of them an `Execution…` event —, and the
new trace is the old one with the names of the `entered` events among them put in front (`Grows`).
Mutual induction on the fuel.
-/
import AslModel.Interp
namespace Asl

def Ev.enteredName : Ev → Option Str
  | .entered _ n _ => some n
  | _ => none

/-- the names of the `entered` events, in the order of the list -/
def enteredNames (l : List Ev) : List Str := l.filterMap Ev.enteredName

/-- the outcome of a task invocation as the task dispatcher files it -/
def Ev.isReply : Ev → Bool
  | .lambdaSucceeded _ => true
  | .lambdaFailed _ _ => true
  | .lambdaTimedOut => true
  | _ => false

def Ev.isScheduled : Ev → Bool
  | .lambdaScheduled _ _ => true
  | _ => false

/-- in a list of events given most recent first: every reply event is directly preceded in time (followed
in the list) by a `LambdaFunctionScheduled` -/
def bracketed : List Ev → Bool
  | [] => true
  | e :: rest =>
    (if e.isReply then (match rest with | s :: _ => s.isScheduled | [] => false) else true) && bracketed rest

theorem bracketed_append (a b : List Ev) (ha : bracketed a = true) (hb : bracketed b = true) :
    bracketed (a ++ b) = true := by
  induction a with
  | nil => simpa using hb
  | cons e rest ih =>
    simp only [bracketed, Bool.and_eq_true] at ha
    simp only [List.cons_append, bracketed, Bool.and_eq_true]
    refine ⟨?_, ih ha.2⟩
    cases rest with
    | nil =>
      cases hr : e.isReply
      · simp
      · simp [hr] at ha
    | cons s rest' => simpa using ha.1

/-- what `bracketed` says about a list given most recent first -/
theorem bracketed_spec (l pre post : List Ev) (e : Ev) (h : bracketed l = true) (hl : l = pre ++ e :: post)
    (he : e.isReply = true) : ∃ s post', post = s :: post' ∧ s.isScheduled = true := by
  subst hl
  induction pre with
  | nil =>
    simp only [List.nil_append, bracketed, he, if_true, Bool.and_eq_true] at h
    cases post with
    | nil => simp at h
    | cons s post' => exact ⟨s, post', rfl, h.1⟩
  | cons p ps ih =>
    simp only [List.cons_append, bracketed, Bool.and_eq_true] at h
    exact ih h.2

theorem le_rmax_left (a b : Rat) : a ≤ rmax a b := by
  unfold rmax; split
  · assumption
  · exact Rat.le_refl

theorem le_rmax_right (a b : Rat) : b ≤ rmax a b := by
  unfold rmax; split
  · exact Rat.le_refl
  · rename_i h; exact Rat.le_of_lt (Rat.not_le.mp h)

/-- `st'` is `st` after some more events (most recent first): none of them opens / closes the execution,
every reply event among them has its `LambdaFunctionScheduled` right before it; each has its instant, none
earlier than the clock of `st`; and the clock has not gone back -/
def Grows (st st' : St) : Prop :=
  ∃ evs ts, st'.log = evs ++ st.log ∧ st'.trace = enteredNames evs ++ st.trace ∧ (∀ e ∈ evs, e.isExec = false) ∧
    bracketed evs = true ∧ st'.times = ts ++ st.times ∧ ts.length = evs.length ∧ (∀ t ∈ ts, st.clock ≤ t) ∧
    st.clock ≤ st'.clock

theorem Grows.refl (st : St) : Grows st st := ⟨[], [], rfl, rfl, by simp, rfl, rfl, rfl, by simp, Rat.le_refl⟩

theorem Grows.clock_le {a b : St} (h : Grows a b) : a.clock ≤ b.clock := by
  obtain ⟨_, _, _, _, _, _, _, _, _, hc⟩ := h; exact hc

theorem Grows.trans {a b c : St} (h1 : Grows a b) (h2 : Grows b c) : Grows a c := by
  obtain ⟨e1, s1, l1, t1, x1, b1, m1, n1, g1, c1⟩ := h1
  obtain ⟨e2, s2, l2, t2, x2, b2, m2, n2, g2, c2⟩ := h2
  refine ⟨e2 ++ e1, s2 ++ s1, ?_, ?_, ?_, bracketed_append _ _ b2 b1, ?_, ?_, ?_, Rat.le_trans c1 c2⟩
  · rw [l2, l1, List.append_assoc]
  · rw [t2, t1, enteredNames, enteredNames, enteredNames, List.filterMap_append, List.append_assoc]
  · intro e he
    rcases List.mem_append.mp he with h | h
    · exact x2 e h
    · exact x1 e h
  · rw [m2, m1, List.append_assoc]
  · simp [List.length_append, n1, n2]
  · intro t ht
    rcases List.mem_append.mp ht with h | h
    · exact Rat.le_trans c1 (g2 t h)
    · exact g1 t h

/-- changes to the other fields, the clock moving forward -/
theorem grows_same (st st' : St) (hl : st'.log = st.log) (ht : st'.trace = st.trace) (hm : st'.times = st.times)
    (hc : st.clock ≤ st'.clock) : Grows st st' :=
  ⟨[], [], by simpa using hl, by simpa [enteredNames] using ht, by simp, rfl, by simpa using hm, rfl, by simp, hc⟩

theorem grows_enter (st : St) (ty name : Str) (data : Json) (r : Nat) : Grows st (st.enter ty name data r) := by
  unfold St.enter
  split
  · exact ⟨[.entered ty name data], [st.clock], rfl, rfl, by simp [Ev.isExec], rfl, rfl, rfl,
      by simp [Rat.le_refl], Rat.le_refl⟩
  · exact Grows.refl _

theorem grows_exit (st : St) (ty name : Str) (data : Json) : Grows st (st.exit ty name data) :=
  ⟨[.exited ty name data], [st.clock], rfl, rfl, by simp [Ev.isExec], rfl, rfl, rfl, by simp [Rat.le_refl], Rat.le_refl⟩

/-- one event that is neither a state entry, nor an execution event, nor a reply -/
theorem grows_push (st : St) (e : Ev) (hn : e.enteredName = none) (hx : e.isExec = false) (hr : e.isReply = false) :
    Grows st (st.push e) :=
  ⟨[e], [st.clock], rfl, by simp [enteredNames, St.push, hn], by simpa using hx, by simp [bracketed, hr], rfl, rfl,
   by simp [Rat.le_refl], Rat.le_refl⟩

theorem grows_waitUntil (st : St) (t : Rat) : Grows st (st.waitUntil t) :=
  grows_same _ _ rfl rfl rfl (le_rmax_left _ _)

theorem grows_at (st : St) (t : Rat) (h : st.clock ≤ t) : Grows st (st.at t) := grows_same _ _ rfl rfl rfl h

theorem replyEv_plain (m : Nat) (r : Json) : (replyEv m r).enteredName = none ∧ (replyEv m r).isExec = false := by
  unfold replyEv
  repeat' split
  all_goals exact ⟨rfl, rfl⟩

/-- a reply is filed as `LambdaFunctionSucceeded` or `LambdaFunctionFailed` -/
theorem replyEv_isReply (m : Nat) (r : Json) : (replyEv m r).isReply = true := by
  unfold replyEv
  repeat' split
  all_goals rfl

theorem taskEv_plain (m : Nat) (r : Json) (b : Bool) :
    (taskEv m r b).enteredName = none ∧ (taskEv m r b).isExec = false ∧ (taskEv m r b).isReply = true := by
  unfold taskEv
  split
  · exact ⟨rfl, rfl, rfl⟩
  · exact ⟨(replyEv_plain m r).1, (replyEv_plain m r).2, replyEv_isReply m r⟩

/-- one task invocation: the request now, the outcome's event (a reply kind) at the later instant -/
theorem grows_taskCall (st : St) (counts : List ((Str × Json) × Nat)) (res : Str) (p : Json) (ev : Ev) (tEnd : Rat)
    (hn : ev.enteredName = none) (hx : ev.isExec = false) (hr : ev.isReply = true) :
    Grows st (st.taskCall counts res p ev tEnd) :=
  ⟨[ev, .lambdaScheduled p res], [rmax st.clock tEnd, st.clock], rfl,
   by
     have h2 : (Ev.lambdaScheduled p res).enteredName = none := rfl
     simp only [enteredNames, List.filterMap_cons, hn, h2, List.filterMap_nil, List.nil_append]
     rfl,
   by intro e he; simp at he; rcases he with h | h <;> subst h <;> first | exact hx | rfl,
   by rw [bracketed, hr]; rfl,
   rfl, rfl,
   by intro t ht; simp at ht; rcases ht with h | h <;> subst h <;> first | exact le_rmax_left _ _ | exact Rat.le_refl,
   le_rmax_left _ _⟩

/-! right extensions: the shapes the interpreter builds states with -/

theorem Grows.exit {a b : St} (h : Grows a b) (ty name : Str) (d : Json) : Grows a (b.exit ty name d) :=
  h.trans (grows_exit _ _ _ _)

theorem Grows.enter {a b : St} (h : Grows a b) (ty name : Str) (d : Json) (r : Nat) : Grows a (b.enter ty name d r) :=
  h.trans (grows_enter _ _ _ _ _)

theorem Grows.push {a b : St} (h : Grows a b) (e : Ev) (hn : e.enteredName = none) (hx : e.isExec = false)
    (hr : e.isReply = false) : Grows a (b.push e) := h.trans (grows_push _ _ hn hx hr)

theorem Grows.waitUntil {a b : St} (h : Grows a b) (t : Rat) : Grows a (b.waitUntil t) :=
  h.trans (grows_waitUntil _ _)

/-- the clock set to an instant that is not before the one the growth started from -/
theorem Grows.at {a b : St} (h : Grows a b) (t : Rat) (ht : a.clock ≤ t) : Grows a (b.at t) := by
  obtain ⟨e1, s1, l1, t1, x1, b1, m1, n1, g1, _⟩ := h
  exact ⟨e1, s1, l1, t1, x1, b1, m1, n1, g1, ht⟩

theorem Grows.fanFailedIf {a b : St} (h : Grows a b) (state : Json) : Grows a (b.fanFailedIf state) := by
  unfold St.fanFailedIf
  split
  · exact h.push _ rfl rfl rfl
  · exact h

theorem Grows.iterEnd {a b : St} (h : Grows a b) (name : Str) (i : Nat) (r : Res) : Grows a (b.iterEnd name i r) := by
  unfold St.iterEnd
  split
  · split
    · exact h
    · exact h.push _ rfl rfl rfl
  · exact h

theorem Grows.taskCall {a b : St} (h : Grows a b) (counts : List ((Str × Json) × Nat)) (res : Str) (p r : Json)
    (m : Nat) (to : Bool) (tEnd : Rat) :
    Grows a (b.taskCall counts res p (taskEv m r to) tEnd) :=
  h.trans (grows_taskCall _ _ _ _ _ _ (taskEv_plain m r to).1 (taskEv_plain m r to).2.1 (taskEv_plain m r to).2.2)

/-- a task invocation cut by the execution's time limit: the request now, nothing later -/
theorem grows_taskSilent (st : St) (counts : List ((Str × Json) × Nat)) (res : Str) (p : Json) (tEnd : Rat) :
    Grows st (st.taskSilent counts res p tEnd) :=
  ⟨[.lambdaScheduled p res], [st.clock], rfl, rfl,
   by intro e he; simp at he; subst he; rfl,
   rfl, rfl, rfl,
   by intro t ht; simp at ht; subst ht; exact Rat.le_refl,
   le_rmax_left _ _⟩

theorem Grows.taskSilent {a b : St} (h : Grows a b) (counts : List ((Str × Json) × Nat)) (res : Str) (p : Json)
    (tEnd : Rat) : Grows a (b.taskSilent counts res p tEnd) := h.trans (grows_taskSilent _ _ _ _ _)

/-- the frame state (`St.fs`) is no part of the history -/
theorem grows_fr (st : St) (f : FS → FS) : Grows st (st.fr f) := grows_same _ _ rfl rfl rfl Rat.le_refl
theorem Grows.fr {a b : St} (h : Grows a b) (f : FS → FS) : Grows a (b.fr f) := h.trans (grows_fr _ _)
theorem Grows.handover {a b : St} (h : Grows a b) (n : Str) : Grows a (b.handover n) := h.fr _
theorem Grows.closeKeep {a b : St} (h : Grows a b) : Grows a b.closeKeep := h.fr _
theorem Grows.request {a b : St} (h : Grows a b) (t : Bool) : Grows a (b.request t) := h.fr _
theorem Grows.pushLevel {a b : St} (h : Grows a b) (mc : Nat) : Grows a (b.pushLevel mc) := h.fr _
theorem Grows.visit {a b : St} (h : Grows a b) (ty : Str) : Grows a (b.visit ty) := h.fr _
theorem Grows.failTok {a b : St} (h : Grows a b) : Grows a b.failTok := h.fr _
theorem Grows.launch {a b : St} (h : Grows a b) (ns : List Str) : Grows a (b.launch ns) := h.fr _
theorem Grows.startBranch {a b : St} (h : Grows a b) : Grows a b.startBranch := h.fr _
theorem Grows.endBranch {a b : St} (h : Grows a b) (f : Bool) : Grows a (b.endBranch f) := h.fr _
theorem Grows.join {a b : St} (h : Grows a b) (f : Bool) : Grows a (b.join f) := h.fr _
theorem Grows.batch {a b : St} (h : Grows a b) (n : Str) (ns : List Str) : Grows a (b.batch n ns) := h.fr _
theorem Grows.after {a b : St} (h : Grows a b) (d : Rat) : Grows a (b.after d) := h.trans (grows_waitUntil _ _)
theorem Grows.retryAfter {a b : St} (h : Grows a b) (n : Str) (d : Rat) : Grows a (b.retryAfter n d) :=
  ((h.handover n).closeKeep).after d

theorem Grows.fanFail {a b : St} (h : Grows a b) (x : Bool) : Grows a { b with fanFail := x } :=
  h.trans (grows_same _ _ rfl rfl rfl Rat.le_refl)
theorem Grows.multiFail {a b : St} (h : Grows a b) : Grows a { b with multiFail := true } :=
  h.trans (grows_same _ _ rfl rfl rfl Rat.le_refl)

/-- the join of a branch with the later ones: the result's state grows from `a` if the later ones' state does
and the instants involved are not before `a`'s -/
theorem Grows.combine {a st2 : St} (h : Grows a st2) (r : Res) (t1 : Rat) (rest : Except Res (List Json)) (tOk : Rat)
    (h1 : a.clock ≤ t1) (hOk : a.clock ≤ tOk) : Grows a (fanCombine r t1 rest st2 tOk).2 := by
  unfold Asl.fanCombine
  repeat' split
  all_goals first
    | exact h
    | exact h.at _ h1
    | exact h.at _ hOk
    | exact h.multiFail
    | exact (h.at _ h1).trans (grows_same _ _ rfl rfl rfl Rat.le_refl)
    | exact h.trans (grows_same _ _ rfl rfl rfl Rat.le_refl)

/-- the seven functions at fuel `n` -/
structure GrowsAll (env : Env) (n : Nat) : Prop where
  runFrom : ∀ states name data ctx r st, Grows st (runFrom env n states name data ctx r st).2
  leave : ∀ states name state raw data ctx r st, Grows st (leave env n states name state raw data ctx r st).2
  handleErr : ∀ states name state data ctx r e msg st, Grows st (handleErr env n states name state data ctx r e msg st).2
  runState : ∀ states name state data ctx r st, Grows st (runState env n states name state data ctx r st).2
  joinAndLeave : ∀ states name state data ctx r res st,
    Grows st (joinAndLeave env n states name state data ctx r res st).2
  runBranches : ∀ bs params ctx st, Grows st (runBranches env n bs params ctx st).2
  runItems : ∀ proc sel input items i mc be ctx bad st, Grows st (runItems env n proc sel input items i mc be ctx bad st).2

theorem growsAll_zero (env : Env) : GrowsAll env 0 := by
  constructor <;> intros <;> simp [runFrom, leave, handleErr, runState, joinAndLeave, runBranches, runItems] <;>
    exact Grows.refl _

section step
variable (env : Env) (n : Nat) (ih : GrowsAll env n)
include ih

/-! the calls, as right extensions -/
theorem GrowsAll.thenFrom {a b : St} (h : Grows a b) (states : Json) (name : Str) (data ctx : Json) (r : Nat) :
    Grows a (Asl.runFrom env n states name data ctx r b).2 := h.trans (ih.runFrom _ _ _ _ _ _)
theorem GrowsAll.thenLeave {a b : St} (h : Grows a b) (states : Json) (name : Str) (state raw data ctx : Json) (r : Nat) :
    Grows a (Asl.leave env n states name state raw data ctx r b).2 := h.trans (ih.leave _ _ _ _ _ _ _ _)
theorem GrowsAll.thenErr {a b : St} (h : Grows a b) (states : Json) (name : Str) (state data ctx : Json) (r : Nat)
    (e msg : Str) : Grows a (Asl.handleErr env n states name state data ctx r e msg b).2 :=
  h.trans (ih.handleErr _ _ _ _ _ _ _ _ _)
theorem GrowsAll.thenState {a b : St} (h : Grows a b) (states : Json) (name : Str) (state data ctx : Json) (r : Nat) :
    Grows a (Asl.runState env n states name state data ctx r b).2 := h.trans (ih.runState _ _ _ _ _ _ _)
theorem GrowsAll.thenJoin {a b : St} (h : Grows a b) (states : Json) (name : Str) (state data ctx : Json) (r : Nat)
    (res : Except Res (List Json)) :
    Grows a (Asl.joinAndLeave env n states name state data ctx r res b).2 := h.trans (ih.joinAndLeave _ _ _ _ _ _ _ _)
theorem GrowsAll.thenBranches {a b : St} (h : Grows a b) (bs : List Json) (params ctx : Json) :
    Grows a (Asl.runBranches env n bs params ctx b).2 := h.trans (ih.runBranches _ _ _ _)
theorem GrowsAll.thenItems {a b : St} (h : Grows a b) (proc : Json) (sel : Option Json) (input : Json)
    (items : List Json) (i mc : Nat) (be : Rat) (ctx : Json) (bad : Bool) :
    Grows a (Asl.runItems env n proc sel input items i mc be ctx bad b).2 := h.trans (ih.runItems _ _ _ _ _ _ _ _ _ _)

set_option hygiene false in
local macro "grow_step" : tactic => `(tactic|
  repeat' (first
    | split
    | exact Grows.refl _
    | with_reducible apply GrowsAll.thenFrom env n ih
    | with_reducible apply GrowsAll.thenLeave env n ih
    | with_reducible apply GrowsAll.thenErr env n ih
    | with_reducible apply GrowsAll.thenState env n ih
    | with_reducible apply GrowsAll.thenJoin env n ih
    | with_reducible apply GrowsAll.thenBranches env n ih
    | with_reducible apply GrowsAll.thenItems env n ih
    | with_reducible apply Grows.exit
    | with_reducible apply Grows.enter
    | with_reducible apply Grows.fanFailedIf
    | with_reducible apply Grows.waitUntil
    | with_reducible apply Grows.iterEnd
    | with_reducible apply Grows.taskCall
    | with_reducible apply Grows.taskSilent
    | with_reducible apply Grows.multiFail
    | with_reducible apply Grows.handover
    | with_reducible apply Grows.closeKeep
    | with_reducible apply Grows.request
    | with_reducible apply Grows.pushLevel
    | with_reducible apply Grows.visit
    | with_reducible apply Grows.failTok
    | with_reducible apply Grows.launch
    | with_reducible apply Grows.join
    | with_reducible apply Grows.retryAfter
    | with_reducible apply Grows.after
    | (with_reducible apply Grows.push (hn := rfl) (hx := rfl) (hr := rfl))))

theorem grows_runFrom_step (states : Json) (name : Str) (data ctx : Json) (r : Nat) (st : St) :
    Grows st (runFrom env (n + 1) states name data ctx r st).2 := by
  simp only [runFrom]
  grow_step

theorem grows_leave_step (states : Json) (name : Str) (state raw data ctx : Json) (r : Nat) (st : St) :
    Grows st (leave env (n + 1) states name state raw data ctx r st).2 := by
  simp only [leave]
  grow_step

theorem grows_handleErr_step (states : Json) (name : Str) (state data ctx : Json) (r : Nat) (e msg : Str) (st : St) :
    Grows st (handleErr env (n + 1) states name state data ctx r e msg st).2 := by
  simp only [handleErr]
  grow_step

theorem grows_joinAndLeave_step (states : Json) (name : Str) (state data ctx : Json) (r : Nat)
    (res : Except Res (List Json)) (st : St) :
    Grows st (joinAndLeave env (n + 1) states name state data ctx r res st).2 := by
  simp only [joinAndLeave]
  split
  · apply GrowsAll.thenErr env n ih
    exact (Grows.refl _).fanFail _
  · exact Grows.refl _
  · grow_step

theorem grows_runState_step (states : Json) (name : Str) (state data ctx : Json) (r : Nat) (st : St) :
    Grows st (runState env (n + 1) states name state data ctx r st).2 := by
  simp only [runState]
  by_cases h1 : stateType state = S "Pass"
  · simp only [if_pos h1]; grow_step
  simp only [if_neg h1]
  by_cases h2 : stateType state = S "Succeed"
  · simp only [if_pos h2]; grow_step
  simp only [if_neg h2]
  by_cases h3 : stateType state = S "Fail"
  · simp only [if_pos h3]; grow_step
  simp only [if_neg h3]
  by_cases h4 : stateType state = S "Wait"
  · simp only [if_pos h4]; grow_step
  simp only [if_neg h4]
  by_cases h5 : stateType state = S "Choice"
  · simp only [if_pos h5]; grow_step
  simp only [if_neg h5]
  by_cases h6 : stateType state = S "Task"
  · simp only [if_pos h6]; grow_step
  simp only [if_neg h6]
  by_cases h7 : stateType state = S "Parallel"
  · simp only [if_pos h7]
    split
    · grow_step
    · split
      · grow_step
      · apply GrowsAll.thenJoin env n ih
        apply Grows.join
        apply GrowsAll.thenBranches env n ih
        apply Grows.launch
        apply Grows.pushLevel
        apply Grows.push (hn := rfl) (hx := rfl) (hr := rfl)
        apply Grows.closeKeep
        exact Grows.refl _
  simp only [if_neg h7]
  by_cases h8 : stateType state = S "Map"
  · simp only [if_pos h8]
    split
    · grow_step
    · split
      · grow_step
      · apply GrowsAll.thenJoin env n ih
        apply Grows.join
        apply GrowsAll.thenItems env n ih
        apply Grows.launch
        apply Grows.pushLevel
        repeat' split
        all_goals first
          | (apply Grows.closeKeep; exact Grows.refl _)
          | (apply Grows.push (hn := rfl) (hx := rfl) (hr := rfl); apply Grows.closeKeep; exact Grows.refl _)
  simp only [if_neg h8]
  exact Grows.refl _

theorem grows_runBranches_step (bs : List Json) (params ctx : Json) (st : St) :
    Grows st (runBranches env (n + 1) bs params ctx st).2 := by
  cases bs with
  | nil => simp only [runBranches]; exact Grows.refl _
  | cons b bs =>
    simp only [runBranches]
    split
    · rename_i start states hs hst
      have g1 := (grows_fr st FS.startBranch).trans (ih.runFrom states start params ctx 0 st.startBranch)
      cases hr : runFrom env n states start params ctx 0 st.startBranch with
      | mk r1 s1 =>
        rw [hr] at g1
        have g1e : Grows st (s1.endBranch (isFailed r1)) := g1.endBranch _
        have g1' : Grows st ((s1.endBranch (isFailed r1)).at st.clock) := g1e.at _ Rat.le_refl
        have g2 := ih.runBranches bs params ctx ((s1.endBranch (isFailed r1)).at st.clock)
        cases hrest : runBranches env n bs params ctx ((s1.endBranch (isFailed r1)).at st.clock) with
        | mk rest s2 =>
          rw [hrest] at g2
          have g := g1'.trans g2
          exact g.combine _ _ _ _ g1e.clock_le (Rat.le_trans g1e.clock_le (le_rmax_left _ _))
    · exact Grows.refl _

theorem grows_runItems_step (proc : Json) (sel : Option Json) (input : Json) (items : List Json) (i mc : Nat)
    (be : Rat) (ctx : Json) (bad : Bool) (st : St) :
    Grows st (runItems env (n + 1) proc sel input items i mc be ctx bad st).2 := by
  cases items with
  | nil => simp only [runItems]; exact grows_waitUntil _ _
  | cons item items =>
    simp only [runItems]
    split
    · exact grows_waitUntil _ _
    have g00 : Grows st (if mc ≠ 0 ∧ i ≠ 0 ∧ i % mc = 0 then
        (st.waitUntil be).batch (ctxStateName ctx) (List.replicate (min mc (items.length + 1)) ((fldStr proc "StartAt").getD []))
      else st) := by
      split
      · exact (grows_waitUntil _ _).batch _ _
      · exact Grows.refl _
    generalize (if mc ≠ 0 ∧ i ≠ 0 ∧ i % mc = 0 then
        (st.waitUntil be).batch (ctxStateName ctx) (List.replicate (min mc (items.length + 1)) ((fldStr proc "StartAt").getD []))
      else st) = st0 at g00 ⊢
    split
    · exact g00.trans (grows_same _ _ rfl rfl rfl Rat.le_refl)
    · rename_i params hp
      split
      · rename_i start states hs hst
        have g0 : Grows st0 ((st0.push (.iterStarted (ctxStateName ctx) i)).startBranch) :=
          ((Grows.refl _).push _ rfl rfl rfl).startBranch
        have g1 := g0.trans (ih.runFrom states start params ctx 0 ((st0.push (.iterStarted (ctxStateName ctx) i)).startBranch))
        cases hr : runFrom env n states start params ctx 0 ((st0.push (.iterStarted (ctxStateName ctx) i)).startBranch) with
        | mk r1 s1 =>
          rw [hr] at g1
          have g1' : Grows st0 (((s1.iterEnd (ctxStateName ctx) i r1).endBranch (isFailed r1)).at st0.clock) :=
            ((g1.iterEnd (ctxStateName ctx) i r1).endBranch _).at _ Rat.le_refl
          have g2 := ih.runItems proc sel input items (i + 1) mc (rmax be s1.clock) ctx (bad || isFailed r1)
            (((s1.iterEnd (ctxStateName ctx) i r1).endBranch (isFailed r1)).at st0.clock)
          cases hrest : runItems env n proc sel input items (i + 1) mc (rmax be s1.clock) ctx (bad || isFailed r1)
              (((s1.iterEnd (ctxStateName ctx) i r1).endBranch (isFailed r1)).at st0.clock) with
          | mk rest s2 =>
            rw [hrest] at g2
            have g := g1'.trans g2
            exact g00.trans (g.combine _ _ _ _ g1.clock_le g.clock_le)
      · exact g00

end step

theorem growsAll (env : Env) (n : Nat) : GrowsAll env n := by
  induction n with
  | zero => exact growsAll_zero env
  | succ n ih =>
    exact ⟨grows_runFrom_step env n ih, grows_leave_step env n ih, grows_handleErr_step env n ih,
      grows_runState_step env n ih, grows_joinAndLeave_step env n ih, grows_runBranches_step env n ih,
      grows_runItems_step env n ih⟩

/-- the names of the `entered` events of a log given oldest first -/
theorem enteredNames_reverse (l : List Ev) : enteredNames l.reverse = (enteredNames l).reverse := by
  simp [enteredNames, List.filterMap_reverse]

end Asl
