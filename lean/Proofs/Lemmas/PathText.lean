import AslModel.Path
namespace Asl

theorem nameChar_not_special (c : Char) (h : nameChar c = true) :
    c ≠ '.' ∧ c ≠ '[' ∧ c ≠ ']' ∧ c ≠ '\'' ∧ c ≠ '$' := by
  refine ⟨?_, ?_, ?_, ?_, ?_⟩ <;> (intro hc; subst hc; revert h; decide)

theorem digit_not_close (c : Char) (h : c.isDigit = true) : c ≠ ']' := by
  intro hc; subst hc; revert h; decide

/-- what may follow a printed segment: end of text or the start of the next segment -/
def segBoundary : Str → Prop
  | [] => True
  | c :: _ => nameChar c = false ∧ c.isDigit = false

theorem takeName_append (n rest : Str) (hn : allNameChars n = true)
    (hr : ∀ c r, rest = c :: r → nameChar c = false) :
    takeName (n ++ rest) = (n, rest) := by
  induction n with
  | nil =>
    cases rest with
    | nil => simp [takeName]
    | cons c r => simp [takeName, hr c r rfl]
  | cons c cs ih =>
    simp only [allNameChars, Bool.and_eq_true] at hn
    simp [takeName, hn.1, ih hn.2]

theorem takeDigits_append (n rest : Str) (hn : allDigits n = true)
    (hr : ∀ c r, rest = c :: r → c.isDigit = false) :
    takeDigits (n ++ rest) = (n, rest) := by
  induction n with
  | nil =>
    cases rest with
    | nil => simp [takeDigits]
    | cons c r => simp [takeDigits, hr c r rfl]
  | cons c cs ih =>
    simp only [allDigits, Bool.and_eq_true] at hn
    simp [takeDigits, hn.1, ih hn.2]

theorem printSegs_head (ss : List Seg) :
    ∀ c r, printSegs ss = c :: r → c = '.' ∨ c = '[' := by
  intro c r h
  cases ss with
  | nil => simp [printSegs] at h
  | cons s ss =>
    cases s <;> simp [printSegs, Seg.print] at h <;> simp [h.1.symm]

theorem parseSegs_print (ss : List Seg) (h : ∀ s ∈ ss, s.ok = true) (fuel : Nat)
    (hf : (printSegs ss).length ≤ fuel) :
    parseSegs fuel (printSegs ss) = some (ss.map Seg.name) := by
  induction ss generalizing fuel with
  | nil => cases fuel <;> simp [printSegs, parseSegs]
  | cons s ss ih =>
    have hs := h s (by simp)
    have hrest : ∀ t ∈ ss, t.ok = true := fun t ht => h t (by simp [ht])
    have hbn : ∀ c r, printSegs ss = c :: r → nameChar c = false := by
      intro c r hc
      rcases printSegs_head ss c r hc with h1 | h1 <;> subst h1 <;> decide
    cases fuel with
    | zero => cases s <;> simp [printSegs, Seg.print] at hf
    | succ fuel =>
      cases s with
      | dot n =>
        simp only [Seg.ok, Bool.and_eq_true, Bool.not_eq_true', List.isEmpty_eq_false_iff] at hs
        simp only [printSegs, Seg.print, List.cons_append, List.length_cons, List.length_append] at hf ⊢
        have htn := takeName_append n (printSegs ss) hs.2 hbn
        cases n with
        | nil => exact absurd rfl hs.1
        | cons c cs =>
          simp only [parseSegs, if_true, htn]
          rw [ih hrest fuel (by simp at hf ⊢; omega)]
          simp [Seg.name]
      | brq n =>
        simp only [Seg.ok, Bool.and_eq_true, Bool.not_eq_true', List.isEmpty_eq_false_iff] at hs
        simp only [printSegs, Seg.print, List.cons_append, List.length_cons, List.length_append] at hf ⊢
        have htn := takeName_append n ('\'' :: ']' :: printSegs ss) hs.2
          (by intro c r hc; cases hc; decide)
        cases n with
        | nil => exact absurd rfl hs.1
        | cons c cs =>
          have : ('[' = '.') = False := by decide
          simp only [parseSegs, this, if_false, if_true]
          rw [show (c :: cs ++ ['\'', ']'] ++ printSegs ss) = (c :: cs) ++ ('\'' :: ']' :: printSegs ss) by simp]
          rw [htn]
          simp only
          rw [ih hrest fuel (by simp at hf ⊢; omega)]
          simp [Seg.name]
      | idx n =>
        simp only [Seg.ok, isDigits, Bool.and_eq_true, Bool.not_eq_true', List.isEmpty_eq_false_iff] at hs
        simp only [printSegs, Seg.print, List.cons_append, List.length_cons, List.length_append] at hf ⊢
        have htn := takeDigits_append n (']' :: printSegs ss) hs.2
          (by intro c r hc; cases hc; decide)
        cases n with
        | nil => exact absurd rfl hs.1
        | cons c cs =>
          have hcq : c ≠ '\'' := by
            simp only [allDigits, Bool.and_eq_true] at hs
            intro hc; subst hc; exact absurd hs.2.1 (by decide)
          have : ('[' = '.') = False := by decide
          simp only [parseSegs, this, if_false, if_true]
          rw [show (c :: cs ++ [']'] ++ printSegs ss) = (c :: cs) ++ (']' :: printSegs ss) by simp]
          split
          · rename_i heq; cases heq; exact absurd rfl hcq
          · rw [htn]
            simp only
            rw [ih hrest fuel (by simp at hf ⊢; omega)]
            simp [Seg.name]

theorem parseRef_printRef (ss : List Seg) (h : ∀ s ∈ ss, s.ok = true) :
    parseRef (printRef ss) = some (ss.map Seg.name) := by
  simp only [printRef, parseRef]
  exact parseSegs_print ss h _ (Nat.le_refl _)

end Asl
