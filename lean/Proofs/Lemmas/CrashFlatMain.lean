/-
Flat skeletons, concluded: every operation keeps `PInv` (`pstep`), the canonical crash-free run makes progress
(`pcanon`) and ends the execution (`pdrain`).
-/
import Proofs.Lemmas.CrashFlatLaunch
namespace Asl.Crash

theorem act_withVol (c : Cfg) (v : Vol) (a : Act) : (c.withVol v).act a = (c.act a).withVol v := by
  cases a with
  | note b => cases b <;> rfl
  | _ => rfl

theorem foldl_withVol (acts : List Act) (c : Cfg) (v v' : Vol) :
    ((acts.foldl Cfg.act (c.withVol v)).withVol v') = (acts.foldl Cfg.act c).withVol v' := by
  induction acts generalizing c with
  | nil => rfl
  | cons a as ih =>
    simp only [List.foldl_cons, act_withVol]
    exact ih _

theorem act_vol (c : Cfg) (a : Act) : (c.act a).vol = c.vol := by
  cases a with
  | note b => cases b <;> rfl
  | _ => rfl

theorem foldl_vol (acts : List Act) (c : Cfg) : (acts.foldl Cfg.act c).vol = c.vol := by
  induction acts generalizing c with
  | nil => rfl
  | cons a as ih => simp only [List.foldl_cons]; rw [ih, act_vol]

theorem foldl_withVol_self (acts : List Act) (c : Cfg) : (acts.foldl Cfg.act c).withVol c.vol = acts.foldl Cfg.act c := by
  rw [← foldl_vol acts c]; rfl

theorem withVol_withVol (c : Cfg) (v v' : Vol) : (c.withVol v).withVol v' = c.withVol v' := rfl

/-- a handler that has the event `m` in hand finishes the visit: whatever `advance` decides, the invariant holds again
and no more is left to do than before -/
theorem finish {N : Nat} {d : Cfg} {m : QEv} {rp : Option Nat} {t rest : Sk} {stack : List Frame} {start : Bool}
    (h : Mid N d m.id rp) (hm : m ∈ d.evq) (hu : m.unacked = true) (hk : m.kind = .visit t stack start none)
    (htk : tasksIn t = tasksIn rest + (if rp.isSome then 1 else 0))
    (hvis : rest.isVisit = true → visits rest + 1 ≤ visits t)
    (hlastv : rest = .done → stack ≠ [] → lastVisit m.kind = true)
    (hkt : isTaskKind m.kind = true → rp = some m.id)
    (hrest : rest = .done ∨ (rest.isVisit = true ∧ FlatK (.visit rest stack false none)))
    (cX : Cfg) (fuel : Nat) {acts : List Act} {v' : Vol}
    (hadv : advance Quirks.none cX (fuel + 2) m.id rest stack none rp d.vol = (acts, v')) :
    PInv N ((acts.foldl Cfg.act d).withVol v') ∧ mu2 ((acts.foldl Cfg.act d).withVol v') ≤ mu2 d := by
  have hxin : (m.id, m.kind) ∈ evK d := mem_evK hm
  have hfk := h.dur.kinds _ hxin
  obtain ⟨l1, l2, he, h1, h2⟩ := split_of_mem hm (by rw [← evK_ids]; exact h.dur.ids)
  rcases hrest with rfl | ⟨hv, hflat⟩
  · -- the sequence is over
    cases stack with
    | nil =>
      rw [advance_done_top] at hadv
      obtain ⟨rfl, rfl⟩ := Prod.mk.inj hadv
      have hstk : evStack m.kind = [] := by rw [hk]; rfl
      have := fin_end h hm hu hstk (by rw [hk]; simpa [todoOf, tasksIn] using htk)
      rw [foldl_withVol_self]
      exact this
    | cons f outer =>
      have hk' : flatKind (EvKind.visit t (f :: outer) start none) = true := hk ▸ hfk
      obtain ⟨hout, hst⟩ : outer = [] ∧ start = false := by
        cases outer with
        | nil => cases start <;> simp [flatKind] at hk' ⊢
        | cons _ _ => simp [flatKind] at hk'
      subst hout; subst hst
      have hstk : evStack m.kind = [f] := by rw [hk]; rfl
      simp only [flatKind, Bool.and_eq_true] at hk'
      have hwf := hk'.2
      simp only [Frame.wf, Bool.and_eq_true, beq_iff_eq, decide_eq_true_eq] at hwf
      have hmc : f.mc = 0 := hwf.1.1.1
      have hfr : f.rest.flat = true := hwf.1.2
      by_cases hlt : (joinAfter d.joins f m.id rp).filled.length < f.width
      · have hh := advance_hold cX (fuel + 1) m.id f rp d.vol hmc hlt
        rw [hh] at hadv
        obtain ⟨rfl, rfl⟩ := Prod.mk.inj hadv
        exact fin_hold h hm hu hstk (hlastv rfl (by simp)) hkt hlt
      · have hge : f.width ≤ (joinAfter d.joins f m.id rp).filled.length := by omega
        have hfr' : f.rest = .done ∨ f.rest.isVisit = true := by
          cases hr : f.rest <;> simp [hr, Sk.flat, Sk.isVisit] at hfr ⊢
        rcases hfr' with hd | hv
        · have hh := advance_join_end cX fuel m.id f rp d.vol hge hd
          rw [hh] at hadv
          obtain ⟨rfl, rfl⟩ := Prod.mk.inj hadv
          exact fin_join_end h hm hu hstk (hlastv rfl (by simp)) hkt hge hd
        · have hh := advance_join_next cX (fuel + 1) m.id f rp d.vol hge hv
          rw [hh] at hadv
          obtain ⟨rfl, rfl⟩ := Prod.mk.inj hadv
          exact fin_join_next h hm hu hstk (hlastv rfl (by simp)) hkt hge hv
  · -- the next visit of the same sequence
    rw [advance_next _ _ _ _ _ _ _ _ _ hv] at hadv
    obtain ⟨rfl, rfl⟩ := Prod.mk.inj hadv
    have hstk : evStack (EvKind.visit rest stack false none) = evStack m.kind := by rw [hk]; rfl
    have := fin_next h he h1 h2 hu hstk hflat (by rw [hk]; simpa [todoOf] using htk)
      (by rw [hk]; simpa [todoOf] using hvis hv) rfl
    rw [foldl_withVol_self]
    exact this


theorem not_inDeadJoin {c : Cfg} (hj : JInv c) (v : Vol) (hv : v.joins = c.joins) (k : EvKind) : inDeadJoin v k = false := by
  simp only [inDeadJoin, List.any_eq_false, Bool.and_eq_true, beq_iff_eq, not_and, Bool.not_eq_true, hv]
  intro f _ j hjm _
  exact hj.alive j hjm

/-- the kinds of events of a flat skeleton -/
theorem flatKind_inv {k : EvKind} (h : flatKind k = true) :
    ∃ t stack start, k = .visit t stack start none ∧
      ((stack = [] ∧ t.flat = true) ∨ (∃ f, stack = [f] ∧ start = false ∧ t.seq = true ∧ f.wf = true)) := by
  cases k with
  | visit t stack start owner =>
    cases owner with
    | some _ => cases stack with
      | nil => simp [flatKind] at h
      | cons f r => cases r <;> cases start <;> simp [flatKind] at h
    | none =>
      cases stack with
      | nil => exact ⟨t, [], start, rfl, Or.inl ⟨rfl, h⟩⟩
      | cons f r =>
        cases r with
        | nil =>
          cases start with
          | false =>
            simp only [flatKind, Bool.and_eq_true] at h
            exact ⟨t, [f], false, rfl, Or.inr ⟨f, rfl, rfl, h.1, h.2⟩⟩
          | true => simp [flatKind] at h
        | cons _ _ => simp [flatKind] at h
  | reenter _ _ _ _ => simp [flatKind] at h

/-- the rest of a sequence is a sequence of the same kind -/
theorem flatKind_rest {t rest : Sk} {stack : List Frame} {start : Bool}
    (h : flatKind (.visit t stack start none) = true)
    (ht : (∃ rc, t = .task rc rest) ∨ t = .step rest ∨ t = .wait rest) :
    flatKind (.visit rest stack false none) = true := by
  obtain ⟨t', stack', start', hk, hc⟩ := flatKind_inv h
  cases hk
  rcases hc with ⟨rfl, hf⟩ | ⟨f, rfl, rfl, hsq, hwf⟩
  · rcases ht with ⟨rc, rfl⟩ | rfl | rfl <;> simpa [flatKind, Sk.flat] using hf
  · rcases ht with ⟨rc, rfl⟩ | rfl | rfl <;> simp [flatKind, Sk.seq, hwf] at hsq ⊢ <;> exact hsq

theorem flat_cases {t : Sk} {stack : List Frame} {start : Bool} (h : flatKind (.visit t stack start none) = true) :
    t = .done ∨ (∃ rc rest, t = .task rc rest) ∨ (∃ rest, t = .step rest) ∨ (∃ rest, t = .wait rest) ∨
      (∃ mc brs rest, t = .par mc brs rest ∧ stack = []) := by
  obtain ⟨t', stack', start', hk, hc⟩ := flatKind_inv h
  cases hk
  rcases hc with ⟨rfl, hf⟩ | ⟨f, rfl, rfl, hsq, hwf⟩
  · cases t <;> simp [Sk.flat] at hf ⊢
  · cases t <;> simp [Sk.seq] at hsq ⊢

theorem done_or_visit_of_flat {rest : Sk} {stack : List Frame} (h : flatKind (.visit rest stack false none) = true) :
    rest = .done ∨ (rest.isVisit = true ∧ FlatK (.visit rest stack false none)) := by
  rcases flat_cases h with rfl | ⟨rc, r, rfl⟩ | ⟨r, rfl⟩ | ⟨r, rfl⟩ | ⟨mc, brs, r, rfl, _⟩
  · exact Or.inl rfl
  all_goals exact Or.inr ⟨rfl, h⟩

theorem pstep_ev {N : Nat} (c c' : Cfg) (id : Nat) (h : PInv N c)
    (hs : step Quirks.none c (.ev id) none = some c') : PInv N c' ∧ mu2 c' < mu2 c := by
  unfold step at hs
  rw [if_neg (by simp [h.dur.nodiv])] at hs
  simp only at hs
  cases hf : findEv c id false with
  | none => rw [hf] at hs; cases hs
  | some m =>
    rw [hf] at hs
    obtain ⟨hm, hid, hu⟩ := findEv_some hf
    subst hid
    obtain ⟨l1, l2, he, h1, h2⟩ := split_of_mem hm (by rw [← evK_ids]; exact h.dur.ids)
    obtain ⟨m', hid', hk', hu', hmk⟩ := markEv_split he h1 h2 hu
    have hfk : flatKind m.kind = true := h.dur.kinds _ (mem_evK hm)
    obtain ⟨t, stack, start, hk, hc⟩ := flatKind_inv hfk
    have hfk2 : flatKind (.visit t stack start none) = true := hk ▸ hfk
    rw [hmk] at hs
    obtain ⟨n, hn⟩ : ∃ n, fuelOf { c with evq := l1 ++ m' :: l2 } = n + 2 := ⟨_, rfl⟩
    have hpre : ∀ o : Option Nat, o = none → (if start = true then [if o.isSome = true then Act.cnote false else Act.note false] else []) = preOf start := by
      intro o ho; subst ho; rfl
    have hdead := not_inDeadJoin h.join ({ c with evq := l1 ++ m' :: l2 } : Cfg).vol rfl (EvKind.visit t stack start none)
    simp only [hk, hdead, Bool.false_eq_true, if_false, hpre none rfl, hn] at hs
    have hm'in : m' ∈ ({ c with evq := l1 ++ m' :: l2 } : Cfg).evq := by simp
    rcases flat_cases hfk2 with rfl | ⟨rc, rest, rfl⟩ | ⟨rest, rfl⟩ | ⟨rest, rfl⟩ | ⟨mc, brs, rest, rfl, rfl⟩
    · -- an empty skeleton (or branch)
      obtain ⟨hmid, hlt⟩ := mid_ev h he h1 h2 hu hid' hk' hu' (by rw [hk]; rfl) (c.running + if start then 1 else 0)
      simp only at hs
      cases hadv : advance Quirks.none { c with evq := l1 ++ m' :: l2 } (n + 2) m.id .done stack none none
          ({ c with evq := l1 ++ m' :: l2 } : Cfg).vol with
      | mk acts v' =>
        rw [hadv] at hs
        simp only [Option.some.injEq] at hs
        subst hs
        simp only [Cfg.handler, List.foldl_append, fold_pre]
        rw [← hid'] at hmid hadv
        have := finish (t := .done) (rest := .done) (stack := stack) (start := start) hmid (by simp) hu' (hk' ▸ hk)
          (by simp [tasksIn]) (by simp [Sk.isVisit]) (fun _ _ => by rw [hk', hk]; rfl) (by rw [hk', hk]; simp [isTaskKind])
          (Or.inl rfl) _ n hadv
        exact ⟨this.1, Nat.lt_of_le_of_lt this.2 hlt⟩
    · -- a Task
      cases rc with
      | zero =>
        simp only [Quirks.none, bne_self_eq_false, Bool.or_false, Bool.false_eq_true, if_false, requestOf,
          Option.some.injEq, List.contains_iff_mem] at hs
        by_cases hsn : m.id ∈ c.sent
        · rw [if_pos hsn, List.nil_append] at hs
          subst hs
          simp only [Cfg.handler, fold_pre]
          exact flat_register h he h1 h2 hu hid' hk' hu' (by rw [hk]; rfl) hsn _
        · rw [if_neg hsn] at hs
          subst hs
          simp only [Cfg.handler, fold_send_pre]
          exact flat_send h he h1 h2 hu hid' hk' hu' (by rw [hk]; rfl) hsn _
      | succ rc =>
        simp only [Quirks.none, Bool.false_or, Nat.succ_ne_zero, bne_iff_ne, ne_eq, not_false_eq_true, decide_true,
          if_true, Option.some.injEq] at hs
        subst hs
        simp only [Cfg.handler, fold_pre]
        exact flat_arm h he h1 h2 hu hid' hk' hu' (by rw [hk]; rfl) _
    · -- a visit handled in one go
      obtain ⟨hmid, hlt⟩ := mid_ev h he h1 h2 hu hid' hk' hu' (by rw [hk]; rfl) (c.running + if start then 1 else 0)
      simp only at hs
      cases hadv : advance Quirks.none { c with evq := l1 ++ m' :: l2 } (n + 2) m.id rest stack none none
          ({ c with evq := l1 ++ m' :: l2 } : Cfg).vol with
      | mk acts v' =>
        rw [hadv] at hs
        simp only [Option.some.injEq] at hs
        subst hs
        simp only [Cfg.handler, List.foldl_append, fold_pre]
        rw [← hid'] at hmid hadv
        have hsub := flatKind_rest hfk2 (Or.inr (Or.inl rfl))
        have := finish (t := .step rest) (rest := rest) (stack := stack) (start := start) hmid (by simp) hu' (hk' ▸ hk)
          (by simp [tasksIn]) (fun _ => by simp [visits]) (fun hr _ => by rw [hk', hk, hr]; rfl)
          (by rw [hk', hk]; simp [isTaskKind]) (done_or_visit_of_flat hsub) _ n hadv
        exact ⟨this.1, Nat.lt_of_le_of_lt this.2 hlt⟩
    · -- a Wait: its timer is armed
      simp only [Option.some.injEq] at hs
      subst hs
      simp only [Cfg.handler, fold_pre]
      exact flat_arm h he h1 h2 hu hid' hk' hu' (by rw [hk]; rfl) _
    · -- a Parallel / Map state: its deferred handler is armed
      simp only [Option.some.injEq] at hs
      subst hs
      simp only [Cfg.handler, fold_pre]
      exact flat_arm h he h1 h2 hu hid' hk' hu' (by rw [hk]; rfl) _


/-- the unacknowledged event with a given id, and the queue around it -/
theorem punacked {N : Nat} {c : Cfg} (h : PInv N c) {id : Nat} (hid : id ∈ uEv c.evq) :
    ∃ m, m ∈ c.evq ∧ m.id = id ∧ m.unacked = true ∧ findEv c id true = some m := by
  obtain ⟨m, hm, hu, rfl⟩ := mem_uEv.mp hid
  obtain ⟨l1, l2, he, h1, h2⟩ := split_of_mem hm (by rw [← evK_ids]; exact h.dur.ids)
  exact ⟨m, hm, rfl, hu, by have := findEv_split he h1; rwa [hu] at this⟩

theorem br_nil_of_empty {brs : Br} (h : brs.toList.isEmpty = true) : brs = .nil := by
  cases brs with
  | nil => rfl
  | cons _ _ => simp [Br.toList] at h

theorem pstep_tm {N : Nat} (c c' : Cfg) (id : Nat) (h : PInv N c)
    (hs : step Quirks.none c (.tm id) none = some c') : PInv N c' ∧ (id ∈ c.timers → mu2 c' < mu2 c) := by
  unfold step at hs
  rw [if_neg (by simp [h.dur.nodiv])] at hs
  simp only at hs
  by_cases hc : id ∈ c.timers
  · have hc' : (!c.timers.contains id) = false := by simp [hc]
    rw [hc'] at hs
    simp only [Bool.false_eq_true, if_false] at hs
    obtain ⟨m, hm, hid, hu, hf⟩ := punacked h (h.vol.t_sub id hc)
    subst hid
    rw [hf] at hs
    have hfk : flatKind m.kind = true := h.dur.kinds _ (mem_evK hm)
    obtain ⟨t, stack, start, hk, hcs⟩ := flatKind_inv hfk
    have hfk2 : flatKind (.visit t stack start none) = true := hk ▸ hfk
    obtain ⟨n, hn⟩ : ∃ n, fuelOf c = n + 2 := ⟨_, rfl⟩
    have htk := h.vol.t_kind m hm hc
    simp only [hk, hn] at hs
    suffices hgoal : PInv N c' ∧ mu2 c' < mu2 c from ⟨hgoal.1, fun _ => hgoal.2⟩
    have hvd : ({ c with timers := c.timers.erase m.id } : Cfg) = c.withVol
        { timers := c.timers.erase m.id, pending := c.vol.pending, orphans := c.vol.orphans, joins := c.vol.joins } := rfl
    rcases flat_cases hfk2 with rfl | ⟨rc, rest, rfl⟩ | ⟨rest, rfl⟩ | ⟨rest, rfl⟩ | ⟨mc, brs, rest, rfl, rfl⟩
    · rw [hk] at htk; simp [timerKind] at htk
    · -- a Task whose deferred handler sends the request
      simp only [Quirks.none, Bool.false_eq_true, if_false, requestOf, Option.some.injEq, List.contains_iff_mem] at hs
      by_cases hsn : m.id ∈ c.sent
      · simp only [hsn, if_true] at hs
        subst hs
        exact flat_tm_task h hm hu hc (by rw [hk]; rfl) hsn
      · simp only [hsn, if_false] at hs
        subst hs
        exact flat_tm_send h hm hu hc (by rw [hk]; rfl) hsn
    · rw [hk] at htk; simp [timerKind] at htk
    · -- a Wait is over
      obtain ⟨l1, l2, he, h1, h2⟩ := split_of_mem hm (by rw [← evK_ids]; exact h.dur.ids)
      obtain ⟨hmid, hlt⟩ := mid_tm h he h1 h2 hu hc (by rw [hk]; rfl)
      simp only at hs
      cases hadv : advance Quirks.none c (n + 2) m.id rest stack none none
          { timers := c.timers.erase m.id, pending := c.vol.pending, orphans := c.vol.orphans, joins := c.vol.joins } with
      | mk acts v' =>
        rw [hadv] at hs
        simp only [Option.some.injEq] at hs
        subst hs
        simp only [Cfg.handler]
        have hsub := flatKind_rest hfk2 (Or.inr (Or.inr rfl))
        have := finish (t := .wait rest) (rest := rest) (stack := stack) (start := start) hmid hm hu hk
          (by simp [tasksIn]) (fun _ => by simp [visits]) (fun hr _ => by rw [hk, hr]; rfl)
          (by rw [hk]; simp [isTaskKind]) (done_or_visit_of_flat hsub) c n hadv
        rw [hvd, foldl_withVol] at this
        exact ⟨this.1, Nat.lt_of_le_of_lt this.2 (hvd ▸ hlt)⟩
    · -- a Parallel / Map state
      by_cases hemp : brs.toList.isEmpty = true
      · -- without branches: what follows goes on at once
        have hnil := br_nil_of_empty hemp
        subst hnil
        obtain ⟨l1, l2, he, h1, h2⟩ := split_of_mem hm (by rw [← evK_ids]; exact h.dur.ids)
        obtain ⟨hmid, hlt⟩ := mid_tm h he h1 h2 hu hc (by rw [hk]; rfl)
        simp only [Br.toList, List.isEmpty_nil, if_true] at hs
        cases hadv : advance Quirks.none c (n + 2) m.id rest [] none none
            { timers := c.timers.erase m.id, pending := c.vol.pending, orphans := c.vol.orphans, joins := c.vol.joins } with
        | mk acts v' =>
          rw [hadv] at hs
          simp only [Option.some.injEq] at hs
          subst hs
          simp only [Cfg.handler]
          have hsub : flatKind (.visit rest [] false none) = true := by
            simp only [flatKind, Sk.flat, Bool.and_eq_true] at hfk2 ⊢
            exact hfk2.2
          have := finish (t := .par mc .nil rest) (rest := rest) (stack := []) (start := start) hmid hm hu hk
            (by simp [tasksIn, brTasks]) (fun _ => by simp [visits, brVisits]) (fun _ hne => absurd rfl hne)
            (by rw [hk]; simp [isTaskKind]) (done_or_visit_of_flat hsub) c n hadv
          rw [hvd, foldl_withVol] at this
          exact ⟨this.1, Nat.lt_of_le_of_lt this.2 (hvd ▸ hlt)⟩
      · -- its branches are launched
        have hne : brs.toList ≠ [] := by
          intro he; apply hemp; simp [he]
        simp only [hemp, Bool.false_eq_true, if_false, Option.some.injEq] at hs
        subst hs
        exact flat_launch h hm hu hc hk hne
  · have hc' : (!c.timers.contains id) = true := by simp [hc]
    rw [hc'] at hs
    simp only [if_true] at hs
    refine ⟨?_, fun hh => absurd hh hc⟩
    cases hf : findEv c id true with
    | none => rw [hf] at hs; cases hs
    | some m =>
      rw [hf] at hs
      simp only [Quirks.none, Bool.false_eq_true, if_false] at hs
      split at hs
      · cases hs; simpa [Cfg.handler, withVol_vol] using h
      · cases hs; simpa [Cfg.handler, withVol_vol] using h
      · cases hs


/-- a Task event of a flat skeleton -/
theorem task_of_flat {k : EvKind} (hs : flatKind k = true) (ht : isTaskKind k = true) :
    ∃ rc rest stack start, k = .visit (.task rc rest) stack start none := by
  obtain ⟨t, stack, start, rfl, _⟩ := flatKind_inv hs
  rcases flat_cases hs with rfl | ⟨rc, rest, rfl⟩ | ⟨rest, rfl⟩ | ⟨rest, rfl⟩ | ⟨mc, brs, rest, rfl, _⟩ <;>
    simp [isTaskKind] at ht
  exact ⟨rc, rest, stack, start, rfl⟩

theorem pstep_rp {N : Nat} (c c' : Cfg) (corr : Nat) (h : PInv N c)
    (hs : step Quirks.none c (.rp corr) none = some c') : PInv N c' ∧ mu2 c' < mu2 c := by
  unfold step at hs
  rw [if_neg (by simp [h.dur.nodiv])] at hs
  simp only at hs
  by_cases hany : (c.rpq.any (fun r => r.corr == corr && !r.unacked)) = true
  · rw [hany] at hs
    simp only [Bool.not_true, Bool.false_eq_true, if_false] at hs
    obtain ⟨r, hr, hrp⟩ := List.any_eq_true.mp hany
    simp only [Bool.and_eq_true, beq_iff_eq, Bool.not_eq_true'] at hrp
    obtain ⟨hrc, hru⟩ := hrp
    subst hrc
    obtain ⟨k1, k2, hk, g1, g2⟩ := splitR_of_mem hr h.dur.corrnd
    obtain ⟨r', hr'c, hr'u, hmk⟩ : ∃ r' : QRp, r'.corr = r.corr ∧ r'.unacked = true ∧ markRpL c.rpq r.corr = k1 ++ r' :: k2 :=
      ⟨{ r with unacked := true }, rfl, rfl, by rw [hk]; exact markRpL_split g1 hru⟩
    rw [hmk] at hs
    by_cases hp : r.corr ∈ c.pending
    · have hp' : (({ c with rpq := k1 ++ r' :: k2 } : Cfg).vol.pending.contains r.corr) = true := by
        simp [Cfg.vol, hp]
      rw [if_pos hp'] at hs
      obtain ⟨m, hm, hid, hu, hf⟩ := punacked h (h.vol.p_sub _ hp).1
      obtain ⟨l1, l2, he, h1, h2⟩ := split_of_mem hm (by rw [← evK_ids]; exact h.dur.ids)
      have hfk : flatKind m.kind = true := h.dur.kinds _ (mem_evK hm)
      obtain ⟨rc, rest, stack, start, hkk⟩ := task_of_flat hfk (h.vol.p_kind m hm (hid ▸ hp))
      have hfk2 : flatKind (.visit (.task rc rest) stack start none) = true := hkk ▸ hfk
      have hf1 : findEv { c with rpq := k1 ++ r' :: k2 } r.corr true = some m := by
        unfold findEv at hf ⊢; exact hf
      obtain ⟨n, hn⟩ : ∃ n, fuelOf { c with rpq := k1 ++ r' :: k2 } = n + 2 := ⟨_, rfl⟩
      simp only [onReply, hf1, hkk, hn, Cfg.vol] at hs
      obtain ⟨hmid, hlt⟩ := mid_rp (r' := r') h he h1 h2 hu (hid ▸ hp) hk hid.symm g1 g2 hru hr'c hr'u
      rw [← hid] at hs
      cases hadv : advance Quirks.none { c with rpq := k1 ++ r' :: k2 } (n + 2) m.id rest stack none
          (some m.id) { timers := c.timers, pending := c.pending.erase m.id, orphans := c.orphans, joins := c.joins } with
      | mk acts v' =>
        rw [hadv] at hs
        simp only [Option.some.injEq] at hs
        subst hs
        simp only [Cfg.handler]
        have hsub := flatKind_rest hfk2 (Or.inl ⟨rc, rfl⟩)
        have := finish (t := .task rc rest) (rest := rest) (stack := stack) (start := start) hmid hm hu hkk
          (by simp [tasksIn]) (fun _ => by simp [visits]) (fun hr _ => by rw [hkk, hr]; rfl)
          (fun _ => rfl) (done_or_visit_of_flat hsub) _ n hadv
        have hvd : ({ c with rpq := k1 ++ r' :: k2, pending := c.pending.erase m.id } : Cfg) =
            ({ c with rpq := k1 ++ r' :: k2 } : Cfg).withVol
              { timers := c.timers, pending := c.pending.erase m.id, orphans := c.orphans, joins := c.joins } := rfl
        rw [hvd, foldl_withVol] at this
        exact ⟨this.1, Nat.lt_of_le_of_lt this.2 (hvd ▸ hlt)⟩
    · have hp' : ¬ (({ c with rpq := k1 ++ r' :: k2 } : Cfg).vol.pending.contains r.corr) = true := by
        simp [Cfg.vol, hp]
      rw [if_neg hp'] at hs
      simp only [Option.some.injEq] at hs
      subst hs
      exact flat_orphan (r' := r') h hk g1 g2 hru hr'c hr'u
  · have : (!c.rpq.any (fun r => r.corr == corr && !r.unacked)) = true := by simp [hany]
    rw [if_pos this] at hs
    cases hs

theorem pstep_tick {N : Nat} (c c' : Cfg) (h : PInv N c)
    (hs : step Quirks.none c .tick none = some c') :
    PInv N c' ∧ ((∃ o ∈ c.orphans, o ∈ c.pending) → mu2 c' < mu2 c) := by
  unfold step at hs
  rw [if_neg (by simp [h.dur.nodiv])] at hs
  simp only at hs
  cases hf : c.orphans.find? (fun o => c.pending.contains o) with
  | none =>
    rw [hf] at hs
    simp only [Option.some.injEq] at hs
    subst hs
    have hnone := List.find?_eq_none.mp hf
    refine ⟨by simpa [Cfg.handler, withVol_vol] using h, fun ⟨o, ho, hp⟩ => absurd (by simpa using hp) (hnone o ho)⟩
  | some corr =>
    rw [hf] at hs
    simp only at hs
    have ho := List.mem_of_find?_eq_some hf
    have hp : corr ∈ c.pending := by simpa using List.find?_some hf
    obtain ⟨m, hm, hid, hu, hf1⟩ := punacked h (h.vol.p_sub _ hp).1
    subst hid
    have hfk : flatKind m.kind = true := h.dur.kinds _ (mem_evK hm)
    obtain ⟨rc, rest, stack, start, hkk⟩ := task_of_flat hfk (h.vol.p_kind m hm hp)
    have hfk2 : flatKind (.visit (.task rc rest) stack start none) = true := hkk ▸ hfk
    obtain ⟨n, hn⟩ : ∃ n, fuelOf c = n + 2 := ⟨_, rfl⟩
    simp only [onReply, hf1, hkk, hn, Cfg.vol] at hs
    obtain ⟨hmid, hlt⟩ := mid_tick h hm hu hp ho
    refine ⟨?_, fun _ => ?_⟩ <;>
    cases hadv : advance Quirks.none c (n + 2) m.id rest stack none (some m.id)
        { timers := c.timers, pending := c.pending.erase m.id, orphans := c.orphans.erase m.id, joins := c.joins } with
    | mk acts v' =>
      rw [hadv] at hs
      simp only [Option.some.injEq] at hs
      subst hs
      simp only [Cfg.handler]
      have hsub := flatKind_rest hfk2 (Or.inl ⟨rc, rfl⟩)
      have := finish (t := .task rc rest) (rest := rest) (stack := stack) (start := start) hmid hm hu hkk
        (by simp [tasksIn]) (fun _ => by simp [visits]) (fun hr _ => by rw [hkk, hr]; rfl)
        (fun _ => rfl) (done_or_visit_of_flat hsub) c n hadv
      have hvd : ({ c with orphans := c.orphans.erase m.id, pending := c.pending.erase m.id } : Cfg) =
          c.withVol { timers := c.timers, pending := c.pending.erase m.id, orphans := c.orphans.erase m.id, joins := c.joins } := rfl
      rw [hvd, foldl_withVol] at this
      first
      | exact this.1
      | exact Nat.lt_of_le_of_lt this.2 (hvd ▸ hlt)

/-- every operation, a crash between two handler invocations included, keeps the invariant -/
theorem pstep {N : Nat} (c c' : Cfg) (op : Op) (h : PInv N c) (hs : step Quirks.none c op none = some c') : PInv N c' := by
  cases op with
  | ev id => exact (pstep_ev c c' id h hs).1
  | tm id => exact (pstep_tm c c' id h hs).1
  | rp corr => exact (pstep_rp c c' corr h hs).1
  | tick => exact (pstep_tick c c' h hs).1
  | crash =>
    unfold step at hs
    rw [if_neg (by simp [h.dur.nodiv])] at hs
    simp only [Option.some.injEq] at hs
    subst hs
    exact h.crash

theorem prun {N : Nat} (c c' : Cfg) (ops : List Op) (h : PInv N c)
    (hr : run Quirks.none c (ops.map (fun o => (o, none))) = some c') : PInv N c' := by
  induction ops generalizing c with
  | nil => simp [run] at hr; exact hr ▸ h
  | cons op rest ih =>
    simp only [List.map_cons, run] at hr
    split at hr
    · rename_i c1 h1
      exact ih c1 (pstep c c1 op h h1) hr
    · cases hr

end Asl.Crash
