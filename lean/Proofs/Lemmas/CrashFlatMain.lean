/-
Flat skeletons, concluded: every operation keeps `PInv` (`pstep`), the canonical crash-free run makes progress
(`pcanon`) and ends the execution (`pdrain`).
-/
import Proofs.Lemmas.CrashFlatLaunch
namespace Asl.Crash

theorem act_withVol (c : Cfg) (v : Vol) (a : Act) : (c.withVol v).act a = (c.act a).withVol v := by
  cases a with
  | note b => cases b <;> rfl
  | _ => rfl

theorem foldl_withVol (acts : List Act) (c : Cfg) (v v' : Vol) :
    ((acts.foldl Cfg.act (c.withVol v)).withVol v') = (acts.foldl Cfg.act c).withVol v' := by
  induction acts generalizing c with
  | nil => rfl
  | cons a as ih =>
    simp only [List.foldl_cons, act_withVol]
    exact ih _

theorem act_vol (c : Cfg) (a : Act) : (c.act a).vol = c.vol := by
  cases a with
  | note b => cases b <;> rfl
  | _ => rfl

theorem foldl_vol (acts : List Act) (c : Cfg) : (acts.foldl Cfg.act c).vol = c.vol := by
  induction acts generalizing c with
  | nil => rfl
  | cons a as ih => simp only [List.foldl_cons]; rw [ih, act_vol]

theorem foldl_withVol_self (acts : List Act) (c : Cfg) : (acts.foldl Cfg.act c).withVol c.vol = acts.foldl Cfg.act c := by
  rw [← foldl_vol acts c]; rfl

theorem withVol_withVol (c : Cfg) (v v' : Vol) : (c.withVol v).withVol v' = c.withVol v' := rfl

/-- a handler that has the event `m` in hand finishes the visit: whatever `advance` decides, the invariant holds again
and no more is left to do than before -/
theorem finish {N : Nat} {d : Cfg} {m : QEv} {rp : Option Nat} {t rest : Sk} {stack : List Frame} {start : Bool}
    (h : Mid N d m.id rp) (hm : m ∈ d.evq) (hu : m.unacked = true) (hk : m.kind = .visit t stack start none)
    (htk : tasksIn t = tasksIn rest + (if rp.isSome then 1 else 0))
    (hvis : rest.isVisit = true → visits rest + 1 ≤ visits t)
    (hlastv : rest = .done → stack ≠ [] → lastVisit m.kind = true)
    (hkt : isTaskKind m.kind = true → rp = some m.id)
    (hrest : rest = .done ∨ (rest.isVisit = true ∧ FlatK (.visit rest stack false none)))
    (cX : Cfg) (fuel : Nat) {acts : List Act} {v' : Vol}
    (hadv : advance Quirks.none cX (fuel + 2) m.id rest stack none rp d.vol = (acts, v')) (hcX : cX.deadJ = []) :
    PInv N ((acts.foldl Cfg.act d).withVol v') ∧ mu2 ((acts.foldl Cfg.act d).withVol v') ≤ mu2 d := by
  have hxin : (m.id, m.kind) ∈ evK d := mem_evK hm
  have hndd : notDead cX d.vol := ⟨h.join.alive, hcX⟩
  have hfk := h.dur.kinds _ hxin
  obtain ⟨l1, l2, he, h1, h2⟩ := split_of_mem hm (by rw [← evK_ids]; exact h.dur.ids)
  rcases hrest with rfl | ⟨hv, hflat⟩
  · -- the sequence is over
    cases stack with
    | nil =>
      have hstk : evStack m.kind = [] := by rw [hk]; rfl
      rw [advance_done_top _ _ _ _ _ _ (top_alone h hm hstk).2] at hadv
      obtain ⟨rfl, rfl⟩ := Prod.mk.inj hadv
      have := fin_end h hm hu hstk (by rw [hk]; simpa [todoOf, tasksIn] using htk)
      rw [foldl_withVol_self]
      exact this
    | cons f outer =>
      have hk' : flatKind (EvKind.visit t (f :: outer) start none) = true := hk ▸ hfk
      obtain ⟨hout, hst⟩ : outer = [] ∧ start = false := by
        cases outer with
        | nil => cases start <;> simp [flatKind] at hk' ⊢
        | cons _ _ => simp [flatKind] at hk'
      subst hout; subst hst
      have hstk : evStack m.kind = [f] := by rw [hk]; rfl
      simp only [flatKind, Bool.and_eq_true] at hk'
      have hwf := hk'.2
      simp only [Frame.wf, Bool.and_eq_true, Bool.or_eq_true, beq_iff_eq, decide_eq_true_eq] at hwf
      have hmc : f.mc = 0 ∨ f.width ≤ f.mc := hwf.1.1.1
      have hfr : f.rest.flat = true := hwf.1.2
      by_cases hlt : (joinAfter d.joins f m.id rp).filled.length < f.width
      · have hh := advance_hold cX (fuel + 1) m.id f rp d.vol hndd hmc hwf.2 hlt
        rw [hh] at hadv
        obtain ⟨rfl, rfl⟩ := Prod.mk.inj hadv
        exact fin_hold h hm hu hstk (hlastv rfl (by simp)) hkt hlt
      · have hge : f.width ≤ (joinAfter d.joins f m.id rp).filled.length := by omega
        have hfr' : f.rest = .done ∨ f.rest.isVisit = true := by
          cases hr : f.rest <;> simp [hr, Sk.flat, Sk.isVisit] at hfr ⊢
        rcases hfr' with hd | hv
        · have hh := advance_join_end cX fuel m.id f rp d.vol hndd hge hd
          rw [hh] at hadv
          obtain ⟨rfl, rfl⟩ := Prod.mk.inj hadv
          exact fin_join_end h hm hu hstk (hlastv rfl (by simp)) hkt hge hd
        · have hh := advance_join_next cX (fuel + 1) m.id f rp d.vol hndd hge hv
          rw [hh] at hadv
          obtain ⟨rfl, rfl⟩ := Prod.mk.inj hadv
          exact fin_join_next h hm hu hstk (hlastv rfl (by simp)) hkt hge hv
  · -- the next visit of the same sequence
    rw [advance_next _ _ _ _ _ _ _ _ _ hv] at hadv
    obtain ⟨rfl, rfl⟩ := Prod.mk.inj hadv
    have hstk : evStack (EvKind.visit rest stack false none) = evStack m.kind := by rw [hk]; rfl
    have := fin_next h he h1 h2 hu hstk hflat (by rw [hk]; simpa [todoOf] using htk)
      (by rw [hk]; simpa [todoOf] using hvis hv) rfl
    rw [foldl_withVol_self]
    exact this


/-- no event of a flat skeleton is dropped: nothing is on record as over, and the terminal notification is not out while
an event is in the queue -/
theorem not_inDeadJoin {N : Nat} {c : Cfg} (h : PInv N c) (c1 : Cfg) (v : Vol) (hv : v.joins = c.joins)
    (hn : c1.notes = c.notes) (hf : c1.failed = c.failed) (hd : c1.deadJ = c.deadJ) {m : QEv} (hm : m ∈ c.evq) :
    inDeadJoin Quirks.none c1 v m = false := by
  have hnd : notDead c1 v := ⟨by rw [hv]; exact h.join.alive, by rw [hd]; exact h.dur.nodead⟩
  have hnotes : c1.notes = 0 := by rw [hn]; exact h.cons.psi1 (List.ne_nil_of_mem (mem_evK hm))
  have hend : v.joins.any (fun j => j.ended) = false := by
    rw [hv, List.any_eq_false]
    intro j hj
    simp [h.join.live j hj]
  have hdj : (evJids m.kind).any (deadJid Quirks.none c1 v) = false := by
    rw [List.any_eq_false]
    intro j _
    simp [deadJid_false hnd j]
  simp [inDeadJoin, hdj, hend, hnotes, hf, h.dur.nofail]

/-- the kinds of events of a flat skeleton -/
theorem flatKind_inv {k : EvKind} (h : flatKind k = true) :
    ∃ t stack start, k = .visit t stack start none ∧
      ((stack = [] ∧ t.flat = true) ∨ (∃ f, stack = [f] ∧ start = false ∧ t.seq = true ∧ f.wf = true)) := by
  cases k with
  | visit t stack start owner =>
    cases owner with
    | some _ => cases stack with
      | nil => simp [flatKind] at h
      | cons f r => cases r <;> cases start <;> simp [flatKind] at h
    | none =>
      cases stack with
      | nil => exact ⟨t, [], start, rfl, Or.inl ⟨rfl, h⟩⟩
      | cons f r =>
        cases r with
        | nil =>
          cases start with
          | false =>
            simp only [flatKind, Bool.and_eq_true] at h
            exact ⟨t, [f], false, rfl, Or.inr ⟨f, rfl, rfl, h.1, h.2⟩⟩
          | true => simp [flatKind] at h
        | cons _ _ => simp [flatKind] at h
  | reenter _ _ _ _ => simp [flatKind] at h

/-- the rest of a sequence is a sequence of the same kind -/
theorem flatKind_rest {t rest : Sk} {stack : List Frame} {start : Bool}
    (h : flatKind (.visit t stack start none) = true)
    (ht : (∃ rc, t = .task rc rest) ∨ t = .step rest ∨ t = .wait rest) :
    flatKind (.visit rest stack false none) = true := by
  obtain ⟨t', stack', start', hk, hc⟩ := flatKind_inv h
  cases hk
  rcases hc with ⟨rfl, hf⟩ | ⟨f, rfl, rfl, hsq, hwf⟩
  · rcases ht with ⟨rc, rfl⟩ | rfl | rfl <;> simpa [flatKind, Sk.flat] using hf
  · rcases ht with ⟨rc, rfl⟩ | rfl | rfl <;> simp [flatKind, Sk.seq, hwf] at hsq ⊢ <;> exact hsq

theorem flat_cases {t : Sk} {stack : List Frame} {start : Bool} (h : flatKind (.visit t stack start none) = true) :
    t = .done ∨ (∃ rc rest, t = .task rc rest) ∨ (∃ rest, t = .step rest) ∨ (∃ rest, t = .wait rest) ∨
      (∃ mc brs rest, t = .par mc brs rest ∧ stack = []) := by
  obtain ⟨t', stack', start', hk, hc⟩ := flatKind_inv h
  cases hk
  rcases hc with ⟨rfl, hf⟩ | ⟨f, rfl, rfl, hsq, hwf⟩
  · cases t <;> simp [Sk.flat] at hf ⊢
  · cases t <;> simp [Sk.seq] at hsq ⊢

theorem done_or_visit_of_flat {rest : Sk} {stack : List Frame} (h : flatKind (.visit rest stack false none) = true) :
    rest = .done ∨ (rest.isVisit = true ∧ FlatK (.visit rest stack false none)) := by
  rcases flat_cases h with rfl | ⟨rc, r, rfl⟩ | ⟨r, rfl⟩ | ⟨r, rfl⟩ | ⟨mc, brs, r, rfl, _⟩
  · exact Or.inl rfl
  all_goals exact Or.inr ⟨rfl, h⟩

theorem pstep_ev {N : Nat} (c c' : Cfg) (id : Nat) (h : PInv N c)
    (hs : step Quirks.none c (.ev id) none = some c') : PInv N c' ∧ mu2 c' < mu2 c := by
  unfold step at hs
  rw [if_neg (by simp [h.dur.nodiv])] at hs
  simp only at hs
  cases hf : findEv c id false with
  | none => rw [hf] at hs; cases hs
  | some m =>
    rw [hf] at hs
    obtain ⟨hm, hid, hu⟩ := findEv_some hf
    subst hid
    obtain ⟨l1, l2, he, h1, h2⟩ := split_of_mem hm (by rw [← evK_ids]; exact h.dur.ids)
    obtain ⟨m', hid', hk', hu', hmk⟩ := markEv_split he h1 h2 hu
    have hfk : flatKind m.kind = true := h.dur.kinds _ (mem_evK hm)
    obtain ⟨t, stack, start, hk, hc⟩ := flatKind_inv hfk
    have hfk2 : flatKind (.visit t stack start none) = true := hk ▸ hfk
    rw [hmk] at hs
    obtain ⟨n, hn⟩ : ∃ n, fuelOf { c with evq := l1 ++ m' :: l2 } = n + 2 := ⟨_, rfl⟩
    have hpre : ∀ o : Option Nat, o = none → (if start = true then [if o.isSome = true then Act.cnote false else Act.note false] else []) = preOf start := by
      intro o ho; subst ho; rfl
    have hdead := not_inDeadJoin h ({ c with evq := l1 ++ m' :: l2 } : Cfg) ({ c with evq := l1 ++ m' :: l2 } : Cfg).vol rfl
      rfl rfl rfl hm
    simp only [hdead, Bool.false_eq_true, if_false, hk, hpre none rfl, hn] at hs
    have hm'in : m' ∈ ({ c with evq := l1 ++ m' :: l2 } : Cfg).evq := by simp
    rcases flat_cases hfk2 with rfl | ⟨rc, rest, rfl⟩ | ⟨rest, rfl⟩ | ⟨rest, rfl⟩ | ⟨mc, brs, rest, rfl, rfl⟩
    · -- an empty skeleton (or branch)
      obtain ⟨hmid, hlt⟩ := mid_ev h he h1 h2 hu hid' hk' hu' (by rw [hk]; rfl) (c.running + if start then 1 else 0)
      simp only at hs
      cases hadv : advance Quirks.none { c with evq := l1 ++ m' :: l2 } (n + 2) m.id .done stack none none
          ({ c with evq := l1 ++ m' :: l2 } : Cfg).vol with
      | mk acts v' =>
        rw [hadv] at hs
        simp only [Option.some.injEq] at hs
        subst hs
        simp only [Cfg.handler, List.foldl_append, fold_pre]
        rw [← hid'] at hmid hadv
        have := finish (t := .done) (rest := .done) (stack := stack) (start := start) hmid (by simp) hu' (hk' ▸ hk)
          (by simp [tasksIn]) (by simp [Sk.isVisit]) (fun _ _ => by rw [hk', hk]; rfl) (by rw [hk', hk]; simp [isTaskKind])
          (Or.inl rfl) _ n hadv h.dur.nodead
        exact ⟨this.1, Nat.lt_of_le_of_lt this.2 hlt⟩
    · -- a Task
      cases rc with
      | zero =>
        simp only [Quirks.none, bne_self_eq_false, Bool.or_false, Bool.false_eq_true, if_false, requestOf,
          Option.some.injEq, List.contains_iff_mem] at hs
        by_cases hsn : m.id ∈ c.sent
        · rw [if_pos hsn, List.nil_append] at hs
          subst hs
          simp only [Cfg.handler, fold_pre]
          exact flat_register h he h1 h2 hu hid' hk' hu' (by rw [hk]; rfl) hsn _
        · rw [if_neg hsn] at hs
          subst hs
          simp only [Cfg.handler, fold_send_pre]
          exact flat_send h he h1 h2 hu hid' hk' hu' (by rw [hk]; rfl) hsn _
      | succ rc =>
        simp only [Quirks.none, Bool.false_or, Nat.succ_ne_zero, bne_iff_ne, ne_eq, not_false_eq_true, decide_true,
          if_true, Option.some.injEq] at hs
        subst hs
        simp only [Cfg.handler, fold_pre]
        exact flat_arm h he h1 h2 hu hid' hk' hu' (by rw [hk]; rfl) _
    · -- a visit handled in one go
      obtain ⟨hmid, hlt⟩ := mid_ev h he h1 h2 hu hid' hk' hu' (by rw [hk]; rfl) (c.running + if start then 1 else 0)
      simp only at hs
      cases hadv : advance Quirks.none { c with evq := l1 ++ m' :: l2 } (n + 2) m.id rest stack none none
          ({ c with evq := l1 ++ m' :: l2 } : Cfg).vol with
      | mk acts v' =>
        rw [hadv] at hs
        simp only [Option.some.injEq] at hs
        subst hs
        simp only [Cfg.handler, List.foldl_append, fold_pre]
        rw [← hid'] at hmid hadv
        have hsub := flatKind_rest hfk2 (Or.inr (Or.inl rfl))
        have := finish (t := .step rest) (rest := rest) (stack := stack) (start := start) hmid (by simp) hu' (hk' ▸ hk)
          (by simp [tasksIn]) (fun _ => by simp [visits]) (fun hr _ => by rw [hk', hk, hr]; rfl)
          (by rw [hk', hk]; simp [isTaskKind]) (done_or_visit_of_flat hsub) _ n hadv h.dur.nodead
        exact ⟨this.1, Nat.lt_of_le_of_lt this.2 hlt⟩
    · -- a Wait: its timer is armed
      simp only [Option.some.injEq] at hs
      subst hs
      simp only [Cfg.handler, fold_pre]
      exact flat_arm h he h1 h2 hu hid' hk' hu' (by rw [hk]; rfl) _
    · -- a Parallel / Map state: its deferred handler is armed
      simp only [Option.some.injEq] at hs
      subst hs
      simp only [Cfg.handler, fold_pre]
      exact flat_arm h he h1 h2 hu hid' hk' hu' (by rw [hk]; rfl) _


/-- the unacknowledged event with a given id, and the queue around it -/
theorem punacked {N : Nat} {c : Cfg} (h : PInv N c) {id : Nat} (hid : id ∈ uEv c.evq) :
    ∃ m, m ∈ c.evq ∧ m.id = id ∧ m.unacked = true ∧ findEv c id true = some m := by
  obtain ⟨m, hm, hu, rfl⟩ := mem_uEv.mp hid
  obtain ⟨l1, l2, he, h1, h2⟩ := split_of_mem hm (by rw [← evK_ids]; exact h.dur.ids)
  exact ⟨m, hm, rfl, hu, by have := findEv_split he h1; rwa [hu] at this⟩

theorem br_nil_of_empty {brs : Br} (h : brs.toList.isEmpty = true) : brs = .nil := by
  cases brs with
  | nil => rfl
  | cons _ _ => simp [Br.toList] at h

theorem pstep_tm {N : Nat} (c c' : Cfg) (id : Nat) (h : PInv N c)
    (hs : step Quirks.none c (.tm id) none = some c') : PInv N c' ∧ (id ∈ c.timers → mu2 c' < mu2 c) := by
  unfold step at hs
  rw [if_neg (by simp [h.dur.nodiv])] at hs
  simp only at hs
  by_cases hc : id ∈ c.timers
  · have hc' : (!c.timers.contains id) = false := by simp [hc]
    rw [hc'] at hs
    simp only [Bool.false_eq_true, if_false] at hs
    obtain ⟨m, hm, hid, hu, hf⟩ := punacked h (h.vol.t_sub id hc)
    subst hid
    rw [hf] at hs
    have hfk : flatKind m.kind = true := h.dur.kinds _ (mem_evK hm)
    obtain ⟨t, stack, start, hk, hcs⟩ := flatKind_inv hfk
    have hfk2 : flatKind (.visit t stack start none) = true := hk ▸ hfk
    obtain ⟨n, hn⟩ : ∃ n, fuelOf c = n + 2 := ⟨_, rfl⟩
    have htk := h.vol.t_kind m hm hc
    have hdead := not_inDeadJoin h c
      { timers := c.timers.erase m.id, pending := c.vol.pending, orphans := c.vol.orphans, joins := c.vol.joins } rfl rfl rfl rfl hm
    simp only [hdead, Bool.and_false, Bool.false_eq_true, if_false, hk, hn] at hs
    suffices hgoal : PInv N c' ∧ mu2 c' < mu2 c from ⟨hgoal.1, fun _ => hgoal.2⟩
    have hvd : ({ c with timers := c.timers.erase m.id } : Cfg) = c.withVol
        { timers := c.timers.erase m.id, pending := c.vol.pending, orphans := c.vol.orphans, joins := c.vol.joins } := rfl
    rcases flat_cases hfk2 with rfl | ⟨rc, rest, rfl⟩ | ⟨rest, rfl⟩ | ⟨rest, rfl⟩ | ⟨mc, brs, rest, rfl, rfl⟩
    · rw [hk] at htk; simp [timerKind] at htk
    · -- a Task whose deferred handler sends the request
      simp only [Quirks.none, Bool.false_eq_true, if_false, requestOf, Option.some.injEq, List.contains_iff_mem] at hs
      by_cases hsn : m.id ∈ c.sent
      · simp only [hsn, if_true] at hs
        subst hs
        exact flat_tm_task h hm hu hc (by rw [hk]; rfl) hsn
      · simp only [hsn, if_false] at hs
        subst hs
        exact flat_tm_send h hm hu hc (by rw [hk]; rfl) hsn
    · rw [hk] at htk; simp [timerKind] at htk
    · -- a Wait is over
      obtain ⟨l1, l2, he, h1, h2⟩ := split_of_mem hm (by rw [← evK_ids]; exact h.dur.ids)
      obtain ⟨hmid, hlt⟩ := mid_tm h he h1 h2 hu hc (by rw [hk]; rfl)
      simp only at hs
      cases hadv : advance Quirks.none c (n + 2) m.id rest stack none none
          { timers := c.timers.erase m.id, pending := c.vol.pending, orphans := c.vol.orphans, joins := c.vol.joins } with
      | mk acts v' =>
        rw [hadv] at hs
        simp only [Option.some.injEq] at hs
        subst hs
        simp only [Cfg.handler]
        have hsub := flatKind_rest hfk2 (Or.inr (Or.inr rfl))
        have := finish (t := .wait rest) (rest := rest) (stack := stack) (start := start) hmid hm hu hk
          (by simp [tasksIn]) (fun _ => by simp [visits]) (fun hr _ => by rw [hk, hr]; rfl)
          (by rw [hk]; simp [isTaskKind]) (done_or_visit_of_flat hsub) c n hadv h.dur.nodead
        rw [hvd, foldl_withVol] at this
        exact ⟨this.1, Nat.lt_of_le_of_lt this.2 (hvd ▸ hlt)⟩
    · -- a Parallel / Map state
      by_cases hemp : brs.toList.isEmpty = true
      · -- without branches: what follows goes on at once
        have hnil := br_nil_of_empty hemp
        subst hnil
        obtain ⟨l1, l2, he, h1, h2⟩ := split_of_mem hm (by rw [← evK_ids]; exact h.dur.ids)
        obtain ⟨hmid, hlt⟩ := mid_tm h he h1 h2 hu hc (by rw [hk]; rfl)
        simp only [Br.toList, List.isEmpty_nil, if_true] at hs
        cases hadv : advance Quirks.none c (n + 2) m.id rest [] none none
            { timers := c.timers.erase m.id, pending := c.vol.pending, orphans := c.vol.orphans, joins := c.vol.joins } with
        | mk acts v' =>
          rw [hadv] at hs
          simp only [Option.some.injEq] at hs
          subst hs
          simp only [Cfg.handler]
          have hsub : flatKind (.visit rest [] false none) = true := by
            simp only [flatKind, Sk.flat, Bool.and_eq_true] at hfk2 ⊢
            exact hfk2.2
          have := finish (t := .par mc .nil rest) (rest := rest) (stack := []) (start := start) hmid hm hu hk
            (by simp [tasksIn, brTasks]) (fun _ => by simp [visits, brVisits]) (fun _ hne => absurd rfl hne)
            (by rw [hk]; simp [isTaskKind]) (done_or_visit_of_flat hsub) c n hadv h.dur.nodead
          rw [hvd, foldl_withVol] at this
          exact ⟨this.1, Nat.lt_of_le_of_lt this.2 (hvd ▸ hlt)⟩
      · -- its branches are launched
        have hne : brs.toList ≠ [] := by
          intro he; apply hemp; simp [he]
        simp only [hemp, Bool.false_eq_true, if_false, Option.some.injEq] at hs
        subst hs
        exact flat_launch h hm hu hc hk hne
  · have hc' : (!c.timers.contains id) = true := by simp [hc]
    rw [hc'] at hs
    simp only [if_true] at hs
    refine ⟨?_, fun hh => absurd hh hc⟩
    cases hf : findEv c id true with
    | none => rw [hf] at hs; cases hs
    | some m =>
      rw [hf] at hs
      simp only [Quirks.none, Bool.false_eq_true, if_false] at hs
      split at hs
      · cases hs; simpa [Cfg.handler, withVol_vol] using h
      · cases hs; simpa [Cfg.handler, withVol_vol] using h
      · cases hs


/-- a Task event of a flat skeleton -/
theorem task_of_flat {k : EvKind} (hs : flatKind k = true) (ht : isTaskKind k = true) :
    ∃ rc rest stack start, k = .visit (.task rc rest) stack start none := by
  obtain ⟨t, stack, start, rfl, _⟩ := flatKind_inv hs
  rcases flat_cases hs with rfl | ⟨rc, rest, rfl⟩ | ⟨rest, rfl⟩ | ⟨rest, rfl⟩ | ⟨mc, brs, rest, rfl, _⟩ <;>
    simp [isTaskKind] at ht
  exact ⟨rc, rest, stack, start, rfl⟩

theorem pstep_rp {N : Nat} (c c' : Cfg) (corr : Nat) (h : PInv N c)
    (hs : step Quirks.none c (.rp corr) none = some c') : PInv N c' ∧ mu2 c' < mu2 c := by
  unfold step at hs
  rw [if_neg (by simp [h.dur.nodiv])] at hs
  simp only at hs
  by_cases hany : (c.rpq.any (fun r => r.corr == corr && !r.unacked)) = true
  · rw [hany] at hs
    simp only [Bool.not_true, Bool.false_eq_true, if_false] at hs
    obtain ⟨r, hr, hrp⟩ := List.any_eq_true.mp hany
    simp only [Bool.and_eq_true, beq_iff_eq, Bool.not_eq_true'] at hrp
    obtain ⟨hrc, hru⟩ := hrp
    subst hrc
    obtain ⟨k1, k2, hk, g1, g2⟩ := splitR_of_mem hr h.dur.corrnd
    obtain ⟨r', hr'c, hr'u, hmk⟩ : ∃ r' : QRp, r'.corr = r.corr ∧ r'.unacked = true ∧ markRpL c.rpq r.corr = k1 ++ r' :: k2 :=
      ⟨{ r with unacked := true }, rfl, rfl, by rw [hk]; exact markRpL_split g1 hru⟩
    rw [hmk] at hs
    by_cases hp : r.corr ∈ c.pending
    · have hp' : (({ c with rpq := k1 ++ r' :: k2 } : Cfg).vol.pending.contains r.corr) = true := by
        simp [Cfg.vol, hp]
      rw [if_pos hp'] at hs
      obtain ⟨m, hm, hid, hu, hf⟩ := punacked h (h.vol.p_sub _ hp).1
      obtain ⟨l1, l2, he, h1, h2⟩ := split_of_mem hm (by rw [← evK_ids]; exact h.dur.ids)
      have hfk : flatKind m.kind = true := h.dur.kinds _ (mem_evK hm)
      obtain ⟨rc, rest, stack, start, hkk⟩ := task_of_flat hfk (h.vol.p_kind m hm (hid ▸ hp))
      have hfk2 : flatKind (.visit (.task rc rest) stack start none) = true := hkk ▸ hfk
      have hf1 : findEv { c with rpq := k1 ++ r' :: k2 } r.corr true = some m := by
        unfold findEv at hf ⊢; exact hf
      obtain ⟨n, hn⟩ : ∃ n, fuelOf { c with rpq := k1 ++ r' :: k2 } = n + 2 := ⟨_, rfl⟩
      simp only [onReply, hf1, hkk, hn, Cfg.vol] at hs
      obtain ⟨hmid, hlt⟩ := mid_rp (r' := r') h he h1 h2 hu (hid ▸ hp) hk hid.symm g1 g2 hru hr'c hr'u
      rw [← hid] at hs
      cases hadv : advance Quirks.none { c with rpq := k1 ++ r' :: k2 } (n + 2) m.id rest stack none
          (some m.id) { timers := c.timers, pending := c.pending.erase m.id, orphans := c.orphans, joins := c.joins } with
      | mk acts v' =>
        rw [hadv] at hs
        simp only [Option.some.injEq] at hs
        subst hs
        simp only [Cfg.handler]
        have hsub := flatKind_rest hfk2 (Or.inl ⟨rc, rfl⟩)
        have := finish (t := .task rc rest) (rest := rest) (stack := stack) (start := start) hmid hm hu hkk
          (by simp [tasksIn]) (fun _ => by simp [visits]) (fun hr _ => by rw [hkk, hr]; rfl)
          (fun _ => rfl) (done_or_visit_of_flat hsub) _ n hadv h.dur.nodead
        have hvd : ({ c with rpq := k1 ++ r' :: k2, pending := c.pending.erase m.id } : Cfg) =
            ({ c with rpq := k1 ++ r' :: k2 } : Cfg).withVol
              { timers := c.timers, pending := c.pending.erase m.id, orphans := c.orphans, joins := c.joins } := rfl
        rw [hvd, foldl_withVol] at this
        exact ⟨this.1, Nat.lt_of_le_of_lt this.2 (hvd ▸ hlt)⟩
    · have hp' : ¬ (({ c with rpq := k1 ++ r' :: k2 } : Cfg).vol.pending.contains r.corr) = true := by
        simp [Cfg.vol, hp]
      rw [if_neg hp'] at hs
      simp only [Option.some.injEq] at hs
      subst hs
      exact flat_orphan (r' := r') h hk g1 g2 hru hr'c hr'u
  · have : (!c.rpq.any (fun r => r.corr == corr && !r.unacked)) = true := by simp [hany]
    rw [if_pos this] at hs
    cases hs

theorem pstep_tick {N : Nat} (c c' : Cfg) (h : PInv N c)
    (hs : step Quirks.none c .tick none = some c') :
    PInv N c' ∧ ((∃ o ∈ c.orphans, o ∈ c.pending) → mu2 c' < mu2 c) := by
  unfold step at hs
  rw [if_neg (by simp [h.dur.nodiv])] at hs
  simp only at hs
  cases hf : c.orphans.find? (fun o => c.pending.contains o) with
  | none =>
    rw [hf] at hs
    simp only [Option.some.injEq] at hs
    subst hs
    have hnone := List.find?_eq_none.mp hf
    refine ⟨by simpa [Cfg.handler, withVol_vol] using h, fun ⟨o, ho, hp⟩ => absurd (by simpa using hp) (hnone o ho)⟩
  | some corr =>
    rw [hf] at hs
    simp only at hs
    have ho := List.mem_of_find?_eq_some hf
    have hp : corr ∈ c.pending := by simpa using List.find?_some hf
    obtain ⟨m, hm, hid, hu, hf1⟩ := punacked h (h.vol.p_sub _ hp).1
    subst hid
    have hfk : flatKind m.kind = true := h.dur.kinds _ (mem_evK hm)
    obtain ⟨rc, rest, stack, start, hkk⟩ := task_of_flat hfk (h.vol.p_kind m hm hp)
    have hfk2 : flatKind (.visit (.task rc rest) stack start none) = true := hkk ▸ hfk
    obtain ⟨n, hn⟩ : ∃ n, fuelOf c = n + 2 := ⟨_, rfl⟩
    simp only [onReply, hf1, hkk, hn, Cfg.vol] at hs
    obtain ⟨hmid, hlt⟩ := mid_tick h hm hu hp ho
    refine ⟨?_, fun _ => ?_⟩ <;>
    cases hadv : advance Quirks.none c (n + 2) m.id rest stack none (some m.id)
        { timers := c.timers, pending := c.pending.erase m.id, orphans := c.orphans.erase m.id, joins := c.joins } with
    | mk acts v' =>
      rw [hadv] at hs
      simp only [Option.some.injEq] at hs
      subst hs
      simp only [Cfg.handler]
      have hsub := flatKind_rest hfk2 (Or.inl ⟨rc, rfl⟩)
      have := finish (t := .task rc rest) (rest := rest) (stack := stack) (start := start) hmid hm hu hkk
        (by simp [tasksIn]) (fun _ => by simp [visits]) (fun hr _ => by rw [hkk, hr]; rfl)
        (fun _ => rfl) (done_or_visit_of_flat hsub) c n hadv h.dur.nodead
      have hvd : ({ c with orphans := c.orphans.erase m.id, pending := c.pending.erase m.id } : Cfg) =
          c.withVol { timers := c.timers, pending := c.pending.erase m.id, orphans := c.orphans.erase m.id, joins := c.joins } := rfl
      rw [hvd, foldl_withVol] at this
      first
      | exact this.1
      | exact Nat.lt_of_le_of_lt this.2 (hvd ▸ hlt)

/-- every operation, a crash between two handler invocations included, keeps the invariant -/
theorem pstep {N : Nat} (c c' : Cfg) (op : Op) (h : PInv N c) (hs : step Quirks.none c op none = some c') : PInv N c' := by
  cases op with
  | ev id => exact (pstep_ev c c' id h hs).1
  | tm id => exact (pstep_tm c c' id h hs).1
  | rp corr => exact (pstep_rp c c' corr h hs).1
  | tick => exact (pstep_tick c c' h hs).1
  | crash =>
    unfold step at hs
    rw [if_neg (by simp [h.dur.nodiv])] at hs
    simp only [Option.some.injEq] at hs
    subst hs
    exact h.crash

theorem prun {N : Nat} (c c' : Cfg) (ops : List Op) (h : PInv N c)
    (hr : run Quirks.none c (ops.map (fun o => (o, none))) = some c') : PInv N c' := by
  induction ops generalizing c with
  | nil => simp [run] at hr; exact hr ▸ h
  | cons op rest ih =>
    simp only [List.map_cons, run] at hr
    split at hr
    · rename_i c1 h1
      exact ih c1 (pstep c c1 op h h1) hr
    · cases hr


/-! ### the canonical crash-free run ends the execution -/

theorem ponReply_enabled {N : Nat} {c c1 : Cfg} (h : PInv N c) {corr : Nat} (hp : corr ∈ c.pending) (v : Vol)
    (hev : c1.evq = c.evq) : ∃ x, onReply Quirks.none c1 corr v = some x := by
  obtain ⟨m, hm, hid, hu, hf⟩ := punacked h (h.vol.p_sub _ hp).1
  obtain ⟨rc, rest, stack, start, hk⟩ := task_of_flat (h.dur.kinds _ (mem_evK hm)) (h.vol.p_kind m hm (hid ▸ hp))
  replace hk : m.kind = .visit (.task rc rest) stack start none := hk
  have hf1 : findEv c1 corr true = some m := by
    unfold findEv at hf ⊢; rw [hev]; exact hf
  simp only [onReply, hf1, hk]
  exact ⟨_, rfl⟩

theorem pcanon_enabled {N : Nat} (c : Cfg) (h : PInv N c) (op : Op) (hop : nextOp c = some op) :
    (∃ c', step Quirks.none c op none = some c') ∧
      (match op with
       | .ev _ => True
       | .tm id => id ∈ c.timers
       | .rp _ => True
       | .tick => ∃ o ∈ c.orphans, o ∈ c.pending
       | .crash => False) := by
  have hnd : c.diverged = false := h.dur.nodiv
  unfold nextOp at hop
  split at hop
  · rename_i t ts ht
    cases hop
    have hc : t ∈ c.timers := by rw [ht]; simp
    refine ⟨?_, hc⟩
    obtain ⟨m, hm, hid, hu, hf⟩ := punacked h (h.vol.t_sub t hc)
    have hfk : flatKind m.kind = true := h.dur.kinds _ (mem_evK hm)
    obtain ⟨tt, stack, start, hk, _⟩ := flatKind_inv hfk
    have hfk2 : flatKind (.visit tt stack start none) = true := hk ▸ hfk
    have htk := h.vol.t_kind m hm (hid ▸ hc)
    have hc' : (!c.timers.contains t) = false := by simp [hc]
    have hdead := not_inDeadJoin h c
      { timers := c.timers.erase t, pending := c.vol.pending, orphans := c.vol.orphans, joins := c.vol.joins } rfl rfl rfl rfl hm
    unfold step
    rw [if_neg (by simp [hnd])]
    simp only [hc', Bool.false_eq_true, if_false, hf, hdead, Bool.and_false, hk]
    rcases flat_cases hfk2 with rfl | ⟨rc, rest, rfl⟩ | ⟨rest, rfl⟩ | ⟨rest, rfl⟩ | ⟨mc, brs, rest, rfl, rfl⟩
    · rw [hk] at htk; simp [timerKind] at htk
    · exact ⟨_, rfl⟩
    · rw [hk] at htk; simp [timerKind] at htk
    · exact ⟨_, rfl⟩
    · simp only
      split <;> exact ⟨_, rfl⟩
  · split at hop
    · rename_i m hm
      cases hop
      refine ⟨?_, trivial⟩
      have hmm := List.mem_of_find?_eq_some hm
      have hmu : m.unacked = false := by simpa using List.find?_some hm
      obtain ⟨l1, l2, he, h1, h2⟩ := split_of_mem hmm (by rw [← evK_ids]; exact h.dur.ids)
      have hf : findEv c m.id false = some m := by
        have := findEv_split he h1; rwa [hmu] at this
      have hfk : flatKind m.kind = true := h.dur.kinds _ (mem_evK hmm)
      obtain ⟨tt, stack, start, hk, _⟩ := flatKind_inv hfk
      have hfk2 : flatKind (.visit tt stack start none) = true := hk ▸ hfk
      have hdead := not_inDeadJoin h (markEv c m.id) (markEv c m.id).vol rfl rfl rfl rfl hmm
      unfold step
      rw [if_neg (by simp [hnd])]
      simp only [hf, hdead, Bool.false_eq_true, if_false, hk]
      rcases flat_cases hfk2 with rfl | ⟨rc, rest, rfl⟩ | ⟨rest, rfl⟩ | ⟨rest, rfl⟩ | ⟨mc, brs, rest, rfl, rfl⟩
      · exact ⟨_, rfl⟩
      · simp only; split <;> exact ⟨_, rfl⟩
      · exact ⟨_, rfl⟩
      · exact ⟨_, rfl⟩
      · exact ⟨_, rfl⟩
    · split at hop
      · rename_i hne r hr
        cases hop
        refine ⟨?_, trivial⟩
        have hrm := List.mem_of_find?_eq_some hr
        have hru : r.unacked = false := by simpa using List.find?_some hr
        have hany : (c.rpq.any (fun x => x.corr == r.corr && !x.unacked)) = true :=
          List.any_eq_true.mpr ⟨r, hrm, by simp [hru]⟩
        unfold step
        rw [if_neg (by simp [hnd])]
        simp only [hany, Bool.not_true, Bool.false_eq_true, if_false]
        by_cases hp : r.corr ∈ c.pending
        · have hp' : (({ c with rpq := markRpL c.rpq r.corr } : Cfg).vol.pending.contains r.corr) = true := by
            simp [Cfg.vol, hp]
          rw [if_pos hp']
          obtain ⟨x, hx⟩ := ponReply_enabled (c1 := { c with rpq := markRpL c.rpq r.corr }) h hp
            ({ c with rpq := markRpL c.rpq r.corr } : Cfg).vol rfl
          rw [hx]
          exact ⟨_, rfl⟩
        · have hp' : ¬ (({ c with rpq := markRpL c.rpq r.corr } : Cfg).vol.pending.contains r.corr) = true := by
            simp [Cfg.vol, hp]
          rw [if_neg hp']
          exact ⟨_, rfl⟩
      · split at hop
        · rename_i hany
          cases hop
          obtain ⟨o, ho, hpo⟩ := List.any_eq_true.mp hany
          have hpo' : o ∈ c.pending := by simpa using hpo
          refine ⟨?_, o, ho, hpo'⟩
          unfold step
          rw [if_neg (by simp [hnd])]
          simp only
          cases hf : c.orphans.find? (fun o => c.pending.contains o) with
          | none => exact absurd hpo (List.find?_eq_none.mp hf o ho)
          | some corr =>
            have hp : corr ∈ c.pending := by simpa using List.find?_some hf
            obtain ⟨x, hx⟩ := ponReply_enabled (c1 := c) h hp { c.vol with orphans := c.orphans.erase corr } rfl
            simp only [hx]
            exact ⟨_, rfl⟩
        · cases hop

/-- nothing enabled: nothing is left in the event queue -/
theorem pquiet {N : Nat} (c : Cfg) (h : PInv N c) (hq : nextOp c = none) : c.evq = [] := by
  unfold nextOp at hq
  split at hq
  · cases hq
  · rename_i ht
    split at hq
    · cases hq
    · rename_i hev
      split at hq
      · cases hq
      · rename_i hrp
        split at hq
        · cases hq
        · rename_i hany
          -- every event is unacknowledged, and held by the join
          have hun : ∀ e ∈ c.evq, e.unacked = true := by
            intro e he
            have := List.find?_eq_none.mp hev e he
            simpa using this
          have hheld : ∀ e ∈ c.evq, e.id ∈ heldE c.joins := by
            intro e he
            have hu := h.vol.u_ev e.id (mem_uEv.mpr ⟨e, he, hun e he, rfl⟩)
            rw [ht] at hu
            simp only [List.not_mem_nil, false_or] at hu
            rcases hu with hu | hu
            · -- it would wait for a reply that is unacknowledged and either retained or held
              exfalso
              have hs := (h.vol.p_sub _ hu).2
              obtain ⟨_, hr⟩ := h.dur.reply _ (mem_evK he) hs
              obtain ⟨r, hrm, hrc⟩ := List.mem_map.mp hr
              have hru : r.unacked = true := by
                have := List.find?_eq_none.mp hrp r hrm
                simpa using this
              rcases h.vol.u_rp r.corr (mem_uRp.mpr ⟨r, hrm, hru, rfl⟩) with ho | ho
              · apply hany
                exact List.any_eq_true.mpr ⟨r.corr, ho, by rw [hrc]; simpa using hu⟩
              · simp only [heldR, List.mem_flatMap] at ho
                obtain ⟨j, hj1, hj2⟩ := ho
                obtain ⟨q, hq1, hq2⟩ := h.join.rpheld j hj1 _ hj2
                have := (h.join.ht _ (mem_heldE hj1 hq1)).2
                rw [hq2, hrc] at this
                exact this hu
            · exact hu
          apply List.eq_nil_iff_forall_not_mem.mpr
          intro e he
          have hxin := mem_evK he
          have hh := hheld e he
          simp only [heldE, List.mem_flatMap] at hh
          obtain ⟨j, hj, _⟩ := hh
          -- the event belongs to a branch
          have hstk : evStack e.kind ≠ [] := by
            intro hs
            have := (h.shape.top _ hxin hs).2
            rw [this] at hj; cases hj
          obtain ⟨t, f, hk, _, hwf⟩ := flatKind_branch (h.dur.kinds _ hxin) hstk
          have hk' : e.kind = .visit t [f] false none := hk
          have hef : evStack e.kind = [f] := by rw [hk']; rfl
          have hmine := (h.join.mine j hj _ hxin f hef).2
          have uniq : ∀ p ∈ evK c, ∀ q ∈ evK c, p.1 = q.1 → p = q :=
            fun p hp q hq hpq => eq_of_nodup_map (·.1) h.dur.ids hp hq hpq
          -- every slot is filled
          have hfull : ∀ i, i < f.width → i ∈ j.filled := by
            intro i hi
            obtain ⟨p', hp', f', hf', hi'⟩ := h.shape.cover _ hxin f hef i hi
            obtain ⟨e', he', rfl⟩ := List.mem_map.mp hp'
            have hh' := hheld e' he'
            simp only [heldE, List.mem_flatMap, List.mem_map] at hh'
            obtain ⟨j', hj', q, hq, hq2⟩ := hh'
            have hjj : j' = j := by
              have h1 := h.join.one j hj
              rw [h1] at hj'; simpa using hj'
            subst hjj
            obtain ⟨hq1, p, hp, hp1, hp2, _⟩ := h.join.held j' hj q hq
            have : p = (e'.id, e'.kind) := uniq p hp _ hp' (by rw [hp1, hq2])
            rw [this] at hp2
            have hki : kIdx e'.kind = i := by
              have hf'' : evStack e'.kind = [f'] := hf'
              simp [kIdx, hf'', hi']
            rw [← hki, hp2]; exact hq1
          have := length_ge_of_full f.width j.filled hfull
          omega

theorem pcanon {N : Nat} (c : Cfg) (h : PInv N c) (op : Op) (hop : nextOp c = some op) :
    ∃ c', step Quirks.none c op none = some c' ∧ PInv N c' ∧ mu2 c' < mu2 c := by
  obtain ⟨⟨c', hs⟩, hdec⟩ := pcanon_enabled c h op hop
  refine ⟨c', hs, ?_⟩
  cases op with
  | ev id => exact pstep_ev c c' id h hs
  | tm id => have g := pstep_tm c c' id h hs; exact ⟨g.1, g.2 hdec⟩
  | rp corr => exact pstep_rp c c' corr h hs
  | tick => have g := pstep_tick c c' h hs; exact ⟨g.1, g.2 hdec⟩
  | crash => exact hdec.elim

theorem pdrain {N : Nat} (fuel : Nat) (c : Cfg) (h : PInv N c) (hf : mu2 c ≤ fuel) :
    PInv N (drain Quirks.none fuel c) ∧ nextOp (drain Quirks.none fuel c) = none := by
  induction fuel generalizing c with
  | zero =>
    simp only [drain]
    refine ⟨h, ?_⟩
    cases hop : nextOp c with
    | none => rfl
    | some op =>
      obtain ⟨c', _, _, hlt⟩ := pcanon c h op hop
      omega
  | succ fuel ih =>
    simp only [drain, h.dur.nodiv, Bool.false_eq_true, if_false]
    cases hop : nextOp c with
    | none => exact ⟨h, hop⟩
    | some op =>
      obtain ⟨c', hs, hi, hlt⟩ := pcanon c h op hop
      simp only [hs]
      exact ih c' hi (by omega)

theorem pended {N : Nat} {c : Cfg} (h : PInv N c) (hq : nextOp c = none) : Ended N c := by
  have hev := pquiet c h hq
  have hevk : evK c = [] := by simp [evK, hev]
  obtain ⟨psi0, psi1, phi, fresh⟩ := h.cons
  have hrp : c.rpq = [] := by
    apply List.eq_nil_iff_forall_not_mem.mpr
    intro r hr
    obtain ⟨p, hp, _⟩ := fresh r.corr (List.mem_map.mpr ⟨r, hr, rfl⟩)
    rw [hevk] at hp; cases hp
  refine ⟨hev, hrp, psi0 hevk, h.dur.sentnd, ?_, ?_, ?_, ?_, h.join.jne hevk⟩
  · simp only [load2, inflight2, hevk, List.map_nil, List.sum_nil, List.filter_nil, List.length_nil] at phi; omega
  · apply List.eq_nil_iff_forall_not_mem.mpr
    intro t ht; have := h.vol.t_sub t ht; rw [hev] at this; cases this
  · apply List.eq_nil_iff_forall_not_mem.mpr
    intro t ht; have := (h.vol.p_sub t ht).1; rw [hev] at this; cases this
  · apply List.eq_nil_iff_forall_not_mem.mpr
    intro t ht; have := h.vol.o_sub t ht; rw [hrp] at this; cases this

end Asl.Crash
