import AslModel.Template
namespace Asl

/-! ### template walk -/

mutual
/-- no member name ends in `.$`, at any depth -/
def noDollar : Json → Bool
  | .arr xs => noDollarL xs
  | .obj kvs => noDollarM kvs
  | _ => true
def noDollarL : List Json → Bool
  | [] => true
  | x :: xs => noDollar x && noDollarL xs
def noDollarM : List (Str × Json) → Bool
  | [] => true
  | (k, v) :: kvs => !endsDollar k && noDollar v && noDollarM kvs
end

theorem walk_scalar (o : Oracles) (input ctx v : Json) (hv : isContainer v = false) :
    walk o .none input ctx v = .ok v := by
  cases v <;> simp_all [walk, isContainer, Quirks.none]

theorem walkM_cons (o : Oracles) (input ctx : Json) (k : Str) (v : Json)
    (kvs : List (Str × Json)) :
    walkM o .none input ctx ((k, v) :: kvs) =
      (if endsDollar k = true ∧ isContainer v = false then
         (evalValue o input ctx v).bind fun r =>
           (walkM o .none input ctx kvs).map fun ms => (stripDollar k, r) :: ms
       else
         (walk o .none input ctx v).bind fun r =>
           (walkM o .none input ctx kvs).map fun ms => (k, r) :: ms) := by
  rw [walkM]
  by_cases hk : endsDollar k = true <;> by_cases hv : isContainer v = true
  · simp [hk, hv]
    cases walk o Quirks.none input ctx v <;> simp [Except.map, Except.bind]
    cases walkM o Quirks.none input ctx kvs <;> simp
  · simp [hk, hv]
    cases evalValue o input ctx v <;> simp [Except.map, Except.bind]
    cases walkM o Quirks.none input ctx kvs <;> simp
  · simp [hk, hv]
    cases walk o Quirks.none input ctx v <;> simp [Except.map, Except.bind]
    cases walkM o Quirks.none input ctx kvs <;> simp
  · simp at hv
    simp [hk, hv, walk_scalar o input ctx v hv]
    cases walkM o Quirks.none input ctx kvs <;> simp [Except.map, Except.bind]

mutual
theorem walk_noDollar (o : Oracles) (input ctx : Json) :
    (t : Json) → noDollar t = true → walk o .none input ctx t = .ok t
  | .arr xs, h => by
    have := walkL_noDollar o input ctx xs (by simpa [noDollar] using h)
    simp [walk, this]
  | .obj kvs, h => by
    have := walkM_noDollar o input ctx kvs (by simpa [noDollar] using h)
    simp [walk, this]
  | .str s, _ => by simp [walk, Quirks.none]
  | .null, _ => by simp [walk]
  | .bool _, _ => by simp [walk]
  | .num _, _ => by simp [walk]
theorem walkL_noDollar (o : Oracles) (input ctx : Json) :
    (xs : List Json) → noDollarL xs = true → walkL o .none input ctx xs = .ok xs
  | [], _ => by simp [walkL]
  | x :: xs, h => by
    simp only [noDollarL, Bool.and_eq_true] at h
    simp [walkL, walk_noDollar o input ctx x h.1, walkL_noDollar o input ctx xs h.2]
theorem walkM_noDollar (o : Oracles) (input ctx : Json) :
    (kvs : List (Str × Json)) → noDollarM kvs = true → walkM o .none input ctx kvs = .ok kvs
  | [], _ => by simp [walkM]
  | (k, v) :: kvs, h => by
    simp only [noDollarM, Bool.and_eq_true, Bool.not_eq_true'] at h
    rw [walkM_cons]
    simp [h.1.1, walk_noDollar o input ctx v h.1.2, walkM_noDollar o input ctx kvs h.2,
      Except.bind, Except.map]
end

end Asl
