import AslModel.Template
namespace Asl

/-! ### template walk -/

mutual
/-- no member name ends in `.$`, at any depth -/
def noDollar : Json → Bool
  | .arr xs => noDollarL xs
  | .obj kvs => noDollarM kvs
  | _ => true
def noDollarL : List Json → Bool
  | [] => true
  | x :: xs => noDollar x && noDollarL xs
def noDollarM : List (Str × Json) → Bool
  | [] => true
  | (k, v) :: kvs => !endsDollar k && noDollar v && noDollarM kvs
end

theorem walk_scalar (o : Oracles) (input ctx v : Json) (hv : isContainer v = false) :
    walk o .none input ctx v = .ok v := by
  cases v <;> simp_all [walk, isContainer, Quirks.none]

theorem walkM_cons (o : Oracles) (input ctx : Json) (k : Str) (v : Json)
    (kvs : List (Str × Json)) :
    walkM o .none input ctx ((k, v) :: kvs) =
      (if endsDollar k = true ∧ isContainer v = false then
         (evalValue o input ctx v).bind fun r =>
           (walkM o .none input ctx kvs).map fun ms => (stripDollar k, r) :: ms
       else
         (walk o .none input ctx v).bind fun r =>
           (walkM o .none input ctx kvs).map fun ms => (k, r) :: ms) := by
  rw [walkM]
  by_cases hk : endsDollar k = true <;> by_cases hv : isContainer v = true
  · simp [hk, hv]
    cases walk o Quirks.none input ctx v <;> simp [Except.map, Except.bind]
    cases walkM o Quirks.none input ctx kvs <;> simp
  · simp [hk, hv]
    cases evalValue o input ctx v <;> simp [Except.map, Except.bind]
    cases walkM o Quirks.none input ctx kvs <;> simp
  · simp [hk, hv]
    cases walk o Quirks.none input ctx v <;> simp [Except.map, Except.bind]
    cases walkM o Quirks.none input ctx kvs <;> simp
  · simp at hv
    simp [hk, hv, walk_scalar o input ctx v hv]
    cases walkM o Quirks.none input ctx kvs <;> simp [Except.map, Except.bind]

mutual
theorem walk_noDollar (o : Oracles) (input ctx : Json) :
    (t : Json) → noDollar t = true → walk o .none input ctx t = .ok t
  | .arr xs, h => by
    have := walkL_noDollar o input ctx xs (by simpa [noDollar] using h)
    simp [walk, this]
  | .obj kvs, h => by
    have := walkM_noDollar o input ctx kvs (by simpa [noDollar] using h)
    simp [walk, this]
  | .str s, _ => by simp [walk, Quirks.none]
  | .null, _ => by simp [walk]
  | .bool _, _ => by simp [walk]
  | .num _, _ => by simp [walk]
theorem walkL_noDollar (o : Oracles) (input ctx : Json) :
    (xs : List Json) → noDollarL xs = true → walkL o .none input ctx xs = .ok xs
  | [], _ => by simp [walkL]
  | x :: xs, h => by
    simp only [noDollarL, Bool.and_eq_true] at h
    simp [walkL, walk_noDollar o input ctx x h.1, walkL_noDollar o input ctx xs h.2]
theorem walkM_noDollar (o : Oracles) (input ctx : Json) :
    (kvs : List (Str × Json)) → noDollarM kvs = true → walkM o .none input ctx kvs = .ok kvs
  | [], _ => by simp [walkM]
  | (k, v) :: kvs, h => by
    simp only [noDollarM, Bool.and_eq_true, Bool.not_eq_true'] at h
    rw [walkM_cons]
    simp [h.1.1, walk_noDollar o input ctx v h.1.2, walkM_noDollar o input ctx kvs h.2,
      Except.bind, Except.map]
end

/-! ### the only errors -/

theorem applyPath_error (input ctx : Json) (p : Option Str) (e : PErr)
    (h : applyPath input ctx p = .error e) : e = .pathMatch ∨ e = .paramPath := by
  have hj : ∀ d t e, applyJsonPathText d t = .error e → e = .pathMatch := by
    intro d t e h
    unfold applyJsonPathText at h
    repeat' split at h
    all_goals first | (cases h; rfl) | cases h
  unfold applyPath at h
  repeat' split at h
  all_goals first | exact Or.inl (hj _ _ _ h) | (cases h; exact Or.inr rfl) | cases h

theorem fnFormat_error (vs : List Json) (e : PErr) (h : fnFormat vs = .error e) : e = .intrinsic := by
  unfold fnFormat at h
  repeat' split at h
  all_goals first | (cases h; rfl) | cases h

theorem fnStringToJson_error (vs : List Json) (e : PErr) (h : fnStringToJson vs = .error e) : e = .intrinsic := by
  unfold fnStringToJson at h
  repeat' split at h
  all_goals first | (cases h; rfl) | cases h

theorem fnJsonToString_error (vs : List Json) (e : PErr) (h : fnJsonToString vs = .error e) : e = .intrinsic := by
  unfold fnJsonToString at h
  repeat' split at h
  all_goals first | (cases h; rfl) | cases h

theorem fnArrayPartition_error (vs : List Json) (e : PErr) (h : fnArrayPartition vs = .error e) : e = .intrinsic := by
  unfold fnArrayPartition at h
  repeat' split at h
  all_goals first | (cases h; rfl) | cases h

theorem fnArrayContains_error (vs : List Json) (e : PErr) (h : fnArrayContains vs = .error e) : e = .intrinsic := by
  unfold fnArrayContains at h
  repeat' split at h
  all_goals first | (cases h; rfl) | cases h

theorem fnArrayRange_error (vs : List Json) (e : PErr) (h : fnArrayRange vs = .error e) : e = .intrinsic := by
  unfold fnArrayRange at h
  repeat' split at h
  all_goals first | (cases h; rfl) | cases h

theorem fnArrayGetItem_error (vs : List Json) (e : PErr) (h : fnArrayGetItem vs = .error e) : e = .intrinsic := by
  unfold fnArrayGetItem at h
  repeat' split at h
  all_goals first | (cases h; rfl) | cases h

theorem fnArrayLength_error (vs : List Json) (e : PErr) (h : fnArrayLength vs = .error e) : e = .intrinsic := by
  unfold fnArrayLength at h
  repeat' split at h
  all_goals first | (cases h; rfl) | cases h

theorem fnArrayUnique_error (vs : List Json) (e : PErr) (h : fnArrayUnique vs = .error e) : e = .intrinsic := by
  unfold fnArrayUnique at h
  repeat' split at h
  all_goals first | (cases h; rfl) | cases h

theorem fnBase64Encode_error (vs : List Json) (e : PErr) (h : fnBase64Encode vs = .error e) : e = .intrinsic := by
  unfold fnBase64Encode at h
  repeat' split at h
  all_goals first | (cases h; rfl) | cases h

theorem fnBase64Decode_error (vs : List Json) (e : PErr) (h : fnBase64Decode vs = .error e) : e = .intrinsic := by
  unfold fnBase64Decode at h
  repeat' split at h
  all_goals first | (cases h; rfl) | cases h

theorem fnJsonMerge_error (vs : List Json) (e : PErr) (h : fnJsonMerge vs = .error e) : e = .intrinsic := by
  unfold fnJsonMerge at h
  repeat' split at h
  all_goals first | (cases h; rfl) | cases h

theorem fnMathAdd_error (vs : List Json) (e : PErr) (h : fnMathAdd vs = .error e) : e = .intrinsic := by
  unfold fnMathAdd at h
  repeat' split at h
  all_goals first | (cases h; rfl) | cases h

theorem fnStringSplit_error (vs : List Json) (e : PErr) (h : fnStringSplit vs = .error e) : e = .intrinsic := by
  unfold fnStringSplit at h
  repeat' split at h
  all_goals first | (cases h; rfl) | cases h

theorem fnHash_error (o : Oracles) (vs : List Json) (e : PErr) (h : fnHash o vs = .error e) :
    e = .intrinsic := by
  unfold fnHash at h
  repeat' split at h
  all_goals first | (cases h; rfl) | cases h

theorem fnMathRandom_error (o : Oracles) (vs : List Json) (e : PErr) (h : fnMathRandom o vs = .error e) :
    e = .intrinsic := by
  unfold fnMathRandom at h
  repeat' split at h
  all_goals first | (cases h; rfl) | cases h

theorem fnUUID_error (o : Oracles) (vs : List Json) (e : PErr) (h : fnUUID o vs = .error e) :
    e = .intrinsic := by
  unfold fnUUID at h
  repeat' split at h
  all_goals first | (cases h; rfl) | cases h

theorem applyFn_error (o : Oracles) (f : Str) (vs : List Json) (e : PErr)
    (h : applyFn o f vs = .error e) : e = .intrinsic := by
  unfold applyFn at h
  by_cases hFormat : f = "States.Format".toList
  · rw [if_pos hFormat] at h; exact fnFormat_error _ _ h
  rw [if_neg hFormat] at h
  by_cases hStringToJson : f = "States.StringToJson".toList
  · rw [if_pos hStringToJson] at h; exact fnStringToJson_error _ _ h
  rw [if_neg hStringToJson] at h
  by_cases hJsonToString : f = "States.JsonToString".toList
  · rw [if_pos hJsonToString] at h; exact fnJsonToString_error _ _ h
  rw [if_neg hJsonToString] at h
  by_cases hArray : f = "States.Array".toList
  · rw [if_pos hArray] at h; cases h
  rw [if_neg hArray] at h
  by_cases hArrayPartition : f = "States.ArrayPartition".toList
  · rw [if_pos hArrayPartition] at h; exact fnArrayPartition_error _ _ h
  rw [if_neg hArrayPartition] at h
  by_cases hArrayContains : f = "States.ArrayContains".toList
  · rw [if_pos hArrayContains] at h; exact fnArrayContains_error _ _ h
  rw [if_neg hArrayContains] at h
  by_cases hArrayRange : f = "States.ArrayRange".toList
  · rw [if_pos hArrayRange] at h; exact fnArrayRange_error _ _ h
  rw [if_neg hArrayRange] at h
  by_cases hArrayGetItem : f = "States.ArrayGetItem".toList
  · rw [if_pos hArrayGetItem] at h; exact fnArrayGetItem_error _ _ h
  rw [if_neg hArrayGetItem] at h
  by_cases hArrayLength : f = "States.ArrayLength".toList
  · rw [if_pos hArrayLength] at h; exact fnArrayLength_error _ _ h
  rw [if_neg hArrayLength] at h
  by_cases hArrayUnique : f = "States.ArrayUnique".toList
  · rw [if_pos hArrayUnique] at h; exact fnArrayUnique_error _ _ h
  rw [if_neg hArrayUnique] at h
  by_cases hBase64Encode : f = "States.Base64Encode".toList
  · rw [if_pos hBase64Encode] at h; exact fnBase64Encode_error _ _ h
  rw [if_neg hBase64Encode] at h
  by_cases hBase64Decode : f = "States.Base64Decode".toList
  · rw [if_pos hBase64Decode] at h; exact fnBase64Decode_error _ _ h
  rw [if_neg hBase64Decode] at h
  by_cases hHash : f = "States.Hash".toList
  · rw [if_pos hHash] at h; exact fnHash_error _ _ _ h
  rw [if_neg hHash] at h
  by_cases hJsonMerge : f = "States.JsonMerge".toList
  · rw [if_pos hJsonMerge] at h; exact fnJsonMerge_error _ _ h
  rw [if_neg hJsonMerge] at h
  by_cases hMathRandom : f = "States.MathRandom".toList
  · rw [if_pos hMathRandom] at h; exact fnMathRandom_error _ _ _ h
  rw [if_neg hMathRandom] at h
  by_cases hMathAdd : f = "States.MathAdd".toList
  · rw [if_pos hMathAdd] at h; exact fnMathAdd_error _ _ h
  rw [if_neg hMathAdd] at h
  by_cases hStringSplit : f = "States.StringSplit".toList
  · rw [if_pos hStringSplit] at h; exact fnStringSplit_error _ _ h
  rw [if_neg hStringSplit] at h
  by_cases hUUID : f = "States.UUID".toList
  · rw [if_pos hUUID] at h; exact fnUUID_error _ _ _ h
  rw [if_neg hUUID] at h
  cases h; rfl

mutual
theorem evalArg_error (o : Oracles) (input ctx : Json) :
    (a : Arg) → (e : PErr) → evalArg o input ctx a = .error e →
      e = .intrinsic ∨ e = .pathMatch ∨ e = .paramPath
  | .str _, e, h => by simp [evalArg] at h
  | .int _, e, h => by simp [evalArg] at h
  | .null, e, h => by simp [evalArg] at h
  | .bool _, e, h => by simp [evalArg] at h
  | .path p, e, h => by
    simp only [evalArg] at h
    exact Or.inr (applyPath_error _ _ _ _ h)
  | .call f args, e, h => by
    simp only [evalArg] at h
    split at h
    · exact Or.inl (applyFn_error o f _ e h)
    · rename_i e' he
      cases h
      exact evalArgs_error o input ctx args _ he
theorem evalArgs_error (o : Oracles) (input ctx : Json) :
    (as : List Arg) → (e : PErr) → evalArgs o input ctx as = .error e →
      e = .intrinsic ∨ e = .pathMatch ∨ e = .paramPath
  | [], e, h => by simp [evalArgs] at h
  | a :: as, e, h => by
    simp only [evalArgs] at h
    split at h
    · rename_i e' he
      cases h
      exact evalArg_error o input ctx a _ he
    · split at h
      · cases h
      · rename_i e' he
        cases h
        exact evalArgs_error o input ctx as _ he
end

end Asl
