import AslModel.Store
namespace Asl.Store
open Asl

/-! association-list facts -/

theorem aGet_aSet {α : Type} (s : List (Str × α)) (k k' : Str) (v : α) :
    aGet (aSet s k v) k' = if k' = k then some v else aGet s k' := by
  induction s with
  | nil =>
    by_cases h : k' = k
    · simp [aSet, aGet, h]
    · have h' : ¬ k = k' := fun e => h e.symm
      simp [aSet, aGet, h, h']
  | cons p r ih =>
    obtain ⟨a, b⟩ := p
    by_cases h1 : a = k
    · subst h1
      by_cases h2 : k' = a
      · subst h2; simp [aSet, aGet]
      · have h2' : ¬ a = k' := fun e => h2 e.symm
        simp [aSet, aGet, h2, h2']
    · by_cases h2 : a = k'
      · subst h2
        simp [aSet, aGet, h1]
      · simp [aSet, aGet, h1, h2, ih]

theorem aGet_aDel {α : Type} (s : List (Str × α)) (k k' : Str) :
    aGet (aDel s k) k' = if k' = k then none else aGet s k' := by
  induction s with
  | nil => simp [aDel, aGet]
  | cons p r ih =>
    obtain ⟨a, b⟩ := p
    simp only [aDel] at ih
    by_cases h1 : a = k
    · subst h1
      by_cases h2 : k' = a
      · subst h2; simpa [aDel, aGet] using ih
      · have h2' : ¬ a = k' := fun e => h2 e.symm
        simp [aDel, aGet, h2'] ; simpa [h2] using ih
    · by_cases h2 : a = k'
      · subst h2
        simp [aDel, aGet, h1]
      · simp [aDel, aGet, h1, h2]; simpa using ih

theorem mem_of_aGet {α : Type} (s : List (Str × α)) (k : Str) (v : α) (h : aGet s k = some v) :
    (k, v) ∈ s := by
  induction s with
  | nil => simp [aGet] at h
  | cons p r ih =>
    obtain ⟨a, b⟩ := p
    by_cases h1 : a = k
    · subst h1; simp [aGet] at h; simp [h]
    · simp [aGet, h1] at h; simp [ih h]

theorem aGet_isSome_iff {α : Type} (s : List (Str × α)) (k : Str) :
    (aGet s k).isSome = true ↔ k ∈ aKeys s := by
  induction s with
  | nil => simp [aGet, aKeys]
  | cons p r ih =>
    obtain ⟨a, b⟩ := p
    by_cases h1 : a = k
    · subst h1; simp [aGet, aKeys]
    · have h1' : ¬ k = a := fun e => h1 e.symm
      simp only [aKeys] at ih
      simp [aGet, aKeys, h1, h1', ih]

theorem aKeys_aSet_nodup {α : Type} (s : List (Str × α)) (k : Str) (v : α)
    (h : (aKeys s).Nodup) : (aKeys (aSet s k v)).Nodup := by
  induction s with
  | nil => simp [aSet, aKeys]
  | cons p r ih =>
    obtain ⟨a, b⟩ := p
    by_cases h1 : a = k
    · subst h1; simpa [aSet, aKeys] using h
    · simp only [aKeys, List.map_cons, List.nodup_cons] at h
      simp only [aSet, h1, if_false, aKeys, List.map_cons, List.nodup_cons]
      refine ⟨?_, ih h.2⟩
      intro hm
      have : (aGet (aSet r k v) a).isSome = true := (aGet_isSome_iff _ _).2 hm
      rw [aGet_aSet] at this
      simp [h1] at this
      exact h.1 ((aGet_isSome_iff _ _).1 this)

theorem aKeys_aDel_nodup {α : Type} (s : List (Str × α)) (k : Str)
    (h : (aKeys s).Nodup) : (aKeys (aDel s k)).Nodup := by
  unfold aKeys aDel
  exact (List.filter_sublist.map _).nodup h

theorem aDel_length_lt {α : Type} (s : List (Str × α)) (k : Str) (v : α) (h : aGet s k = some v) :
    (aDel s k).length < s.length := by
  induction s with
  | nil => simp [aGet] at h
  | cons p r ih =>
    obtain ⟨a, b⟩ := p
    by_cases h1 : a = k
    · subst h1
      have : (aDel r a).length ≤ r.length := List.length_filter_le _ _
      simp [aDel] at this ⊢
      omega
    · simp [aGet, h1] at h
      have := ih h
      simp [aDel, h1] at this ⊢
      omega

theorem mem_aDel {α : Type} (s : List (Str × α)) (k : Str) (e : Str × α) (h : e ∈ aDel s k) :
    e ∈ s ∧ e.1 ≠ k := by
  simpa [aDel] using h

/-! prefixes -/

theorem pk_inj (p k k' : Str) : pk p k = pk p k' ↔ k = k' := by
  simp [pk]

theorem rmPrefix_pk (p k : Str) : rmPrefix p (pk p k) = k := by
  simp [rmPrefix, pk]

theorem pk_of_prefix (p fk : Str) (h : (p ++ [':']).isPrefixOf fk = true) :
    pk p (rmPrefix p fk) = fk := by
  rw [List.isPrefixOf_iff_prefix] at h
  obtain ⟨t, rfl⟩ := h
  simp [rmPrefix, pk]

/-! SimpleStore / JSONStore -/

def mabs (s : Mem) : Spec := fun k => aGet s k

theorem spec_del_absent (m : Spec) (k : Str) (h : m k = none) : m.del k = m := by
  funext k'
  by_cases e : k' = k
  · subst e; simp [Spec.del, h]
  · simp [Spec.del, e]

theorem mabs_aSet (s : Mem) (k : Str) (v : Json) : mabs (aSet s k v) = (mabs s).set k v := by
  funext k'; simp [mabs, Spec.set, aGet_aSet]

theorem mabs_aDel (s : Mem) (k : Str) : mabs (aDel s k) = (mabs s).del k := by
  funext k'; simp [mabs, Spec.del, aGet_aDel]

theorem mem_refines (s : Mem) (op : Op) (hk : (aKeys s).Nodup) (hop : op ≠ .reopen) :
    mabs (memStep s op).1 = specStep false (mabs s) op ∧
    specOut (mabs s) op (memStep s op).2 ∧ (aKeys (memStep s op).1).Nodup := by
  cases op with
  | set k v => exact ⟨by simp [memStep, specStep, mabs_aSet], by simp [specOut], aKeys_aSet_nodup _ _ _ hk⟩
  | upd k f v =>
    simp only [memStep, memNested, specStep, specOut]
    cases h : aGet s k with
    | none => simp [mabs, h, hk]
    | some d =>
      cases h2 : nestedSet d f v with
      | none => simp [mabs, h, h2, hk]
      | some d' => simp [mabs, h, h2, aKeys_aSet_nodup _ _ _ hk]; exact mabs_aSet s k d'
  | app k v =>
    simp only [memStep, memNested, specStep, specOut]
    cases h : aGet s k with
    | none => simp [mabs, h, hk]
    | some d =>
      cases h2 : nestedApp d v with
      | none => simp [mabs, h, h2, hk]
      | some d' => simp [mabs, h, h2, aKeys_aSet_nodup _ _ _ hk]; exact mabs_aSet s k d'
  | get k =>
    simp only [memStep, specStep, specOut]
    cases h : aGet s k with
    | none => simp [mabs, h, hk]
    | some d => simp [mabs, h, hk]
  | cget k =>
    simp only [memStep, specStep, specOut]
    cases h : aGet s k <;> simp [hk]
  | del k =>
    simp only [memStep, specStep, specOut]
    cases h : aGet s k with
    | none => simp [hk]; exact (spec_del_absent _ _ (by simp [mabs, h])).symm
    | some d => simp [mabs_aDel, aKeys_aDel_nodup _ _ hk]
  | has k => simp [memStep, specStep, specOut, mabs, hk]
  | iter =>
    refine ⟨by simp [memStep, specStep], ?_, by simpa [memStep] using hk⟩
    exact ⟨aKeys s, by simp [memStep], hk, fun k => by simp [mabs, aGet_isSome_iff]⟩
  | len =>
    refine ⟨by simp [memStep, specStep], ?_, by simpa [memStep] using hk⟩
    exact ⟨aKeys s, by simp [memStep, aKeys], hk, fun k => by simp [mabs, aGet_isSome_iff]⟩
  | ttl k n => simp [memStep, specStep, specOut, hk]
  | gttl k => simp [memStep, specStep, specOut, hk]
  | reopen => exact absurd rfl hop
  | deliver => simp [memStep, specStep, specOut, hk]

end Asl.Store
