/- helper lemmas for C10: what `step` is for each action on an object body -/
import Proofs.Lemmas.ApiStore
namespace Asl.Api

/-- the answer and state of `step` from a handler's verdict -/
def finish (env : Env) (s : State) : Option (Except Str Verdict) → State × Response
  | none => (s, .invalidAction)
  | some (.error e) => (s, .error e)
  | some (.ok v) => (s.apply v.effect, s.answer env v.reply)

theorem step_obj (cfg : Cfg) (env : Env) (s : State) (a : Str) (p : Params) :
    step cfg env s ⟨a, some (.obj p)⟩ = finish env s (handle cfg env s a p) := by
  simp only [step, finish]
  split <;> simp_all

theorem published_obj (cfg : Cfg) (env : Env) (s : State) (a : Str) (p : Params) :
    published cfg env s ⟨a, some (.obj p)⟩ =
      match handle cfg env s a p with
      | some (.ok v) => v.publish
      | _ => none := rfl

theorem handle_create (cfg : Cfg) (env : Env) (s : State) (p : Params) :
    handle cfg env s (S "CreateStateMachine") p = some (
      match validateCreate cfg env (lookup s.machines) p with
      | .error e => .error e
      | .ok (arn, m) =>
        .ok ⟨.putMachine arn m,
             .json (.obj [(S "creationDate", .num m.creationDate), (S "stateMachineArn", .str arn)]),
             none⟩) := by
  rfl

theorem handle_update (cfg : Cfg) (env : Env) (s : State) (p : Params) :
    handle cfg env s (S "UpdateStateMachine") p = some (
      match validateUpdate cfg env (lookup s.machines) p with
      | .error e => .error e
      | .ok (arn, m) =>
        .ok ⟨.putMachine arn m, .json (.obj [(S "updateDate", .num m.updateDate)]), none⟩) := by
  rfl

theorem handle_delete (cfg : Cfg) (env : Env) (s : State) (p : Params) :
    handle cfg env s (S "DeleteStateMachine") p = some (
      match arnArg validSmArn (arg p "stateMachineArn") with
      | .error e => .error e
      | .ok arn =>
        match lookup s.machines arn with
        | none => .error (S "StateMachineDoesNotExist")
        | some _ => .ok ⟨.delMachine arn, .empty, none⟩) := by
  rfl

theorem handle_describe (cfg : Cfg) (env : Env) (s : State) (p : Params) :
    handle cfg env s (S "DescribeStateMachine") p = some (
      match arnArg validSmArn (arg p "stateMachineArn") with
      | .error e => .error e
      | .ok arn =>
        match lookup s.machines arn with
        | none => .error (S "StateMachineDoesNotExist")
        | some m => .ok (.read (m.describe arn))) := by
  rfl

theorem handle_describe_for_execution (cfg : Cfg) (env : Env) (s : State) (p : Params) :
    handle cfg env s (S "DescribeStateMachineForExecution") p = some (
      match arnArg validExecArn (arg p "executionArn") with
      | .error e => .error e
      | .ok earn =>
        match lookup s.executions earn with
        | none => .error (S "ExecutionDoesNotExist")
        | some e =>
          if !validSmArn e.stateMachineArn then .error (S "InvalidArn") else
          match lookup s.machines e.stateMachineArn with
          | none => .error (S "StateMachineDoesNotExist")
          | some m => .ok (.read (m.forExecution e.stateMachineArn))) := by
  rfl

theorem handle_list (cfg : Cfg) (env : Env) (s : State) (p : Params) :
    handle cfg env s (S "ListStateMachines") p = some (.ok ⟨.none, .machines, none⟩) := by
  rfl

theorem handle_start (cfg : Cfg) (env : Env) (s : State) (p : Params) :
    handle cfg env s (S "StartExecution") p = some (
      match validateStart env (lookup s.machines) p with
      | .error e => .error e
      | .ok x =>
        .ok (startVerdict env true x
          (.json (.obj [(S "executionArn", .str x.1), (S "startDate", .num env.now)])))) := by
  rfl

theorem handle_start_sync (cfg : Cfg) (env : Env) (s : State) (p : Params) :
    handle cfg env s (S "StartSyncExecution") p =
      if !cfg.logging then none else some (
        match validateStartSync env (lookup s.machines) p with
        | .error e => .error e
        | .ok x => .ok (startVerdict env false x .sync)) := by
  rfl

theorem handle_list_executions (cfg : Cfg) (env : Env) (s : State) (p : Params) :
    handle cfg env s (S "ListExecutions") p = some (
      match arnArg validSmArn (arg p "stateMachineArn") with
      | .error e => .error e
      | .ok arn =>
        match lookup s.machines arn with
        | none => .error (S "StateMachineDoesNotExist")
        | some _ => .ok ⟨.none, .executions arn (statusFilter (arg p "statusFilter")), none⟩) := by
  rfl

theorem handle_describe_execution (cfg : Cfg) (env : Env) (s : State) (p : Params) :
    handle cfg env s (S "DescribeExecution") p = some (
      match arnArg validExecArn (arg p "executionArn") with
      | .error e => .error e
      | .ok earn =>
        match lookup s.executions earn with
        | none => .error (S "ExecutionDoesNotExist")
        | some e => .ok (.read (e.toJson earn))) := by
  rfl

theorem handle_history (cfg : Cfg) (env : Env) (s : State) (p : Params) :
    handle cfg env s (S "GetExecutionHistory") p = some (
      match arnArg validExecArn (arg p "executionArn") with
      | .error e => .error e
      | .ok earn =>
        match lookup s.histories earn with
        | none => .error (S "ExecutionDoesNotExist")
        | some [] => .error (S "ExecutionDoesNotExist")
        | some (ev :: log) =>
          .ok (.read (.obj [(S "events",
            .arr (if truthyArg (arg p "reverseOrder") then (ev :: log).reverse else ev :: log))]))) := by
  rfl

/-- an answer the handler computed itself (always 200) -/
def Reply.plain : Reply → Bool
  | .json _ => true
  | .empty => true
  | .machines => true
  | .executions _ _ => true
  | _ => false

theorem actionOf_name (a : Str) (k : Action) (h : actionOf a = some k) : a = k.name := by
  have := List.find?_some h
  exact (of_decide_eq_true this).symm

theorem actionOf_of_name (k : Action) : actionOf k.name = some k := by
  cases k <;> rfl

theorem decideKind_shape (cfg : Cfg) (env : Env) (ms : Lk Machine) (es : Lk Exec) (hs : Lk (List Json))
    (k : Action) (p : Params) (v : Verdict) (h : decideKind cfg env ms es hs p k = some (.ok v)) :
    (v.publish = none ∧ v.reply.plain = true) ∨
    (v.effect = .none ∧ v.reply = .publishFailed ∧ v.publish = none ∧ env.publishFails = true ∧
      (k = .start ∨ k = .startSync)) ∨
    (v.effect = .none ∧ env.publishFails = false ∧ v.publish.isSome = true ∧
      ((k = .start ∧ ∃ j, v.reply = .json j) ∨ (k = .startSync ∧ v.reply = .sync))) := by
  cases k
  all_goals
    simp only [decideKind] at h
    repeat' split at h
  all_goals first | cases h | skip
  all_goals first
    | (left; exact ⟨rfl, rfl⟩)
    | (simp only [startVerdict]
       by_cases hp : env.publishFails = true
       · right; left; simp_all
       · right; right; simp_all)

/-- the three kinds of accepted request: an ordinary one (publishes nothing, answers 200), a
start the broker refused (writes nothing, publishes nothing), a start that was published
(writes nothing) -/
theorem verdict_shape (cfg : Cfg) (env : Env) (ms : Lk Machine) (es : Lk Exec) (hs : Lk (List Json))
    (a : Str) (p : Params) (v : Verdict) (h : decideAction cfg env ms es hs a p = some (.ok v)) :
    (v.publish = none ∧ v.reply.plain = true) ∨
    (v.effect = .none ∧ v.reply = .publishFailed ∧ v.publish = none ∧ env.publishFails = true ∧
      (a = S "StartExecution" ∨ a = S "StartSyncExecution")) ∨
    (v.effect = .none ∧ env.publishFails = false ∧ v.publish.isSome = true ∧
      ((a = S "StartExecution" ∧ ∃ j, v.reply = .json j) ∨
       (a = S "StartSyncExecution" ∧ v.reply = .sync))) := by
  unfold decideAction at h
  cases hk : actionOf a with
  | none => simp [hk] at h
  | some k =>
    simp only [hk] at h
    have ha := actionOf_name a k hk
    rcases decideKind_shape cfg env ms es hs k p v h with h1 | h2 | h3
    · exact Or.inl h1
    · obtain ⟨e1, e2, e3, e4, e5⟩ := h2
      refine Or.inr (Or.inl ⟨e1, e2, e3, e4, ?_⟩)
      rcases e5 with e5 | e5 <;> subst e5 <;> subst ha
      · exact Or.inl rfl
      · exact Or.inr rfl
    · obtain ⟨e1, e2, e3, e4⟩ := h3
      refine Or.inr (Or.inr ⟨e1, e2, e3, ?_⟩)
      rcases e4 with ⟨e4, e5⟩ | ⟨e4, e5⟩ <;> subst e4 <;> subst ha
      · exact Or.inl ⟨rfl, e5⟩
      · exact Or.inr ⟨rfl, e5⟩

/-- only CreateStateMachine, UpdateStateMachine and DeleteStateMachine write -/
theorem decideKind_writes (cfg : Cfg) (env : Env) (ms : Lk Machine) (es : Lk Exec) (hs : Lk (List Json))
    (k : Action) (p : Params) (v : Verdict) (h : decideKind cfg env ms es hs p k = some (.ok v))
    (hw : v.effect ≠ .none) : k = .create ∨ k = .update ∨ k = .delete := by
  cases k
  all_goals
    simp only [decideKind] at h
    repeat' split at h
  all_goals first | cases h | skip
  all_goals first
    | (simp at hw; done)
    | (simp [Verdict.read] at hw; done)
    | (simp only [startVerdict] at hw; split at hw <;> simp at hw; done)
    | simp

theorem verdict_writes (cfg : Cfg) (env : Env) (ms : Lk Machine) (es : Lk Exec) (hs : Lk (List Json))
    (a : Str) (p : Params) (v : Verdict) (h : decideAction cfg env ms es hs a p = some (.ok v))
    (hw : v.effect ≠ .none) :
    a = S "CreateStateMachine" ∨ a = S "UpdateStateMachine" ∨ a = S "DeleteStateMachine" := by
  unfold decideAction at h
  cases hk : actionOf a with
  | none => simp [hk] at h
  | some k =>
    simp only [hk] at h
    have ha := actionOf_name a k hk
    rcases decideKind_writes cfg env ms es hs k p v h hw with e | e | e <;> subst e <;> subst ha
    · exact Or.inl rfl
    · exact Or.inr (Or.inl rfl)
    · exact Or.inr (Or.inr rfl)

theorem arnArg_error (valid : Str → Bool) (x : Option Json) (e : Str) (h : arnArg valid x = .error e) :
    e = S "MissingRequiredParameter" ∨ e = S "InvalidArn" := by
  unfold arnArg at h
  repeat' split at h
  all_goals first | (cases h; simp; done) | cases h

/-- what StartExecution / StartSyncExecution refuse -/
theorem validateStart_error (env : Env) (ms : Lk Machine) (p : Params) (e : Str)
    (h : validateStart env ms p = .error e) :
    e ∈ [S "MissingRequiredParameter", S "InvalidArn", S "InvalidName", S "InvalidExecutionInput",
         S "StateMachineDoesNotExist"] := by
  unfold validateStart at h
  split at h
  · rename_i e' hs
    cases h
    unfold startArgs at hs
    split at hs
    · rename_i e'' ha
      cases hs
      rcases arnArg_error _ _ _ ha with r | r <;> simp [r]
    · repeat' split at hs
      all_goals first | (cases hs; simp; done) | cases hs
  · repeat' split at h
    all_goals first | (cases h; simp; done) | cases h

theorem validateStartSync_error (env : Env) (ms : Lk Machine) (p : Params) (e : Str)
    (h : validateStartSync env ms p = .error e) :
    e ∈ [S "MissingRequiredParameter", S "InvalidArn", S "InvalidName", S "InvalidExecutionInput",
         S "StateMachineDoesNotExist", S "StateMachineTypeNotSupported"] := by
  unfold validateStartSync at h
  split at h
  · rename_i e' hv
    cases h
    have := validateStart_error env ms p e hv
    simp only [List.mem_cons] at this ⊢
    rcases this with r | r | r | r | r | r
    · exact Or.inl r
    · exact Or.inr (Or.inl r)
    · exact Or.inr (Or.inr (Or.inl r))
    · exact Or.inr (Or.inr (Or.inr (Or.inl r)))
    · exact Or.inr (Or.inr (Or.inr (Or.inr (Or.inl r))))
    · simp at r
  · split at h
    · cases h
    · cases h; simp

/-- GetExecutionHistory without a stored (non-empty) log, or with an unacceptable ARN argument -/
theorem history_refused (cfg : Cfg) (env : Env) (s : State) (p : Params) :
    (∀ earn, arnArg validExecArn (arg p "executionArn") = .ok earn →
      (lookup s.histories earn = none ∨ lookup s.histories earn = some []) →
      step cfg env s ⟨S "GetExecutionHistory", some (.obj p)⟩ = (s, .error (S "ExecutionDoesNotExist"))) ∧
    (∀ e, arnArg validExecArn (arg p "executionArn") = .error e →
      step cfg env s ⟨S "GetExecutionHistory", some (.obj p)⟩ = (s, .error e)) := by
  refine ⟨?_, ?_⟩
  · intro earn ha hl
    rcases hl with hl | hl <;>
      simp only [step_obj, handle_history, ha, hl, finish]
  · intro e ha
    simp only [step_obj, handle_history, ha, finish]

/-- the four ways a request ends -/
theorem step_cases (cfg : Cfg) (env : Env) (s : State) (c : Call) :
    (step cfg env s c = (s, .error (S "SerializationException")) ∧ published cfg env s c = none) ∨
    (∃ p, c.params = some (.obj p) ∧ handle cfg env s c.action p = none ∧
      step cfg env s c = (s, .invalidAction) ∧ published cfg env s c = none) ∨
    (∃ p e, c.params = some (.obj p) ∧ handle cfg env s c.action p = some (.error e) ∧
      step cfg env s c = (s, .error e) ∧ published cfg env s c = none) ∨
    (∃ p v, c.params = some (.obj p) ∧ handle cfg env s c.action p = some (.ok v) ∧
      step cfg env s c = (s.apply v.effect, s.answer env v.reply) ∧
      published cfg env s c = v.publish) := by
  obtain ⟨a, ps⟩ := c
  cases ps with
  | none => exact Or.inl ⟨rfl, rfl⟩
  | some j =>
    cases j with
    | obj p =>
      right
      cases hh : handle cfg env s a p with
      | none =>
        refine Or.inl ⟨p, rfl, hh, ?_, ?_⟩
        · rw [step_obj, hh]; rfl
        · rw [published_obj, hh]
      | some r =>
        cases r with
        | error e =>
          refine Or.inr (Or.inl ⟨p, e, rfl, hh, ?_, ?_⟩)
          · rw [step_obj, hh]; rfl
          · rw [published_obj, hh]
        | ok v =>
          refine Or.inr (Or.inr ⟨p, v, rfl, hh, ?_, ?_⟩)
          · rw [step_obj, hh]; rfl
          · rw [published_obj, hh]
    | _ => exact Or.inl ⟨rfl, rfl⟩

theorem answer_plain (env : Env) (s : State) (r : Reply) (h : r.plain = true) :
    (s.answer env r).isError = false ∧ (s.answer env r).status = 200 := by
  cases r <;> simp_all [Reply.plain, State.answer, Response.isError, Response.status]

theorem answer_sync (env : Env) (s : State) :
    (s.answer env .sync = .timedOut ∧ env.syncOutcome = none) ∨
    (∃ d, s.answer env .sync = .ok d ∧ env.syncOutcome = some d) := by
  simp only [State.answer]
  cases env.syncOutcome with
  | none => exact Or.inl ⟨rfl, rfl⟩
  | some d => exact Or.inr ⟨d, rfl, rfl⟩

/-- the members of a DescribeStateMachine answer -/
theorem describe_members (arn : Str) (m : Machine) :
    ∃ kvs, m.describe arn = .obj kvs ∧
      objGet kvs (S "definition") = some (.str (render m.definition)) ∧
      objGet kvs (S "name") = some (.str m.name) ∧
      objGet kvs (S "roleArn") = some (.str m.roleArn) ∧
      objGet kvs (S "stateMachineArn") = some (.str arn) ∧
      objGet kvs (S "creationDate") = some (.num m.creationDate) ∧
      objGet kvs (S "updateDate") = some (.num m.updateDate) ∧
      objGet kvs (S "type") = some (.str m.type) := by
  cases hlg : m.logging with
  | none =>
    refine ⟨_, by simp only [Machine.describe, Machine.toJson, hlg]; rfl, ?_⟩
    simp [objGet, S]
  | some lg =>
    refine ⟨_, by simp only [Machine.describe, Machine.toJson, hlg]; rfl, ?_⟩
    simp [objGet, S]

/-- a successful CreateStateMachine, as a step -/
theorem step_create_ok (cfg : Cfg) (env : Env) (s : State) (p : Params) (arn : Str) (m : Machine)
    (hv : validateCreate cfg env (lookup s.machines) p = .ok (arn, m)) :
    step cfg env s ⟨S "CreateStateMachine", some (.obj p)⟩ =
      ({ s with machines := insert s.machines arn m },
       .ok (.obj [(S "creationDate", .num m.creationDate), (S "stateMachineArn", .str arn)])) := by
  rw [step_obj, handle_create, hv]; rfl

/-- DescribeStateMachine of a stored machine under an acceptable ARN -/
theorem step_describe_ok (cfg : Cfg) (env : Env) (s : State) (q : Params) (arn : Str) (m : Machine)
    (ha : arnArg validSmArn (arg q "stateMachineArn") = .ok arn) (hl : lookup s.machines arn = some m) :
    step cfg env s ⟨S "DescribeStateMachine", some (.obj q)⟩ = (s, .ok (m.describe arn)) := by
  rw [step_obj, handle_describe, ha]
  simp only [hl]
  rfl

/-- a well-formed ARN argument -/
theorem arnArg_ok (valid : Str → Bool) (a : Str) (h : valid a = true) (hne : a ≠ []) :
    arnArg valid (some (.str a)) = .ok a := by
  cases a with
  | nil => exact absurd rfl hne
  | cons c cs => simp [arnArg, truthyArg, Json.truthy, h]

theorem arnArg_ok_inv (valid : Str → Bool) (x : Option Json) (a : Str)
    (h : arnArg valid x = .ok a) : x = some (.str a) ∧ valid a = true := by
  unfold arnArg at h
  split at h
  · cases h
  · split at h
    · split at h
      · cases h; exact ⟨rfl, by assumption⟩
      · cases h
    · cases h

/-- what a successful decode of a `definition` argument says -/
theorem decodeDefinition_ok (cfg : Cfg) (env : Env) (j d : Json)
    (h : decodeDefinition cfg env j = .ok d) :
    ∃ t, j = .str t ∧ parseJson t = some d ∧ t ≠ [] ∧
      (cfg.logging && cfg.validateAsl && (env.lintBad || hasDuplicateNames t)) = false := by
  unfold decodeDefinition at h
  split at h
  · rename_i t
    split at h
    · cases h
    · rename_i hlen
      split at h
      · cases h
      · rename_i d' hp
        split at h
        · cases h
        · rename_i hl
          cases h
          refine ⟨t, rfl, hp, ?_, by simpa using hl⟩
          intro e
          subst e
          simp at hlen
  · cases h

theorem createKey_ok (cfg : Cfg) (p : Params) (arn name role ty : Str)
    (h : createKey cfg p = .ok (arn, name, role, ty)) :
    arg p "name" = some (.str name) ∧ validName name = true ∧
    arg p "roleArn" = some (.str role) ∧ validRoleArn role = true ∧
    (ty = S "STANDARD" ∨ ty = S "EXPRESS") ∧
    (cfg.quirks.createUncheckedArn = false → validSmArn arn = true) ∧
    ∃ account, roleAccount role = some account ∧ arn = smArnOf cfg.region account name := by
  unfold createKey at h
  split at h
  · rename_i name' hn
    split at h
    · cases h
    · rename_i hvn
      split at h
      · rename_i role' hr
        split at h
        · cases h
        · rename_i hvr
          split at h
          · cases h
          · rename_i account hacc
            split at h
            · cases h
            · rename_i hchk
              split at h
              · rename_i ty' hty
                split at h
                · cases h
                · rename_i htok
                  cases h
                  refine ⟨hn, by simpa using hvn, hr, by simpa using hvr, ?_, ?_, account, hacc, rfl⟩
                  · have htok' : ¬ty = S "STANDARD" → ty = S "EXPRESS" := by simpa using htok
                    by_cases e : ty = S "STANDARD"
                    · exact Or.inl e
                    · exact Or.inr (htok' e)
                  · intro hq
                    simpa [hq] using hchk
              · cases h
      · cases h
  · cases h

/-- a successful CreateStateMachine validation, taken apart -/
theorem validateCreate_ok (cfg : Cfg) (env : Env) (ms : Lk Machine) (p : Params) (arn : Str) (m : Machine)
    (h : validateCreate cfg env ms p = .ok (arn, m)) :
    createKey cfg p = .ok (arn, m.name, m.roleArn, m.type) ∧
    ms arn = none ∧
    decodeDefinition cfg env ((arg p "definition").getD (.str [])) = .ok m.definition ∧
    m.definition.truthy = true ∧
    createLogging cfg p = .ok m.logging ∧
    m.creationDate = env.now ∧ m.updateDate = env.now := by
  unfold validateCreate at h
  split at h
  · cases h
  · rename_i arn' name role ty hk
    split at h
    · cases h
    · rename_i hl
      split at h
      · cases h
      · rename_i d hd
        split at h
        · cases h
        · rename_i htr
          split at h
          · cases h
          · rename_i lg hlg
            cases h
            refine ⟨hk, ?_, hd, by simpa using htr, hlg, rfl, rfl⟩
            cases hlk : ms arn with
            | none => rfl
            | some x => simp [hlk] at hl

/-- with the machine already there, CreateStateMachine is refused -/
theorem validateCreate_dup (cfg : Cfg) (env : Env) (ms : Lk Machine) (p : Params) (arn name role ty : Str)
    (hk : createKey cfg p = .ok (arn, name, role, ty)) (hl : (ms arn).isSome = true) :
    validateCreate cfg env ms p = .error (S "StateMachineAlreadyExists") := by
  unfold validateCreate
  rw [hk]
  simp [hl]

theorem updRole_ok (p : Params) (r : Option Str) (h : updRole p = .ok r) :
    (truthyArg (arg p "roleArn") = false → r = none) ∧
    (truthyArg (arg p "roleArn") = true →
      ∃ x, r = some x ∧ arg p "roleArn" = some (.str x) ∧ validRoleArn x = true) := by
  unfold updRole at h
  split at h
  · rename_i hf
    cases h
    simp at hf
    simp [hf]
  · rename_i ht
    simp at ht
    split at h
    · rename_i x hx
      split at h
      · rename_i hv
        cases h
        rw [hx] at ht
        simp [ht, hx, hv]
      · cases h
    · cases h

theorem updDefinition_ok (cfg : Cfg) (env : Env) (p : Params) (d : Option Json)
    (h : updDefinition cfg env p = .ok d) :
    (truthyArg (arg p "definition") = false → d = none) ∧
    (truthyArg (arg p "definition") = true →
      ∃ t x, d = some x ∧ arg p "definition" = some (.str t) ∧ parseJson t = some x) := by
  unfold updDefinition at h
  split at h
  · rename_i hf
    cases h
    simp at hf
    simp [hf]
  · rename_i ht
    simp at ht
    split at h
    · cases h
    · rename_i x hx
      cases h
      obtain ⟨t, hj, hp, _, _⟩ := decodeDefinition_ok cfg env _ _ hx
      refine ⟨by simp [ht], fun _ => ⟨t, x, rfl, ?_, hp⟩⟩
      cases hga : arg p "definition" with
      | none => simp [hga, truthyArg] at ht
      | some j => simp [hga] at hj; rw [hj]

theorem updLogging_ok (cfg : Cfg) (p : Params) (l : Option Json) (h : updLogging cfg p = .ok l) :
    ((cfg.logging && truthyArg (arg p "loggingConfiguration")) = false → l = none) ∧
    ((cfg.logging && truthyArg (arg p "loggingConfiguration")) = true →
      ∃ x, l = some x ∧ checkLogging ((arg p "loggingConfiguration").getD (.obj [])) = .ok x) := by
  unfold updLogging at h
  split at h
  · rename_i hf
    cases h
    refine ⟨fun _ => rfl, fun ht => ?_⟩
    simp at hf ht
    rcases hf with hf | hf <;> simp_all
  · rename_i ht
    split at h
    · cases h
    · rename_i x hx
      cases h
      refine ⟨fun hf => ?_, fun _ => ⟨x, rfl, hx⟩⟩
      simp at ht hf
      simp_all

/-- a successful UpdateStateMachine validation, taken apart -/
theorem validateUpdate_ok (cfg : Cfg) (env : Env) (ms : Lk Machine) (p : Params) (arn : Str) (m' : Machine)
    (h : validateUpdate cfg env ms p = .ok (arn, m')) :
    ∃ m role d lc, arnArg validSmArn (arg p "stateMachineArn") = .ok arn ∧
      ms arn = some m ∧ updRole p = .ok role ∧ updDefinition cfg env p = .ok d ∧
      updLogging cfg p = .ok lc ∧
      m' = { m with roleArn := role.getD m.roleArn, definition := d.getD m.definition,
                    logging := (match lc with | some l => some l | none => m.logging),
                    updateDate := env.now } := by
  unfold validateUpdate at h
  split at h
  · cases h
  · rename_i arn' ha
    split at h
    · cases h
    · rename_i m hm
      split at h
      · cases h
      · rename_i role hr
        split at h
        · cases h
        · rename_i d hd
          split at h
          · cases h
          · split at h
            · cases h
            · rename_i lc hlc
              cases h
              exact ⟨m, role, d, lc, ha, hm, hr, hd, hlc, rfl⟩

theorem validateUpdate_unknown (cfg : Cfg) (env : Env) (ms : Lk Machine) (p : Params) (arn : Str)
    (ha : arnArg validSmArn (arg p "stateMachineArn") = .ok arn) (hl : ms arn = none) :
    validateUpdate cfg env ms p = .error (S "StateMachineDoesNotExist") := by
  unfold validateUpdate
  rw [ha]
  simp [hl]

end Asl.Api
