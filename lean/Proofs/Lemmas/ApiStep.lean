/- helper lemmas for C10: what `step` is for each of the nine actions on an object body -/
import Proofs.Lemmas.ApiStore
namespace Asl.Api

/-- the answer and state of `step` from a handler's verdict -/
def finish (s : State) : Option (Except Str (State × Reply)) → State × Response
  | none => (s, .invalidAction)
  | some (.error e) => (s, .error e)
  | some (.ok (s', .json j)) => (s', .ok j)
  | some (.ok (s', .empty)) => (s', .okEmpty)

theorem step_obj (cfg : Cfg) (env : Env) (s : State) (a : Str) (p : Params) :
    step cfg env s ⟨a, some (.obj p)⟩ = finish s (handle cfg env s a p) := by
  simp only [step, finish]
  split <;> simp_all

theorem handle_create (cfg : Cfg) (env : Env) (s : State) (p : Params) :
    handle cfg env s (S "CreateStateMachine") p = some (
      match validateCreate cfg env s p with
      | .error e => .error e
      | .ok (arn, m) =>
        .ok ({ s with machines := insert s.machines arn m },
             .json (.obj [(S "creationDate", .num m.creationDate), (S "stateMachineArn", .str arn)]))) := by
  rfl

theorem handle_update (cfg : Cfg) (env : Env) (s : State) (p : Params) :
    handle cfg env s (S "UpdateStateMachine") p = some (
      match validateUpdate cfg env s p with
      | .error e => .error e
      | .ok (arn, m) =>
        .ok ({ s with machines := insert s.machines arn m },
             .json (.obj [(S "updateDate", .num m.updateDate)]))) := by
  rfl

theorem handle_delete (cfg : Cfg) (env : Env) (s : State) (p : Params) :
    handle cfg env s (S "DeleteStateMachine") p = some (
      match arnArg validSmArn (arg p "stateMachineArn") with
      | .error e => .error e
      | .ok arn =>
        match lookup s.machines arn with
        | none => .error (S "StateMachineDoesNotExist")
        | some _ => .ok ({ s with machines := erase s.machines arn }, .empty)) := by
  rfl

theorem handle_describe (cfg : Cfg) (env : Env) (s : State) (p : Params) :
    handle cfg env s (S "DescribeStateMachine") p = some (
      match arnArg validSmArn (arg p "stateMachineArn") with
      | .error e => .error e
      | .ok arn =>
        match lookup s.machines arn with
        | none => .error (S "StateMachineDoesNotExist")
        | some m => .ok (s, .json (m.describe arn))) := by
  rfl

theorem handle_describe_for_execution (cfg : Cfg) (env : Env) (s : State) (p : Params) :
    handle cfg env s (S "DescribeStateMachineForExecution") p = some (
      match arnArg validExecArn (arg p "executionArn") with
      | .error e => .error e
      | .ok earn =>
        match lookup s.executions earn with
        | none => .error (S "ExecutionDoesNotExist")
        | some e =>
          if !validSmArn e.stateMachineArn then .error (S "InvalidArn") else
          match lookup s.machines e.stateMachineArn with
          | none => .error (S "StateMachineDoesNotExist")
          | some m => .ok (s, .json (m.forExecution e.stateMachineArn))) := by
  rfl

theorem handle_list (cfg : Cfg) (env : Env) (s : State) (p : Params) :
    handle cfg env s (S "ListStateMachines") p = some (
      .ok (s, .json (.obj [(S "stateMachines",
        .arr (s.machines.map (fun kv => Machine.summary kv.1 kv.2)))]))) := by
  rfl

theorem handle_start (cfg : Cfg) (env : Env) (s : State) (p : Params) :
    handle cfg env s (S "StartExecution") p = some (
      match validateStart env s p with
      | .error e => .error e
      | .ok (earn, _) =>
        .ok (s, .json (.obj [(S "executionArn", .str earn), (S "startDate", .num env.now)]))) := by
  rfl

theorem handle_list_executions (cfg : Cfg) (env : Env) (s : State) (p : Params) :
    handle cfg env s (S "ListExecutions") p = some (
      match arnArg validSmArn (arg p "stateMachineArn") with
      | .error e => .error e
      | .ok arn =>
        match lookup s.machines arn with
        | none => .error (S "StateMachineDoesNotExist")
        | some _ =>
          .ok (s, .json (.obj [(S "executions",
            .arr (listExecutions s arn (statusFilter (arg p "statusFilter"))))]))) := by
  rfl

theorem handle_describe_execution (cfg : Cfg) (env : Env) (s : State) (p : Params) :
    handle cfg env s (S "DescribeExecution") p = some (
      match arnArg validExecArn (arg p "executionArn") with
      | .error e => .error e
      | .ok earn =>
        match lookup s.executions earn with
        | none => .error (S "ExecutionDoesNotExist")
        | some e => .ok (s, .json (e.toJson earn))) := by
  rfl

/-- a well-formed ARN argument -/
theorem arnArg_ok (valid : Str → Bool) (a : Str) (h : valid a = true) (hne : a ≠ []) :
    arnArg valid (some (.str a)) = .ok a := by
  cases a with
  | nil => exact absurd rfl hne
  | cons c cs => simp [arnArg, truthyArg, Json.truthy, h]

theorem arnArg_ok_inv (valid : Str → Bool) (x : Option Json) (a : Str)
    (h : arnArg valid x = .ok a) : x = some (.str a) ∧ valid a = true := by
  unfold arnArg at h
  split at h
  · cases h
  · split at h
    · split at h
      · cases h; exact ⟨rfl, by assumption⟩
      · cases h
    · cases h

/-- what a successful decode of a `definition` argument says -/
theorem decodeDefinition_ok (cfg : Cfg) (env : Env) (j d : Json)
    (h : decodeDefinition cfg env j = .ok d) :
    ∃ t, j = .str t ∧ parseJson t = some d ∧ t ≠ [] ∧
      (cfg.logging && cfg.validateAsl && env.lintBad) = false := by
  unfold decodeDefinition at h
  split at h
  · rename_i t
    split at h
    · cases h
    · rename_i hlen
      split at h
      · cases h
      · rename_i d' hp
        split at h
        · cases h
        · rename_i hl
          cases h
          refine ⟨t, rfl, hp, ?_, by simpa using hl⟩
          intro e
          subst e
          simp at hlen
  · cases h

theorem createKey_ok (cfg : Cfg) (p : Params) (arn name role ty : Str)
    (h : createKey cfg p = .ok (arn, name, role, ty)) :
    arg p "name" = some (.str name) ∧ validName name = true ∧
    arg p "roleArn" = some (.str role) ∧ validRoleArn role = true ∧
    (ty = S "STANDARD" ∨ ty = S "EXPRESS") ∧
    ∃ account, roleAccount role = some account ∧ arn = smArnOf cfg.region account name := by
  unfold createKey at h
  split at h
  · rename_i name' hn
    split at h
    · cases h
    · rename_i hvn
      split at h
      · rename_i role' hr
        split at h
        · cases h
        · rename_i hvr
          split at h
          · cases h
          · rename_i account hacc
            split at h
            · rename_i ty' hty
              split at h
              · cases h
              · rename_i htok
                cases h
                refine ⟨hn, by simpa using hvn, hr, by simpa using hvr, ?_, account, hacc, rfl⟩
                have htok' : ¬ty = S "STANDARD" → ty = S "EXPRESS" := by simpa using htok
                by_cases e : ty = S "STANDARD"
                · exact Or.inl e
                · exact Or.inr (htok' e)
            · cases h
      · cases h
  · cases h

/-- a successful CreateStateMachine validation, taken apart -/
theorem validateCreate_ok (cfg : Cfg) (env : Env) (s : State) (p : Params) (arn : Str) (m : Machine)
    (h : validateCreate cfg env s p = .ok (arn, m)) :
    createKey cfg p = .ok (arn, m.name, m.roleArn, m.type) ∧
    lookup s.machines arn = none ∧
    decodeDefinition cfg env ((arg p "definition").getD (.str [])) = .ok m.definition ∧
    m.definition.truthy = true ∧
    createLogging cfg p = .ok m.logging ∧
    m.creationDate = env.now ∧ m.updateDate = env.now := by
  unfold validateCreate at h
  split at h
  · cases h
  · rename_i arn' name role ty hk
    split at h
    · cases h
    · rename_i hl
      split at h
      · cases h
      · rename_i d hd
        split at h
        · cases h
        · rename_i htr
          split at h
          · cases h
          · rename_i lg hlg
            cases h
            refine ⟨hk, ?_, hd, by simpa using htr, hlg, rfl, rfl⟩
            cases hlk : lookup s.machines arn with
            | none => rfl
            | some x => simp [hlk] at hl

/-- with the machine already there, CreateStateMachine is refused -/
theorem validateCreate_dup (cfg : Cfg) (env : Env) (s : State) (p : Params) (arn name role ty : Str)
    (hk : createKey cfg p = .ok (arn, name, role, ty)) (hl : (lookup s.machines arn).isSome = true) :
    validateCreate cfg env s p = .error (S "StateMachineAlreadyExists") := by
  unfold validateCreate
  rw [hk]
  simp [hl]

theorem updRole_ok (p : Params) (r : Option Str) (h : updRole p = .ok r) :
    (truthyArg (arg p "roleArn") = false → r = none) ∧
    (truthyArg (arg p "roleArn") = true →
      ∃ x, r = some x ∧ arg p "roleArn" = some (.str x) ∧ validRoleArn x = true) := by
  unfold updRole at h
  split at h
  · rename_i hf
    cases h
    simp at hf
    simp [hf]
  · rename_i ht
    simp at ht
    split at h
    · rename_i x hx
      split at h
      · rename_i hv
        cases h
        rw [hx] at ht
        simp [ht, hx, hv]
      · cases h
    · cases h

theorem updDefinition_ok (cfg : Cfg) (env : Env) (p : Params) (d : Option Json)
    (h : updDefinition cfg env p = .ok d) :
    (truthyArg (arg p "definition") = false → d = none) ∧
    (truthyArg (arg p "definition") = true →
      ∃ t x, d = some x ∧ arg p "definition" = some (.str t) ∧ parseJson t = some x) := by
  unfold updDefinition at h
  split at h
  · rename_i hf
    cases h
    simp at hf
    simp [hf]
  · rename_i ht
    simp at ht
    split at h
    · cases h
    · rename_i x hx
      cases h
      obtain ⟨t, hj, hp, _, _⟩ := decodeDefinition_ok cfg env _ _ hx
      refine ⟨by simp [ht], fun _ => ⟨t, x, rfl, ?_, hp⟩⟩
      cases hga : arg p "definition" with
      | none => simp [hga, truthyArg] at ht
      | some j => simp [hga] at hj; rw [hj]

theorem updLogging_ok (cfg : Cfg) (p : Params) (l : Option Json) (h : updLogging cfg p = .ok l) :
    ((cfg.logging && truthyArg (arg p "loggingConfiguration")) = false → l = none) ∧
    ((cfg.logging && truthyArg (arg p "loggingConfiguration")) = true →
      ∃ x, l = some x ∧ checkLogging ((arg p "loggingConfiguration").getD (.obj [])) = .ok x) := by
  unfold updLogging at h
  split at h
  · rename_i hf
    cases h
    refine ⟨fun _ => rfl, fun ht => ?_⟩
    simp at hf ht
    rcases hf with hf | hf <;> simp_all
  · rename_i ht
    split at h
    · cases h
    · rename_i x hx
      cases h
      refine ⟨fun hf => ?_, fun _ => ⟨x, rfl, hx⟩⟩
      simp at ht hf
      simp_all

/-- a successful UpdateStateMachine validation, taken apart -/
theorem validateUpdate_ok (cfg : Cfg) (env : Env) (s : State) (p : Params) (arn : Str) (m' : Machine)
    (h : validateUpdate cfg env s p = .ok (arn, m')) :
    ∃ m role d lc, arnArg validSmArn (arg p "stateMachineArn") = .ok arn ∧
      lookup s.machines arn = some m ∧ updRole p = .ok role ∧ updDefinition cfg env p = .ok d ∧
      updLogging cfg p = .ok lc ∧
      m' = { m with roleArn := role.getD m.roleArn, definition := d.getD m.definition,
                    logging := (match lc with | some l => some l | none => m.logging),
                    updateDate := env.now } := by
  unfold validateUpdate at h
  split at h
  · cases h
  · rename_i arn' ha
    split at h
    · cases h
    · rename_i m hm
      split at h
      · cases h
      · rename_i role hr
        split at h
        · cases h
        · rename_i d hd
          split at h
          · cases h
          · split at h
            · cases h
            · rename_i lc hlc
              cases h
              exact ⟨m, role, d, lc, ha, hm, hr, hd, hlc, rfl⟩

theorem validateUpdate_unknown (cfg : Cfg) (env : Env) (s : State) (p : Params) (arn : Str)
    (ha : arnArg validSmArn (arg p "stateMachineArn") = .ok arn) (hl : lookup s.machines arn = none) :
    validateUpdate cfg env s p = .error (S "StateMachineDoesNotExist") := by
  unfold validateUpdate
  rw [ha]
  simp [hl]

end Asl.Api
