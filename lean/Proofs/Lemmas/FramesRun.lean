/-
Whatever the seven mutually recursive functions of the reference semantics do to the frame state (`St.fs`),
they do through the frame operations of AslModel/Frames.lean: a property of frame states that every
operation preserves (`FrOps`) is preserved by a whole run (`PresAll`, mutual induction on the fuel).
Second part: the fan-out levels are balanced — a thread-level function leaves `lvl` / `outer` as it found
them, the branch-level functions leave `outer` alone (`BalAll`).
-/
import AslModel.Interp
import Proofs.Lemmas.Frames
namespace Asl

/-- `P` is preserved by every operation the interpreter performs on the frame state -/
structure FrOps (P : FS → Prop) : Prop where
  handover : ∀ fs t n, P fs → P (fs.handover t n)
  closeKeep : ∀ fs t, P fs → P (fs.closeKeep t)
  request : ∀ fs t b, P fs → P (fs.request t b)
  pushLevel : ∀ fs mc, P fs → P (fs.pushLevel mc)
  visit : ∀ fs k, P fs → P (fs.visit k)
  failTok : ∀ fs, P fs → P fs.failTok
  launch : ∀ fs t ns, P fs → P (fs.launch t ns)
  startBranch : ∀ fs, P fs → P fs.startBranch
  endBranch : ∀ fs t b, P fs → P (fs.endBranch t b)
  join : ∀ fs b, P fs → P (fs.join b)
  batch : ∀ fs t n ns, P fs → P (fs.batch t n ns)

section ops
variable {P : FS → Prop} (ops : FrOps P)
include ops

theorem FrOps.st_handover {b : St} (n : Str) (h : P b.fs) : P (b.handover n).fs := ops.handover _ _ _ h
theorem FrOps.st_closeKeep {b : St} (h : P b.fs) : P b.closeKeep.fs := ops.closeKeep _ _ h
theorem FrOps.st_request {b : St} (t : Bool) (h : P b.fs) : P (b.request t).fs := ops.request _ _ _ h
theorem FrOps.st_pushLevel {b : St} (mc : Nat) (h : P b.fs) : P (b.pushLevel mc).fs := ops.pushLevel _ _ h
theorem FrOps.st_visit {b : St} (ty : Str) (h : P b.fs) : P (b.visit ty).fs := ops.visit _ _ h
theorem FrOps.st_failTok {b : St} (h : P b.fs) : P b.failTok.fs := ops.failTok _ h
theorem FrOps.st_launch {b : St} (ns : List Str) (h : P b.fs) : P (b.launch ns).fs := ops.launch _ _ _ h
theorem FrOps.st_startBranch {b : St} (h : P b.fs) : P b.startBranch.fs := ops.startBranch _ h
theorem FrOps.st_endBranch {b : St} (f : Bool) (h : P b.fs) : P (b.endBranch f).fs := ops.endBranch _ _ _ h
theorem FrOps.st_join {b : St} (f : Bool) (h : P b.fs) : P (b.join f).fs := ops.join _ _ h
theorem FrOps.st_batch {b : St} (n : Str) (ns : List Str) (h : P b.fs) : P (b.batch n ns).fs := ops.batch _ _ _ _ h
theorem FrOps.st_retryAfter {b : St} (n : Str) (d : Rat) (h : P b.fs) : P (b.retryAfter n d).fs :=
  ops.closeKeep _ _ (ops.handover _ _ _ h)

end ops

/-! the other state changes leave the frame state alone -/
theorem fs_exit {P : FS → Prop} {b : St} (ty n : Str) (d : Json) (h : P b.fs) : P (b.exit ty n d).fs := h
theorem fs_enter {P : FS → Prop} {b : St} (ty n : Str) (d : Json) (r : Nat) (h : P b.fs) : P (b.enter ty n d r).fs := by
  unfold St.enter; split <;> exact h
theorem fs_push {P : FS → Prop} {b : St} (e : Ev) (h : P b.fs) : P (b.push e).fs := h
theorem fs_waitUntil {P : FS → Prop} {b : St} (t : Rat) (h : P b.fs) : P (b.waitUntil t).fs := h
theorem fs_at {P : FS → Prop} {b : St} (t : Rat) (h : P b.fs) : P (b.at t).fs := h
theorem fs_fanFailedIf {P : FS → Prop} {b : St} (s : Json) (h : P b.fs) : P (b.fanFailedIf s).fs := by
  unfold St.fanFailedIf; split <;> exact h
theorem fs_iterEnd {P : FS → Prop} {b : St} (n : Str) (i : Nat) (r : Res) (h : P b.fs) : P (b.iterEnd n i r).fs := by
  unfold St.iterEnd
  split
  · split <;> exact h
  · exact h
theorem fs_taskSilent {P : FS → Prop} {b : St} (c : List ((Str × Json) × Nat)) (res : Str) (p : Json) (t : Rat)
    (h : P b.fs) : P (b.taskSilent c res p t).fs := h
theorem fs_taskCall {P : FS → Prop} {b : St} (c : List ((Str × Json) × Nat)) (res : Str) (p : Json) (ev : Ev) (t : Rat)
    (h : P b.fs) : P (b.taskCall c res p ev t).fs := h
theorem fs_fanFail {P : FS → Prop} {b : St} (h : P b.fs) : P ({ b with fanFail := true } : St).fs := h
theorem fs_multiFail {P : FS → Prop} {b : St} (h : P b.fs) : P ({ b with multiFail := true, tieFail := true } : St).fs := h

theorem fs_combine {P : FS → Prop} {st2 : St} (r : Res) (t1 : Rat) (rest : Except Res (List Json)) (tOk : Rat)
    (h : P st2.fs) : P (fanCombine r t1 rest st2 tOk).2.fs := by
  unfold Asl.fanCombine
  repeat' split
  all_goals exact h

/-- the seven functions at fuel `n` -/
structure PresAll (P : FS → Prop) (env : Env) (n : Nat) : Prop where
  runFrom : ∀ states name data ctx r st, P st.fs → P (runFrom env n states name data ctx r st).2.fs
  leave : ∀ states name state raw data ctx r st, P st.fs → P (leave env n states name state raw data ctx r st).2.fs
  handleErr : ∀ states name state data ctx r e msg st, P st.fs →
    P (handleErr env n states name state data ctx r e msg st).2.fs
  runState : ∀ states name state data ctx r st, P st.fs → P (runState env n states name state data ctx r st).2.fs
  joinAndLeave : ∀ states name state data ctx r res st, P st.fs →
    P (joinAndLeave env n states name state data ctx r res st).2.fs
  runBranches : ∀ bs params ctx st, P st.fs → P (runBranches env n bs params ctx st).2.fs
  runItems : ∀ proc sel input items i mc be ctx bad st, P st.fs →
    P (runItems env n proc sel input items i mc be ctx bad st).2.fs

theorem presAll_zero (P : FS → Prop) (env : Env) : PresAll P env 0 := by
  constructor <;> intros <;> simp [runFrom, leave, handleErr, runState, joinAndLeave, runBranches, runItems] <;>
    assumption

section step
variable {P : FS → Prop} (ops : FrOps P) (env : Env) (n : Nat) (ih : PresAll P env n)
include ops ih

set_option hygiene false in
local macro "pres_step" : tactic => `(tactic|
  repeat' (first
    | split
    | with_reducible assumption
    | with_reducible apply ih.runFrom
    | with_reducible apply ih.leave
    | with_reducible apply ih.handleErr
    | with_reducible apply ih.runState
    | with_reducible apply ih.joinAndLeave
    | with_reducible apply ih.runBranches
    | with_reducible apply ih.runItems
    | with_reducible apply fs_exit
    | with_reducible apply fs_enter
    | with_reducible apply fs_fanFailedIf
    | with_reducible apply fs_waitUntil
    | with_reducible apply fs_iterEnd
    | with_reducible apply fs_taskCall
    | with_reducible apply fs_taskSilent
    | with_reducible apply fs_push
    | with_reducible apply ops.st_handover
    | with_reducible apply ops.st_closeKeep
    | with_reducible apply ops.st_request
    | with_reducible apply ops.st_pushLevel
    | with_reducible apply ops.st_visit
    | with_reducible apply ops.st_failTok
    | with_reducible apply ops.st_launch
    | with_reducible apply ops.st_join
    | with_reducible apply ops.st_retryAfter
    | assumption))

theorem pres_runFrom_step (states : Json) (name : Str) (data ctx : Json) (r : Nat) (st : St) (h : P st.fs) :
    P (runFrom env (n + 1) states name data ctx r st).2.fs := by
  simp only [runFrom]
  pres_step

theorem pres_leave_step (states : Json) (name : Str) (state raw data ctx : Json) (r : Nat) (st : St) (h : P st.fs) :
    P (leave env (n + 1) states name state raw data ctx r st).2.fs := by
  simp only [leave]
  pres_step

theorem pres_handleErr_step (states : Json) (name : Str) (state data ctx : Json) (r : Nat) (e msg : Str) (st : St)
    (h : P st.fs) : P (handleErr env (n + 1) states name state data ctx r e msg st).2.fs := by
  simp only [handleErr]
  pres_step

theorem pres_joinAndLeave_step (states : Json) (name : Str) (state data ctx : Json) (r : Nat)
    (res : Except Res (List Json)) (st : St) (h : P st.fs) :
    P (joinAndLeave env (n + 1) states name state data ctx r res st).2.fs := by
  simp only [joinAndLeave]
  pres_step

theorem pres_runState_step (states : Json) (name : Str) (state data ctx : Json) (r : Nat) (st : St) (h : P st.fs) :
    P (runState env (n + 1) states name state data ctx r st).2.fs := by
  simp only [runState]
  by_cases h1 : stateType state = S "Pass"
  · simp only [if_pos h1]; pres_step
  simp only [if_neg h1]
  by_cases h2 : stateType state = S "Succeed"
  · simp only [if_pos h2]; pres_step
  simp only [if_neg h2]
  by_cases h3 : stateType state = S "Fail"
  · simp only [if_pos h3]; pres_step
  simp only [if_neg h3]
  by_cases h4 : stateType state = S "Wait"
  · simp only [if_pos h4]; pres_step
  simp only [if_neg h4]
  by_cases h5 : stateType state = S "Choice"
  · simp only [if_pos h5]; pres_step
  simp only [if_neg h5]
  by_cases h6 : stateType state = S "Task"
  · simp only [if_pos h6]; pres_step
  simp only [if_neg h6]
  by_cases h7 : stateType state = S "Parallel"
  · simp only [if_pos h7]
    split
    · pres_step
    · split
      · pres_step
      · apply ih.joinAndLeave
        apply ops.st_join
        apply ih.runBranches
        apply ops.st_launch
        apply ops.st_pushLevel
        apply fs_push
        apply ops.st_closeKeep
        exact h
  simp only [if_neg h7]
  by_cases h8 : stateType state = S "Map"
  · simp only [if_pos h8]
    split
    · pres_step
    · split
      · pres_step
      · apply ih.joinAndLeave
        apply ops.st_join
        apply ih.runItems
        apply ops.st_launch
        apply ops.st_pushLevel
        repeat' split
        all_goals first
          | (apply ops.st_closeKeep; exact h)
          | (apply fs_push; apply ops.st_closeKeep; exact h)
  simp only [if_neg h8]
  exact h

theorem pres_runBranches_step (bs : List Json) (params ctx : Json) (st : St) (h : P st.fs) :
    P (runBranches env (n + 1) bs params ctx st).2.fs := by
  cases bs with
  | nil => simp only [runBranches]; exact h
  | cons b bs =>
    simp only [runBranches]
    split
    · rename_i start states hs hst
      apply fs_combine
      apply ih.runBranches
      apply fs_at
      apply ops.st_endBranch
      apply ih.runFrom
      apply ops.st_startBranch
      exact h
    · exact h

theorem pres_runItems_step (proc : Json) (sel : Option Json) (input : Json) (items : List Json) (i mc : Nat)
    (be : Rat) (ctx : Json) (bad : Bool) (st : St) (h : P st.fs) :
    P (runItems env (n + 1) proc sel input items i mc be ctx bad st).2.fs := by
  cases items with
  | nil => simp only [runItems]; exact h
  | cons item items =>
    simp only [runItems]
    split
    · exact h
    have g00 : P (if mc ≠ 0 ∧ i ≠ 0 ∧ i % mc = 0 then
        (st.waitUntil be).batch (ctxStateName ctx) (List.replicate (min mc (items.length + 1)) ((fldStr proc "StartAt").getD []))
      else st).fs := by
      split
      · exact ops.st_batch _ _ h
      · exact h
    generalize (if mc ≠ 0 ∧ i ≠ 0 ∧ i % mc = 0 then
        (st.waitUntil be).batch (ctxStateName ctx) (List.replicate (min mc (items.length + 1)) ((fldStr proc "StartAt").getD []))
      else st) = st0 at g00 ⊢
    split
    · exact g00
    · split
      · apply fs_combine
        apply ih.runItems
        apply fs_at
        apply ops.st_endBranch
        apply fs_iterEnd
        apply ih.runFrom
        apply ops.st_startBranch
        apply fs_push
        exact g00
      · exact g00

end step

theorem presAll {P : FS → Prop} (ops : FrOps P) (env : Env) (n : Nat) : PresAll P env n := by
  induction n with
  | zero => exact presAll_zero P env
  | succ n ih =>
    exact ⟨pres_runFrom_step ops env n ih, pres_leave_step ops env n ih, pres_handleErr_step ops env n ih,
      pres_runState_step ops env n ih, pres_joinAndLeave_step ops env n ih, pres_runBranches_step ops env n ih,
      pres_runItems_step ops env n ih⟩

/-- the well-formedness invariant is such a property -/
theorem wfOps : FrOps FS.WF where
  handover := fun _ t n h => h.handover t n
  closeKeep := fun _ t h => h.closeKeep t
  request := fun _ t b h => h.request t b
  pushLevel := fun _ mc h => h.pushLevel mc
  visit := fun _ k h => h.visit k
  failTok := fun _ h => h.failTok
  launch := fun _ t ns h => h.launch t ns
  startBranch := fun _ h => h.startBranch
  endBranch := fun _ t b h => h.endBranch t b
  join := fun _ b h => h.join b
  batch := fun _ t n ns h => h.batch t n ns

/-! ### the fan-out levels are balanced -/

/-- the fan-out level and the enclosing levels are as they were -/
def Bal (a b : St) : Prop := b.fs.lvl = a.fs.lvl ∧ b.fs.outer = a.fs.outer
/-- the enclosing levels are as they were -/
def BalB (a b : St) : Prop := b.fs.outer = a.fs.outer

theorem Bal.refl (a : St) : Bal a a := ⟨rfl, rfl⟩
theorem Bal.trans {a b c : St} (h1 : Bal a b) (h2 : Bal b c) : Bal a c := ⟨h2.1.trans h1.1, h2.2.trans h1.2⟩
theorem BalB.refl (a : St) : BalB a a := rfl
theorem BalB.trans {a b c : St} (h1 : BalB a b) (h2 : BalB b c) : BalB a c := Eq.trans h2 h1
theorem Bal.toB {a b : St} (h : Bal a b) : BalB a b := h.2

theorem fs_closeKeep_lvl (fs : FS) (t : Rat) : (fs.closeKeep t).lvl = fs.lvl ∧ (fs.closeKeep t).outer = fs.outer := ⟨rfl, rfl⟩
theorem fs_handover_lvl (fs : FS) (t : Rat) (n : Str) : (fs.handover t n).lvl = fs.lvl ∧ (fs.handover t n).outer = fs.outer :=
  ⟨rfl, rfl⟩
theorem fs_request_lvl (fs : FS) (t : Rat) (b : Bool) : (fs.request t b).lvl = fs.lvl ∧ (fs.request t b).outer = fs.outer := by
  unfold FS.request; cases b <;> exact ⟨rfl, rfl⟩
theorem fs_launch_outer (fs : FS) (t : Rat) (ns : List Str) : (fs.launch t ns).outer = fs.outer := by
  unfold FS.launch; split <;> rfl
theorem fs_batch_outer (fs : FS) (t : Rat) (n : Str) (ns : List Str) : (fs.batch t n ns).outer = fs.outer := by
  unfold FS.batch
  simp only
  split
  · rfl
  · unfold FS.batchOn; simp only; rw [fs_launch_outer]; rfl

theorem fs_popLevel_cons (fs : FS) (l : Level) (ls : List Level) (h : fs.outer = l :: ls) :
    (FS.popLevel fs).lvl = l ∧ (FS.popLevel fs).outer = ls := by
  unfold FS.popLevel; rw [h]; exact ⟨rfl, rfl⟩

theorem fs_join_cons (fs : FS) (b : Bool) (l : Level) (ls : List Level) (h : fs.outer = l :: ls) :
    (fs.join b).lvl = l ∧ (fs.join b).outer = ls := by
  unfold FS.join
  simp only
  split
  · exact fs_popLevel_cons fs l ls h
  · unfold FS.joinOn
    exact fs_popLevel_cons _ l ls h

theorem Bal.fr {a b : St} (h : Bal a b) (f : FS → FS) (hf : (f b.fs).lvl = b.fs.lvl ∧ (f b.fs).outer = b.fs.outer) :
    Bal a (b.fr f) := ⟨hf.1.trans h.1, hf.2.trans h.2⟩
theorem Bal.handover {a b : St} (n : Str) (h : Bal a b) : Bal a (b.handover n) := h.fr _ (fs_handover_lvl _ _ _)
theorem Bal.closeKeep {a b : St} (h : Bal a b) : Bal a b.closeKeep := h.fr _ (fs_closeKeep_lvl _ _)
theorem Bal.request {a b : St} (t : Bool) (h : Bal a b) : Bal a (b.request t) := h.fr _ (fs_request_lvl _ _ _)
theorem Bal.visit {a b : St} (ty : Str) (h : Bal a b) : Bal a (b.visit ty) := h.fr _ ⟨rfl, rfl⟩
theorem Bal.failTok {a b : St} (h : Bal a b) : Bal a b.failTok := h.fr _ ⟨rfl, rfl⟩
theorem Bal.retryAfter {a b : St} (n : Str) (d : Rat) (h : Bal a b) : Bal a (b.retryAfter n d) :=
  (h.handover n).closeKeep
theorem Bal.exit {a b : St} (ty n : Str) (d : Json) (h : Bal a b) : Bal a (b.exit ty n d) := h
theorem Bal.enter {a b : St} (ty n : Str) (d : Json) (r : Nat) (h : Bal a b) : Bal a (b.enter ty n d r) := by
  unfold St.enter; split <;> exact h
theorem Bal.push {a b : St} (e : Ev) (h : Bal a b) : Bal a (b.push e) := h
theorem Bal.waitUntil {a b : St} (t : Rat) (h : Bal a b) : Bal a (b.waitUntil t) := h
theorem Bal.fanFailedIf {a b : St} (s : Json) (h : Bal a b) : Bal a (b.fanFailedIf s) := by
  unfold St.fanFailedIf; split <;> exact h
theorem Bal.taskCall {a b : St} (c : List ((Str × Json) × Nat)) (res : Str) (p : Json) (ev : Ev) (t : Rat)
    (h : Bal a b) : Bal a (b.taskCall c res p ev t) := h
theorem Bal.taskSilent {a b : St} (c : List ((Str × Json) × Nat)) (res : Str) (p : Json) (t : Rat)
    (h : Bal a b) : Bal a (b.taskSilent c res p t) := h

theorem BalB.combine {a st2 : St} (r : Res) (t1 : Rat) (rest : Except Res (List Json)) (tOk : Rat)
    (h : BalB a st2) : BalB a (fanCombine r t1 rest st2 tOk).2 := by
  unfold Asl.fanCombine
  repeat' split
  all_goals exact h

structure BalAll (env : Env) (n : Nat) : Prop where
  runFrom : ∀ states name data ctx r st, Bal st (runFrom env n states name data ctx r st).2
  leave : ∀ states name state raw data ctx r st, Bal st (leave env n states name state raw data ctx r st).2
  handleErr : ∀ states name state data ctx r e msg st, Bal st (handleErr env n states name state data ctx r e msg st).2
  runState : ∀ states name state data ctx r st, Bal st (runState env n states name state data ctx r st).2
  joinAndLeave : ∀ states name state data ctx r res st, Bal st (joinAndLeave env n states name state data ctx r res st).2
  runBranches : ∀ bs params ctx st, BalB st (runBranches env n bs params ctx st).2
  runItems : ∀ proc sel input items i mc be ctx bad st, BalB st (runItems env n proc sel input items i mc be ctx bad st).2

theorem balAll_zero (env : Env) : BalAll env 0 := by
  constructor <;> intros <;> simp [runFrom, leave, handleErr, runState, joinAndLeave, runBranches, runItems] <;>
    first | exact Bal.refl _ | exact BalB.refl _

/-- a fan-out: the level is pushed, the branches leave the enclosing levels alone, the join pops it -/
theorem bal_fanout {st st1 st2 : St} (b : Bool) (h1 : st1.fs.outer = st.fs.lvl :: st.fs.outer) (h2 : BalB st1 st2) :
    Bal st (st2.join b) := by
  have ho : st2.fs.outer = st.fs.lvl :: st.fs.outer := Eq.trans h2 h1
  exact fs_join_cons st2.fs b _ _ ho

section bstep
variable (env : Env) (n : Nat) (ih : BalAll env n)
include ih

theorem BalAll.thenFrom {a b : St} (states : Json) (name : Str) (data ctx : Json) (r : Nat) (h : Bal a b) :
    Bal a (Asl.runFrom env n states name data ctx r b).2 := h.trans (ih.runFrom _ _ _ _ _ _)
theorem BalAll.thenLeave {a b : St} (states : Json) (name : Str) (state raw data ctx : Json) (r : Nat) (h : Bal a b) :
    Bal a (Asl.leave env n states name state raw data ctx r b).2 := h.trans (ih.leave _ _ _ _ _ _ _ _)
theorem BalAll.thenErr {a b : St} (states : Json) (name : Str) (state data ctx : Json) (r : Nat) (e msg : Str)
    (h : Bal a b) : Bal a (Asl.handleErr env n states name state data ctx r e msg b).2 :=
  h.trans (ih.handleErr _ _ _ _ _ _ _ _ _)
theorem BalAll.thenState {a b : St} (states : Json) (name : Str) (state data ctx : Json) (r : Nat) (h : Bal a b) :
    Bal a (Asl.runState env n states name state data ctx r b).2 := h.trans (ih.runState _ _ _ _ _ _ _)
theorem BalAll.thenJoin {a b : St} (states : Json) (name : Str) (state data ctx : Json) (r : Nat)
    (res : Except Res (List Json)) (h : Bal a b) :
    Bal a (Asl.joinAndLeave env n states name state data ctx r res b).2 := h.trans (ih.joinAndLeave _ _ _ _ _ _ _ _)

set_option hygiene false in
local macro "bal_step" : tactic => `(tactic|
  repeat' (first
    | split
    | with_reducible exact Bal.refl _
    | with_reducible apply BalAll.thenFrom env n ih
    | with_reducible apply BalAll.thenLeave env n ih
    | with_reducible apply BalAll.thenErr env n ih
    | with_reducible apply BalAll.thenState env n ih
    | with_reducible apply BalAll.thenJoin env n ih
    | with_reducible apply Bal.exit
    | with_reducible apply Bal.enter
    | with_reducible apply Bal.fanFailedIf
    | with_reducible apply Bal.waitUntil
    | with_reducible apply Bal.taskCall
    | with_reducible apply Bal.taskSilent
    | with_reducible apply Bal.push
    | with_reducible apply Bal.handover
    | with_reducible apply Bal.closeKeep
    | with_reducible apply Bal.request
    | with_reducible apply Bal.retryAfter
    | with_reducible apply Bal.visit
    | with_reducible apply Bal.failTok
    | exact Bal.refl _))

theorem bal_runFrom_step (states : Json) (name : Str) (data ctx : Json) (r : Nat) (st : St) :
    Bal st (runFrom env (n + 1) states name data ctx r st).2 := by
  simp only [runFrom]
  bal_step

theorem bal_leave_step (states : Json) (name : Str) (state raw data ctx : Json) (r : Nat) (st : St) :
    Bal st (leave env (n + 1) states name state raw data ctx r st).2 := by
  simp only [leave]
  bal_step

theorem bal_handleErr_step (states : Json) (name : Str) (state data ctx : Json) (r : Nat) (e msg : Str) (st : St) :
    Bal st (handleErr env (n + 1) states name state data ctx r e msg st).2 := by
  simp only [handleErr]
  bal_step

theorem bal_joinAndLeave_step (states : Json) (name : Str) (state data ctx : Json) (r : Nat)
    (res : Except Res (List Json)) (st : St) :
    Bal st (joinAndLeave env (n + 1) states name state data ctx r res st).2 := by
  simp only [joinAndLeave]
  split
  · apply BalAll.thenErr env n ih; exact Bal.refl _
  · exact Bal.refl _
  · bal_step

theorem bal_runState_step (states : Json) (name : Str) (state data ctx : Json) (r : Nat) (st : St) :
    Bal st (runState env (n + 1) states name state data ctx r st).2 := by
  simp only [runState]
  by_cases h1 : stateType state = S "Pass"
  · simp only [if_pos h1]; bal_step
  simp only [if_neg h1]
  by_cases h2 : stateType state = S "Succeed"
  · simp only [if_pos h2]; bal_step
  simp only [if_neg h2]
  by_cases h3 : stateType state = S "Fail"
  · simp only [if_pos h3]; bal_step
  simp only [if_neg h3]
  by_cases h4 : stateType state = S "Wait"
  · simp only [if_pos h4]; bal_step
  simp only [if_neg h4]
  by_cases h5 : stateType state = S "Choice"
  · simp only [if_pos h5]; bal_step
  simp only [if_neg h5]
  by_cases h6 : stateType state = S "Task"
  · simp only [if_pos h6]; bal_step
  simp only [if_neg h6]
  by_cases h7 : stateType state = S "Parallel"
  · simp only [if_pos h7]
    split
    · bal_step
    · split
      · bal_step
      · apply BalAll.thenJoin env n ih
        refine bal_fanout _ ?_ (ih.runBranches _ _ _ _)
        rw [St.launch, St.fr, fs_launch_outer]
        rfl
  simp only [if_neg h7]
  by_cases h8 : stateType state = S "Map"
  · simp only [if_pos h8]
    split
    · bal_step
    · split
      · bal_step
      · apply BalAll.thenJoin env n ih
        refine bal_fanout _ ?_ (ih.runItems _ _ _ _ _ _ _ _ _ _)
        rw [St.launch, St.fr, fs_launch_outer]
        repeat' split
        all_goals rfl
  simp only [if_neg h8]
  exact Bal.refl _

theorem bal_runBranches_step (bs : List Json) (params ctx : Json) (st : St) :
    BalB st (runBranches env (n + 1) bs params ctx st).2 := by
  cases bs with
  | nil => simp only [runBranches]; exact BalB.refl _
  | cons b bs =>
    simp only [runBranches]
    split
    · rename_i start states hs hst
      apply BalB.combine
      have g1 : Bal st (runFrom env n states start params ctx 0 st.startBranch).2 :=
        Bal.trans (a := st) (b := st.startBranch) ⟨rfl, rfl⟩ (ih.runFrom _ _ _ _ _ _)
      have g2 : BalB st (((runFrom env n states start params ctx 0 st.startBranch).2.endBranch
          (isFailed (runFrom env n states start params ctx 0 st.startBranch).1)).at st.clock) := g1.2
      exact g2.trans (ih.runBranches _ _ _ _)
    · exact BalB.refl _

theorem bal_runItems_step (proc : Json) (sel : Option Json) (input : Json) (items : List Json) (i mc : Nat)
    (be : Rat) (ctx : Json) (bad : Bool) (st : St) :
    BalB st (runItems env (n + 1) proc sel input items i mc be ctx bad st).2 := by
  cases items with
  | nil => simp only [runItems]; exact BalB.refl _
  | cons item items =>
    simp only [runItems]
    split
    · exact BalB.refl _
    have g00 : BalB st (if mc ≠ 0 ∧ i ≠ 0 ∧ i % mc = 0 then
        (st.waitUntil be).batch (ctxStateName ctx) (List.replicate (min mc (items.length + 1)) ((fldStr proc "StartAt").getD []))
      else st) := by
      split
      · exact fs_batch_outer _ _ _ _
      · exact BalB.refl _
    generalize (if mc ≠ 0 ∧ i ≠ 0 ∧ i % mc = 0 then
        (st.waitUntil be).batch (ctxStateName ctx) (List.replicate (min mc (items.length + 1)) ((fldStr proc "StartAt").getD []))
      else st) = st0 at g00 ⊢
    split
    · exact g00
    · rename_i params hp
      split
      · rename_i start states hs hst
        apply BalB.combine
        have g1 : Bal st0 (runFrom env n states start params ctx 0 ((st0.push (.iterStarted (ctxStateName ctx) i)).startBranch)).2 :=
          Bal.trans (a := st0) (b := (st0.push (.iterStarted (ctxStateName ctx) i)).startBranch) ⟨rfl, rfl⟩ (ih.runFrom _ _ _ _ _ _)
        have g2 : BalB st0 ((((runFrom env n states start params ctx 0 ((st0.push (.iterStarted (ctxStateName ctx) i)).startBranch)).2.iterEnd
            (ctxStateName ctx) i (runFrom env n states start params ctx 0 ((st0.push (.iterStarted (ctxStateName ctx) i)).startBranch)).1).endBranch
            (isFailed (runFrom env n states start params ctx 0 ((st0.push (.iterStarted (ctxStateName ctx) i)).startBranch)).1)).at st0.clock) := by
          unfold St.iterEnd
          split
          · split <;> exact g1.2
          · exact g1.2
        exact (g00.trans g2).trans (ih.runItems _ _ _ _ _ _ _ _ _ _)
      · exact g00

end bstep

theorem balAll (env : Env) (n : Nat) : BalAll env n := by
  induction n with
  | zero => exact balAll_zero env
  | succ n ih =>
    exact ⟨bal_runFrom_step env n ih, bal_leave_step env n ih, bal_handleErr_step env n ih,
      bal_runState_step env n ih, bal_joinAndLeave_step env n ih, bal_runBranches_step env n ih,
      bal_runItems_step env n ih⟩

end Asl
