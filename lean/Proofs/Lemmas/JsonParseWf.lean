/- what the JSON reader returns is well formed (member names pairwise distinct at every level),
so the printer/parser round trip of JsonRoundTrip.lean applies to every value that was read:
`parseJson t = some d → parseJson (render d) = some d`.  Used by C10 (`create_then_describe`). -/
import Proofs.Lemmas.JsonRoundTrip
namespace Asl

theorem objHas_objSet_ne (acc : List (Str × Json)) (k k' : Str) (v : Json) (h : k ≠ k') :
    objHas (objSet acc k v) k' = objHas acc k' := by
  induction acc with
  | nil => simp [objSet, objHas, objGet, h]
  | cons a acc ih =>
    obtain ⟨k0, v0⟩ := a
    by_cases h0 : k0 = k
    · subst h0
      simp [objSet, objHas, objGet, h]
    · by_cases h1 : k0 = k'
      · subst h1
        simp [objSet, objHas, objGet, h0]
      · have ih' : (objGet (objSet acc k v) k').isSome = (objGet acc k').isSome := by
          simpa [objHas] using ih
        simp [objSet, objHas, objGet, h0, h1, ih']

theorem wfM_objSet (acc : List (Str × Json)) (k : Str) (v : Json)
    (ha : Json.wfM acc = true) (hv : v.wf = true) : Json.wfM (objSet acc k v) = true := by
  induction acc with
  | nil => simp [objSet, Json.wfM, hv, objHas, objGet]
  | cons a acc ih =>
    obtain ⟨k0, v0⟩ := a
    simp only [Json.wfM, Bool.and_eq_true, Bool.not_eq_true'] at ha
    by_cases h0 : k0 = k
    · simp [objSet, h0, Json.wfM, hv, ha.2]
      simpa [h0] using ha.1.1
    · simp only [objSet, h0, if_false, Json.wfM, Bool.and_eq_true, Bool.not_eq_true']
      refine ⟨⟨?_, ha.1.2⟩, ih ha.2⟩
      rw [objHas_objSet_ne acc k k0 v (fun e => h0 e.symm)]
      exact ha.1.1

theorem wfM_foldl_objSet (kvs acc : List (Str × Json)) (ha : Json.wfM acc = true)
    (hk : ∀ kv ∈ kvs, kv.2.wf = true) :
    Json.wfM (kvs.foldl (fun acc (kv : Str × Json) => objSet acc kv.1 kv.2) acc) = true := by
  induction kvs generalizing acc with
  | nil => simpa using ha
  | cons a kvs ih =>
    simp only [List.foldl_cons]
    exact ih _ (wfM_objSet acc a.1 a.2 ha (hk a (by simp))) (fun kv h => hk kv (by simp [h]))

theorem wfM_dedupMembers (kvs : List (Str × Json)) (hk : ∀ kv ∈ kvs, kv.2.wf = true) :
    Json.wfM (dedupMembers kvs) = true := by
  have := wfM_foldl_objSet kvs [] (by simp [Json.wfM]) hk
  simpa [dedupMembers] using this

mutual
/-- `dict` semantics leave no repeated member name anywhere -/
theorem wf_normalise : (j : Json) → (normalise j).wf = true
  | .null => by simp [normalise, Json.wf]
  | .bool _ => by simp [normalise, Json.wf]
  | .num _ => by simp [normalise, Json.wf]
  | .str _ => by simp [normalise, Json.wf]
  | .arr xs => by
    simp only [normalise, Json.wf]
    exact wfL_normaliseL xs
  | .obj kvs => by
    simp only [normalise, Json.wf]
    exact wfM_dedupMembers _ (vals_wf_normaliseM kvs)
theorem wfL_normaliseL : (xs : List Json) → Json.wfL (normaliseL xs) = true
  | [] => by simp [normaliseL, Json.wfL]
  | x :: xs => by
    simp [normaliseL, Json.wfL, wf_normalise x, wfL_normaliseL xs]
theorem vals_wf_normaliseM : (kvs : List (Str × Json)) → ∀ kv ∈ normaliseM kvs, kv.2.wf = true
  | [] => by simp [normaliseM]
  | (k, v) :: kvs => by
    intro kv h
    simp only [normaliseM, List.mem_cons] at h
    rcases h with h | h
    · subst h; exact wf_normalise v
    · exact vals_wf_normaliseM kvs kv h
end

/-- every value the reader returns is well formed -/
theorem parseJson_wf (t : Str) (d : Json) (h : parseJson t = some d) : d.wf = true := by
  unfold parseJson at h
  split at h
  · split at h
    · cases h; exact wf_normalise _
    · cases h
  · cases h

/-- `json.loads(json.dumps(d)) == d` for every `d` that is itself the result of `json.loads` -/
theorem parseJson_render_of_parsed (t : Str) (d : Json) (h : parseJson t = some d) :
    parseJson (render d) = some d :=
  parseJson_render d (parseJson_wf t d h)

end Asl
