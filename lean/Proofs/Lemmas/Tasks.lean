/- helper lemmas for C15: association lists, the cancel cascade as a closure of elementary steps,
   the potential function behind "at most once", the raw token round trip -/
import AslModel.Tasks
namespace Asl.Tasks
open Asl

/-! ### association lists -/

theorem aGet_aDel_self {α : Type} (l : List (Str × α)) (k : Str) : aGet (aDel l k) k = none := by
  induction l with
  | nil => rfl
  | cons h t ih =>
    obtain ⟨k', v⟩ := h
    by_cases hk : k' = k
    · simp [aDel, hk, ih]
    · simp [aDel, aGet, hk, ih]

theorem aGet_aDel_ne {α : Type} (l : List (Str × α)) (k k' : Str) (h : k ≠ k') :
    aGet (aDel l k) k' = aGet l k' := by
  induction l with
  | nil => rfl
  | cons hd t ih =>
    obtain ⟨a, v⟩ := hd
    by_cases ha : a = k
    · subst ha
      simp [aDel, aGet, h, ih]
    · by_cases hb : a = k'
      · subst hb
        simp [aDel, aGet, ha]
      · simp [aDel, aGet, ha, hb, ih]

theorem aGet_aDel_none {α : Type} (l : List (Str × α)) (k k' : Str) (h : aGet l k' = none) :
    aGet (aDel l k) k' = none := by
  by_cases hk : k = k'
  · subst hk; exact aGet_aDel_self l k
  · rw [aGet_aDel_ne l k k' hk]; exact h

theorem aGet_aDel_some {α : Type} (l : List (Str × α)) (k k' : Str) (v : α) (h : aGet (aDel l k) k' = some v) :
    aGet l k' = some v := by
  by_cases hk : k = k'
  · subst hk; rw [aGet_aDel_self] at h; cases h
  · rw [aGet_aDel_ne l k k' hk] at h; exact h

theorem mem_keysFor (cs : List (Str × Canc)) (k : Str) (c : Canc) (h : aGet cs k = some c) :
    k ∈ keysFor cs c.exec := by
  induction cs with
  | nil => cases h
  | cons hd t ih =>
    obtain ⟨a, w⟩ := hd
    by_cases ha : a = k
    · subst ha
      simp [aGet] at h
      subst h
      simp [keysFor]
    · simp [aGet, ha] at h
      have := ih h
      simp only [keysFor, List.mem_map, List.mem_filter] at this ⊢
      obtain ⟨x, ⟨hx1, hx2⟩, hx3⟩ := this
      exact ⟨x, ⟨List.mem_cons_of_mem _ hx1, hx2⟩, hx3⟩

/-! ### the cascade is a closure of elementary steps -/

theorem foldl_closure {P : Disp → Disp → Prop} (f : Disp → Str → Disp)
    (refl : ∀ d, P d d) (trans : ∀ a b c, P a b → P b c → P a c) (hf : ∀ d e, P d (f d e)) :
    ∀ (l : List Str) (d : Disp), P d (l.foldl f d) := by
  intro l
  induction l with
  | nil => intro d; exact refl d
  | cons a t ih => intro d; exact trans _ _ _ (hf d a) (ih (f d a))

/-- any reflexive transitive relation that holds across `cancelOne` holds across `cancelTask` -/
theorem cancelTask_closure {P : Disp → Disp → Prop}
    (refl : ∀ d, P d d) (trans : ∀ a b c, P a b → P b c → P a c)
    (hOne : ∀ d e c, aGet d.cancellers e = some c → P d (cancelOne d e c)) :
    ∀ (n : Nat) (d : Disp) (e : Str), P d (cancelTask n d e) := by
  intro n
  induction n with
  | zero => intro d e; exact refl d
  | succ n ih =>
    intro d e
    unfold cancelTask
    split
    · exact refl d
    · rename_i c hc
      split
      · exact trans _ _ _ (hOne d e c hc) (foldl_closure (cancelTask n) refl trans ih _ _)
      · exact hOne d e c hc

theorem cancelTask_none (n : Nat) (d : Disp) (e : Str) (h : aGet d.cancellers e = none) :
    cancelTask n d e = d := by
  cases n with
  | zero => rfl
  | succ n => unfold cancelTask; rw [h]

/-! ### monotonicity: nothing is ever added by a cancellation -/

def Shrinks (a b : Disp) : Prop :=
  (∀ k, aGet a.pending k = none → aGet b.pending k = none) ∧
  (∀ k, aGet a.cancellers k = none → aGet b.cancellers k = none) ∧
  (∀ k c, aGet b.cancellers k = some c → aGet a.cancellers k = some c) ∧
  (∀ k c, aGet a.cancellers k = some c → c.type ≠ .timeout →
      aGet b.cancellers k = some c ∨ (aGet b.cancellers k = none ∧ aGet b.pending c.taskId = none))

theorem Shrinks.refl (d : Disp) : Shrinks d d :=
  ⟨fun _ h => h, fun _ h => h, fun _ _ h => h, fun _ _ h _ => Or.inl h⟩

theorem Shrinks.trans (a b c : Disp) (h1 : Shrinks a b) (h2 : Shrinks b c) : Shrinks a c := by
  obtain ⟨p1, c1, s1, q1⟩ := h1
  obtain ⟨p2, c2, s2, q2⟩ := h2
  refine ⟨fun k h => p2 k (p1 k h), fun k h => c2 k (c1 k h), fun k x h => s1 k x (s2 k x h), ?_⟩
  intro k x hx ht
  rcases q1 k x hx ht with h | ⟨h, h'⟩
  · exact q2 k x h ht
  · exact Or.inr ⟨c2 k h, p2 _ h'⟩

theorem cancelReq_pending (d : Disp) (k k' : Str) (h : aGet d.pending k' = none) :
    aGet (cancelReq d k).pending k' = none := by
  unfold cancelReq
  split
  · exact aGet_aDel_none _ _ _ h
  · exact h

theorem cancelReq_pending_self (d : Disp) (k : Str) : aGet (cancelReq d k).pending k = none := by
  unfold cancelReq
  split
  · exact aGet_aDel_self _ _
  · rename_i h; exact h

theorem cancelReq_cancellers (d : Disp) (k : Str) : (cancelReq d k).cancellers = d.cancellers := by
  unfold cancelReq
  split <;> rfl

theorem cancelOne_cancellers (d : Disp) (e : Str) (c : Canc) :
    (cancelOne d e c).cancellers = aDel d.cancellers e := by
  unfold cancelOne
  split
  · rfl
  · rw [cancelReq_cancellers]; rfl

theorem cancelOne_pending_none (d : Disp) (e : Str) (c : Canc) (k : Str) (h : aGet d.pending k = none) :
    aGet (cancelOne d e c).pending k = none := by
  unfold cancelOne
  split
  · exact h
  · exact cancelReq_pending _ _ _ h

theorem cancelOne_pending_task (d : Disp) (e : Str) (c : Canc) (ht : c.type ≠ .timeout) :
    aGet (cancelOne d e c).pending c.taskId = none := by
  unfold cancelOne
  split
  · rename_i h; exact absurd h ht
  · exact cancelReq_pending_self _ _

theorem cancelOne_shrinks (d : Disp) (e : Str) (c : Canc) (hc : aGet d.cancellers e = some c) :
    Shrinks d (cancelOne d e c) := by
  refine ⟨fun k h => cancelOne_pending_none d e c k h, ?_, ?_, ?_⟩
  · intro k h; rw [cancelOne_cancellers]; exact aGet_aDel_none _ _ _ h
  · intro k x h; rw [cancelOne_cancellers] at h; exact aGet_aDel_some _ _ _ _ h
  · intro k x hx ht
    rw [cancelOne_cancellers]
    by_cases hk : e = k
    · subst hk
      rw [hc] at hx
      cases hx
      exact Or.inr ⟨aGet_aDel_self _ _, cancelOne_pending_task d e c ht⟩
    · exact Or.inl (by rw [aGet_aDel_ne _ _ _ hk]; exact hx)

theorem cancelTask_shrinks (n : Nat) (d : Disp) (e : Str) : Shrinks d (cancelTask n d e) :=
  cancelTask_closure Shrinks.refl Shrinks.trans cancelOne_shrinks n d e

theorem foldl_shrinks (n : Nat) (l : List Str) (d : Disp) : Shrinks d (l.foldl (cancelTask n) d) :=
  foldl_closure (cancelTask n) Shrinks.refl Shrinks.trans (cancelTask_shrinks n) l d

/-- `cancel_task(e)` consumes the canceller of `e` -/
theorem cancelTask_removes (n : Nat) (d : Disp) (e : Str) : aGet (cancelTask (n + 1) d e).cancellers e = none := by
  unfold cancelTask
  split
  · rename_i h; exact h
  · rename_i c hc
    have h1 : aGet (cancelOne d e c).cancellers e = none := by
      rw [cancelOne_cancellers]; exact aGet_aDel_self _ _
    split
    · exact (foldl_shrinks n _ _).2.1 e h1
    · exact h1

/-- folding `cancel_task` over a list of event ids consumes the canceller of each of them -/
theorem foldl_removes (n : Nat) (k : Str) : ∀ (l : List Str) (d : Disp), k ∈ l →
    aGet (l.foldl (cancelTask (n + 1)) d).cancellers k = none := by
  intro l
  induction l with
  | nil => intro d h; cases h
  | cons a t ih =>
    intro d h
    by_cases hk : k = a
    · subst hk
      exact (foldl_shrinks (n + 1) t _).2.1 k (cancelTask_removes n d k)
    · have : k ∈ t := by
        cases h with
        | head => exact absurd rfl hk
        | tail _ h' => exact h'
      exact ih _ this

/-! ### the potential function behind "at most once" -/

def hasKey (p : List (Str × Req)) (cid : Str) : Nat := if (aGet p cid).isSome then 1 else 0

/-- completions logged under `cid` plus one if `cid` is still pending -/
def phi (cid : Str) (d : Disp) : Nat := countKey cid d.log + hasKey d.pending cid

theorem countKey_append (cid : Str) (l : List Completion) (c : Completion) :
    countKey cid (l ++ [c]) = countKey cid l + (if counts cid c then 1 else 0) := by
  unfold countKey
  rw [List.filter_append, List.length_append]
  by_cases h : counts cid c = true
  · simp [List.filter, h]
  · simp [List.filter, h]

theorem hasKey_aDel_self (p : List (Str × Req)) (cid : Str) : hasKey (aDel p cid) cid = 0 := by
  unfold hasKey; rw [aGet_aDel_self]; rfl

theorem hasKey_aDel_ne (p : List (Str × Req)) (k cid : Str) (h : k ≠ cid) : hasKey (aDel p k) cid = hasKey p cid := by
  unfold hasKey; rw [aGet_aDel_ne _ _ _ h]

theorem hasKey_some (p : List (Str × Req)) (cid : Str) (r : Req) (h : aGet p cid = some r) : hasKey p cid = 1 := by
  unfold hasKey; rw [h]; rfl

theorem hasKey_none (p : List (Str × Req)) (cid : Str) (h : aGet p cid = none) : hasKey p cid = 0 := by
  unfold hasKey; rw [h]; rfl

/-- taking request `k` off the table and logging one completion under `k` does not raise the potential -/
theorem phi_resolve (cid : Str) (d : Disp) (k : Str) (r : Req) (c : Completion) (hk : c.key = k)
    (hp : aGet d.pending k = some r) :
    phi cid { d with pending := aDel d.pending k, log := d.log ++ [c] } ≤ phi cid d := by
  unfold phi
  simp only [countKey_append]
  by_cases h : k = cid
  · subst h
    rw [hasKey_aDel_self, hasKey_some _ _ _ hp]
    split <;> omega
  · rw [hasKey_aDel_ne _ _ _ h]
    have : counts cid c = false := by
      unfold counts
      have : (c.key == cid) = false := by rw [hk]; exact beq_false_of_ne h
      rw [this]; rfl
    rw [this]
    simp

theorem phi_cancelOne (cid : Str) (d : Disp) (e : Str) (c : Canc) : phi cid (cancelOne d e c) ≤ phi cid d := by
  unfold cancelOne
  split
  · -- a cancelled Wait: logged as waitCancel, which is not counted
    unfold logWait dropCanc phi
    simp only [countKey_append]
    have : counts cid ⟨e, c.taskId, Via.waitCancel, terminated⟩ = false := by
      unfold counts; simp
    rw [this]; simp
  · unfold cancelReq
    split
    · rename_i r hr
      exact phi_resolve cid (dropCanc d e) c.taskId r _ rfl hr
    · exact Nat.le_refl _

theorem phi_cancelTask (cid : Str) (n : Nat) (d : Disp) (e : Str) : phi cid (cancelTask n d e) ≤ phi cid d :=
  cancelTask_closure (P := fun a b => phi cid b ≤ phi cid a) (fun _ => Nat.le_refl _)
    (fun _ _ _ h1 h2 => Nat.le_trans h2 h1) (fun d e c _ => phi_cancelOne cid d e c) n d e

/-- a Task state's `on_response` after its request `k` was taken off the table -/
theorem phi_complete_resolve (cid : Str) (d : Disp) (k : Str) (r : Req) (c : Completion) (hk : c.key = k)
    (hp : aGet d.pending k = some r) :
    phi cid (complete { d with pending := aDel d.pending k } c) ≤ phi cid d := by
  have h0 := phi_resolve cid d k r c hk hp
  unfold complete
  split
  · exact h0
  · exact Nat.le_trans (phi_cancelTask cid _ _ _) h0

/-! ### only cancellations are logged by a cascade -/

def LogExt (a b : Disp) : Prop :=
  ∃ extra, b.log = a.log ++ extra ∧ ∀ c ∈ extra, c.via = .cancel ∨ c.via = .waitCancel

theorem LogExt.refl (d : Disp) : LogExt d d := ⟨[], by simp, by simp⟩

theorem LogExt.trans (a b c : Disp) (h1 : LogExt a b) (h2 : LogExt b c) : LogExt a c := by
  obtain ⟨x, hx, hx'⟩ := h1
  obtain ⟨y, hy, hy'⟩ := h2
  refine ⟨x ++ y, by rw [hy, hx, List.append_assoc], ?_⟩
  intro c hc
  rcases List.mem_append.mp hc with h | h
  · exact hx' c h
  · exact hy' c h

theorem logExt_cancelOne (d : Disp) (e : Str) (c : Canc) : LogExt d (cancelOne d e c) := by
  unfold cancelOne
  split
  · exact ⟨[_], rfl, by simp⟩
  · unfold cancelReq
    split
    · exact ⟨[_], rfl, by simp⟩
    · exact LogExt.refl _

theorem logExt_cancelTask (n : Nat) (d : Disp) (e : Str) : LogExt d (cancelTask n d e) :=
  cancelTask_closure LogExt.refl LogExt.trans (fun d e c _ => logExt_cancelOne d e c) n d e

/-! ### the raw token -/

theorem breakAt_append (c : Char) (a b : Str) (h : c ∉ a) : breakAt c (a ++ c :: b) = some (a, b) := by
  induction a with
  | nil => simp [breakAt]
  | cons x xs ih =>
    have hx : x ≠ c := fun e => h (by rw [e]; exact List.mem_cons_self)
    have hxs : c ∉ xs := fun m => h (List.mem_cons_of_mem _ m)
    simp [breakAt, hx, ih hxs]

theorem isPrefix_append (a b : Str) : isPrefix a (a ++ b) = true := by
  induction a with
  | nil => rfl
  | cons x xs ih => simp [isPrefix, ih]

theorem endsWith_append (a suf : Str) : endsWith (a ++ suf) suf = true := by
  unfold endsWith
  rw [List.reverse_append]
  exact isPrefix_append _ _

/-! ### `complete`, `onReply`, `step` against the potential function -/

theorem aGet_aSet_ne {α : Type} (l : List (Str × α)) (k k' : Str) (v : α) (h : k ≠ k') :
    aGet (aSet l k v) k' = aGet l k' := by
  unfold aSet
  rw [← aGet_aDel_ne l k k' h]
  induction (aDel l k) with
  | nil => simp [aGet, h]
  | cons hd t ih =>
    obtain ⟨a, w⟩ := hd
    by_cases ha : a = k' <;> simp [aGet, ha, ih]

theorem hasKey_aSet_ne (p : List (Str × Req)) (k cid : Str) (v : Req) (h : k ≠ cid) :
    hasKey (aSet p k v) cid = hasKey p cid := by
  unfold hasKey; rw [aGet_aSet_ne _ _ _ _ h]

theorem counts_ne (cid : Str) (c : Completion) (h : c.key ≠ cid) : counts cid c = false := by
  unfold counts
  have : (c.key == cid) = false := beq_false_of_ne h
  rw [this]; rfl

/-- a completion logged under another correlation id does not raise the potential of `cid` -/
theorem phi_complete_other (cid : Str) (d : Disp) (c : Completion) (h : c.key ≠ cid) :
    phi cid (complete d c) ≤ phi cid d := by
  have h0 : phi cid { d with log := d.log ++ [c] } ≤ phi cid d := by
    unfold phi
    simp only [countKey_append, counts_ne cid c h]
    simp
  unfold complete
  split
  · exact h0
  · exact Nat.le_trans (phi_cancelTask cid _ _ _) h0

/-- what `on_response` leaves behind: the completion, then only cancellations; nothing becomes pending -/
theorem complete_spec (d : Disp) (c : Completion) :
    (∃ extra, (complete d c).log = d.log ++ c :: extra ∧ ∀ x ∈ extra, x.via = .cancel ∨ x.via = .waitCancel) ∧
    (∀ k, aGet d.pending k = none → aGet (complete d c).pending k = none) := by
  unfold complete
  split
  · exact ⟨⟨[], rfl, by simp⟩, fun _ h => h⟩
  · constructor
    · obtain ⟨extra, he, hv⟩ := logExt_cancelTask (Disp.fuel { d with log := d.log ++ [c] }) { d with log := d.log ++ [c] } c.owner
      refine ⟨extra, ?_, hv⟩
      rw [he]; simp
    · intro k h
      exact (cancelTask_shrinks _ { d with log := d.log ++ [c] } c.owner).1 k h

theorem phi_onReply (q : Quirks) (cid : Str) (d : Disp) (k : Str) (cb : Option Bool) (body : Json) :
    phi cid (onReply q d k cb body) ≤ phi cid d := by
  unfold onReply
  split
  · exact Nat.le_refl _
  · split
    · exact Nat.le_refl _
    · rename_i r hr
      split
      · exact phi_complete_resolve cid d k r _ rfl hr
      · exact phi_complete_resolve cid d k r _ rfl hr

theorem phi_onChildEnd (cid : Str) (d : Disp) (k : Str) (det : Detail) (i o : Json) :
    phi cid (onChildEnd d k det i o) ≤ phi cid d := by
  unfold onChildEnd
  split
  · exact Nat.le_refl _
  · rename_i r hr
    split
    · exact phi_complete_resolve cid d k r _ rfl hr
    · exact phi_complete_resolve cid d k r _ rfl hr

theorem phi_onTimeout (cid : Str) (d : Disp) (k : Str) : phi cid (onTimeout d k) ≤ phi cid d := by
  unfold onTimeout
  split
  · exact Nat.le_refl _
  · rename_i r hr
    exact phi_complete_resolve cid d k r _ rfl hr

theorem phi_sendTask (cid : Str) (d : Disp) (tok : Str) (s : Bool) (body : Json) :
    phi cid (sendTask Quirks.none d tok s body).2.1 ≤ phi cid d := by
  unfold sendTask
  split
  · exact Nat.le_refl _
  · split
    · exact phi_onReply _ cid d _ _ _
    · split
      · rename_i h; cases h
      · exact Nat.le_refl _

theorem phi_launch (cid : Str) (d : Disp) (l : Launch) (si : Json) (h : corrId l ≠ cid) :
    phi cid (launch d l si) ≤ phi cid d := by
  unfold launch
  split
  · exact phi_complete_other cid d _ h
  · split
    · rename_i hf
      have hk : l.childArn ≠ cid := by
        intro e; apply h; unfold corrId; rw [hf]; simpa using e
      exact phi_complete_other cid { d with started := d.started ++ [(l.childArn, true)] } _ hk
    · unfold phi
      simp only [hasKey_aSet_ne _ _ _ _ h]
      exact Nat.le_refl _

theorem phi_step (cid : Str) (d : Disp) (op : Op) (h : op.registers cid = false) :
    phi cid (step Quirks.none d op) ≤ phi cid d := by
  cases op with
  | launch l si =>
    have : corrId l ≠ cid := by simpa [Op.registers] using h
    exact phi_launch cid d l si this
  | rpc k e x =>
    have : rpcCid k e ≠ cid := by simpa [Op.registers] using h
    unfold step launchRpc phi
    simp only [hasKey_aSet_ne _ _ _ _ this]
    exact Nat.le_refl _
  | wait e x => exact Nat.le_refl _
  | reply k cb body => exact phi_onReply _ cid d k cb body
  | childEnd k det i o => exact phi_onChildEnd cid d k det i o
  | timeout k => exact phi_onTimeout cid d k
  | cancel e => exact phi_cancelTask cid _ d e
  | send tok s body => exact phi_sendTask cid d tok s body

theorem phi_run (cid : Str) : ∀ (ops : List Op) (d : Disp), (∀ op ∈ ops, op.registers cid = false) →
    phi cid (run Quirks.none d ops) ≤ phi cid d := by
  intro ops
  induction ops with
  | nil => intro d _; exact Nat.le_refl _
  | cons op t ih =>
    intro d h
    have h1 := phi_step cid d op (h op List.mem_cons_self)
    have h2 := ih (step Quirks.none d op) (fun o ho => h o (List.mem_cons_of_mem _ ho))
    exact Nat.le_trans h2 h1

theorem length_pos_of_aGet {α : Type} (l : List (Str × α)) (k : Str) (v : α) (h : aGet l k = some v) :
    1 ≤ l.length := by
  cases l with
  | nil => cases h
  | cons _ _ => simp

theorem complete_err_fresh (d : Disp) (o k : Str) (v : Via) (n : Str) (cz : Json)
    (hfresh : aGet d.cancellers o = none) :
    complete d ⟨o, k, v, .err n cz⟩ = { d with log := d.log ++ [⟨o, k, v, .err n cz⟩] } := by
  unfold complete
  exact cancelTask_none _ _ _ hfresh

/-- the state in which the Task state's error path runs after the timeout of request `cid` -/
def timedOut (d : Disp) (cid : Str) (r : Req) : Disp :=
  { d with pending := aDel d.pending cid, log := d.log ++ [⟨r.owner, cid, .timeout, .err sTimeout (.str [])⟩] }

theorem onTimeout_some (d : Disp) (cid : Str) (r : Req) (hp : aGet d.pending cid = some r) :
    onTimeout d cid = cancelTask (d.cancellers.length + 1) (timedOut d cid r) r.owner := by
  unfold onTimeout
  rw [hp]
  rfl

end Asl.Tasks
