/-
The Base64 round trip of `States.Base64Encode` / `States.Base64Decode`:

* `utf8Dec (utf8Str s) = some s` for every string `s` — every `Char` is a Unicode scalar
  value (no surrogates, below 1114112), which is exactly what the strict decoder demands of
  the four length classes (no overlong forms, no surrogates, ≤ U+10FFFF);
* every number `utf8Str` produces is a byte (`< 256`);
* `b64Dec (b64Enc bs) = some bs` for every list of bytes `bs`, of any length (full groups of
  three, and the 1- and 2-byte remainders with `==` / `=` padding), through the strict
  decoder (groups of four, alphabet validation, padding only in the last group);
* composed: `fnBase64Decode [.str (b64Enc (utf8Str s))] = .ok (.str s)`.
-/
import AslModel.Intrinsic
namespace Asl

/-! ### UTF-8 -/

theorem u8_scalar (c : Char) :
    c.toNat < 55296 ∨ (57343 < c.toNat ∧ c.toNat < 1114112) := by
  have := c.valid
  simp only [UInt32.isValidChar, Nat.isValidChar] at this
  simp only [Char.toNat]
  omega

theorem utf8Dec_one (a : Nat) (r : List Nat) (h : a < 128) :
    utf8Dec (a :: r) = (utf8Dec r).map (Char.ofNat a :: ·) := by
  rw [utf8Dec.eq_def]; simp only [h, if_true]

theorem utf8Dec_two (a b : Nat) (r : List Nat) (h1 : 192 ≤ a) (h2 : a < 224)
    (hb : 128 ≤ b ∧ b < 192) (hn : 128 ≤ (a - 192) * 64 + (b - 128)) :
    utf8Dec (a :: b :: r) = (utf8Dec r).map (Char.ofNat ((a - 192) * 64 + (b - 128)) :: ·) := by
  have h0 : ¬ a < 128 := by omega
  rw [utf8Dec.eq_def]
  simp [h0, h2, h1, hn, isCont, hb.1, hb.2]

theorem utf8Dec_three (a b c : Nat) (r : List Nat) (h1 : 224 ≤ a) (h2 : a < 240)
    (hb : 128 ≤ b ∧ b < 192) (hc : 128 ≤ c ∧ c < 192)
    (hn : 2048 ≤ (a - 224) * 4096 + (b - 128) * 64 + (c - 128))
    (hs : ¬ (55296 ≤ (a - 224) * 4096 + (b - 128) * 64 + (c - 128) ∧
      (a - 224) * 4096 + (b - 128) * 64 + (c - 128) < 57344)) :
    utf8Dec (a :: b :: c :: r) =
      (utf8Dec r).map (Char.ofNat ((a - 224) * 4096 + (b - 128) * 64 + (c - 128)) :: ·) := by
  have h0 : ¬ a < 128 := by omega
  have h0' : ¬ a < 224 := by omega
  rw [utf8Dec.eq_def]
  simp only [h0, h0', h2, if_true, if_false, isCont, hb.1, hb.2, hc.1, hc.2, hn, hs,
    decide_true, Bool.and_self, not_false_eq_true, and_self]

theorem utf8Dec_four (a b c d : Nat) (r : List Nat) (h1 : 240 ≤ a) (h2 : a < 248)
    (hb : 128 ≤ b ∧ b < 192) (hc : 128 ≤ c ∧ c < 192) (hd : 128 ≤ d ∧ d < 192)
    (hn : 65536 ≤ (a - 240) * 262144 + (b - 128) * 4096 + (c - 128) * 64 + (d - 128))
    (hm : (a - 240) * 262144 + (b - 128) * 4096 + (c - 128) * 64 + (d - 128) < 1114112) :
    utf8Dec (a :: b :: c :: d :: r) =
      (utf8Dec r).map
        (Char.ofNat ((a - 240) * 262144 + (b - 128) * 4096 + (c - 128) * 64 + (d - 128)) :: ·) := by
  have h0 : ¬ a < 128 := by omega
  have h0' : ¬ a < 224 := by omega
  have h0'' : ¬ a < 240 := by omega
  rw [utf8Dec.eq_def]
  simp only [h0, h0', h0'', h2, if_true, if_false, isCont, hb.1, hb.2, hc.1, hc.2, hd.1, hd.2,
    hn, hm, decide_true, Bool.and_self, and_self]

/-- one character: its bytes in front of anything decode to it in front of the rest -/
theorem utf8Dec_utf8 (c : Char) (rest : List Nat) :
    utf8Dec (utf8 c ++ rest) = (utf8Dec rest).map (c :: ·) := by
  have hv := u8_scalar c
  have hc : Char.ofNat c.toNat = c := Char.ofNat_toNat c
  unfold utf8
  generalize c.toNat = n at hv hc
  simp only []
  by_cases h1 : n < 128
  · simp only [h1, if_true, List.cons_append, List.nil_append]
    rw [utf8Dec_one _ _ h1, hc]
  by_cases h2 : n < 2048
  · simp only [h1, h2, if_true, if_false, List.cons_append, List.nil_append]
    rw [utf8Dec_two _ _ _ (by omega) (by omega) (by omega) (by omega)]
    have : (192 + n / 64 - 192) * 64 + (128 + n % 64 - 128) = n := by omega
    rw [this, hc]
  by_cases h3 : n < 65536
  · simp only [h1, h2, h3, if_true, if_false, List.cons_append, List.nil_append]
    have : (224 + n / 4096 - 224) * 4096 + (128 + n / 64 % 64 - 128) * 64 + (128 + n % 64 - 128) = n := by
      omega
    rw [utf8Dec_three _ _ _ _ (by omega) (by omega) (by omega) (by omega) (by omega) (by omega)]
    rw [this, hc]
  · simp only [h1, h2, h3, if_false, List.cons_append, List.nil_append]
    have : (240 + n / 262144 - 240) * 262144 + (128 + n / 4096 % 64 - 128) * 4096 +
        (128 + n / 64 % 64 - 128) * 64 + (128 + n % 64 - 128) = n := by
      omega
    rw [utf8Dec_four _ _ _ _ _ (by omega) (by omega) (by omega) (by omega) (by omega) (by omega)
      (by omega)]
    rw [this, hc]

theorem utf8Dec_utf8Str (s : Str) : utf8Dec (utf8Str s) = some s := by
  induction s with
  | nil => simp [utf8Str, utf8Dec]
  | cons c cs ih => simp only [utf8Str, utf8Dec_utf8, ih, Option.map_some]

theorem utf8_lt (c : Char) : ∀ b ∈ utf8 c, b < 256 := by
  have hv := u8_scalar c
  unfold utf8
  generalize c.toNat = n at hv
  simp only []
  intro b hb
  split at hb
  · simp only [List.mem_singleton] at hb; omega
  split at hb
  · simp only [List.mem_cons, List.not_mem_nil, or_false] at hb; omega
  split at hb
  · simp only [List.mem_cons, List.not_mem_nil, or_false] at hb; omega
  · simp only [List.mem_cons, List.not_mem_nil, or_false] at hb; omega

theorem utf8Str_lt (s : Str) : ∀ b ∈ utf8Str s, b < 256 := by
  induction s with
  | nil => simp [utf8Str]
  | cons c cs ih =>
    intro b hb
    simp only [utf8Str, List.mem_append] at hb
    cases hb with
    | inl h => exact utf8_lt c b h
    | inr h => exact ih b h

/-! ### base64 -/

theorem b64Val_b64Char : ∀ n, n < 64 → b64Val (b64Char n) = some n := by decide
theorem b64Char_ne_pad : ∀ n, n < 64 → b64Char n ≠ '=' := by decide

theorem b64Dec_group (a b c d : Char) (rest : Str) (x y z w : Nat)
    (ha : b64Val a = some x) (hb : b64Val b = some y) (hc : b64Val c = some z)
    (hd : b64Val d = some w) (hne : d ≠ '=') :
    b64Dec (a :: b :: c :: d :: rest) =
      (b64Dec rest).map (fun t => (x * 4 + y / 16) :: (y % 16 * 16 + z / 4) :: (z % 4 * 64 + w) :: t) := by
  rw [b64Dec.eq_def]
  split
  · next h => simp at h
  · next h => simp only [List.cons.injEq] at h; exact absurd h.2.2.2.1 hne
  · next h => simp only [List.cons.injEq] at h; exact absurd h.2.2.2.1 hne
  · next h =>
    simp only [List.cons.injEq] at h
    obtain ⟨rfl, rfl, rfl, rfl, rfl⟩ := h
    simp only [ha, hb, hc, hd]
  · next h => exact absurd rfl (h _ _ _ _ _)

theorem b64Dec_pad1 (a b c : Char) (x y z : Nat)
    (ha : b64Val a = some x) (hb : b64Val b = some y) (hc : b64Val c = some z) (hne : c ≠ '=') :
    b64Dec [a, b, c, '='] = some [x * 4 + y / 16, y % 16 * 16 + z / 4] := by
  rw [b64Dec.eq_def]
  split
  · next h => simp at h
  · next h => simp only [List.cons.injEq] at h; exact absurd h.2.2.1 hne
  · next h =>
    simp only [List.cons.injEq] at h
    obtain ⟨rfl, rfl, rfl, _⟩ := h
    simp only [ha, hb, hc]
  · next h1 h2 h =>
    simp only [List.cons.injEq] at h
    obtain ⟨rfl, rfl, rfl, rfl, rfl⟩ := h
    exact absurd rfl (h2 rfl)
  · next h _ => exact absurd rfl (h _ _ _)

theorem b64Dec_pad2 (a b : Char) (x y : Nat)
    (ha : b64Val a = some x) (hb : b64Val b = some y) :
    b64Dec [a, b, '=', '='] = some [x * 4 + y / 16] := by
  rw [b64Dec.eq_def]
  split
  · next h => simp at h
  · next h =>
    simp only [List.cons.injEq] at h
    obtain ⟨rfl, rfl, _⟩ := h
    simp only [ha, hb]
  · next h1 h =>
    simp only [List.cons.injEq] at h
    exact absurd h.2.2.1.symm h1
  · next h1 h2 h =>
    simp only [List.cons.injEq] at h
    obtain ⟨rfl, rfl, rfl, rfl, rfl⟩ := h
    exact absurd rfl (h2 rfl)
  · next h _ _ => exact absurd rfl (h _ _)

/-- bytes (numbers below 256) survive base64 -/
theorem b64Dec_b64Enc : ∀ (n : Nat) (bs : List Nat), bs.length ≤ n → (∀ b ∈ bs, b < 256) →
    b64Dec (b64Enc bs) = some bs := by
  intro n
  induction n with
  | zero =>
    intro bs hl _
    cases bs with
    | nil => simp [b64Enc, b64Dec]
    | cons _ _ => simp at hl
  | succ n ih =>
    intro bs hl hb
    match bs, hl, hb with
    | [], _, _ => simp [b64Enc, b64Dec]
    | [a], _, hb =>
      have ha : a < 256 := hb a (by simp)
      simp only [b64Enc]
      rw [b64Dec_pad2 _ _ _ _ (b64Val_b64Char _ (by omega)) (b64Val_b64Char _ (by omega))]
      congr 2; omega
    | [a, b], _, hb =>
      have ha : a < 256 := hb a (by simp)
      have hb' : b < 256 := hb b (by simp)
      simp only [b64Enc]
      rw [b64Dec_pad1 _ _ _ _ _ _ (b64Val_b64Char _ (by omega)) (b64Val_b64Char _ (by omega))
        (b64Val_b64Char _ (by omega)) (b64Char_ne_pad _ (by omega))]
      congr 2
      · omega
      · congr 1; omega
    | a :: b :: c :: rest, hl, hb =>
      have ha : a < 256 := hb a (by simp)
      have hb' : b < 256 := hb b (by simp)
      have hc : c < 256 := hb c (by simp)
      have hr : ∀ x ∈ rest, x < 256 := fun x hx => hb x (by simp [hx])
      simp only [b64Enc]
      rw [b64Dec_group _ _ _ _ _ _ _ _ _ (b64Val_b64Char _ (by omega)) (b64Val_b64Char _ (by omega))
        (b64Val_b64Char _ (by omega)) (b64Val_b64Char _ (by omega)) (b64Char_ne_pad _ (by omega))]
      rw [ih rest (by simp at hl; omega) hr]
      simp only [Option.map_some]
      congr 2
      · omega
      · congr 1
        · omega
        · congr 1; omega

theorem b64_roundtrip (bs : List Nat) (h : ∀ b ∈ bs, b < 256) : b64Dec (b64Enc bs) = some bs :=
  b64Dec_b64Enc bs.length bs (Nat.le_refl _) h

/-! ### composed -/

theorem base64_utf8_roundtrip (s : Str) :
    (b64Dec (b64Enc (utf8Str s))).bind utf8Dec = some s := by
  rw [b64_roundtrip _ (utf8Str_lt s)]
  exact utf8Dec_utf8Str s

theorem fnBase64_roundtrip (s : Str) :
    fnBase64Encode [.str s] = .ok (.str (b64Enc (utf8Str s))) ∧
    fnBase64Decode [.str (b64Enc (utf8Str s))] = .ok (.str s) := by
  refine ⟨rfl, ?_⟩
  simp only [fnBase64Decode, b64_roundtrip _ (utf8Str_lt s), utf8Dec_utf8Str]

/-! ### the model agrees with RFC 4648 / `base64.b64encode(s.encode())` on samples -/

example : b64Enc (utf8Str "héllo€😀".toList) = "aMOpbGxv4oKs8J+YgA==".toList := by decide
example : b64Enc (utf8Str "a".toList) = "YQ==".toList := by decide
example : b64Enc (utf8Str "ab".toList) = "YWI=".toList := by decide
example : b64Enc (utf8Str "abc".toList) = "YWJj".toList := by decide
example : b64Enc (utf8Str [Char.ofNat 1114111, Char.ofNat 55295]) = "9I+/v+2fvw==".toList := by
  decide
/-- the decoder is strict: bad length, bad alphabet, inner padding, overlong UTF-8, surrogates -/
example : b64Dec "YWJ".toList = none ∧ b64Dec "YW*j".toList = none ∧
    b64Dec "YQ==YWJj".toList = none ∧ utf8Dec [192, 128] = none ∧
    utf8Dec [237, 160, 128] = none := by decide

end Asl
