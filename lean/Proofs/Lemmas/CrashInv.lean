/-
The invariants of the crash protocol (AslModel/Crash.lean) that do not depend on the class of skeletons:

* `Dur K c` — the durable part: distinct event ids, distinct correlation ids, every reply answers a request that was
  sent, an event whose request was sent is a Task event and its reply is still in the reply queue, something is left
  to do or the terminal notification is out.  It is insensitive to the delivery flags (so a crash keeps it) and it
  is preserved by every prefix of a handler's broker operations that is *ordered* (`ok`: the event is acknowledged
  only after its successor / the terminal notification was published, the reply after the event) — C03's rule.
* `VolI c` — the engine's memory describes the queues: timers, pending requests, retained orphans and the joins'
  held messages are unacknowledged messages of the queues, and every unacknowledged message is accounted for.
-/
import Proofs.Lemmas.CrashBasic
namespace Asl.Crash

def isTaskKind : EvKind → Bool
  | .visit (.task _ _) _ _ _ => true
  | .visit (.child _ _ _) _ _ _ => true
  | _ => false

/-- kinds of events that go on from a timer -/
def timerKind : EvKind → Bool
  | .visit (.task _ _) _ _ _ => true
  | .visit (.child _ _ _) _ _ _ => true
  | .visit (.wait _) _ _ _ => true
  | .visit (.par _ _ _) _ _ _ => true
  | .reenter _ _ _ _ => true
  | _ => false

/-- the flag-free view of the event queue -/
def evK (c : Cfg) : List (Nat × EvKind) := c.evq.map (fun e => (e.id, e.kind))
def rpC (c : Cfg) : List Nat := c.rpq.map (·.corr)

theorem mem_evK {c : Cfg} {e : QEv} (h : e ∈ c.evq) : (e.id, e.kind) ∈ evK c :=
  List.mem_map.mpr ⟨e, h, rfl⟩

theorem evK_ids (c : Cfg) : (evK c).map (·.1) = c.evq.map (·.id) := by
  simp [evK, List.map_map, Function.comp_def]

structure Dur (K : EvKind → Prop) (c : Cfg) : Prop where
  kinds : ∀ p ∈ evK c, K p.2
  ids : ((evK c).map (·.1)).Nodup
  idlt : ∀ p ∈ evK c, p.1 < c.nextId
  sentlt : ∀ x ∈ c.sent, x < c.nextId
  sentnd : c.sent.Nodup
  corrnd : (rpC c).Nodup
  corrsent : ∀ x ∈ rpC c, x ∈ c.sent
  reply : ∀ p ∈ evK c, p.1 ∈ c.sent → isTaskKind p.2 = true ∧ p.1 ∈ rpC c
  alive : evK c ≠ [] ∨ 1 ≤ c.notes
  nodiv : c.diverged = false
  nofail : c.failed = 0
  nodead : c.deadJ = []

theorem Dur.congr {K : EvKind → Prop} {c d : Cfg} (h : Dur K c) (h1 : evK d = evK c) (h2 : rpC d = rpC c)
    (h3 : d.sent = c.sent) (h4 : d.nextId = c.nextId) (h5 : d.notes = c.notes) (h6 : d.diverged = c.diverged)
    (h7 : d.failed = c.failed := by rfl) (h8 : d.deadJ = c.deadJ := by rfl) : Dur K d := by
  constructor
  · rw [h1]; exact h.kinds
  · rw [h1]; exact h.ids
  · rw [h1, h4]; exact h.idlt
  · rw [h3, h4]; exact h.sentlt
  · rw [h3]; exact h.sentnd
  · rw [h2]; exact h.corrnd
  · rw [h2, h3]; exact h.corrsent
  · rw [h1, h2, h3]; exact h.reply
  · rw [h1, h5]; exact h.alive
  · rw [h6]; exact h.nodiv
  · rw [h7]; exact h.nofail
  · rw [h8]; exact h.nodead

theorem evK_markEv (c : Cfg) (id : Nat) : evK (markEv c id) = evK c := by
  simp only [evK, markEv_evq, List.map_map]
  apply List.map_congr_left
  intro e _
  simp [markOne_id, markOne_kind]

theorem evK_crash (c : Cfg) : evK c.crash = evK c := by
  simp only [evK, Cfg.crash, List.map_map]
  apply List.map_congr_left
  intro e _
  simp only [Function.comp]
  split <;> rfl

theorem rpC_crash (c : Cfg) : rpC c.crash = rpC c := by
  simp only [rpC, Cfg.crash, List.map_map]
  apply List.map_congr_left
  intro e _
  simp only [Function.comp]
  split <;> rfl

theorem map_corr_markRpL (l : List QRp) (corr : Nat) : (markRpL l corr).map (·.corr) = l.map (·.corr) := by
  induction l with
  | nil => rfl
  | cons x xs ih =>
    simp only [markRpL]
    split
    · simp
    · simp [ih]

theorem Dur.crash {K : EvKind → Prop} {c : Cfg} (h : Dur K c) : Dur K c.crash :=
  h.congr (evK_crash c) (rpC_crash c) rfl rfl rfl rfl

theorem Dur.markEv {K : EvKind → Prop} {c : Cfg} (h : Dur K c) (id : Nat) : Dur K (markEv c id) :=
  h.congr (evK_markEv c id) rfl rfl rfl rfl rfl

theorem Dur.markRp {K : EvKind → Prop} {c : Cfg} (h : Dur K c) (corr : Nat) : Dur K { c with rpq := markRpL c.rpq corr } :=
  h.congr rfl (map_corr_markRpL c.rpq corr) rfl rfl rfl rfl

theorem Dur.withVol {K : EvKind → Prop} {c : Cfg} (h : Dur K c) (v : Vol) : Dur K (c.withVol v) :=
  h.congr rfl rfl rfl rfl rfl rfl

/-! ### one broker operation at a time -/

theorem Dur.pubEv {K : EvKind → Prop} {c : Cfg} (h : Dur K c) {k : EvKind} (hk : K k) : Dur K (c.act (.pubEv k)) := by
  have hev : evK (c.act (.pubEv k)) = evK c ++ [(c.nextId, k)] := by simp [evK, Cfg.act]
  constructor
  · rw [hev]; intro p hp
    rcases List.mem_append.mp hp with hp | hp
    · exact h.kinds p hp
    · simp at hp; subst hp; exact hk
  · rw [hev, List.map_append, List.nodup_append]
    refine ⟨h.ids, by simp, ?_⟩
    intro a ha b hb
    simp at hb; subst hb
    obtain ⟨p, hp, rfl⟩ := List.mem_map.mp ha
    exact Nat.ne_of_lt (h.idlt p hp)
  · rw [hev]; intro p hp
    show p.1 < c.nextId + 1
    rcases List.mem_append.mp hp with hp | hp
    · exact Nat.lt_succ_of_lt (h.idlt p hp)
    · simp at hp; subst hp; exact Nat.lt_succ_self _
  · intro x hx; exact Nat.lt_succ_of_lt (h.sentlt x hx)
  · exact h.sentnd
  · exact h.corrnd
  · exact h.corrsent
  · rw [hev]; intro p hp hs
    rcases List.mem_append.mp hp with hp | hp
    · exact h.reply p hp hs
    · simp at hp; subst hp
      exact absurd (h.sentlt _ hs) (Nat.lt_irrefl _)
  · left; rw [hev]; simp
  · exact h.nodiv
  · exact h.nofail
  · exact h.nodead

theorem Dur.pubReq {K : EvKind → Prop} {c : Cfg} (h : Dur K c) {id : Nat}
    (hev : ∃ p ∈ evK c, p.1 = id ∧ isTaskKind p.2 = true) (hns : id ∉ c.sent) : Dur K (c.act (.pubReq id)) := by
  have hrp : rpC (c.act (.pubReq id)) = rpC c ++ [id] := by simp [rpC, Cfg.act]
  have hk : evK (c.act (.pubReq id)) = evK c := rfl
  have hsent : (c.act (.pubReq id)).sent = c.sent ++ [id] := rfl
  obtain ⟨p0, hp0, hid0, ht0⟩ := hev
  constructor
  · exact h.kinds
  · exact h.ids
  · exact h.idlt
  · intro x hx
    rw [hsent] at hx
    rcases List.mem_append.mp hx with hx | hx
    · exact h.sentlt x hx
    · simp at hx; subst hx; rw [← hid0]; exact h.idlt p0 hp0
  · rw [hsent, List.nodup_append]
    refine ⟨h.sentnd, by simp, ?_⟩
    intro a ha b hb
    simp at hb; subst hb
    exact fun e => hns (e ▸ ha)
  · rw [hrp, List.nodup_append]
    refine ⟨h.corrnd, by simp, ?_⟩
    intro a ha b hb
    simp at hb; subst hb
    exact fun e => hns (e ▸ h.corrsent a ha)
  · rw [hrp, hsent]; intro x hx
    rcases List.mem_append.mp hx with hx | hx
    · exact List.mem_append_left _ (h.corrsent x hx)
    · exact List.mem_append_right _ hx
  · rw [hk, hrp, hsent]; intro p hp hs
    rcases List.mem_append.mp hs with hs | hs
    · obtain ⟨a, b⟩ := h.reply p hp hs
      exact ⟨a, List.mem_append_left _ b⟩
    · simp at hs
      -- `p` is the event whose request is sent: ids are distinct
      have : p = p0 := by
        exact eq_of_nodup_map (·.1) h.ids hp hp0 (by rw [hs, hid0])
      subst this
      exact ⟨ht0, List.mem_append_right _ (by simp [hs])⟩
  · exact h.alive
  · exact h.nodiv
  · exact h.nofail
  · exact h.nodead

theorem Dur.note {K : EvKind → Prop} {c : Cfg} (h : Dur K c) (b : Bool) : Dur K (c.act (.note b)) := by
  cases b
  · exact h.congr rfl rfl rfl rfl rfl rfl
  · have h' : Dur K { c with notes := c.notes } := h
    constructor
    · exact h.kinds
    · exact h.ids
    · exact h.idlt
    · exact h.sentlt
    · exact h.sentnd
    · exact h.corrnd
    · exact h.corrsent
    · exact h.reply
    · right; show 1 ≤ c.notes + 1; omega
    · exact h.nodiv
    · exact h.nofail
    · exact h.nodead

theorem evK_ackEv_sublist (c : Cfg) (id : Nat) : (evK (c.act (.ackEv id))).Sublist (evK c) := by
  simp only [evK, act_ackEv_evq]
  exact List.Sublist.map _ List.filter_sublist

theorem Dur.ackEv {K : EvKind → Prop} {c : Cfg} (h : Dur K c) {id : Nat}
    (hal : 1 ≤ c.notes ∨ ∃ p ∈ evK c, p.1 ≠ id) : Dur K (c.act (.ackEv id)) := by
  have hsub := evK_ackEv_sublist c id
  constructor
  · intro p hp; exact h.kinds p (hsub.subset hp)
  · exact List.Nodup.sublist (hsub.map _) h.ids
  · intro p hp; exact h.idlt p (hsub.subset hp)
  · exact h.sentlt
  · exact h.sentnd
  · exact h.corrnd
  · exact h.corrsent
  · intro p hp hs; exact h.reply p (hsub.subset hp) hs
  · rcases hal with hn | ⟨p, hp, hne⟩
    · right; exact hn
    · left
      obtain ⟨e, he, rfl⟩ := List.mem_map.mp hp
      have : (e.id, e.kind) ∈ evK (c.act (.ackEv id)) := by
        simp only [evK, act_ackEv_evq]
        refine List.mem_map.mpr ⟨e, List.mem_filter.mpr ⟨he, ?_⟩, rfl⟩
        have : (e.id == id) = false := by simpa using hne
        simp [ackP, this]
      exact List.ne_nil_of_mem this
  · exact h.nodiv
  · exact h.nofail
  · exact h.nodead

theorem mem_removeFirst_of_false {p : QRp → Bool} {l : List QRp} {x : QRp} (hx : x ∈ l) (hp : p x = false) :
    x ∈ removeFirst p l := by
  induction l with
  | nil => cases hx
  | cons y ys ih =>
    simp only [removeFirst]
    split
    · rename_i hy
      rcases List.mem_cons.mp hx with rfl | hx
      · rw [hp] at hy; cases hy
      · exact hx
    · rcases List.mem_cons.mp hx with rfl | hx
      · simp
      · exact List.mem_cons_of_mem _ (ih hx)

theorem Dur.ackRp {K : EvKind → Prop} {c : Cfg} (h : Dur K c) {corr : Nat}
    (hno : ∀ p ∈ evK c, p.1 ≠ corr) : Dur K (c.act (.ackRp corr)) := by
  have hsub : (rpC (c.act (.ackRp corr))).Sublist (rpC c) := by
    simp only [rpC, Cfg.act]
    exact (removeFirst_sublist _ _).map _
  constructor
  · exact h.kinds
  · exact h.ids
  · exact h.idlt
  · exact h.sentlt
  · exact h.sentnd
  · exact List.Nodup.sublist hsub h.corrnd
  · intro x hx; exact h.corrsent x (hsub.subset hx)
  · intro p hp hs
    obtain ⟨a, b⟩ := h.reply p hp hs
    refine ⟨a, ?_⟩
    obtain ⟨r, hr, hrc⟩ := List.mem_map.mp b
    simp only [rpC, Cfg.act]
    refine List.mem_map.mpr ⟨r, mem_removeFirst_of_false hr ?_, hrc⟩
    have : r.corr ≠ corr := by rw [hrc]; exact hno p hp
    have : (r.corr == corr) = false := by simpa using this
    simp [this]
  · exact h.alive
  · exact h.nodiv
  · exact h.nofail
  · exact h.nodead

/-- what a broker operation needs for `Dur` to survive it -/
def actPre (K : EvKind → Prop) (c : Cfg) : Act → Prop
  | .pubEv k => K k
  | .pubReq id => (∃ p ∈ evK c, p.1 = id ∧ isTaskKind p.2 = true) ∧ id ∉ c.sent
  | .note _ => True
  | .ackEv id => 1 ≤ c.notes ∨ ∃ p ∈ evK c, p.1 ≠ id
  | .ackRp corr => ∀ p ∈ evK c, p.1 ≠ corr
  | _ => False

/-- a handler's broker operations are in an order that loses nothing at any cut -/
def ok (K : EvKind → Prop) : Cfg → List Act → Prop
  | _, [] => True
  | c, a :: r => actPre K c a ∧ ok K (c.act a) r

theorem Dur.act {K : EvKind → Prop} {c : Cfg} (h : Dur K c) {a : Act} (hp : actPre K c a) : Dur K (c.act a) := by
  cases a with
  | pubEv k => exact h.pubEv hp
  | pubReq id => exact h.pubReq hp.1 hp.2
  | note b => exact h.note b
  | ackEv id => exact h.ackEv hp
  | ackRp corr => exact h.ackRp hp
  | pubChild _ _ => exact absurd hp (by simp [actPre])
  | pubAns _ => exact absurd hp (by simp [actPre])
  | cnote _ => exact absurd hp (by simp [actPre])
  | fnote => exact absurd hp (by simp [actPre])
  | pubDead _ _ => exact absurd hp (by simp [actPre])

/-- every prefix of an ordered handler keeps the durable invariant -/
theorem Dur.take {K : EvKind → Prop} {acts : List Act} {c : Cfg} (h : Dur K c) (hok : ok K c acts) (k : Nat) :
    Dur K ((acts.take k).foldl Cfg.act c) := by
  induction acts generalizing c k with
  | nil => simpa using h
  | cons a r ih =>
    cases k with
    | zero => simpa using h
    | succ k =>
      simp only [List.take_succ_cons, List.foldl_cons]
      exact ih (h.act hok.1) hok.2 k

theorem Dur.all {K : EvKind → Prop} {acts : List Act} {c : Cfg} (h : Dur K c) (hok : ok K c acts) :
    Dur K (acts.foldl Cfg.act c) := by
  have := h.take hok acts.length
  simpa using this

/-- a handler invocation, cut or not, keeps the durable invariant when its operations are ordered -/
theorem Dur.handler {K : EvKind → Prop} {acts : List Act} {c : Cfg} (h : Dur K c) (hok : ok K c acts) (v : Vol)
    (cut : Option Nat) : Dur K (c.handler acts v cut) := by
  cases cut with
  | none => exact (h.all hok).withVol v
  | some k => exact (h.take hok k).crash

/-! ### the engine's memory describes the queues -/

/-- ids of the unacknowledged events / correlation ids of the unacknowledged replies of a queue -/
def uEv (l : List QEv) : List Nat := (l.filter (·.unacked)).map (·.id)
def uRp (l : List QRp) : List Nat := (l.filter (·.unacked)).map (·.corr)
/-- the messages the joins hold -/
def heldE (js : List Join) : List Nat := js.flatMap (fun j => j.heldEv.map (·.2))
def heldR (js : List Join) : List Nat := js.flatMap (·.heldRp)

@[simp] theorem uEv_append (a b : List QEv) : uEv (a ++ b) = uEv a ++ uEv b := by simp [uEv]
@[simp] theorem uEv_nil : uEv [] = [] := rfl
theorem uEv_cons (m : QEv) (l : List QEv) : uEv (m :: l) = if m.unacked then m.id :: uEv l else uEv l := by
  simp [uEv, List.filter_cons]; split <;> simp
@[simp] theorem uRp_append (a b : List QRp) : uRp (a ++ b) = uRp a ++ uRp b := by simp [uRp]
@[simp] theorem uRp_nil : uRp [] = [] := rfl
theorem uRp_cons (m : QRp) (l : List QRp) : uRp (m :: l) = if m.unacked then m.corr :: uRp l else uRp l := by
  simp [uRp, List.filter_cons]; split <;> simp
@[simp] theorem heldE_nil : heldE [] = [] := rfl
@[simp] theorem heldR_nil : heldR [] = [] := rfl

theorem mem_uEv {l : List QEv} {x : Nat} : x ∈ uEv l ↔ ∃ e ∈ l, e.unacked = true ∧ e.id = x := by
  simp [uEv, and_assoc]

theorem mem_uRp {l : List QRp} {x : Nat} : x ∈ uRp l ↔ ∃ e ∈ l, e.unacked = true ∧ e.corr = x := by
  simp [uRp, and_assoc]

structure VolI (c : Cfg) : Prop where
  tnd : c.timers.Nodup
  pnd : c.pending.Nodup
  ond : c.orphans.Nodup
  t_sub : ∀ t ∈ c.timers, t ∈ uEv c.evq
  p_sub : ∀ p ∈ c.pending, p ∈ uEv c.evq ∧ p ∈ c.sent
  o_sub : ∀ o ∈ c.orphans, o ∈ uRp c.rpq
  he_sub : ∀ x ∈ heldE c.joins, x ∈ uEv c.evq
  hr_sub : ∀ x ∈ heldR c.joins, x ∈ uRp c.rpq
  u_ev : ∀ x ∈ uEv c.evq, x ∈ c.timers ∨ x ∈ c.pending ∨ x ∈ heldE c.joins
  u_rp : ∀ x ∈ uRp c.rpq, x ∈ c.orphans ∨ x ∈ heldR c.joins
  t_kind : ∀ e ∈ c.evq, e.id ∈ c.timers → timerKind e.kind = true
  p_kind : ∀ e ∈ c.evq, e.id ∈ c.pending → isTaskKind e.kind = true
  tp : ∀ t ∈ c.timers, t ∉ c.pending

theorem uEv_crash (c : Cfg) : uEv c.crash.evq = [] := by
  simp only [uEv, Cfg.crash, List.map_eq_nil_iff, List.filter_eq_nil_iff]
  intro e he
  obtain ⟨m, _, rfl⟩ := List.mem_map.mp he
  split <;> simp_all

theorem uRp_crash (c : Cfg) : uRp c.crash.rpq = [] := by
  simp only [uRp, Cfg.crash, List.map_eq_nil_iff, List.filter_eq_nil_iff]
  intro e he
  obtain ⟨m, _, rfl⟩ := List.mem_map.mp he
  split <;> simp_all

/-- after a crash the engine remembers nothing and nothing is unacknowledged -/
theorem VolI.crash (c : Cfg) : VolI c.crash := by
  constructor
  any_goals (simp only [uEv_crash, uRp_crash]; simp [Cfg.crash])
  all_goals simp [Cfg.crash]

end Asl.Crash
