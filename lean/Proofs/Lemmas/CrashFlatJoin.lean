/-
Flat skeletons, continued: the end of a branch — what `advance` does (`advance_hold`, `advance_join_*`), the join is not
complete (`fin_hold`), the join is complete (`fin_join`).
-/
import Proofs.Lemmas.CrashFlatFin
namespace Asl.Crash

/-- the join once the branch of event `ev` (slot `f.idx`) has ended -/
def joinAfter (js : List Join) (f : Frame) (ev : Nat) (rp : Option Nat) : Join :=
  { getJoin js f.jid with
    filled := insertNat f.idx (getJoin js f.jid).filled
    heldEv := insertHeld f.idx ev (getJoin js f.jid).heldEv
    heldRp := match rp with
      | some r => insertNat r (getJoin js f.jid).heldRp
      | none => (getJoin js f.jid).heldRp }

def releaseOf (j : Join) : List Act := (j.heldEv.map (fun p => Act.ackEv p.2)) ++ (j.heldRp.map .ackRp)

/-- the attempt of frame `f` is not on record as over -/
def notDead (c : Cfg) (v : Vol) : Prop := (∀ j ∈ v.joins, j.dead = false) ∧ c.deadJ = []

theorem deadJid_false {c : Cfg} {v : Vol} (h : notDead c v) (j : Nat) : deadJid Quirks.none c v j = false := by
  simp only [deadJid, h.2, List.contains_nil, Bool.and_false, Bool.or_false, List.any_eq_false, Bool.and_eq_true, beq_iff_eq,
    not_and, Bool.not_eq_true]
  intro x hx _
  exact h.1 x hx

/-- a batch that is the whole fan-out is not complete before the join is -/
theorem batch_not_done {mc w idx : Nat} {filled : List Nat} (hmc : w ≤ mc) (hidx : idx < w) (hlt : filled.length < w) :
    ¬ ∀ x, x ∈ batchOf mc w (idx / mc * mc) → x ∈ filled := by
  intro hall
  have h0 : idx / mc = 0 := Nat.div_eq_of_lt (by omega)
  rw [h0, Nat.zero_mul] at hall
  have hfull : ∀ i, i < w → i ∈ filled := by
    intro i hi
    exact hall i (by simp [batchOf]; omega)
  have := length_ge_of_full w filled hfull
  omega

theorem advance_hold (c : Cfg) (fuel ev : Nat) (f : Frame) (rp : Option Nat) (v : Vol) (hnd : notDead c v)
    (hmc : f.mc = 0 ∨ f.branches.toList.length ≤ f.mc) (hidx : f.idx < f.branches.toList.length)
    (hlt : (joinAfter v.joins f ev rp).filled.length < f.branches.toList.length) :
    advance Quirks.none c (fuel + 1) ev .done [f] none rp v =
      ([], { v with joins := setJoin v.joins (joinAfter v.joins f ev rp) }) := by
  have hnot : ¬ (joinAfter v.joins f ev rp).filled.length ≥ f.branches.toList.length := by omega
  have hd : deadJid ({} : Quirks) c v f.jid = false := deadJid_false hnd f.jid
  rcases hmc with hmc | hmc
  · cases rp <;> simp [advance, Quirks.none, joinAfter, hmc, hd] at hnot ⊢ <;> (intro hh; omega)
  · cases rp with
    | none =>
      have hbd := batch_not_done (filled := (joinAfter v.joins f ev none).filled) hmc hidx hlt
      simp only [joinAfter] at hbd
      simp [advance, Quirks.none, joinAfter, hd] at hnot ⊢
      rw [if_neg (by omega), if_neg (fun h => hbd h.1.2)]
    | some r =>
      have hbd := batch_not_done (filled := (joinAfter v.joins f ev (some r)).filled) hmc hidx hlt
      simp only [joinAfter] at hbd
      simp [advance, Quirks.none, joinAfter, hd] at hnot ⊢
      rw [if_neg (by omega), if_neg (fun h => hbd h.1.2)]

theorem advance_join_next (c : Cfg) (fuel ev : Nat) (f : Frame) (rp : Option Nat) (v : Vol) (hnd : notDead c v)
    (hge : f.branches.toList.length ≤ (joinAfter v.joins f ev rp).filled.length) (hv : f.rest.isVisit = true) :
    advance Quirks.none c (fuel + 1) ev .done [f] none rp v =
      ([.pubEv (.visit f.rest [] false none)] ++ releaseOf (joinAfter v.joins f ev rp),
       { v with joins := dropJoin v.joins f.jid }) := by
  have hd : deadJid ({} : Quirks) c v f.jid = false := deadJid_false hnd f.jid
  cases hr : f.rest <;> simp [hr, Sk.isVisit] at hv <;>
    cases rp <;> simp [advance, Quirks.none, joinAfter, releaseOf, hr, hd] at hge ⊢ <;> (intro hh; omega)

theorem advance_join_end (c : Cfg) (fuel ev : Nat) (f : Frame) (rp : Option Nat) (v : Vol) (hnd : notDead c v)
    (hge : f.branches.toList.length ≤ (joinAfter v.joins f ev rp).filled.length) (hv : f.rest = .done) :
    advance Quirks.none c (fuel + 2) ev .done [f] none rp v =
      ([.note true] ++ releaseOf (joinAfter v.joins f ev rp), { v with joins := dropJoin v.joins f.jid }) := by
  have hd : deadJid ({} : Quirks) c v f.jid = false := deadJid_false hnd f.jid
  have hdj : (dropJoin v.joins f.jid).any (fun j => j.dead) = false := by
    simp only [dropJoin, List.any_eq_false, List.mem_filter, Bool.not_eq_true]
    intro x hx
    exact hnd.1 x hx.1
  cases rp <;> simp [advance, Quirks.none, joinAfter, releaseOf, hv, hd, hdj] at hge ⊢ <;> (intro hh; omega)

theorem mem_insertHeld {idx ev : Nat} {xs : List (Nat × Nat)} (hnew : ∀ q ∈ xs, q.2 ≠ ev) (q : Nat × Nat) :
    q ∈ insertHeld idx ev xs ↔ q ∈ xs ∨ q = (idx, ev) := by
  unfold insertHeld
  have : xs.any (fun p => p.2 == ev) = false := by
    rw [List.any_eq_false]
    intro p hp
    simpa using hnew p hp
  simp only [this, Bool.false_eq_true, if_false, List.mem_append, List.mem_filter, List.mem_singleton, decide_eq_true_eq]
  constructor
  · rintro ((⟨h, _⟩ | h) | ⟨h, _⟩)
    · exact Or.inl h
    · exact Or.inr h
    · exact Or.inl h
  · rintro (h | h)
    · by_cases hq : q.1 ≤ idx
      · exact Or.inl (Or.inl ⟨h, hq⟩)
      · exact Or.inr ⟨h, by omega⟩
    · exact Or.inl (Or.inr h)

/-- in the join phase no event is a top-level event -/
theorem no_top {c : Cfg} (hs : Shape c) (hids : ((evK c).map (·.1)).Nodup) {x : Nat × EvKind} {f : Frame} (hx : x ∈ evK c)
    (hf : evStack x.2 = [f]) : ∀ p ∈ evK c, evStack p.2 ≠ [] := by
  intro p hp hst
  have := (hs.top p hp hst).1 x hx
  have hxp : x = p := eq_of_nodup_map (·.1) hids hx hp this
  rw [hxp, hst] at hf
  cases hf

/-- the join record of the fan-out attempt (the one on record, or a fresh one) -/
structure GJoin (c : Cfg) (f : Frame) (G : Join) : Prop where
  jid : G.jid = f.jid
  alive : G.dead = false
  live : G.ended = false
  fnd : G.filled.Nodup
  fheld : ∀ i ∈ G.filled, ∃ x, (i, x) ∈ G.heldEv
  held : ∀ q ∈ G.heldEv,
    q.1 ∈ G.filled ∧ ∃ p ∈ evK c, p.1 = q.2 ∧ kIdx p.2 = q.1 ∧ lastVisit p.2 = true ∧ (isTaskKind p.2 = true → p.1 ∈ c.sent)
  heldsent : ∀ q ∈ G.heldEv, q.2 ∈ c.sent → q.2 ∈ G.heldRp
  rpheld : ∀ x ∈ G.heldRp, ∃ q ∈ G.heldEv, q.2 = x
  hE : ∀ x, x ∈ heldE c.joins ↔ ∃ q ∈ G.heldEv, q.2 = x
  hR : ∀ x, x ∈ heldR c.joins ↔ x ∈ G.heldRp
  set : ∀ j : Join, j.jid = f.jid → setJoin c.joins j = [j]
  drop : dropJoin c.joins f.jid = []

theorem gjoin {c : Cfg} (hj : JInv c) {x : Nat × EvKind} {f : Frame} (hx : x ∈ evK c) (hf : evStack x.2 = [f]) :
    GJoin c f (getJoin c.joins f.jid) := by
  cases hjs : c.joins with
  | nil =>
    have : getJoin [] f.jid = { jid := f.jid } := rfl
    rw [this]
    constructor <;> simp [hjs, heldE, heldR, setJoin, dropJoin]
  | cons j0 rest =>
    have hmem : j0 ∈ c.joins := by rw [hjs]; simp
    have hone := hj.one j0 hmem
    rw [hjs] at hone
    have hrest : rest = [] := by simpa using hone
    subst hrest
    have hjid : f.jid = j0.jid := (hj.mine j0 hmem x hx f hf).1
    have hg : getJoin [j0] f.jid = j0 := by simp [getJoin, hjid]
    rw [hg]
    refine ⟨hjid.symm, hj.alive j0 hmem, hj.live j0 hmem, hj.fnd j0 hmem, hj.fheld j0 hmem, hj.held j0 hmem, hj.heldsent j0 hmem,
      hj.rpheld j0 hmem, ?_, ?_, ?_, ?_⟩
    · intro y; simp [hjs, heldE]
    · intro y; simp [hjs, heldR]
    · intro j hjj; simp [hjs, setJoin, hjj, hjid]
    · simp [hjs, dropJoin, hjid]


/-- what the join record looks like once the branch of the event in hand has ended -/
structure JAfter (d : Cfg) (f : Frame) (mid : Nat) (rp : Option Nat) (G J : Join) : Prop where
  jid : J.jid = f.jid
  alive : J.dead = false
  live : J.ended = false
  filled : ∀ i, i ∈ J.filled ↔ i = f.idx ∨ i ∈ G.filled
  fnd : J.filled.Nodup
  heldEv : ∀ q, q ∈ J.heldEv ↔ q ∈ G.heldEv ∨ q = (f.idx, mid)
  heldRp : ∀ x, x ∈ J.heldRp ↔ rp = some x ∨ x ∈ G.heldRp

theorem jafter {d : Cfg} {f : Frame} {mid : Nat} {rp : Option Nat} (hG : GJoin d f (getJoin d.joins f.jid))
    (hfree : mid ∉ heldE d.joins) : JAfter d f mid rp (getJoin d.joins f.jid) (joinAfter d.joins f mid rp) := by
  have hnew : ∀ q ∈ (getJoin d.joins f.jid).heldEv, q.2 ≠ mid := by
    intro q hq he
    exact hfree ((hG.hE mid).mpr ⟨q, hq, he⟩)
  refine ⟨hG.jid, hG.alive, hG.live, ?_, nodup_insertNat hG.fnd, ?_, ?_⟩
  · intro i; simp only [joinAfter]; exact mem_insertNat
  · intro q; simp only [joinAfter]; exact mem_insertHeld hnew q
  · intro x
    cases rp with
    | none => simp [joinAfter]
    | some r =>
      simp only [joinAfter, mem_insertNat, Option.some.injEq]
      constructor
      · rintro (h | h)
        · exact Or.inl h.symm
        · exact Or.inr h
      · rintro (h | h)
        · exact Or.inl h.symm
        · exact Or.inr h

/-- the branch of the event in hand has ended and its join is not complete: the event (and the reply) are held -/
theorem fin_hold {N : Nat} {d : Cfg} {m : QEv} {rp : Option Nat} {f : Frame}
    (h : Mid N d m.id rp) (hm : m ∈ d.evq) (hu : m.unacked = true) (hstk : evStack m.kind = [f])
    (hlast : lastVisit m.kind = true) (hkt : isTaskKind m.kind = true → rp = some m.id)
    (hlt : (joinAfter d.joins f m.id rp).filled.length < f.width) :
    PInv N { d with joins := setJoin d.joins (joinAfter d.joins f m.id rp) } ∧
      mu2 { d with joins := setJoin d.joins (joinAfter d.joins f m.id rp) } ≤ mu2 d := by
  obtain ⟨hD, hV, hS, hJ, hC, hin, hrpok, hnorp⟩ := h
  have hxin : (m.id, m.kind) ∈ evK d := mem_evK hm
  have hG := gjoin hJ hxin hstk
  have hfree := hV.free_ev m.id rfl
  have hA := jafter (rp := rp) hG hfree.2.2
  have hset := hG.set _ hA.jid
  rw [hset]
  generalize hGe : getJoin d.joins f.jid = G at hG hA
  generalize hJe : joinAfter d.joins f m.id rp = J at hA hlt
  have hE' : ∀ x, x ∈ heldE [J] ↔ x = m.id ∨ x ∈ heldE d.joins := by
    intro x
    simp only [heldE, List.flatMap_cons, List.flatMap_nil, List.append_nil, List.mem_map]
    rw [show (x ∈ List.flatMap (fun j => List.map (fun x => x.snd) j.heldEv) d.joins) = (x ∈ heldE d.joins) from rfl, hG.hE x]
    constructor
    · rintro ⟨q, hq, rfl⟩
      rcases (hA.heldEv q).mp hq with hq | rfl
      · exact Or.inr ⟨q, hq, rfl⟩
      · exact Or.inl rfl
    · rintro (rfl | ⟨q, hq, rfl⟩)
      · exact ⟨(f.idx, m.id), (hA.heldEv _).mpr (Or.inr rfl), rfl⟩
      · exact ⟨q, (hA.heldEv q).mpr (Or.inl hq), rfl⟩
  have hR' : ∀ x, x ∈ heldR [J] ↔ rp = some x ∨ x ∈ heldR d.joins := by
    intro x
    simp only [heldR, List.flatMap_cons, List.flatMap_nil, List.append_nil]
    rw [show (x ∈ List.flatMap (fun j => j.heldRp) d.joins) = (x ∈ heldR d.joins) from rfl, hG.hR x]
    exact hA.heldRp x
  have hnt := no_top hS hD.ids hxin hstk
  refine ⟨⟨hD.congr rfl rfl rfl rfl rfl rfl, ?_, ?_, ?_, hC.congr rfl rfl rfl rfl⟩, Nat.le_refl _⟩
  · -- the engine's memory
    obtain ⟨tnd, pnd, ond, t_sub, p_sub, o_sub, he_sub, hr_sub, u_ev, u_rp, t_kind, p_kind, tp, free_ev, free_rp⟩ := hV
    constructor <;> simp only [] <;> grind
  · -- the shape of the queue
    refine ⟨fun p hp hst => absurd hst (hnt p hp), hS.same, hS.cover, hS.jlt⟩
  · -- the join
    have hfrp : ∀ x, rp = some x → x ∉ d.orphans ∧ x ∉ heldR d.joins := hV.free_rp
    constructor
    · intro j hj; simp at hj; subst hj; rfl
    · intro j hj; simp at hj; subst hj; exact hA.alive
    · intro j hj p hp f' hf'
      simp at hj; subst hj
      have hs := hS.same p hp _ hxin f' f hf' hstk
      refine ⟨by rw [hA.jid]; exact hs.1, ?_⟩
      have : f'.width = f.width := by simp [Frame.width, hs.2.1]
      rw [this]; exact hlt
    · intro j hj; simp at hj; subst hj; exact hA.fnd
    · intro j hj i hi
      simp at hj; subst hj
      rcases (hA.filled i).mp hi with rfl | hi
      · exact ⟨m.id, (hA.heldEv _).mpr (Or.inr rfl)⟩
      · obtain ⟨x, hx⟩ := hG.fheld i hi
        exact ⟨x, (hA.heldEv _).mpr (Or.inl hx)⟩
    · intro j hj q hq
      simp at hj; subst hj
      rcases (hA.heldEv q).mp hq with hq | rfl
      · obtain ⟨h1, h2⟩ := hG.held q hq
        exact ⟨(hA.filled _).mpr (Or.inr h1), h2⟩
      · refine ⟨(hA.filled _).mpr (Or.inl rfl), (m.id, m.kind), hxin, rfl, ?_, hlast, ?_⟩
        · simp [kIdx, hstk]
        · intro ht
          exact (hrpok _ (hkt ht)).2.2
    · intro j hj q hq hs
      simp at hj; subst hj
      rcases (hA.heldEv q).mp hq with hq | rfl
      · exact (hA.heldRp _).mpr (Or.inr (hG.heldsent q hq hs))
      · cases rp with
        | none => exact absurd hs (hnorp rfl)
        | some r =>
          obtain ⟨rfl, _, _⟩ := hrpok r rfl
          exact (hA.heldRp _).mpr (Or.inl rfl)
    · intro j hj x hx
      simp at hj; subst hj
      rcases (hA.heldRp x).mp hx with hx | hx
      · obtain ⟨rfl, _, _⟩ := hrpok x hx
        exact ⟨(f.idx, m.id), (hA.heldEv _).mpr (Or.inr rfl), rfl⟩
      · obtain ⟨q, hq, hq2⟩ := hG.rpheld x hx
        exact ⟨q, (hA.heldEv _).mpr (Or.inl hq), hq2⟩
    · intro x hx
      rcases (hE' x).mp hx with rfl | hx
      · exact ⟨hfree.1, hfree.2.1⟩
      · exact hJ.ht x hx
    · intro x hx
      rcases (hR' x).mp hx with hx | hx
      · exact (hfrp x hx).1
      · exact hJ.hro x hx
    · intro h0
      exact absurd h0 (List.ne_nil_of_mem hxin)
    · intro j hj; simp at hj; subst hj; exact hA.live


theorem nodup_of_nodup_map {α β : Type} (g : α → β) {l : List α} (h : (l.map g).Nodup) : l.Nodup := by
  induction l with
  | nil => exact List.nodup_nil
  | cons x xs ih =>
    simp only [List.map_cons, List.nodup_cons] at h ⊢
    exact ⟨fun hx => h.1 (List.mem_map.mpr ⟨x, hx, rfl⟩), ih h.2⟩

theorem flatKind_branch {k : EvKind} (hk : flatKind k = true) (hne : evStack k ≠ []) :
    ∃ t f, k = .visit t [f] false none ∧ t.seq = true ∧ f.wf = true := by
  cases k with
  | visit t stack start owner =>
    cases stack with
    | nil => simp [evStack] at hne
    | cons f rest =>
      cases rest with
      | nil =>
        cases start <;> cases owner <;> simp [flatKind] at hk
        exact ⟨t, f, rfl, hk.1, hk.2⟩
      | cons _ _ => simp [flatKind] at hk
  | reenter _ _ _ _ => simp [flatKind] at hk

theorem lastVisit_tasks {k : EvKind} (h : lastVisit k = true) :
    tasksIn (todoOf k) = if isTaskKind k then 1 else 0 := by
  cases k with
  | visit t stack start owner =>
    simp only [lastVisit, todoOf] at h ⊢
    cases t with
    | done => simp [tasksIn, isTaskKind]
    | task rc r => cases r <;> simp at h <;> simp [tasksIn, isTaskKind]
    | step r => cases r <;> simp at h <;> simp [tasksIn, isTaskKind]
    | wait r => cases r <;> simp at h <;> simp [tasksIn, isTaskKind]
    | par _ _ _ => simp at h
    | child _ _ _ => simp at h
    | fail _ _ => simp at h
    | «opaque» => simp at h
  | reenter _ _ _ _ => simp [lastVisit, todoOf, tasksIn, isTaskKind]

/-- what holds when the join of the event in hand is complete: every event is held (and unacknowledged), every reply is
held (and unacknowledged), nothing else is registered, and the sums -/
structure Complete (d : Cfg) (f : Frame) (J : Join) : Prop where
  allheld : ∀ e ∈ d.evq, e.id ∈ J.heldEv.map (·.2) ∧ e.unacked = true
  allrp : ∀ r ∈ d.rpq, r.corr ∈ J.heldRp ∧ r.unacked = true
  heldlt : ∀ x ∈ J.heldEv.map (·.2), x < d.nextId
  timers : d.timers = []
  pending : d.pending = []
  orphans : d.orphans = []
  tasks : ((evK d).map (fun p => tasksIn (todoOf p.2))).sum = inflight2 d
  restT : ((evK d).map (fun p => restT p.2)).sum = tasksIn f.rest
  restW : 8 * visits f.rest + 8 ≤ (d.evq.map (fun e => evW e + restW e.kind)).sum
  restflat : f.rest.flat = true

theorem complete_of {N : Nat} {d : Cfg} {m : QEv} {rp : Option Nat} {f : Frame}
    (h : Mid N d m.id rp) (hm : m ∈ d.evq) (hu : m.unacked = true) (hstk : evStack m.kind = [f])
    (hlast : lastVisit m.kind = true) (hkt : isTaskKind m.kind = true → rp = some m.id)
    (hge : f.width ≤ (joinAfter d.joins f m.id rp).filled.length) :
    Complete d f (joinAfter d.joins f m.id rp) := by
  obtain ⟨hD, hV, hS, hJ, hC, hin, hrpok, hnorp⟩ := h
  have hxin : (m.id, m.kind) ∈ evK d := mem_evK hm
  have hG := gjoin hJ hxin hstk
  have hfree := hV.free_ev m.id rfl
  have hA := jafter (rp := rp) hG hfree.2.2
  generalize hGe : getJoin d.joins f.jid = G at hG hA
  generalize hJe : joinAfter d.joins f m.id rp = J at hA hge
  have hnt := no_top hS hD.ids hxin hstk
  have uniq : ∀ p ∈ evK d, ∀ q ∈ evK d, p.1 = q.1 → p = q := fun p hp q hq hpq => eq_of_nodup_map (·.1) hD.ids hp hq hpq
  -- every event is a branch event of the same fan-out attempt
  have hbr : ∀ p ∈ evK d, ∃ t f', p.2 = .visit t [f'] false none ∧ f'.wf = true ∧ f'.branches = f.branches ∧ f'.rest = f.rest := by
    intro p hp
    obtain ⟨t, f', hk, _, hwf⟩ := flatKind_branch (hD.kinds p hp) (hnt p hp)
    have hs := hS.same p hp _ hxin f' f (by rw [hk]; rfl) hstk
    exact ⟨t, f', hk, hwf, hs.2.1, hs.2.2.1⟩
  have hidx : ∀ p ∈ evK d, kIdx p.2 < f.width := by
    intro p hp
    obtain ⟨t, f', hk, hwf, hb, _⟩ := hbr p hp
    simp only [Frame.wf, Bool.and_eq_true, decide_eq_true_eq] at hwf
    have : f'.width = f.width := by simp [Frame.width, hb]
    rw [hk]; simp only [kIdx, evStack]; omega
  -- all slots are filled
  have hfl : ∀ i ∈ J.filled, i < f.width := by
    intro i hi
    rcases (hA.filled i).mp hi with rfl | hi
    · have := hidx _ hxin; simpa [kIdx, hstk] using this
    · obtain ⟨x, hx⟩ := hG.fheld i hi
      obtain ⟨_, p, hp, _, hpi, _⟩ := hG.held _ hx
      have hpi' : kIdx p.2 = i := hpi
      rw [← hpi']; exact hidx p hp
  have hfull := nodup_lt_full f.width J.filled hA.fnd hfl hge
  -- so every event is held
  have hheld : ∀ p ∈ evK d, ∃ q ∈ J.heldEv, q.2 = p.1 := by
    intro p hp
    have hi := hfull _ (hidx p hp)
    rcases (hA.filled _).mp hi with hi | hi
    · -- the slot of the event in hand
      obtain ⟨t, f', hk, _, _, _⟩ := hbr p hp
      have hs := hS.same p hp _ hxin f' f (by rw [hk]; rfl) hstk
      have : f'.idx = f.idx := by rw [hk] at hi; simpa [kIdx, evStack] using hi
      exact ⟨(f.idx, m.id), (hA.heldEv _).mpr (Or.inr rfl), (hs.2.2.2 this).symm⟩
    · obtain ⟨x, hx⟩ := hG.fheld _ hi
      obtain ⟨_, p', hp', hp'1, hp'i, _⟩ := hG.held _ hx
      obtain ⟨t, f', hk, _, _, _⟩ := hbr p hp
      obtain ⟨t', f'', hk', _, _, _⟩ := hbr p' hp'
      have hs := hS.same p hp p' hp' f' f'' (by rw [hk]; rfl) (by rw [hk']; rfl)
      have : f'.idx = f''.idx := by
        have e1 : kIdx p.2 = f'.idx := by rw [hk]; rfl
        have e2 : kIdx p'.2 = f''.idx := by rw [hk']; rfl
        have e3 : kIdx p'.2 = kIdx p.2 := hp'i
        omega
      have hid := hs.2.2.2 this
      exact ⟨(kIdx p.2, x), (hA.heldEv _).mpr (Or.inl hx), by rw [← hid] at hp'1; exact hp'1.symm⟩
  have hinJ : ∀ x, (∃ q ∈ J.heldEv, q.2 = x) → x = m.id ∨ x ∈ heldE d.joins := by
    rintro x ⟨q, hq, rfl⟩
    rcases (hA.heldEv q).mp hq with hq | rfl
    · exact Or.inr ((hG.hE _).mpr ⟨q, hq, rfl⟩)
    · exact Or.inl rfl
  have hunack : ∀ e ∈ d.evq, e.unacked = true := by
    intro e he
    have hid : e.id ∈ uEv d.evq := by
      rcases hinJ e.id (hheld _ (mem_evK he)) with h | h
      · rw [h]; exact hin
      · exact hV.he_sub _ h
    obtain ⟨e', he', hu', hid'⟩ := mem_uEv.mp hid
    have : e' = e := eq_of_nodup_map (·.id) (by rw [← evK_ids]; exact hD.ids) he' he hid'
    rw [← this]; exact hu'
  -- every reply is held
  have hJsent : ∀ q ∈ J.heldEv, q.2 ∈ d.sent → q.2 ∈ J.heldRp := by
    intro q hq hs
    rcases (hA.heldEv q).mp hq with hq | rfl
    · exact (hA.heldRp _).mpr (Or.inr (hG.heldsent q hq hs))
    · cases rp with
      | none => exact absurd hs (hnorp rfl)
      | some r =>
        obtain ⟨rfl, _, _⟩ := hrpok r rfl
        exact (hA.heldRp _).mpr (Or.inl rfl)
  have hrp : ∀ r ∈ d.rpq, r.corr ∈ J.heldRp ∧ r.unacked = true := by
    intro r hr
    have hc : r.corr ∈ rpC d := List.mem_map.mpr ⟨r, hr, rfl⟩
    obtain ⟨p, hp, hpz⟩ := hC.fresh _ hc
    obtain ⟨q, hq, hq2⟩ := hheld p hp
    have hin' : r.corr ∈ J.heldRp := by
      have := hJsent q hq (by rw [hq2, hpz]; exact hD.corrsent _ hc)
      rwa [hq2, hpz] at this
    refine ⟨hin', ?_⟩
    have hur : r.corr ∈ uRp d.rpq := by
      rcases (hA.heldRp _).mp hin' with h | h
      · exact (hrpok _ h).2.1
      · exact hV.hr_sub _ ((hG.hR _).mpr h)
    obtain ⟨r', hr', hu', hc'⟩ := mem_uRp.mp hur
    have : r' = r := eq_of_nodup_map (·.corr) (show (d.rpq.map (·.corr)).Nodup from hD.corrnd) hr' hr hc'
    rw [← this]; exact hu'
  -- nothing else is registered
  have hnoreg : ∀ x ∈ uEv d.evq, x ∉ d.timers ∧ x ∉ d.pending := by
    intro x hx
    obtain ⟨e, he, _, rfl⟩ := mem_uEv.mp hx
    rcases hinJ e.id (hheld _ (mem_evK he)) with h | h
    · rw [h]; exact ⟨hfree.1, hfree.2.1⟩
    · exact hJ.ht _ h
  have hT : d.timers = [] := by
    apply List.eq_nil_iff_forall_not_mem.mpr
    intro t ht; exact (hnoreg t (hV.t_sub t ht)).1 ht
  have hP : d.pending = [] := by
    apply List.eq_nil_iff_forall_not_mem.mpr
    intro t ht; exact (hnoreg t (hV.p_sub t ht).1).2 ht
  have hO : d.orphans = [] := by
    apply List.eq_nil_iff_forall_not_mem.mpr
    intro o ho
    obtain ⟨r, hr, _, hrc⟩ := mem_uRp.mp (hV.o_sub o ho)
    have hin' : o ∈ J.heldRp := hrc ▸ (hrp r hr).1
    rcases (hA.heldRp _).mp hin' with h | h
    · exact (hV.free_rp o h).1 ho
    · exact hJ.hro o ((hG.hR _).mpr h) ho
  have hmwf := hbr _ hxin
  refine ⟨?_, hrp, ?_, hT, hP, hO, ?_, ?_, ?_, ?_⟩
  · intro e he
    obtain ⟨q, hq, hq2⟩ := hheld _ (mem_evK he)
    exact ⟨List.mem_map.mpr ⟨q, hq, hq2⟩, hunack e he⟩
  · intro x hx
    obtain ⟨q, hq, rfl⟩ := List.mem_map.mp hx
    rcases hinJ q.2 ⟨q, hq, rfl⟩ with h | h
    · rw [h]; exact hD.idlt _ hxin
    · obtain ⟨e, he, _, hid⟩ := mem_uEv.mp (hV.he_sub _ h)
      rw [← hid]; exact hD.idlt _ (mem_evK he)
  · -- the Task visits of the events in the queue are exactly those whose request is out
    unfold inflight2
    apply sum_indicator
    intro p hp
    obtain ⟨q, hq, hq2⟩ := hheld p hp
    have hlv : lastVisit p.2 = true ∧ (isTaskKind p.2 = true → p.1 ∈ d.sent) := by
      rcases (hA.heldEv q).mp hq with hq | rfl
      · obtain ⟨_, p', hp', hp'1, _, hl, hs⟩ := hG.held _ hq
        have : p' = p := uniq p' hp' p hp (by rw [hp'1, hq2])
        rw [← this]; exact ⟨hl, hs⟩
      · have : (m.id, m.kind) = p := uniq _ hxin p hp hq2
        rw [← this]
        exact ⟨hlast, fun ht => (hrpok _ (hkt ht)).2.2⟩
    rw [lastVisit_tasks hlv.1]
    by_cases ht : isTaskKind p.2 = true
    · have := hlv.2 ht
      simp [ht, this]
    · have hns : p.1 ∉ d.sent := fun hs => ht (hD.reply p hp hs).1
      simp [ht, hns]
  · -- what follows the fan-out state is accounted to the event of the first branch
    have hw : 0 < f.width := Nat.lt_of_le_of_lt (Nat.zero_le _) (hidx _ hxin)
    obtain ⟨p0, hp0, f0, hf0, hi0⟩ := hS.cover _ hxin f hstk 0 hw
    apply sum_single (evK d) (fun p => restT p.2) (fun p => kIdx p.2 == 0) (tasksIn f.rest)
    · intro p hp
      obtain ⟨t, f', hk, _, _, hr⟩ := hbr p hp
      rw [hk]; simp only [restT, evStack, kIdx, hr, beq_iff_eq]
    · exact nodup_of_nodup_map _ hD.ids
    · intro p hp q hq hbp hbq
      obtain ⟨t, f', hk, _, _, _⟩ := hbr p hp
      obtain ⟨t', f'', hk', _, _, _⟩ := hbr q hq
      have hs := hS.same p hp q hq f' f'' (by rw [hk]; rfl) (by rw [hk']; rfl)
      rw [hk] at hbp; rw [hk'] at hbq
      simp only [kIdx, evStack, beq_iff_eq] at hbp hbq
      exact uniq p hp q hq (hs.2.2.2 (by omega))
    · exact ⟨p0, hp0, by simp [kIdx, hf0, hi0]⟩
  · have hw : 0 < f.width := Nat.lt_of_le_of_lt (Nat.zero_le _) (hidx _ hxin)
    obtain ⟨p0, hp0, f0, hf0, hi0⟩ := hS.cover _ hxin f hstk 0 hw
    obtain ⟨e0, he0, rfl⟩ := List.mem_map.mp hp0
    obtain ⟨t, f', hk, _, _, hr⟩ := hbr _ hp0
    have hge' := sum_ge_of_mem d.evq (fun e => evW e + restW e.kind) he0
    have : restW e0.kind = 8 * visits f.rest + 8 := by
      have hk' : e0.kind = .visit t [f'] false none := hk
      have hf0' : evStack e0.kind = [f0] := hf0
      rw [hk'] at hf0' ⊢
      simp only [evStack, List.cons.injEq, and_true] at hf0'
      simp [restW, evStack, hf0', hi0, ← hr]
    have hge'' : evW e0 + restW e0.kind ≤ (d.evq.map (fun e => evW e + restW e.kind)).sum := hge'
    omega
  · obtain ⟨t, f', hk, hwf, _, hr⟩ := hmwf
    simp only [Frame.wf, Bool.and_eq_true] at hwf
    rw [← hr]; exact hwf.1.2


/-- releasing everything the complete join holds empties both queues -/
theorem fold_release {d : Cfg} {f : Frame} {J : Join} (hc : Complete d f J) (hnd : (rpC d).Nodup)
    (c1 : Cfg) (news : List QEv)
    (h1 : c1.evq = d.evq ++ news) (hnews : ∀ e ∈ news, d.nextId ≤ e.id) (h2 : c1.rpq = d.rpq) :
    List.foldl Cfg.act c1 (releaseOf J) = { c1 with evq := news, rpq := [] } := by
  unfold releaseOf
  rw [List.foldl_append]
  have hmap : J.heldEv.map (fun p => Act.ackEv p.2) = (J.heldEv.map (·.2)).map Act.ackEv := by
    simp [List.map_map, Function.comp_def]
  rw [hmap, foldl_ackEv, foldl_ackRp]
  · have he : List.filter (fun e => !((J.heldEv.map (·.2)).contains e.id && e.unacked)) c1.evq = news := by
      rw [h1, List.filter_append]
      have ha : List.filter (fun e => !((J.heldEv.map (·.2)).contains e.id && e.unacked)) d.evq = [] := by
        rw [List.filter_eq_nil_iff]
        intro e he
        have := hc.allheld e he
        have h1 : (J.heldEv.map (·.2)).contains e.id = true := List.contains_iff_mem.mpr this.1
        rw [h1, this.2]; simp
      have hb : List.filter (fun e => !((J.heldEv.map (·.2)).contains e.id && e.unacked)) news = news := by
        rw [List.filter_eq_self]
        intro e he
        have hge := hnews e he
        have : (J.heldEv.map (·.2)).contains e.id = false := by
          rw [Bool.eq_false_iff]
          intro hcon
          have hmem : e.id ∈ J.heldEv.map (·.2) := List.contains_iff_mem.mp hcon
          have := hc.heldlt _ hmem
          omega
        rw [this]; simp
      rw [ha, hb]; rfl
    have hr : List.filter (fun r => !(J.heldRp.contains r.corr && r.unacked)) c1.rpq = [] := by
      rw [h2, List.filter_eq_nil_iff]
      intro r hr
      have := hc.allrp r hr
      have h1 : J.heldRp.contains r.corr = true := List.contains_iff_mem.mpr this.1
      rw [h1, this.2]; simp
    simp only [he, hr]
  · show ((c1.rpq).map (·.corr)).Nodup
    rw [h2]; exact hnd


/-- the branch of the event in hand has ended and completes its join; a visit follows the fan-out state: its event is
published, everything the join holds is released -/
theorem fin_join_next {N : Nat} {d : Cfg} {m : QEv} {rp : Option Nat} {f : Frame}
    (h : Mid N d m.id rp) (hm : m ∈ d.evq) (hu : m.unacked = true) (hstk : evStack m.kind = [f])
    (hlast : lastVisit m.kind = true) (hkt : isTaskKind m.kind = true → rp = some m.id)
    (hge : f.width ≤ (joinAfter d.joins f m.id rp).filled.length) (hv : f.rest.isVisit = true) :
    PInv N ((List.foldl Cfg.act d ([Act.pubEv (.visit f.rest [] false none)] ++ releaseOf (joinAfter d.joins f m.id rp))).withVol
        { timers := d.timers, pending := d.pending, orphans := d.orphans, joins := dropJoin d.joins f.jid }) ∧
      mu2 ((List.foldl Cfg.act d ([Act.pubEv (.visit f.rest [] false none)] ++ releaseOf (joinAfter d.joins f m.id rp))).withVol
        { timers := d.timers, pending := d.pending, orphans := d.orphans, joins := dropJoin d.joins f.jid }) ≤ mu2 d := by
  have hc := complete_of h hm hu hstk hlast hkt hge
  obtain ⟨hD, hV, hS, hJ, hC, hin, hrpok, hnorp⟩ := h
  have hdrop := (gjoin hJ (mem_evK hm) hstk).drop
  rw [List.foldl_append]
  have hrel := fold_release hc hD.corrnd (List.foldl Cfg.act d [Act.pubEv (.visit f.rest [] false none)])
    [{ id := d.nextId, kind := .visit f.rest [] false none }] (by simp [Cfg.act]) (by simp) (by simp [Cfg.act])
  rw [hrel, hdrop]
  simp only [List.foldl, Cfg.act, Cfg.withVol, batchKey, List.append_nil, hc.timers, hc.pending, hc.orphans]
  have hnx : d.nextId ∉ d.sent := fun hh => Nat.lt_irrefl _ (hD.sentlt _ hh)
  refine ⟨⟨?_, ?_, ?_, ?_, ?_⟩, ?_⟩
  · constructor <;> simp [evK, rpC]
    · show flatKind _ = true
      simpa [flatKind] using hc.restflat
    · intro x hx; exact Nat.lt_succ_of_lt (hD.sentlt x hx)
    · exact hD.sentnd
    · exact hnx
    · exact hD.nodiv
    · exact hD.nofail
    · exact hD.nodead
  · constructor <;> simp [uEv, uRp]
  · constructor <;> simp [evK, evStack]
  · constructor <;> simp
  · obtain ⟨psi0, psi1, phi, fresh⟩ := hC
    have hne : evK d ≠ [] := List.ne_nil_of_mem (mem_evK hm)
    refine ⟨by simp [evK], fun _ => psi1 hne, ?_, by simp [rpC]⟩
    have hsum := sum_map_add (evK d) (fun p => tasksIn (todoOf p.2)) (fun p => restT p.2)
    simp only [load2] at phi
    rw [hsum, hc.tasks, hc.restT] at phi
    simp [load2, inflight2, evK, todoOf, restT, evStack, hnx]
    omega
  · have := hc.restW
    have hw : evW ({ id := d.nextId, kind := .visit f.rest [] false none } : QEv) +
        restW (EvKind.visit f.rest [] false none) = 8 * visits f.rest + 6 := by
      simp [evW, restW, todoOf, evStack]
    simp only [mu2, List.map_cons, List.map_nil, List.sum_cons, List.sum_nil, List.filter_nil, List.length_nil, hw]
    omega

/-- … the fan-out state was the last: the terminal notification, everything the join holds is released -/
theorem fin_join_end {N : Nat} {d : Cfg} {m : QEv} {rp : Option Nat} {f : Frame}
    (h : Mid N d m.id rp) (hm : m ∈ d.evq) (hu : m.unacked = true) (hstk : evStack m.kind = [f])
    (hlast : lastVisit m.kind = true) (hkt : isTaskKind m.kind = true → rp = some m.id)
    (hge : f.width ≤ (joinAfter d.joins f m.id rp).filled.length) (hv : f.rest = .done) :
    PInv N ((List.foldl Cfg.act d ([Act.note true] ++ releaseOf (joinAfter d.joins f m.id rp))).withVol
        { timers := d.timers, pending := d.pending, orphans := d.orphans, joins := dropJoin d.joins f.jid }) ∧
      mu2 ((List.foldl Cfg.act d ([Act.note true] ++ releaseOf (joinAfter d.joins f m.id rp))).withVol
        { timers := d.timers, pending := d.pending, orphans := d.orphans, joins := dropJoin d.joins f.jid }) ≤ mu2 d := by
  have hc := complete_of h hm hu hstk hlast hkt hge
  obtain ⟨hD, hV, hS, hJ, hC, hin, hrpok, hnorp⟩ := h
  have hdrop := (gjoin hJ (mem_evK hm) hstk).drop
  rw [List.foldl_append]
  have hrel := fold_release hc hD.corrnd (List.foldl Cfg.act d [Act.note true]) [] (by simp [Cfg.act]) (by simp) (by simp [Cfg.act])
  rw [hrel, hdrop]
  simp only [List.foldl, Cfg.act, Cfg.withVol, hc.timers, hc.pending, hc.orphans]
  refine ⟨⟨?_, ?_, ?_, ?_, ?_⟩, ?_⟩
  · constructor <;> simp [evK, rpC]
    · exact hD.sentlt
    · exact hD.sentnd
    · exact hD.nodiv
    · exact hD.nofail
    · exact hD.nodead
  · constructor <;> simp [uEv, uRp]
  · constructor <;> simp [evK]
  · constructor <;> simp
  · obtain ⟨psi0, psi1, phi, fresh⟩ := hC
    have hne : evK d ≠ [] := List.ne_nil_of_mem (mem_evK hm)
    have hn0 := psi1 hne
    refine ⟨fun _ => by show d.notes + 1 = 1; omega, by simp [evK], ?_, by simp [rpC]⟩
    have hsum := sum_map_add (evK d) (fun p => tasksIn (todoOf p.2)) (fun p => restT p.2)
    simp only [load2] at phi
    rw [hsum, hc.tasks, hc.restT, hv] at phi
    simp [load2, inflight2, evK, tasksIn] at phi ⊢
    omega
  · simp [mu2]

end Asl.Crash
