import AslModel.Path
namespace Asl

@[simp] theorem objGet_objSet_same (kvs : List (Str × Json)) (k : Str) (v : Json) :
    objGet (objSet kvs k v) k = some v := by
  induction kvs with
  | nil => simp [objSet, objGet]
  | cons p rest ih =>
    obtain ⟨k', v'⟩ := p
    by_cases h : k' = k
    · simp [objSet, objGet, h]
    · simp [objSet, objGet, h, ih]

theorem objGet_objSet_ne (kvs : List (Str × Json)) (k k2 : Str) (v : Json) (h : k ≠ k2) :
    objGet (objSet kvs k v) k2 = objGet kvs k2 := by
  induction kvs with
  | nil => simp [objSet, objGet, h]
  | cons p rest ih =>
    obtain ⟨k', v'⟩ := p
    by_cases h1 : k' = k
    · subst h1
      simp [objSet, objGet, h]
    · by_cases h2 : k' = k2
      · subst h2
        simp [objSet, objGet, h1]
      · simp [objSet, objGet, h1, h2, ih]

theorem listSet_get_same (xs : List Json) (i : Nat) (v : Json) (h : i < xs.length) :
    (listSet xs i v)[i]? = some v := by
  induction xs generalizing i with
  | nil => simp at h
  | cons x xs ih =>
    cases i with
    | zero => simp [listSet]
    | succ n =>
      simp only [listSet, List.getElem?_cons_succ]
      exact ih n (by simpa using h)

theorem listSet_get_ne (xs : List Json) (i j : Nat) (v : Json) (h : i ≠ j) :
    (listSet xs i v)[j]? = xs[j]? := by
  induction xs generalizing i j with
  | nil => simp [listSet]
  | cons x xs ih =>
    cases i with
    | zero =>
      cases j with
      | zero => exact absurd rfl h
      | succ m => simp [listSet]
    | succ n =>
      cases j with
      | zero => simp [listSet]
      | succ m =>
        simp only [listSet, List.getElem?_cons_succ]
        exact ih n m (by omega)

@[simp] theorem listSet_length (xs : List Json) (i : Nat) (v : Json) :
    (listSet xs i v).length = xs.length := by
  induction xs generalizing i with
  | nil => simp [listSet]
  | cons x xs ih => cases i <;> simp [listSet, ih]

end Asl
