/-
RFC 3339 layer: the printer/parser round trip and the arithmetic of instants.
(Theorems of properties C14 and C08; re-exported by Proofs/C08.lean.)
-/
import AslModel.Timestamp
namespace Asl.TsLemmas
open Asl

theorem digitVal_digitChar : ∀ n, n < 10 → digitVal (digitChar n) = some n := by decide

theorem take2_pad2 (n : Nat) (h : n < 100) (rest : Str) :
    take2 (pad2 n ++ rest) = some (n, rest) := by
  have h1 : n / 10 < 10 := by omega
  have h2 : n % 10 < 10 := by omega
  have h3 : n / 10 * 10 + n % 10 = n := by omega
  simp [take2, pad2, digitVal_digitChar _ h1, digitVal_digitChar _ h2, h3]

theorem take4_pad4 (n : Nat) (h : n < 10000) (rest : Str) :
    take4 (pad4 n ++ rest) = some (n, rest) := by
  have h1 : n / 1000 < 10 := by omega
  have h2 : n / 100 % 10 < 10 := by omega
  have h3 : n / 10 % 10 < 10 := by omega
  have h4 : n % 10 < 10 := by omega
  have h5 : n / 1000 * 1000 + n / 100 % 10 * 100 + n / 10 % 10 * 10 + n % 10 = n := by omega
  simp [take4, pad4, digitVal_digitChar _ h1, digitVal_digitChar _ h2, digitVal_digitChar _ h3,
    digitVal_digitChar _ h4, h5]

theorem take2_pad2_nil (n : Nat) (h : n < 100) : take2 (pad2 n) = some (n, []) := by
  have := take2_pad2 n h []
  simpa using this

theorem expect_cons (c : Char) (rest : Str) : expect c (c :: rest) = some rest := by
  simp [expect]

theorem takeDigitsN_map (ds : List Nat) (h : allLt10 ds = true) (c : Char) (rest : Str)
    (hc : digitVal c = none) :
    takeDigitsN (ds.map digitChar ++ c :: rest) = (ds, c :: rest) := by
  induction ds with
  | nil => simp [takeDigitsN, hc]
  | cons d ds ih =>
    simp [allLt10] at h
    simp [takeDigitsN, digitVal_digitChar d h.1, ih h.2]

theorem parseFrac_print (ds : List Nat) (h : allLt10 ds = true) (hl : ds.length ≤ 6)
    (c : Char) (rest : Str) (hc : digitVal c = none) (hdot : c ≠ '.') :
    parseFrac (printFrac ds ++ c :: rest) = some (ds, c :: rest) := by
  cases ds with
  | nil => simp [printFrac, parseFrac, hdot]
  | cons d ds =>
    have := takeDigitsN_map (d :: ds) h c rest hc
    simp only [printFrac, List.cons_append, parseFrac]
    simp only [List.map_cons, List.cons_append] at this
    simp [this]
    simpa using hl

theorem parseOff_print (z : Bool) (off : Int) (h1 : -1439 ≤ off) (h2 : off ≤ 1439)
    (hz : z = true → off = 0) : parseOff (printOff z off) = some (z, off) := by
  cases z with
  | true => simp [printOff, parseOff, hz rfl]
  | false =>
    have a1 : off.natAbs / 60 < 100 := by omega
    have a2 : off.natAbs % 60 < 100 := by omega
    by_cases hneg : off < 0
    · simp [printOff, parseOff, hneg, take2_pad2 _ a1, take2_pad2_nil _ a2, expect_cons]
      omega
    · simp [printOff, parseOff, hneg, take2_pad2 _ a1, take2_pad2_nil _ a2, expect_cons]
      omega

theorem printOff_head (z : Bool) (off : Int) :
    ∃ c rest, printOff z off = c :: rest ∧ digitVal c = none ∧ c ≠ '.' := by
  cases z with
  | true => exact ⟨'Z', [], by simp [printOff], by decide, by decide⟩
  | false =>
    by_cases hneg : off < 0
    · exact ⟨'-', pad2 (off.natAbs / 60) ++ ':' :: pad2 (off.natAbs % 60),
        by simp [printOff, hneg], by decide, by decide⟩
    · exact ⟨'+', pad2 (off.natAbs / 60) ++ ':' :: pad2 (off.natAbs % 60),
        by simp [printOff, hneg], by decide, by decide⟩

/-- **parse ∘ print = id** on every timestamp record of the grammar: any date, any fraction
(0 to 6 digits), every offset −23:59 … +23:59, and the `Z` form. -/
theorem parse_print_rfc3339 (t : Ts) (h : t.ok = true) : parseTs (printTs t) = some t := by
  obtain ⟨y, mo, d, hr, mi, s, fr, off, z⟩ := t
  have hk := h
  simp only [Ts.ok, Bool.and_eq_true, decide_eq_true_eq, Bool.or_eq_true, Bool.not_eq_true'] at hk
  obtain ⟨⟨⟨⟨⟨⟨⟨⟨⟨⟨⟨⟨⟨hy1, hy2⟩, hm1⟩, hm2⟩, hd1⟩, hd2⟩, hh⟩, hmi⟩, hs⟩, hfl⟩, hfd⟩, ho1⟩, ho2⟩, hz⟩ := hk
  have hdim : daysInMonth y mo ≤ 31 := by
    unfold daysInMonth; split <;> (try split) <;> omega
  obtain ⟨c, rest, hoff, hc, hdot⟩ := printOff_head z off
  have hzz : z = true → off = 0 := by
    intro hzt; cases hz with
    | inl h0 => rw [h0] at hzt; cases hzt
    | inr h0 => exact h0
  have hfrac := parseFrac_print fr hfd hfl c rest hc hdot
  have hpo := parseOff_print z off ho1 ho2 hzz
  rw [hoff] at hpo
  simp only [parseTs, printTs, hoff]
  rw [take4_pad4 _ (by omega)]
  simp only [Option.bind_eq_bind, Option.bind_some, expect_cons]
  rw [take2_pad2 _ (by omega)]
  simp only [Option.bind_some, expect_cons]
  rw [take2_pad2 _ (by omega)]
  simp only [Option.bind_some, expect_cons]
  rw [take2_pad2 _ (by omega)]
  simp only [Option.bind_some, expect_cons]
  rw [take2_pad2 _ (by omega)]
  simp only [Option.bind_some, expect_cons]
  rw [take2_pad2 _ (by omega)]
  simp only [Option.bind_some, hfrac, hpo, h, if_true]

/-- **every legal notation denotes its true instant**: the instant of a timestamp written
with offset `off` (minutes east of UTC) is the instant of the same wall-clock fields read
as UTC, minus `off` minutes — for all offsets, by arithmetic. -/
theorem instant_offset (t : Ts) :
    t.instant = ({ t with off := 0 } : Ts).instant - 60 * 10 ^ 6 * t.off := by
  simp [Ts.instant, Ts.localMicros]

/-- the `Z` form and `+00:00` denote the same instant -/
theorem instant_zulu (t : Ts) : ({ t with zulu := true } : Ts).instant = t.instant := by
  simp [Ts.instant, Ts.localMicros]

/-- the same instant written in another zone: moving the wall clock forward by `m` minutes
and the offset east by `m` minutes changes nothing (stated on the minute field). -/
theorem instant_shift_minutes (t : Ts) (m : Nat) :
    ({ t with minute := t.minute + m, off := t.off + m } : Ts).instant = t.instant := by
  simp only [Ts.instant, Ts.localMicros]
  push_cast
  omega

/-! ### days-from-civil counts days: three successor laws that determine it from the epoch -/

theorem days_epoch : daysFromCivil 1970 1 1 = 0 := by decide

theorem days_next_day (y m d : Nat) : daysFromCivil y m (d + 1) = daysFromCivil y m d + 1 := by
  simp only [daysFromCivil]
  push_cast
  omega

theorem days_next_month (y m : Nat) (h1 : 1 ≤ m) (h2 : m < 12) :
    daysFromCivil y (m + 1) 1 = daysFromCivil y m (daysInMonth y m) + 1 := by
  have hm : m = 1 ∨ m = 2 ∨ m = 3 ∨ m = 4 ∨ m = 5 ∨ m = 6 ∨ m = 7 ∨ m = 8 ∨ m = 9 ∨ m = 10 ∨ m = 11 := by
    omega
  rcases hm with h | h | h | h | h | h | h | h | h | h | h <;> subst h <;>
    simp [daysFromCivil, daysInMonth, isLeap] <;> (try split) <;> omega

theorem days_next_year (y : Nat) :
    daysFromCivil (y + 1) 1 1 = daysFromCivil y 12 31 + 1 := by
  simp [daysFromCivil]
  omega

end Asl.TsLemmas
