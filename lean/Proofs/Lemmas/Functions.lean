import AslModel.Intrinsic
namespace Asl

/-! ### ArrayPartition -/

theorem chunks_flatten (n : Nat) (hn : 0 < n) :
    ∀ (fuel : Nat) (xs : List Json), xs.length ≤ fuel → (chunks n fuel xs).flatten = xs := by
  intro fuel
  induction fuel with
  | zero => intro xs h; cases xs <;> simp_all [chunks]
  | succ f ih =>
    intro xs h
    cases xs with
    | nil => simp [chunks]
    | cons x xs =>
      rw [chunks, List.flatten_cons, ih _ (by simp at h ⊢; omega), List.take_append_drop]

theorem chunks_sizes (n : Nat) (hn : 0 < n) :
    ∀ (fuel : Nat) (xs : List Json), ∀ c ∈ chunks n fuel xs, 0 < c.length ∧ c.length ≤ n := by
  intro fuel
  induction fuel with
  | zero => intro xs c hc; simp [chunks] at hc
  | succ f ih =>
    intro xs c hc
    cases xs with
    | nil => simp [chunks] at hc
    | cons x xs =>
      rw [chunks] at hc
      rcases List.mem_cons.mp hc with h | h
      · subst h; simp [List.length_take]; omega
      · exact ih _ c h

/-- every chunk but the last is full -/
theorem chunks_full (n : Nat) (hn : 0 < n) :
    ∀ (fuel : Nat) (xs : List Json), xs.length ≤ fuel →
      ∀ c ∈ (chunks n fuel xs).dropLast, c.length = n := by
  intro fuel
  induction fuel with
  | zero => intro xs _ c hc; simp [chunks] at hc
  | succ f ih =>
    intro xs hl c hc
    cases xs with
    | nil => simp [chunks] at hc
    | cons x xs =>
      rw [chunks] at hc
      cases hrest : chunks n f ((x :: xs).drop n) with
      | nil => simp [hrest] at hc
      | cons d ds =>
        rw [hrest, List.dropLast_cons_cons] at hc
        rcases List.mem_cons.mp hc with h | h
        · subst h
          -- the rest is non-empty, so more than n elements were there
          have hne : (x :: xs).drop n ≠ [] := by
            intro h0; rw [h0] at hrest; cases f <;> simp [chunks] at hrest
          have hlen : n < (x :: xs).length := by
            rcases Nat.lt_or_ge n (x :: xs).length with hlt | hge
            · exact hlt
            · exact absurd (List.drop_eq_nil_of_le hge) hne
          rw [List.length_take]
          exact Nat.min_eq_left (Nat.le_of_lt hlen)
        · rw [← hrest] at h
          exact ih _ (by simp at hl ⊢; omega) c h

/-! ### ArrayRange -/

theorem rangeUp_get (hi s : Int) : ∀ (fuel : Nat) (x : Int) (i : Nat) (h : i < (rangeUp hi s fuel x).length),
    (rangeUp hi s fuel x)[i] = x + i * s := by
  intro fuel
  induction fuel with
  | zero => intro x i h; simp [rangeUp] at h
  | succ f ih =>
    intro x i h
    simp only [rangeUp] at h ⊢
    split
    · rename_i hx
      simp only [hx, ite_true] at h
      cases i with
      | zero => simp
      | succ j =>
        simp only [List.getElem_cons_succ]
        rw [ih (x + s) j (by simpa using h)]
        rw [Int.natCast_add, Int.add_mul]; simp; omega
    · rename_i hx; simp [hx] at h

theorem rangeDown_get (lo s : Int) : ∀ (fuel : Nat) (x : Int) (i : Nat) (h : i < (rangeDown lo s fuel x).length),
    (rangeDown lo s fuel x)[i] = x + i * s := by
  intro fuel
  induction fuel with
  | zero => intro x i h; simp [rangeDown] at h
  | succ f ih =>
    intro x i h
    simp only [rangeDown] at h ⊢
    split
    · rename_i hx
      simp only [hx, ite_true] at h
      cases i with
      | zero => simp
      | succ j =>
        simp only [List.getElem_cons_succ]
        rw [ih (x + s) j (by simpa using h)]
        rw [Int.natCast_add, Int.add_mul]; simp; omega
    · rename_i hx; simp [hx] at h

theorem rangeUp_bound (hi s : Int) : ∀ (fuel : Nat) (x : Int), ∀ y ∈ rangeUp hi s fuel x, y ≤ hi := by
  intro fuel
  induction fuel with
  | zero => intro x y h; simp [rangeUp] at h
  | succ f ih =>
    intro x y h
    simp only [rangeUp] at h
    split at h
    · rcases List.mem_cons.mp h with h1 | h1
      · subst h1; assumption
      · exact ih _ y h1
    · simp at h

theorem rangeDown_bound (lo s : Int) : ∀ (fuel : Nat) (x : Int), ∀ y ∈ rangeDown lo s fuel x, lo ≤ y := by
  intro fuel
  induction fuel with
  | zero => intro x y h; simp [rangeDown] at h
  | succ f ih =>
    intro x y h
    simp only [rangeDown] at h
    split at h
    · rcases List.mem_cons.mp h with h1 | h1
      · subst h1; assumption
      · exact ih _ y h1
    · simp at h

/-- the list stops only when the next element would pass the end (or the fuel ran out) -/
theorem rangeUp_maximal (hi s : Int) : ∀ (fuel : Nat) (x : Int),
    (rangeUp hi s fuel x).length < fuel → hi < x + (rangeUp hi s fuel x).length * s := by
  intro fuel
  induction fuel with
  | zero => intro x h; simp at h
  | succ f ih =>
    intro x h
    simp only [rangeUp] at h ⊢
    split
    · rename_i hx
      simp only [hx, ite_true, List.length_cons] at h
      have := ih (x + s) (by omega)
      simp only [List.length_cons]
      rw [Int.natCast_add, Int.add_mul]; simp; omega
    · rename_i hx; simp; omega

theorem rangeDown_maximal (lo s : Int) : ∀ (fuel : Nat) (x : Int),
    (rangeDown lo s fuel x).length < fuel → x + (rangeDown lo s fuel x).length * s < lo := by
  intro fuel
  induction fuel with
  | zero => intro x h; simp at h
  | succ f ih =>
    intro x h
    simp only [rangeDown] at h ⊢
    split
    · rename_i hx
      simp only [hx, ite_true, List.length_cons] at h
      have := ih (x + s) (by omega)
      simp only [List.length_cons]
      rw [Int.natCast_add, Int.add_mul]; simp; omega
    · rename_i hx; simp; omega

/-! ### ArrayUnique / ArrayContains -/

theorem jeq_refl (a : Json) : jeq a a = true := by simp [jeq]
theorem jeq_symm (a b : Json) : jeq a b = jeq b a := by simp [jeq, eq_comm]
theorem jeq_trans (a b c : Json) (h1 : jeq a b = true) (h2 : jeq b c = true) : jeq a c = true := by
  simp [jeq] at *; rw [h1, h2]

theorem uniq_sublist : ∀ xs : List Json, (uniq xs).Sublist xs
  | [] => by simp [uniq]
  | x :: xs => by
    rw [uniq]
    exact List.Sublist.cons_cons x ((List.filter_sublist).trans (uniq_sublist xs))

theorem uniq_pairwise : ∀ xs : List Json, (uniq xs).Pairwise (fun a b => jeq a b = false)
  | [] => by simp [uniq]
  | x :: xs => by
    rw [uniq, List.pairwise_cons]
    refine ⟨?_, (uniq_pairwise xs).sublist List.filter_sublist⟩
    intro y hy
    have := (List.mem_filter.mp hy).2
    simpa using this

theorem uniq_complete : ∀ (xs : List Json) (y : Json), y ∈ xs → ∃ z ∈ uniq xs, jeq z y = true
  | [], y, h => by simp at h
  | x :: xs, y, h => by
    rw [uniq]
    rcases List.mem_cons.mp h with h1 | h1
    · subst h1; exact ⟨y, by simp, jeq_refl y⟩
    · obtain ⟨z, hz, hzy⟩ := uniq_complete xs y h1
      by_cases hx : jeq x z = true
      · exact ⟨x, by simp, jeq_trans x z y hx hzy⟩
      · exact ⟨z, by simp [List.mem_filter, hz, hx], hzy⟩

/-- the element kept for a class is its first occurrence -/
theorem uniq_keeps_first : ∀ (pre : List Json) (y : Json) (post : List Json),
    (∀ p ∈ pre, jeq p y = false) → y ∈ uniq (pre ++ y :: post)
  | [], y, post, _ => by simp [uniq]
  | p :: pre, y, post, h => by
    rw [List.cons_append, uniq]
    have h1 := uniq_keeps_first pre y post (fun q hq => h q (by simp [hq]))
    have h2 := h p (by simp)
    simp [List.mem_filter, h1, h2]

/-! ### JsonMerge -/

theorem objGet_objSet_same' (kvs : List (Str × Json)) (k : Str) (v : Json) :
    objGet (objSet kvs k v) k = some v := by
  induction kvs with
  | nil => simp [objSet, objGet]
  | cons kv rest ih =>
    obtain ⟨k', v'⟩ := kv
    by_cases h : k' = k <;> simp [objSet, objGet, h, ih]

theorem objGet_objSet_ne' (kvs : List (Str × Json)) (k k2 : Str) (v : Json) (hne : k ≠ k2) :
    objGet (objSet kvs k v) k2 = objGet kvs k2 := by
  induction kvs with
  | nil => simp [objSet, objGet, hne]
  | cons kv rest ih =>
    obtain ⟨k', v'⟩ := kv
    by_cases h : k' = k
    · subst h; simp [objSet, objGet, hne]
    · simp only [objSet, if_neg h, objGet]
      by_cases h2 : k' = k2 <;> simp [h2, ih]

/-- the last binding of `k` in an association list -/
def objGetLast (kvs : List (Str × Json)) (k : Str) : Option Json := objGet kvs.reverse k

theorem mergeObj_get (b : List (Str × Json)) : ∀ (a : List (Str × Json)) (k : Str),
    objGet (mergeObj a b) k = (objGetLast b k).or (objGet a k) := by
  induction b with
  | nil => intro a k; simp [mergeObj, objGetLast, objGet]
  | cons kv rest ih =>
    intro a k
    obtain ⟨k', v'⟩ := kv
    have hstep : mergeObj a ((k', v') :: rest) = mergeObj (objSet a k' v') rest := by
      simp [mergeObj]
    rw [hstep, ih]
    have hrev : objGetLast ((k', v') :: rest) k = (objGetLast rest k).or (if k' = k then some v' else none) := by
      simp only [objGetLast, List.reverse_cons]
      generalize rest.reverse = r
      induction r with
      | nil => simp [objGet]
      | cons kv2 r2 ih2 =>
        obtain ⟨k2, v2⟩ := kv2
        by_cases h : k2 = k <;> simp [objGet, h, ih2]
    rw [hrev]
    by_cases h : k' = k
    · subst h; simp [objGet_objSet_same']
    · simp [h, objGet_objSet_ne' a k' k v' h]

/-! ### StringSplit -/

/-- weave pieces and separators back together -/
def weave : List Str → Str → Str
  | [], _ => []
  | [p], _ => p
  | p :: q :: ps, s :: ss => p ++ s :: weave (q :: ps) ss
  | p :: _ :: _, [] => p

theorem splitOn_ne_nil (seps d : Str) : splitOn seps d ≠ [] := by
  induction d with
  | nil => simp [splitOn]
  | cons c cs ih =>
    rw [splitOn]
    split
    · simp
    · cases h : splitOn seps cs <;> simp [consHead]

theorem splitOn_sep (seps : Str) (c : Char) (cs : Str) (h : seps.contains c = true) :
    splitOn seps (c :: cs) = [] :: splitOn seps cs := by
  rw [splitOn, if_pos h]

theorem splitOn_plain (seps : Str) (c : Char) (cs : Str) (h : ¬ seps.contains c = true) :
    splitOn seps (c :: cs) = consHead c (splitOn seps cs) := by
  rw [splitOn, if_neg h]

/-- the separator characters of `d`, in order -/
def sepsOf (seps d : Str) : Str := d.filter (fun c => seps.contains c)

theorem sepsOf_sep (seps : Str) (c : Char) (cs : Str) (h : seps.contains c = true) :
    sepsOf seps (c :: cs) = c :: sepsOf seps cs := by
  unfold sepsOf; exact List.filter_cons_of_pos h

theorem sepsOf_plain (seps : Str) (c : Char) (cs : Str) (h : ¬ seps.contains c = true) :
    sepsOf seps (c :: cs) = sepsOf seps cs := by
  unfold sepsOf; exact List.filter_cons_of_neg h

theorem splitOn_weave (seps : Str) : ∀ d : Str, weave (splitOn seps d) (sepsOf seps d) = d := by
  intro d
  induction d with
  | nil => simp [splitOn, weave]
  | cons c cs ih =>
    by_cases h : seps.contains c = true
    · rw [splitOn_sep seps c cs h, sepsOf_sep seps c cs h]
      cases hs : splitOn seps cs with
      | nil => exact absurd hs (splitOn_ne_nil seps cs)
      | cons p ps =>
        rw [hs] at ih
        simp only [weave, List.nil_append, ih]
    · rw [splitOn_plain seps c cs h, sepsOf_plain seps c cs h]
      cases hs : splitOn seps cs with
      | nil => exact absurd hs (splitOn_ne_nil seps cs)
      | cons p ps =>
        rw [hs] at ih
        cases ps with
        | nil => simp only [consHead, weave] at ih ⊢; rw [ih]
        | cons q qs =>
          cases hf : sepsOf seps cs with
          | nil => rw [hf] at ih; simp only [consHead, weave] at ih ⊢; rw [ih]
          | cons s ss => rw [hf] at ih; simp only [consHead, weave, List.cons_append] at ih ⊢; rw [ih]

theorem splitOn_pieces_clean (seps : Str) : ∀ d : Str, ∀ p ∈ splitOn seps d, ∀ c ∈ p,
    seps.contains c = false := by
  intro d
  induction d with
  | nil => intro p hp c hc; simp [splitOn] at hp; subst hp; simp at hc
  | cons x xs ih =>
    intro p hp c hc
    by_cases h : seps.contains x = true
    · rw [splitOn_sep seps x xs h] at hp
      rcases List.mem_cons.mp hp with h1 | h1
      · subst h1; simp at hc
      · exact ih p h1 c hc
    · rw [splitOn_plain seps x xs h] at hp
      cases hs : splitOn seps xs with
      | nil => exact absurd hs (splitOn_ne_nil seps xs)
      | cons q qs =>
        rw [hs] at hp ih
        simp only [consHead] at hp
        rcases List.mem_cons.mp hp with h1 | h1
        · subst h1
          rcases List.mem_cons.mp hc with h2 | h2
          · subst h2; exact Bool.eq_false_iff.mpr h
          · exact ih q (List.mem_cons_self ..) c h2
        · exact ih p (List.mem_cons_of_mem _ h1) c hc

theorem splitOn_length (seps : Str) : ∀ d : Str,
    (splitOn seps d).length = (sepsOf seps d).length + 1 := by
  intro d
  induction d with
  | nil => simp [splitOn, sepsOf]
  | cons c cs ih =>
    by_cases h : seps.contains c = true
    · rw [splitOn_sep seps c cs h, sepsOf_sep seps c cs h, List.length_cons, ih, List.length_cons]
    · rw [splitOn_plain seps c cs h, sepsOf_plain seps c cs h, ← ih]
      cases hs : splitOn seps cs with
      | nil => exact absurd hs (splitOn_ne_nil seps cs)
      | cons p ps => simp [consHead]

end Asl
