/-
The execution's time limit in the timed reference semantics (`Env.deadline`, AslModel/Interp.lean).

* `taskLimit`: the limit in force for a task invocation is the earlier of the Task's own deadline and the
  execution's, a tie is both.
* `Capped`: with a deadline `D` (and the switch of C08-F1 off) no run — of any of the seven mutually recursive
  functions, from any state whose clock is not beyond the bound — files an event at an instant beyond
  `B ≥ max(clock, D)`, nor moves the clock beyond it (`capAll`, mutual induction on the fuel).
-/
import AslModel.Interp
import Proofs.Lemmas.Log
namespace Asl

/-! ### `rmax` -/

theorem rmax_le {a b c : Rat} (h1 : a ≤ c) (h2 : b ≤ c) : rmax a b ≤ c := by unfold rmax; split <;> assumption
theorem rmax_eq_right {a b : Rat} (h : a ≤ b) : rmax a b = b := by simp [rmax, h]
theorem rmax_eq_left {a b : Rat} (h : b ≤ a) : rmax a b = a := by
  unfold rmax; split
  · exact Rat.le_antisymm h (by assumption)
  · rfl
theorem rmax_comm_le (a b : Rat) : rmax a b ≤ rmax b a := rmax_le (le_rmax_right _ _) (le_rmax_left _ _)

/-! ### `execCut` -/

theorem execCut_some {dl : Option Rat} {t d : Rat} (h : execCut dl t = some d) : dl = some d ∧ d ≤ t := by
  unfold execCut at h
  split at h
  · split at h
    · simp only [Option.some.injEq] at h; subst h; exact ⟨rfl, by assumption⟩
    · simp at h
  · simp at h

theorem execCut_none {D t : Rat} (h : execCut (some D) t = none) : t < D := by
  unfold execCut at h
  simp only at h
  split at h
  · simp at h
  · rename_i hn; exact Rat.not_le.mp hn

theorem execCut_of_le {D t : Rat} (h : D ≤ t) : execCut (some D) t = some D := by simp [execCut, h]

/-! ### `taskLimit` -/

/-- with an execution deadline there always is a limit, and it is not after the deadline (clamped at `now`) -/
theorem taskLimit_le_exec (own : Option Rat) (D now : Rat) :
    ∃ l, taskLimit own (some D) now = some l ∧ l.t ≤ rmax now D := by
  cases own with
  | none => exact ⟨_, rfl, Rat.le_refl⟩
  | some o =>
    unfold taskLimit
    simp only
    split
    · exact ⟨_, rfl, Rat.le_refl⟩
    · split
      · rename_i h; exact ⟨_, rfl, Rat.le_of_lt h⟩
      · rename_i h1 h2
        exact ⟨_, rfl, Rat.not_lt.mp h1⟩

/-- when the execution's limit is (among) the one(s) in force, the instant is the execution's deadline (clamped at `now`) -/
theorem taskLimit_exec_t {own : Option Rat} {D now : Rat} {l : Limit}
    (h : taskLimit own (some D) now = some l) (hx : l.exec = true) : l.t = rmax now D := by
  cases own with
  | none => simp only [taskLimit, Option.some.injEq] at h; rw [← h]
  | some o =>
    unfold taskLimit at h
    simp only at h
    split at h
    · simp only [Option.some.injEq] at h; rw [← h]
    · split at h
      · simp only [Option.some.injEq] at h; rw [← h] at hx; simp at hx
      · rename_i h1 h2
        simp only [Option.some.injEq] at h; rw [← h]
        exact Rat.le_antisymm (Rat.not_lt.mp h1) (Rat.not_lt.mp h2)

/-- the instant a task invocation ends is not after the limit in force -/
theorem taskArrival_le {delay : Option Rat} {L now tEnd : Rat} {to : Bool}
    (h : taskArrival delay (some L) now = some (tEnd, to)) : tEnd ≤ L := by
  cases delay with
  | none =>
    simp only [taskArrival, Option.some.injEq, Prod.mk.injEq] at h
    rw [← h.1]; exact Rat.le_refl
  | some d =>
    simp only [taskArrival] at h
    split at h
    · rename_i hlt
      simp only [Option.some.injEq, Prod.mk.injEq] at h
      rw [← h.1]; exact Rat.le_of_lt hlt
    · simp only [Option.some.injEq, Prod.mk.injEq] at h
      rw [← h.1]; exact Rat.le_refl

/-! ### nothing beyond the bound -/

/-- `st'` is `st` after some more events, none of them at an instant beyond `B`, and its clock is not beyond `B` -/
def Capped (B : Rat) (st st' : St) : Prop :=
  st'.clock ≤ B ∧ ∃ ts, st'.times = ts ++ st.times ∧ ∀ t ∈ ts, t ≤ B

theorem Capped.refl {B : Rat} {st : St} (h : st.clock ≤ B) : Capped B st st := ⟨h, [], rfl, by simp⟩

theorem Capped.trans {B : Rat} {a b c : St} (h1 : Capped B a b) (h2 : Capped B b c) : Capped B a c := by
  obtain ⟨_, t1, e1, g1⟩ := h1
  obtain ⟨c2, t2, e2, g2⟩ := h2
  refine ⟨c2, t2 ++ t1, by rw [e2, e1, List.append_assoc], ?_⟩
  intro t ht
  rcases List.mem_append.mp ht with h | h
  · exact g2 t h
  · exact g1 t h

/-- nothing filed, the clock somewhere not beyond the bound -/
theorem Capped.same {B : Rat} {a b : St} (h : Capped B a b) (c : St) (ht : c.times = b.times) (hc : c.clock ≤ B) :
    Capped B a c := by
  obtain ⟨_, t1, e1, g1⟩ := h
  exact ⟨hc, t1, by rw [ht, e1], g1⟩

/-- one event filed at the clock's instant -/
theorem Capped.push {B : Rat} {a b : St} (h : Capped B a b) (e : Ev) : Capped B a (b.push e) := by
  obtain ⟨c1, t1, e1, g1⟩ := h
  refine ⟨c1, b.clock :: t1, by simp [St.push, e1], ?_⟩
  intro t ht
  rcases List.mem_cons.mp ht with h | h
  · rw [h]; exact c1
  · exact g1 t h

theorem Capped.exit {B : Rat} {a b : St} (h : Capped B a b) (ty n : Str) (d : Json) : Capped B a (b.exit ty n d) := by
  obtain ⟨c1, t1, e1, g1⟩ := h
  refine ⟨c1, b.clock :: t1, by simp [St.exit, e1], ?_⟩
  intro t ht
  rcases List.mem_cons.mp ht with h | h
  · rw [h]; exact c1
  · exact g1 t h

theorem Capped.enter {B : Rat} {a b : St} (h : Capped B a b) (ty n : Str) (d : Json) (r : Nat) :
    Capped B a (b.enter ty n d r) := by
  unfold St.enter
  split
  · obtain ⟨c1, t1, e1, g1⟩ := h
    refine ⟨c1, b.clock :: t1, by simp [e1], ?_⟩
    intro t ht
    rcases List.mem_cons.mp ht with h | h
    · rw [h]; exact c1
    · exact g1 t h
  · exact h

theorem Capped.waitUntil {B : Rat} {a b : St} (h : Capped B a b) (t : Rat) (ht : t ≤ B) : Capped B a (b.waitUntil t) :=
  h.same _ rfl (rmax_le h.1 ht)

theorem Capped.at {B : Rat} {a b : St} (h : Capped B a b) (t : Rat) (ht : t ≤ B) : Capped B a (b.at t) := h.same _ rfl ht

theorem Capped.fr {B : Rat} {a b : St} (h : Capped B a b) (f : FS → FS) : Capped B a (b.fr f) := h.same _ rfl h.1
theorem Capped.handover {B : Rat} {a b : St} (h : Capped B a b) (n : Str) : Capped B a (b.handover n) := h.fr _
theorem Capped.closeKeep {B : Rat} {a b : St} (h : Capped B a b) : Capped B a b.closeKeep := h.fr _
theorem Capped.request {B : Rat} {a b : St} (h : Capped B a b) (t : Bool) : Capped B a (b.request t) := h.fr _
theorem Capped.pushLevel {B : Rat} {a b : St} (h : Capped B a b) (mc : Nat) : Capped B a (b.pushLevel mc) := h.fr _
theorem Capped.visit {B : Rat} {a b : St} (h : Capped B a b) (ty : Str) : Capped B a (b.visit ty) := h.fr _
theorem Capped.failTok {B : Rat} {a b : St} (h : Capped B a b) : Capped B a b.failTok := h.fr _
theorem Capped.launch {B : Rat} {a b : St} (h : Capped B a b) (ns : List Str) : Capped B a (b.launch ns) := h.fr _
theorem Capped.startBranch {B : Rat} {a b : St} (h : Capped B a b) : Capped B a b.startBranch := h.fr _
theorem Capped.endBranch {B : Rat} {a b : St} (h : Capped B a b) (f : Bool) : Capped B a (b.endBranch f) := h.fr _
theorem Capped.join {B : Rat} {a b : St} (h : Capped B a b) (f : Bool) : Capped B a (b.join f) := h.fr _
theorem Capped.batch {B : Rat} {a b : St} (h : Capped B a b) (n : Str) (ns : List Str) : Capped B a (b.batch n ns) := h.fr _

theorem Capped.fanFailedIf {B : Rat} {a b : St} (h : Capped B a b) (state : Json) : Capped B a (b.fanFailedIf state) := by
  unfold St.fanFailedIf
  split
  · exact h.push _
  · exact h

theorem Capped.iterEnd {B : Rat} {a b : St} (h : Capped B a b) (name : Str) (i : Nat) (r : Res) :
    Capped B a (b.iterEnd name i r) := by
  unfold St.iterEnd
  split
  · split
    · exact h
    · exact h.push _
  · exact h

theorem Capped.fanFail {B : Rat} {a b : St} (h : Capped B a b) (x : Bool) : Capped B a { b with fanFail := x } :=
  h.same _ rfl h.1

/-- one task invocation ending at `tEnd ≤ B` -/
theorem Capped.taskCall {B : Rat} {a b : St} (h : Capped B a b) (counts : List ((Str × Json) × Nat)) (res : Str)
    (p : Json) (ev : Ev) (tEnd : Rat) (ht : tEnd ≤ B) : Capped B a (b.taskCall counts res p ev tEnd) := by
  have h0 : Capped B a ({ b with counts := counts } : St) := h.same _ rfl h.1
  exact ((h0.push _).waitUntil tEnd ht).push _

theorem Capped.taskSilent {B : Rat} {a b : St} (h : Capped B a b) (counts : List ((Str × Json) × Nat)) (res : Str)
    (p : Json) (tEnd : Rat) (ht : tEnd ≤ B) : Capped B a (b.taskSilent counts res p tEnd) := by
  have h0 : Capped B a ({ b with counts := counts } : St) := h.same _ rfl h.1
  exact (h0.push _).waitUntil tEnd ht

/-- the join of a branch with the later ones -/
theorem Capped.combine {B : Rat} {a st2 : St} (h : Capped B a st2) (r : Res) (t1 : Rat) (rest : Except Res (List Json))
    (tOk : Rat) (h1 : t1 ≤ B) (hOk : tOk ≤ B) : Capped B a (fanCombine r t1 rest st2 tOk).2 := by
  unfold Asl.fanCombine
  repeat' split
  all_goals first
    | exact h
    | exact h.at _ h1
    | exact h.at _ hOk
    | exact h.same _ rfl h.1
    | exact h.same _ rfl h1

/-- the seven functions at fuel `n`, with the execution's deadline `D` and the switch of C08-F1 off: from any state
whose clock is not beyond `B`, for any bound `B` that is not before the deadline -/
structure CapAll (env : Env) (D : Rat) (n : Nat) : Prop where
  runFrom : ∀ states name data ctx r st B, st.clock ≤ B → D ≤ B →
    Capped B st (runFrom env n states name data ctx r st).2
  leave : ∀ states name state raw data ctx r st B, st.clock ≤ B → D ≤ B →
    Capped B st (leave env n states name state raw data ctx r st).2
  handleErr : ∀ states name state data ctx r e msg st B, st.clock ≤ B → D ≤ B →
    Capped B st (handleErr env n states name state data ctx r e msg st).2
  runState : ∀ states name state data ctx r st B, st.clock ≤ B → D ≤ B →
    Capped B st (runState env n states name state data ctx r st).2
  joinAndLeave : ∀ states name state data ctx r res st B, st.clock ≤ B → D ≤ B →
    Capped B st (joinAndLeave env n states name state data ctx r res st).2
  runBranches : ∀ bs params ctx st B, st.clock ≤ B → D ≤ B → Capped B st (runBranches env n bs params ctx st).2
  runItems : ∀ proc sel input items i mc be ctx bad st B, st.clock ≤ B → be ≤ B → D ≤ B →
    Capped B st (runItems env n proc sel input items i mc be ctx bad st).2

theorem capAll_zero (env : Env) (D : Rat) : CapAll env D 0 := by
  constructor <;> intros <;> simp [runFrom, leave, handleErr, runState, joinAndLeave, runBranches, runItems] <;>
    exact Capped.refl (by assumption)

section step
variable (env : Env) (D : Rat) (hdl : env.deadline = some D) (hq : env.retryPastDeadline = false)
variable (n : Nat) (ih : CapAll env D n)
variable (B : Rat) (hB : D ≤ B)
include ih hB

theorem CapAll.thenFrom {a b : St} (h : Capped B a b) (states : Json) (name : Str) (data ctx : Json) (r : Nat) :
    Capped B a (Asl.runFrom env n states name data ctx r b).2 := h.trans (ih.runFrom _ _ _ _ _ _ B h.1 hB)
theorem CapAll.thenLeave {a b : St} (h : Capped B a b) (states : Json) (name : Str) (state raw data ctx : Json) (r : Nat) :
    Capped B a (Asl.leave env n states name state raw data ctx r b).2 := h.trans (ih.leave _ _ _ _ _ _ _ _ B h.1 hB)
theorem CapAll.thenErr {a b : St} (h : Capped B a b) (states : Json) (name : Str) (state data ctx : Json) (r : Nat)
    (e msg : Str) : Capped B a (Asl.handleErr env n states name state data ctx r e msg b).2 :=
  h.trans (ih.handleErr _ _ _ _ _ _ _ _ _ B h.1 hB)
theorem CapAll.thenState {a b : St} (h : Capped B a b) (states : Json) (name : Str) (state data ctx : Json) (r : Nat) :
    Capped B a (Asl.runState env n states name state data ctx r b).2 := h.trans (ih.runState _ _ _ _ _ _ _ B h.1 hB)
theorem CapAll.thenJoin {a b : St} (h : Capped B a b) (states : Json) (name : Str) (state data ctx : Json) (r : Nat)
    (res : Except Res (List Json)) :
    Capped B a (Asl.joinAndLeave env n states name state data ctx r res b).2 :=
  h.trans (ih.joinAndLeave _ _ _ _ _ _ _ _ B h.1 hB)
theorem CapAll.thenBranches {a b : St} (h : Capped B a b) (bs : List Json) (params ctx : Json) :
    Capped B a (Asl.runBranches env n bs params ctx b).2 := h.trans (ih.runBranches _ _ _ _ B h.1 hB)
theorem CapAll.thenItems {a b : St} (h : Capped B a b) (proc : Json) (sel : Option Json) (input : Json)
    (items : List Json) (i mc : Nat) (be : Rat) (ctx : Json) (bad : Bool) (hbe : be ≤ B) :
    Capped B a (Asl.runItems env n proc sel input items i mc be ctx bad b).2 :=
  h.trans (ih.runItems _ _ _ _ _ _ _ _ _ _ B h.1 hbe hB)

set_option hygiene false in
local macro "cap_step" : tactic => `(tactic|
  repeat' (first
    | split
    | exact Capped.refl (by assumption)
    | with_reducible apply CapAll.thenFrom env D n ih B hB
    | with_reducible apply CapAll.thenLeave env D n ih B hB
    | with_reducible apply CapAll.thenErr env D n ih B hB
    | with_reducible apply CapAll.thenState env D n ih B hB
    | with_reducible apply CapAll.thenJoin env D n ih B hB
    | with_reducible apply CapAll.thenBranches env D n ih B hB
    | with_reducible apply Capped.exit
    | with_reducible apply Capped.enter
    | with_reducible apply Capped.fanFailedIf
    | with_reducible apply Capped.iterEnd
    | with_reducible apply Capped.handover
    | with_reducible apply Capped.closeKeep
    | with_reducible apply Capped.request
    | with_reducible apply Capped.pushLevel
    | with_reducible apply Capped.visit
    | with_reducible apply Capped.failTok
    | with_reducible apply Capped.launch
    | with_reducible apply Capped.join
    | with_reducible apply Capped.push))

theorem cap_runFrom_step (states : Json) (name : Str) (data ctx : Json) (r : Nat) (st : St) (hst : st.clock ≤ B) :
    Capped B st (runFrom env (n + 1) states name data ctx r st).2 := by
  simp only [runFrom]
  cap_step

theorem cap_leave_step (states : Json) (name : Str) (state raw data ctx : Json) (r : Nat) (st : St) (hst : st.clock ≤ B) :
    Capped B st (leave env (n + 1) states name state raw data ctx r st).2 := by
  simp only [leave]
  cap_step

include hdl hq in
theorem cap_handleErr_step (states : Json) (name : Str) (state data ctx : Json) (r : Nat) (e msg : Str) (st : St)
    (hst : st.clock ≤ B) : Capped B st (handleErr env (n + 1) states name state data ctx r e msg st).2 := by
  simp only [handleErr]
  split
  · -- a Retrier grants a re-run: it starts before the deadline, or the execution ends at the deadline
    rename_i d k hdec
    split
    · rename_i dl hcut
      have hc : env.retryCut (st.retryAfter name d).clock = some dl := hcut
      unfold Env.retryCut at hc
      rw [hq, hdl] at hc
      simp only [Bool.false_eq_true, if_false] at hc
      have := (execCut_some hc).1
      simp only [Option.some.injEq] at this
      subst this
      exact ((((Capped.refl hst).handover name).closeKeep).waitUntil _ hB).failTok
    · rename_i hcut
      have hc : env.retryCut (st.retryAfter name d).clock = none := hcut
      unfold Env.retryCut at hc
      rw [hq, hdl] at hc
      simp only [Bool.false_eq_true, if_false] at hc
      have hlt := execCut_none hc
      have hle : (st.retryAfter name d).clock ≤ B := Rat.le_trans (Rat.le_of_lt hlt) hB
      have h0 : Capped B st (st.retryAfter name d) := (Capped.refl hst).same _ rfl hle
      exact CapAll.thenFrom env D n ih B hB h0 _ _ _ _ _
  · cap_step
  · cap_step

theorem cap_joinAndLeave_step (states : Json) (name : Str) (state data ctx : Json) (r : Nat)
    (res : Except Res (List Json)) (st : St) (hst : st.clock ≤ B) :
    Capped B st (joinAndLeave env (n + 1) states name state data ctx r res st).2 := by
  simp only [joinAndLeave]
  split
  · apply CapAll.thenErr env D n ih B hB
    exact (Capped.refl hst).fanFail _
  · exact Capped.refl hst
  · cap_step

include hdl in
theorem cap_runState_step (states : Json) (name : Str) (state data ctx : Json) (r : Nat) (st : St) (hst : st.clock ≤ B) :
    Capped B st (runState env (n + 1) states name state data ctx r st).2 := by
  simp only [runState]
  by_cases h1 : stateType state = S "Pass"
  · simp only [if_pos h1]; cap_step
  simp only [if_neg h1]
  by_cases h2 : stateType state = S "Succeed"
  · simp only [if_pos h2]; cap_step
  simp only [if_neg h2]
  by_cases h3 : stateType state = S "Fail"
  · simp only [if_pos h3]; cap_step
  simp only [if_neg h3]
  by_cases h4 : stateType state = S "Wait"
  · simp only [if_pos h4]
    split
    · cap_step
    · split
      · cap_step
      · rename_i target htgt
        split
        · -- the execution's deadline comes first: the timer fires there
          rename_i dl hcut
          have := (execCut_some hcut).1
          rw [hdl] at this
          simp only [Option.some.injEq] at this
          subst this
          apply CapAll.thenErr env D n ih B hB
          exact ((Capped.refl hst).closeKeep).waitUntil _ hB
        · rename_i hcut
          rw [hdl] at hcut
          have hlt := execCut_none hcut
          have htb : target ≤ B := Rat.le_trans (Rat.le_trans (le_rmax_right _ _) (Rat.le_of_lt hlt)) hB
          have h0 : Capped B st (st.closeKeep.waitUntil target) := ((Capped.refl hst).closeKeep).waitUntil _ htb
          split
          · exact CapAll.thenErr env D n ih B hB h0 _ _ _ _ _ _ _ _
          · exact CapAll.thenLeave env D n ih B hB h0 _ _ _ _ _ _ _
  simp only [if_neg h4]
  by_cases h5 : stateType state = S "Choice"
  · simp only [if_pos h5]; cap_step
  simp only [if_neg h5]
  by_cases h6 : stateType state = S "Task"
  · simp only [if_pos h6]
    split
    · cap_step
    · split
      · cap_step
      · split
        · cap_step
        · rename_i params hp
          simp only [St.closeKeep_clock, St.closeKeep_counts]
          split
          · cap_step
          rename_i own hown
          obtain ⟨l, hl, hlt⟩ := taskLimit_le_exec own D st.clock
          simp only [hdl, hl, Option.map_some]
          split
          · cap_step
          · rename_i tEnd timedOut harr
            have hte : tEnd ≤ B := Rat.le_trans (Rat.le_trans (taskArrival_le harr) hlt) (rmax_le hst hB)
            have hS : ∀ c res p, Capped B st ((st.closeKeep.request true).taskSilent c res p tEnd) :=
              fun c res p => (((Capped.refl hst).closeKeep).request true).taskSilent c res p tEnd hte
            have hC : ∀ c res p ev, Capped B st ((st.closeKeep.request timedOut).taskCall c res p ev tEnd) :=
              fun c res p ev => (((Capped.refl hst).closeKeep).request timedOut).taskCall c res p ev tEnd hte
            repeat' (first
              | split
              | with_reducible exact CapAll.thenErr env D n ih B hB (hS _ _ _) _ _ _ _ _ _ _ _
              | with_reducible exact CapAll.thenErr env D n ih B hB (hC _ _ _ _) _ _ _ _ _ _ _ _
              | with_reducible exact CapAll.thenLeave env D n ih B hB (hS _ _ _) _ _ _ _ _ _ _
              | with_reducible exact CapAll.thenLeave env D n ih B hB (hC _ _ _ _) _ _ _ _ _ _ _)
  simp only [if_neg h6]
  by_cases h7 : stateType state = S "Parallel"
  · simp only [if_pos h7]
    split
    · cap_step
    · split
      · cap_step
      · apply CapAll.thenJoin env D n ih B hB
        apply Capped.join
        apply CapAll.thenBranches env D n ih B hB
        apply Capped.launch
        apply Capped.pushLevel
        apply Capped.push
        apply Capped.closeKeep
        exact Capped.refl hst
  simp only [if_neg h7]
  by_cases h8 : stateType state = S "Map"
  · simp only [if_pos h8]
    split
    · cap_step
    · split
      · cap_step
      · apply CapAll.thenJoin env D n ih B hB
        apply Capped.join
        apply CapAll.thenItems env D n ih B hB
        · apply Capped.launch
          apply Capped.pushLevel
          repeat' split
          all_goals first
            | (apply Capped.closeKeep; exact Capped.refl hst)
            | (apply Capped.push; apply Capped.closeKeep; exact Capped.refl hst)
        · repeat' split
          all_goals exact hst
  simp only [if_neg h8]
  exact Capped.refl hst

theorem cap_runBranches_step (bs : List Json) (params ctx : Json) (st : St) (hst : st.clock ≤ B) :
    Capped B st (runBranches env (n + 1) bs params ctx st).2 := by
  cases bs with
  | nil => simp only [runBranches]; exact Capped.refl hst
  | cons b bs =>
    simp only [runBranches]
    split
    · rename_i start states hs hst'
      have g1 := ((Capped.refl hst).startBranch).trans (ih.runFrom states start params ctx 0 st.startBranch B hst hB)
      cases hr : runFrom env n states start params ctx 0 st.startBranch with
      | mk r1 s1 =>
        rw [hr] at g1
        have g1e : Capped B st (s1.endBranch (isFailed r1)) := g1.endBranch _
        have g1' : Capped B st ((s1.endBranch (isFailed r1)).at st.clock) := g1e.at _ hst
        have g2 := ih.runBranches bs params ctx ((s1.endBranch (isFailed r1)).at st.clock) B hst hB
        cases hrest : runBranches env n bs params ctx ((s1.endBranch (isFailed r1)).at st.clock) with
        | mk rest s2 =>
          rw [hrest] at g2
          have g := g1'.trans g2
          exact g.combine _ _ _ _ g1e.1 (rmax_le g1e.1 g.1)
    · exact Capped.refl hst

theorem cap_runItems_step (proc : Json) (sel : Option Json) (input : Json) (items : List Json) (i mc : Nat)
    (be : Rat) (ctx : Json) (bad : Bool) (st : St) (hst : st.clock ≤ B) (hbe : be ≤ B) :
    Capped B st (runItems env (n + 1) proc sel input items i mc be ctx bad st).2 := by
  cases items with
  | nil => simp only [runItems]; exact (Capped.refl hst).waitUntil _ hbe
  | cons item items =>
    simp only [runItems]
    split
    · exact (Capped.refl hst).waitUntil _ hbe
    have g00 : Capped B st (if mc ≠ 0 ∧ i ≠ 0 ∧ i % mc = 0 then
        (st.waitUntil be).batch (ctxStateName ctx) (List.replicate (min mc (items.length + 1)) ((fldStr proc "StartAt").getD []))
      else st) := by
      split
      · exact ((Capped.refl hst).waitUntil _ hbe).batch _ _
      · exact Capped.refl hst
    generalize (if mc ≠ 0 ∧ i ≠ 0 ∧ i % mc = 0 then
        (st.waitUntil be).batch (ctxStateName ctx) (List.replicate (min mc (items.length + 1)) ((fldStr proc "StartAt").getD []))
      else st) = st0 at g00 ⊢
    split
    · exact g00.same _ rfl g00.1
    · rename_i params hp
      split
      · rename_i start states hs hst'
        have g0 : Capped B st0 ((st0.push (.iterStarted (ctxStateName ctx) i)).startBranch) :=
          ((Capped.refl g00.1).push _).startBranch
        have g1 := g0.trans (ih.runFrom states start params ctx 0 ((st0.push (.iterStarted (ctxStateName ctx) i)).startBranch) B g0.1 hB)
        cases hr : runFrom env n states start params ctx 0 ((st0.push (.iterStarted (ctxStateName ctx) i)).startBranch) with
        | mk r1 s1 =>
          rw [hr] at g1
          have g1' : Capped B st0 (((s1.iterEnd (ctxStateName ctx) i r1).endBranch (isFailed r1)).at st0.clock) :=
            ((g1.iterEnd (ctxStateName ctx) i r1).endBranch _).at _ g00.1
          have g2 := ih.runItems proc sel input items (i + 1) mc (rmax be s1.clock) ctx (bad || isFailed r1)
            (((s1.iterEnd (ctxStateName ctx) i r1).endBranch (isFailed r1)).at st0.clock) B g00.1 (rmax_le hbe g1.1) hB
          cases hrest : runItems env n proc sel input items (i + 1) mc (rmax be s1.clock) ctx (bad || isFailed r1)
              (((s1.iterEnd (ctxStateName ctx) i r1).endBranch (isFailed r1)).at st0.clock) with
          | mk rest s2 =>
            rw [hrest] at g2
            have g := g1'.trans g2
            exact g00.trans (g.combine _ _ _ _ g1.1 g.1)
      · exact g00

end step

/-- with the execution's deadline `D` and the switch of C08-F1 off, at every fuel -/
theorem capAll (env : Env) (D : Rat) (hdl : env.deadline = some D) (hq : env.retryPastDeadline = false) (n : Nat) :
    CapAll env D n := by
  induction n with
  | zero => exact capAll_zero env D
  | succ n ih =>
    exact ⟨fun states name data ctx r st B hst hB => cap_runFrom_step env D n ih B hB states name data ctx r st hst,
      fun states name state raw data ctx r st B hst hB => cap_leave_step env D n ih B hB states name state raw data ctx r st hst,
      fun states name state data ctx r e msg st B hst hB =>
        cap_handleErr_step env D hdl hq n ih B hB states name state data ctx r e msg st hst,
      fun states name state data ctx r st B hst hB => cap_runState_step env D hdl n ih B hB states name state data ctx r st hst,
      fun states name state data ctx r res st B hst hB =>
        cap_joinAndLeave_step env D n ih B hB states name state data ctx r res st hst,
      fun bs params ctx st B hst hB => cap_runBranches_step env D n ih B hB bs params ctx st hst,
      fun proc sel input items i mc be ctx bad st B hst hbe hB =>
        cap_runItems_step env D n ih B hB proc sel input items i mc be ctx bad st hst hbe⟩

end Asl
