/-
Map states with batches, continued: the facts about the durable record `batches` and the re-entry events that the shape of the
event queue needs (`BShape`), the liveness fact about the join in memory (`BJoin`), and
* `batched_quiet_complete`: with them, a queue without a re-entry event all of whose branch events are held has a complete join
  (the step `pquiet` needs: by `all_slots_launched`);
* `BShape.publish`: they survive the publication of the re-entry event by the branch that completes a batch.
Not yet connected to `PInv` (see `crash_safe_partial`).
-/
import Proofs.Lemmas.CrashBatch
namespace Asl.Crash

/-- `p` is the event of a branch of the fan-out attempt with frame `f` -/
abbrev brEv (p : Nat × EvKind) (f : Frame) : Prop := evStack p.2 = [f]

structure BShape (c : Cfg) : Prop where
  /-- the batch-mates of a launched slot are launched -/
  bcover : ∀ p ∈ evK c, ∀ f, brEv p f → ∀ i, i < f.width → i / f.mc = f.idx / f.mc → ∃ p' ∈ evK c, ∃ f', brEv p' f' ∧ f'.idx = i
  /-- slot 0 is launched -/
  zero : ∀ p ∈ evK c, ∀ f, brEv p f → ∃ p' ∈ evK c, ∃ f', brEv p' f' ∧ f'.idx = 0
  samemc : ∀ p1 ∈ evK c, ∀ p2 ∈ evK c, ∀ f1 f2, brEv p1 f1 → brEv p2 f2 → f1.mc = f2.mc
  /-- a queued re-entry event belongs to the attempt, is on record, and every launched slot is below its batch -/
  re : ∀ p ∈ evK c, ∀ f s st o, p.2 = .reenter f s st o →
    (∃ p0 ∈ evK c, ∃ f0, brEv p0 f0 ∧ f0.idx = 0) ∧ (f.jid, s) ∈ c.batches ∧
    ∀ p2 ∈ evK c, ∀ f2, brEv p2 f2 → f.jid = f2.jid ∧ f.branches = f2.branches ∧ f.rest = f2.rest ∧ f.mc = f2.mc ∧ f2.idx < s
  /-- a batch on record has its re-entry event queued, or is launched -/
  rb : ∀ p ∈ evK c, ∀ f, brEv p f → ∀ s, (f.jid, s) ∈ c.batches →
    (∃ p' ∈ evK c, ∃ f' st o, p'.2 = .reenter f' s st o) ∨ (∃ p' ∈ evK c, ∃ f', brEv p' f' ∧ f'.idx = s)
  /-- a slot beyond the first batch is launched only when its batch is on record -/
  imax : ∀ p ∈ evK c, ∀ f, brEv p f → f.idx / f.mc ≠ 0 → (f.jid, f.idx / f.mc * f.mc) ∈ c.batches
  /-- the record is closed downwards -/
  down : ∀ p ∈ evK c, ∀ f, brEv p f → ∀ s s', (f.jid, s) ∈ c.batches → 0 < s' → s' ≤ s → s' % f.mc = 0 → (f.jid, s') ∈ c.batches
  bmult : ∀ p ∈ evK c, ∀ f, brEv p f → ∀ s, (f.jid, s) ∈ c.batches → 0 < s ∧ s % f.mc = 0 ∧ s < f.width
  bjlt : ∀ b ∈ c.batches, b.1 < c.nextJ

/-- the liveness fact: a batch that is full in the join in memory, with a successor, has the successor on record -/
structure BJoin (c : Cfg) : Prop where
  bdone : ∀ j ∈ c.joins, ∀ p ∈ evK c, ∀ f, brEv p f → 0 < f.mc → ∀ k, (k + 1) * f.mc < f.width →
    (∀ i, i < f.width → i / f.mc = k → i ∈ j.filled) → (f.jid, (k + 1) * f.mc) ∈ c.batches

theorem BShape.congr {c d : Cfg} (h : BShape c) (h1 : evK d = evK c) (h2 : d.batches = c.batches) (h3 : d.nextJ = c.nextJ) :
    BShape d := by
  constructor
  · rw [h1]; exact h.bcover
  · rw [h1]; exact h.zero
  · rw [h1]; exact h.samemc
  · rw [h1, h2]; exact h.re
  · rw [h1, h2]; exact h.rb
  · rw [h1, h2]; exact h.imax
  · rw [h1, h2]; exact h.down
  · rw [h1, h2]; exact h.bmult
  · rw [h2, h3]; exact h.bjlt

theorem BJoin.congr {c d : Cfg} (h : BJoin c) (h1 : evK d = evK c) (h2 : d.batches = c.batches) (h3 : d.joins = c.joins) :
    BJoin d := by
  constructor
  rw [h1, h2, h3]; exact h.bdone

/-- after a crash the join in memory is gone -/
theorem BJoin.crash (c : Cfg) : BJoin c.crash := by
  constructor
  intro j hj
  simp [Cfg.crash] at hj

/-- **No event waits, no re-entry event is queued, every branch event is held ⇒ the join is complete.** -/
theorem batched_quiet_complete {c : Cfg} (hS : Shape c) (hB : BShape c) (hJ : BJoin c) {j : Join} (hj : j ∈ c.joins)
    {p0 : Nat × EvKind} {f0 : Frame} (hp0 : p0 ∈ evK c) (hf0 : brEv p0 f0) (hmc : 0 < f0.mc)
    (hnore : ∀ p ∈ evK c, ∀ f s st o, p.2 ≠ .reenter f s st o)
    (hheld : ∀ p ∈ evK c, ∀ f, brEv p f → f.idx ∈ j.filled) :
    f0.width ≤ j.filled.length := by
  -- every branch event has the frame data of `f0`
  have hsame : ∀ p ∈ evK c, ∀ f, brEv p f → f.jid = f0.jid ∧ f.width = f0.width ∧ f.mc = f0.mc := by
    intro p hp f hf
    have := hS.same p hp p0 hp0 f f0 hf hf0
    exact ⟨this.1, by simp [Frame.width, this.2.1], hB.samemc p hp p0 hp0 f f0 hf hf0⟩
  have hall := all_slots_launched hmc (fun i => ∃ p ∈ evK c, ∃ f, brEv p f ∧ f.idx = i) (fun i => i ∈ j.filled)
    (fun s => (f0.jid, s) ∈ c.batches) (w := f0.width)
    (hB.zero p0 hp0 f0 hf0)
    (by
      rintro i i' ⟨p, hp, f, hf, rfl⟩ hi' hb
      obtain ⟨_, hw, hm⟩ := hsame p hp f hf
      exact hB.bcover p hp f hf i' (hw ▸ hi') (hm ▸ hb))
    (by
      intro s hs
      rcases hB.rb p0 hp0 f0 hf0 s hs with ⟨p', hp', f', st, o, hk⟩ | h
      · exact absurd hk (hnore p' hp' f' s st o)
      · exact h)
    (by
      intro k hk hfull
      exact hJ.bdone j hj p0 hp0 f0 hf0 hmc k hk hfull)
    (by
      rintro i ⟨p, hp, f, hf, rfl⟩
      exact hheld p hp f hf)
  apply length_ge_of_full
  intro i hi
  obtain ⟨p, hp, f, hf, rfl⟩ := hall i hi
  exact hheld p hp f hf

end Asl.Crash
