/-
Map states with batches, continued: the facts about the durable record `batches` and the re-entry events that the shape of the
event queue needs (`BShape`), the liveness fact about the join in memory (`BJoin`), and
* `batched_quiet_complete`: with them, a queue without a re-entry event all of whose branch events are held has a complete join
  (the step `pquiet` needs: by `all_slots_launched`);
* `BShape.publish`: they survive the publication of the re-entry event by the branch that completes a batch.
Not yet connected to `PInv` (see `crash_safe_partial`).
-/
import Proofs.Lemmas.CrashBatch
namespace Asl.Crash

/-- `p` is the event of a branch of the fan-out attempt with frame `f` -/
abbrev brEv (p : Nat × EvKind) (f : Frame) : Prop := evStack p.2 = [f]

structure BShape (c : Cfg) : Prop where
  /-- the batch-mates of a launched slot are launched -/
  bcover : ∀ p ∈ evK c, ∀ f, brEv p f → ∀ i, i < f.width → i / f.mc = f.idx / f.mc → ∃ p' ∈ evK c, ∃ f', brEv p' f' ∧ f'.idx = i
  /-- slot 0 is launched -/
  zero : ∀ p ∈ evK c, ∀ f, brEv p f → ∃ p' ∈ evK c, ∃ f', brEv p' f' ∧ f'.idx = 0
  samemc : ∀ p1 ∈ evK c, ∀ p2 ∈ evK c, ∀ f1 f2, brEv p1 f1 → brEv p2 f2 → f1.mc = f2.mc
  /-- a queued re-entry event belongs to the attempt, is on record, and every launched slot is below its batch -/
  re : ∀ p ∈ evK c, ∀ f s st o, p.2 = .reenter f s st o →
    (∃ p0 ∈ evK c, ∃ f0, brEv p0 f0 ∧ f0.idx = 0) ∧ (f.jid, s) ∈ c.batches ∧
    ∀ p2 ∈ evK c, ∀ f2, brEv p2 f2 → f.jid = f2.jid ∧ f.branches = f2.branches ∧ f.rest = f2.rest ∧ f.mc = f2.mc ∧ f2.idx < s
  /-- a batch on record has its re-entry event queued, or is launched -/
  rb : ∀ p ∈ evK c, ∀ f, brEv p f → ∀ s, (f.jid, s) ∈ c.batches →
    (∃ p' ∈ evK c, ∃ f' st o, p'.2 = .reenter f' s st o) ∨ (∃ p' ∈ evK c, ∃ f', brEv p' f' ∧ f'.idx = s)
  /-- a slot beyond the first batch is launched only when its batch is on record -/
  imax : ∀ p ∈ evK c, ∀ f, brEv p f → f.idx / f.mc ≠ 0 → (f.jid, f.idx / f.mc * f.mc) ∈ c.batches
  /-- the record is closed downwards -/
  down : ∀ p ∈ evK c, ∀ f, brEv p f → ∀ s s', (f.jid, s) ∈ c.batches → 0 < s' → s' ≤ s → s' % f.mc = 0 → (f.jid, s') ∈ c.batches
  bmult : ∀ p ∈ evK c, ∀ f, brEv p f → ∀ s, (f.jid, s) ∈ c.batches → 0 < s ∧ s % f.mc = 0 ∧ s < f.width
  bjlt : ∀ b ∈ c.batches, b.1 < c.nextJ
  /-- at most one re-entry event is queued -/
  reone : ∀ p1 ∈ evK c, ∀ p2 ∈ evK c, ∀ f1 s1 st1 o1 f2 s2 st2 o2, p1.2 = .reenter f1 s1 st1 o1 → p2.2 = .reenter f2 s2 st2 o2 →
    p1 = p2

/-- the liveness fact: a batch that is full in the join in memory, with a successor, has the successor on record -/
structure BJoin (c : Cfg) : Prop where
  bdone : ∀ j ∈ c.joins, ∀ p ∈ evK c, ∀ f, brEv p f → 0 < f.mc → ∀ k, (k + 1) * f.mc < f.width →
    (∀ i, i < f.width → i / f.mc = k → i ∈ j.filled) → (f.jid, (k + 1) * f.mc) ∈ c.batches

theorem BShape.congr {c d : Cfg} (h : BShape c) (h1 : evK d = evK c) (h2 : d.batches = c.batches) (h3 : d.nextJ = c.nextJ) :
    BShape d := by
  constructor
  · rw [h1]; exact h.bcover
  · rw [h1]; exact h.zero
  · rw [h1]; exact h.samemc
  · rw [h1, h2]; exact h.re
  · rw [h1, h2]; exact h.rb
  · rw [h1, h2]; exact h.imax
  · rw [h1, h2]; exact h.down
  · rw [h1, h2]; exact h.bmult
  · rw [h2, h3]; exact h.bjlt
  · rw [h1]; exact h.reone

theorem BJoin.congr {c d : Cfg} (h : BJoin c) (h1 : evK d = evK c) (h2 : d.batches = c.batches) (h3 : d.joins = c.joins) :
    BJoin d := by
  constructor
  rw [h1, h2, h3]; exact h.bdone

/-- after a crash the join in memory is gone -/
theorem BJoin.crash (c : Cfg) : BJoin c.crash := by
  constructor
  intro j hj
  simp [Cfg.crash] at hj

/-- **No event waits, no re-entry event is queued, every branch event is held ⇒ the join is complete.** -/
theorem batched_quiet_complete {c : Cfg} (hS : Shape c) (hB : BShape c) (hJ : BJoin c) {j : Join} (hj : j ∈ c.joins)
    {p0 : Nat × EvKind} {f0 : Frame} (hp0 : p0 ∈ evK c) (hf0 : brEv p0 f0) (hmc : 0 < f0.mc)
    (hnore : ∀ p ∈ evK c, ∀ f s st o, p.2 ≠ .reenter f s st o)
    (hheld : ∀ p ∈ evK c, ∀ f, brEv p f → f.idx ∈ j.filled) :
    f0.width ≤ j.filled.length := by
  -- every branch event has the frame data of `f0`
  have hsame : ∀ p ∈ evK c, ∀ f, brEv p f → f.jid = f0.jid ∧ f.width = f0.width ∧ f.mc = f0.mc := by
    intro p hp f hf
    have := hS.same p hp p0 hp0 f f0 hf hf0
    exact ⟨this.1, by simp [Frame.width, this.2.1], hB.samemc p hp p0 hp0 f f0 hf hf0⟩
  have hall := all_slots_launched hmc (fun i => ∃ p ∈ evK c, ∃ f, brEv p f ∧ f.idx = i) (fun i => i ∈ j.filled)
    (fun s => (f0.jid, s) ∈ c.batches) (w := f0.width)
    (hB.zero p0 hp0 f0 hf0)
    (by
      rintro i i' ⟨p, hp, f, hf, rfl⟩ hi' hb
      obtain ⟨_, hw, hm⟩ := hsame p hp f hf
      exact hB.bcover p hp f hf i' (hw ▸ hi') (hm ▸ hb))
    (by
      intro s hs
      rcases hB.rb p0 hp0 f0 hf0 s hs with ⟨p', hp', f', st, o, hk⟩ | h
      · exact absurd hk (hnore p' hp' f' s st o)
      · exact h)
    (by
      intro k hk hfull
      exact hJ.bdone j hj p0 hp0 f0 hf0 hmc k hk hfull)
    (by
      rintro i ⟨p, hp, f, hf, rfl⟩
      exact hheld p hp f hf)
  apply length_ge_of_full
  intro i hi
  obtain ⟨p, hp, f, hf, rfl⟩ := hall i hi
  exact hheld p hp f hf

/-! ### the branch that completes a batch publishes the re-entry event -/

theorem nextStart_mod {f : Frame} : nextStart f % f.mc = 0 := by
  simp [nextStart, Nat.add_mod_right, Nat.mul_mod_left]

theorem nextStart_pos {f : Frame} (hmc : 0 < f.mc) : 0 < nextStart f := by
  simp only [nextStart]; omega

/-- a multiple of `mc` below the start of the next batch is at most the start of this one -/
theorem mult_le {mc k s : Nat} (hmc : 0 < mc) (hs : s % mc = 0) (hlt : s < k * mc + mc) : s ≤ k * mc := by
  have h1 : s / mc < k + 1 := (Nat.div_lt_iff_lt_mul hmc).mpr (by rw [Nat.add_mul, Nat.one_mul]; exact hlt)
  have h2 : s / mc * mc = s := by
    have := Nat.div_add_mod s mc
    rw [hs, Nat.add_zero, Nat.mul_comm] at this; exact this
  rw [← h2]
  exact Nat.mul_le_mul_right mc (by omega)

/-- a slot at or beyond the start of the next batch: its batch starts there or later -/
theorem batch_ge {mc k i : Nat} (hmc : 0 < mc) (hi : k * mc + mc ≤ i) : k + 1 ≤ i / mc ∧ k * mc + mc ≤ i / mc * mc := by
  have h1 : k + 1 ≤ i / mc := (Nat.le_div_iff_mul_le hmc).mpr (by rw [Nat.add_mul, Nat.one_mul]; exact hi)
  refine ⟨h1, ?_⟩
  have := Nat.mul_le_mul_right mc h1
  rw [Nat.add_mul, Nat.one_mul] at this; exact this

/-- a slot below a batch start: the next batch after the slot's starts there at the latest -/
theorem next_le {mc i s : Nat} (hmc : 0 < mc) (hs : s % mc = 0) (hi : i < s) : i / mc * mc + mc ≤ s := by
  have h2 : s / mc * mc = s := by
    have := Nat.div_add_mod s mc
    rw [hs, Nat.add_zero, Nat.mul_comm] at this; exact this
  have h1 : i / mc < s / mc := (Nat.div_lt_iff_lt_mul hmc).mpr (by rw [h2]; exact hi)
  have := Nat.mul_le_mul_right mc (Nat.succ_le_of_lt h1)
  rw [Nat.succ_mul, h2] at this; exact this

/-- **`BShape` survives the publication of the re-entry event** by the branch event `x` (slot `f.idx`) whose end completes its
batch: the next batch exists and is not on record -/
theorem BShape.publish {c d : Cfg} (hS : Shape c) (hB : BShape c) {x : Nat × EvKind} {f : Frame} (hx : x ∈ evK c)
    (hxf : brEv x f) (hmc : 0 < f.mc) (hnext : nextStart f < f.width) (hrec : (f.jid, nextStart f) ∉ c.batches)
    (hev : evK d = evK c ++ [(c.nextId, .reenter f (nextStart f) [] none)])
    (hb : d.batches = c.batches ++ [(f.jid, nextStart f)]) (hn : d.nextJ = c.nextJ) : BShape d := by
  have hmem : ∀ p, p ∈ evK d ↔ p ∈ evK c ∨ p = (c.nextId, .reenter f (nextStart f) [] none) := by
    intro p; rw [hev]; simp
  have hbm : ∀ b, b ∈ d.batches ↔ b ∈ c.batches ∨ b = (f.jid, nextStart f) := by
    intro b; rw [hb]; simp
  -- the branch events are those of `c`
  have hbr : ∀ p ∈ evK d, ∀ g, brEv p g → p ∈ evK c := by
    intro p hp g hg
    rcases (hmem p).mp hp with h | rfl
    · exact h
    · simp [brEv, evStack] at hg
  have hfr : ∀ p ∈ evK c, ∀ g, brEv p g → g.jid = f.jid ∧ g.branches = f.branches ∧ g.rest = f.rest ∧ g.mc = f.mc := by
    intro p hp g hg
    have := hS.same p hp x hx g f hg hxf
    exact ⟨this.1, this.2.1, this.2.2.1, hB.samemc p hp x hx g f hg hxf⟩
  -- every launched slot is below the new batch
  have hbelow : ∀ p ∈ evK c, ∀ g, brEv p g → g.idx < nextStart f := by
    intro p hp g hg
    obtain ⟨hj, _, _, hm⟩ := hfr p hp g hg
    apply Classical.byContradiction
    intro hge
    have hge' : f.idx / f.mc * f.mc + f.mc ≤ g.idx := by simp only [nextStart] at hge; omega
    obtain ⟨h1, h2⟩ := batch_ge hmc hge'
    have hne : g.idx / g.mc ≠ 0 := by
      rw [hm]; intro h0; rw [h0] at h1; exact Nat.not_succ_le_zero _ h1
    have hin := hB.imax p hp g hg hne
    have := hB.down p hp g hg _ (nextStart f) hin (nextStart_pos hmc) (by rw [hm]; exact h2) (by rw [hm]; exact nextStart_mod)
    rw [hj] at this
    exact hrec this
  constructor
  · intro p hp g hg i hi hb'
    obtain ⟨p', hp', g', hg', hi'⟩ := hB.bcover p (hbr p hp g hg) g hg i hi hb'
    exact ⟨p', (hmem p').mpr (Or.inl hp'), g', hg', hi'⟩
  · intro p hp g hg
    obtain ⟨p', hp', g', hg', hi'⟩ := hB.zero p (hbr p hp g hg) g hg
    exact ⟨p', (hmem p').mpr (Or.inl hp'), g', hg', hi'⟩
  · intro p1 hp1 p2 hp2 g1 g2 hg1 hg2
    exact hB.samemc p1 (hbr p1 hp1 g1 hg1) p2 (hbr p2 hp2 g2 hg2) g1 g2 hg1 hg2
  · intro p hp g s st o hk
    rcases (hmem p).mp hp with hpc | rfl
    · obtain ⟨⟨p0, hp0, g0, hg0, h0⟩, hin, hall⟩ := hB.re p hpc g s st o hk
      refine ⟨⟨p0, (hmem p0).mpr (Or.inl hp0), g0, hg0, h0⟩, (hbm _).mpr (Or.inl hin), ?_⟩
      intro p2 hp2 g2 hg2
      exact hall p2 (hbr p2 hp2 g2 hg2) g2 hg2
    · simp only [EvKind.reenter.injEq] at hk
      obtain ⟨rfl, rfl, rfl, rfl⟩ := hk
      obtain ⟨p0, hp0, g0, hg0, h0⟩ := hB.zero x hx f hxf
      refine ⟨⟨p0, (hmem p0).mpr (Or.inl hp0), g0, hg0, h0⟩, (hbm _).mpr (Or.inr rfl), ?_⟩
      intro p2 hp2 g2 hg2
      have hp2c := hbr p2 hp2 g2 hg2
      obtain ⟨a, b, c', e⟩ := hfr p2 hp2c g2 hg2
      exact ⟨a.symm, b.symm, c'.symm, e.symm, hbelow p2 hp2c g2 hg2⟩
  · intro p hp g hg s hs
    have hpc := hbr p hp g hg
    rcases (hbm _).mp hs with hs | hs
    · rcases hB.rb p hpc g hg s hs with ⟨p', hp', g', st, o, hk⟩ | ⟨p', hp', g', hg', hi'⟩
      · exact Or.inl ⟨p', (hmem p').mpr (Or.inl hp'), g', st, o, hk⟩
      · exact Or.inr ⟨p', (hmem p').mpr (Or.inl hp'), g', hg', hi'⟩
    · simp only [Prod.mk.injEq] at hs
      exact Or.inl ⟨_, (hmem _).mpr (Or.inr rfl), f, [], none, by rw [hs.2]⟩
  · intro p hp g hg hne
    exact (hbm _).mpr (Or.inl (hB.imax p (hbr p hp g hg) g hg hne))
  · intro p hp g hg s s' hs hs0 hle hmod
    have hpc := hbr p hp g hg
    obtain ⟨hj, _, _, hm⟩ := hfr p hpc g hg
    rcases (hbm _).mp hs with hs | hs
    · exact (hbm _).mpr (Or.inl (hB.down p hpc g hg s s' hs hs0 hle hmod))
    · simp only [Prod.mk.injEq] at hs
      obtain ⟨_, rfl⟩ := hs
      by_cases heq : s' = nextStart f
      · exact (hbm _).mpr (Or.inr (by rw [heq, hj]))
      · have hlt : s' < f.idx / f.mc * f.mc + f.mc := by simp only [nextStart] at hle heq; omega
        have hle' := mult_le hmc (hm ▸ hmod) hlt
        have hk0 : f.idx / f.mc ≠ 0 := by
          intro h0; rw [h0, Nat.zero_mul] at hle'; omega
        have hin := hB.imax x hx f hxf hk0
        have := hB.down x hx f hxf _ s' hin hs0 hle' (hm ▸ hmod)
        exact (hbm _).mpr (Or.inl (hj ▸ this))
  · intro p hp g hg s hs
    have hpc := hbr p hp g hg
    obtain ⟨hj, hbrs, _, hm⟩ := hfr p hpc g hg
    rcases (hbm _).mp hs with hs | hs
    · exact hB.bmult p hpc g hg s hs
    · simp only [Prod.mk.injEq] at hs
      obtain ⟨_, rfl⟩ := hs
      refine ⟨nextStart_pos hmc, by rw [hm]; exact nextStart_mod, ?_⟩
      simp only [Frame.width, hbrs]; exact hnext
  · intro b hb'
    rw [hn]
    rcases (hbm _).mp hb' with h | rfl
    · exact hB.bjlt b h
    · exact hS.jlt x hx f hxf
  · -- no re-entry event was queued: its batch would be on record, and with it the one that is published now
    have hnone : ∀ p ∈ evK c, ∀ g s st o, p.2 ≠ .reenter g s st o := by
      intro p hp g s st o hk
      obtain ⟨_, hin, hall⟩ := hB.re p hp g s st o hk
      obtain ⟨hj, _, _, hm, hlt⟩ := hall x hx f hxf
      have hbmu := hB.bmult x hx f hxf s (hj ▸ hin)
      have hle := next_le hmc hbmu.2.1 hlt
      exact hrec (hB.down x hx f hxf s (nextStart f) (hj ▸ hin) (nextStart_pos hmc) hle nextStart_mod)
    intro p1 hp1 p2 hp2 f1 s1 st1 o1 f2 s2 st2 o2 h1 h2
    rcases (hmem p1).mp hp1 with h | rfl
    · exact absurd h1 (hnone p1 h f1 s1 st1 o1)
    · rcases (hmem p2).mp hp2 with h | rfl
      · exact absurd h2 (hnone p2 h f2 s2 st2 o2)
      · rfl

/-! ### the liveness fact along the steps -/

theorem BJoin.nil {c : Cfg} (h : c.joins = []) : BJoin c := by
  constructor
  intro j hj; rw [h] at hj; cases hj

/-- the join in memory stays, the record grows, every branch event has the frame data of a branch event there was -/
theorem BJoin.mono {c d : Cfg} (h : BJoin c) (hj : d.joins = c.joins) (hb : ∀ b ∈ c.batches, b ∈ d.batches)
    (hev : ∀ p ∈ evK d, ∀ g, brEv p g → ∃ p' ∈ evK c, ∃ g', brEv p' g' ∧ g'.jid = g.jid ∧ g'.mc = g.mc ∧ g'.width = g.width) :
    BJoin d := by
  constructor
  intro j hjm p hp g hg hmc k hk hfull
  obtain ⟨p', hp', g', hg', h1, h2, h3⟩ := hev p hp g hg
  rw [hj] at hjm
  have := h.bdone j hjm p' hp' g' hg' (h2 ▸ hmc) k (by rw [h2, h3]; exact hk) (by rw [h2, h3]; exact hfull)
  rw [h1, h2] at this
  exact hb _ this

/-- **the end of a branch** (slot `f.idx` of the join is filled; the join is not complete): the liveness fact holds again — for
the batch of the slot because the re-entry event is published, or was (`hdone`: what `advance_hold_publish` /
`advance_hold_quiet` leave), for the other batches because nothing changed -/
theorem BJoin.hold {c d : Cfg} (hS : Shape c) (hB : BShape c) (hJ : BJoin c) (hone : ∀ j ∈ c.joins, c.joins = [j])
    {x : Nat × EvKind} {f : Frame} (hx : x ∈ evK c) (hxf : brEv x f) (hmc : 0 < f.mc)
    (hevbr : ∀ p ∈ evK d, ∀ g, brEv p g → p ∈ evK c) (hb : ∀ b ∈ c.batches, b ∈ d.batches)
    {j' : Join} (hjs : d.joins = [j']) (hfill : ∀ i ∈ j'.filled, i = f.idx ∨ ∃ j ∈ c.joins, i ∈ j.filled)
    (hdone : batchFull f j'.filled → nextStart f < f.width → (f.jid, nextStart f) ∈ d.batches) : BJoin d := by
  constructor
  intro j0 hj0 p hp g hg hgmc k hk hfull
  rw [hjs] at hj0
  have hj0' : j0 = j' := by simpa using hj0
  subst hj0'
  have hpc := hevbr p hp g hg
  have hsm := hS.same p hpc x hx g f hg hxf
  have hm : g.mc = f.mc := hB.samemc p hpc x hx g f hg hxf
  have hw : g.width = f.width := by simp [Frame.width, hsm.2.1]
  rw [hm, hw] at hk hfull
  rw [hsm.1, hm]
  by_cases hkk : k = f.idx / f.mc
  · subst hkk
    have := hdone (fun i hi hb' => hfull i hi hb') (by simp only [nextStart]; rw [Nat.add_mul, Nat.one_mul] at hk; exact hk)
    simp only [nextStart] at this
    rw [Nat.add_mul, Nat.one_mul]; exact this
  · -- the slots of batch `k` were filled before
    have hold : ∀ i, i < f.width → i / f.mc = k → ∃ j ∈ c.joins, i ∈ j.filled := by
      intro i hi hik
      rcases hfill i (hfull i hi hik) with rfl | h
      · exact absurd hik.symm hkk
      · exact h
    have hkw : k * f.mc < f.width := by
      have : k * f.mc ≤ (k + 1) * f.mc := Nat.mul_le_mul_right _ (by omega)
      omega
    obtain ⟨j, hj, _⟩ := hold (k * f.mc) hkw (Nat.mul_div_cancel k hmc)
    have hall : ∀ i, i < g.width → i / g.mc = k → i ∈ j.filled := by
      intro i hi hik
      rw [hw] at hi; rw [hm] at hik
      obtain ⟨j2, hj2, hi2⟩ := hold i hi hik
      have := hone j hj
      rw [this] at hj2
      have : j2 = j := by simpa using hj2
      exact this ▸ hi2
    have := hJ.bdone j hj p hpc g hg hgmc k (by rw [hm, hw]; exact hk) hall
    rw [hsm.1, hm] at this
    exact hb _ this

/-! ### the deferred handler of the re-entry event launches its batch -/

/-- **`BShape` survives the launch of a batch**: the re-entry event `r` (for the batch that starts at `s`) is acknowledged, the
slots of the batch get their events (`news`) -/
theorem BShape.launch {c d : Cfg} (hS : Shape c) (hB : BShape c) {r : Nat × EvKind} {f : Frame} {s : Nat} (hr : r ∈ evK c)
    (hrk : r.2 = .reenter f s [] none) (hmc : 0 < f.mc) (news : List (Nat × EvKind))
    (hnews : ∀ p ∈ news, ∃ i, i < f.width ∧ i / f.mc = s / f.mc ∧ ∃ t, p.2 = .visit t [{ f with idx := i }] false none)
    (hcov : ∀ i, i < f.width → i / f.mc = s / f.mc → ∃ p ∈ news, ∃ t, p.2 = .visit t [{ f with idx := i }] false none)
    (hmem : ∀ p, p ∈ evK d ↔ (p ∈ evK c ∧ p ≠ r) ∨ p ∈ news)
    (hb : d.batches = c.batches) (hn : d.nextJ = c.nextJ) : BShape d := by
  obtain ⟨⟨p0, hp0, f0, hf0, hz0⟩, hin, hall⟩ := hB.re r hr f s [] none hrk
  obtain ⟨hj0, hbr0, _, hm0, _⟩ := hall p0 hp0 f0 hf0
  have hw0 : f0.width = f.width := by simp [Frame.width, hbr0]
  obtain ⟨hs0, hsm, hsw⟩ := hB.bmult p0 hp0 f0 hf0 s (hj0 ▸ hin)
  rw [← hm0] at hsm
  rw [hw0] at hsw
  have hsk : s / f.mc * f.mc = s := by
    have := Nat.div_add_mod s f.mc
    rw [hsm, Nat.add_zero, Nat.mul_comm] at this; exact this
  -- `r` is not a branch event, the others stay
  have hnr : ∀ p ∈ evK c, ∀ g, brEv p g → p ≠ r := by
    intro p hp g hg he
    rw [he] at hg
    simp [brEv, hrk, evStack] at hg
  have hkeep : ∀ p ∈ evK c, ∀ g, brEv p g → p ∈ evK d := fun p hp g hg => (hmem p).mpr (Or.inl ⟨hp, hnr p hp g hg⟩)
  -- the branch events afterwards
  have hbrd : ∀ p ∈ evK d, ∀ g, brEv p g →
      (p ∈ evK c) ∨ (∃ i, i < f.width ∧ i / f.mc = s / f.mc ∧ g = { f with idx := i }) := by
    intro p hp g hg
    rcases (hmem p).mp hp with ⟨h, _⟩ | h
    · exact Or.inl h
    · obtain ⟨i, hi, hb', t, hk⟩ := hnews p h
      refine Or.inr ⟨i, hi, hb', ?_⟩
      simp only [brEv, hk, evStack, List.cons.injEq, and_true] at hg
      exact hg.symm
  have hdata : ∀ p ∈ evK d, ∀ g, brEv p g → g.jid = f0.jid ∧ g.mc = f0.mc ∧ g.width = f0.width := by
    intro p hp g hg
    rcases hbrd p hp g hg with h | ⟨i, _, _, rfl⟩
    · have := hS.same p h p0 hp0 g f0 hg hf0
      exact ⟨this.1, hB.samemc p h p0 hp0 g f0 hg hf0, by simp [Frame.width, this.2.1]⟩
    · exact ⟨hj0, hm0, by rw [hw0]; rfl⟩
  -- no re-entry event is left
  have hnone : ∀ p ∈ evK d, ∀ g s' st o, p.2 ≠ .reenter g s' st o := by
    intro p hp g s' st o hk
    rcases (hmem p).mp hp with ⟨h, hne⟩ | h
    · exact hne (hB.reone p h r hr g s' st o f s [] none hk hrk)
    · obtain ⟨i, _, _, t, hk'⟩ := hnews p h
      rw [hk'] at hk; cases hk
  have hnewbr : ∀ i, i < f.width → i / f.mc = s / f.mc → ∃ p' ∈ evK d, ∃ f', brEv p' f' ∧ f'.idx = i := by
    intro i hi hb'
    obtain ⟨p', hp', t, hk⟩ := hcov i hi hb'
    exact ⟨p', (hmem p').mpr (Or.inr hp'), { f with idx := i }, by simp [brEv, hk, evStack], rfl⟩
  constructor
  · intro p hp g hg i hi hb'
    rcases hbrd p hp g hg with h | ⟨i0, hi0, hb0, rfl⟩
    · obtain ⟨p', hp', g', hg', hi'⟩ := hB.bcover p h g hg i hi hb'
      exact ⟨p', hkeep p' hp' g' hg', g', hg', hi'⟩
    · exact hnewbr i hi (by simpa using hb'.trans hb0)
  · intro p hp g hg
    exact ⟨p0, hkeep p0 hp0 f0 hf0, f0, hf0, hz0⟩
  · intro p1 hp1 p2 hp2 g1 g2 hg1 hg2
    rw [(hdata p1 hp1 g1 hg1).2.1, (hdata p2 hp2 g2 hg2).2.1]
  · intro p hp g s' st o hk
    exact absurd hk (hnone p hp g s' st o)
  · intro p hp g hg s' hs'
    rw [hb, (hdata p hp g hg).1] at hs'
    rcases hB.rb p0 hp0 f0 hf0 s' hs' with ⟨p', hp', g', st, o, hk⟩ | ⟨p', hp', g', hg', hi'⟩
    · have : p' = r := hB.reone p' hp' r hr g' s' st o f s [] none hk hrk
      rw [this, hrk] at hk
      simp only [EvKind.reenter.injEq] at hk
      obtain ⟨_, rfl, _, _⟩ := hk
      exact Or.inr (hnewbr s hsw rfl)
    · exact Or.inr ⟨p', hkeep p' hp' g' hg', g', hg', hi'⟩
  · intro p hp g hg hne
    rw [hb]
    rcases hbrd p hp g hg with h | ⟨i, hi, hb', rfl⟩
    · exact hB.imax p h g hg hne
    · show (f.jid, i / f.mc * f.mc) ∈ c.batches
      rw [hb', hsk]; exact hin
  · intro p hp g hg s1 s2 hs1 h0 hle hmod
    obtain ⟨a, b, _⟩ := hdata p hp g hg
    rw [hb, a] at hs1 ⊢
    rw [b] at hmod
    exact hB.down p0 hp0 f0 hf0 s1 s2 hs1 h0 hle hmod
  · intro p hp g hg s1 hs1
    obtain ⟨a, b, c'⟩ := hdata p hp g hg
    rw [hb, a] at hs1
    rw [b, c']
    exact hB.bmult p0 hp0 f0 hf0 s1 hs1
  · rw [hb, hn]; exact hB.bjlt
  · intro p1 hp1 p2 hp2 f1 s1 st1 o1 f2 s2 st2 o2 h1 _
    exact absurd h1 (hnone p1 hp1 f1 s1 st1 o1)

/-! ### the other steps -/

/-- no branch event and no re-entry event in the queue (a top-level event, or nothing): only the record matters -/
theorem BShape.top {c : Cfg} (hbr : ∀ p ∈ evK c, ∀ g, ¬ brEv p g) (hre : ∀ p ∈ evK c, ∀ g s st o, p.2 ≠ .reenter g s st o)
    (hb : ∀ b ∈ c.batches, b.1 < c.nextJ) : BShape c := by
  constructor
  · intro p hp g hg; exact absurd hg (hbr p hp g)
  · intro p hp g hg; exact absurd hg (hbr p hp g)
  · intro p hp _ _ g _ hg; exact absurd hg (hbr p hp g)
  · intro p hp g s st o hk; exact absurd hk (hre p hp g s st o)
  · intro p hp g hg; exact absurd hg (hbr p hp g)
  · intro p hp g hg; exact absurd hg (hbr p hp g)
  · intro p hp g hg; exact absurd hg (hbr p hp g)
  · intro p hp g hg; exact absurd hg (hbr p hp g)
  · exact hb
  · intro p hp _ _ g s st o _ _ _ _ hk; exact absurd hk (hre p hp g s st o)

/-- one event of the queue is replaced by another with the same Branch stack that is not a re-entry event (the next visit of
the same sequence); the record is unchanged -/
theorem BShape.replace {c d : Cfg} (h : BShape c) {x y : Nat × EvKind} (hx : x ∈ evK c)
    (hmem : ∀ p, p ∈ evK d ↔ (p ∈ evK c ∧ p ≠ x) ∨ p = y) (hstk : evStack y.2 = evStack x.2)
    (hxv : ∀ g s st o, x.2 ≠ .reenter g s st o) (hyv : ∀ g s st o, y.2 ≠ .reenter g s st o)
    (hb : d.batches = c.batches) (hn : d.nextJ = c.nextJ) : BShape d := by
  -- a branch event afterwards has the frame of a branch event before, and the other way round
  have hto : ∀ p ∈ evK d, ∀ g, brEv p g → ∃ p' ∈ evK c, brEv p' g := by
    intro p hp g hg
    rcases (hmem p).mp hp with ⟨hpc, _⟩ | rfl
    · exact ⟨p, hpc, hg⟩
    · exact ⟨x, hx, by simp only [brEv] at hg ⊢; rw [← hstk]; exact hg⟩
  have hfrom : ∀ p ∈ evK c, ∀ g, brEv p g → ∃ p' ∈ evK d, brEv p' g := by
    intro p hp g hg
    by_cases hpx : p = x
    · subst hpx
      exact ⟨y, (hmem y).mpr (Or.inr rfl), by simp only [brEv] at hg ⊢; rw [hstk]; exact hg⟩
    · exact ⟨p, (hmem p).mpr (Or.inl ⟨hp, hpx⟩), hg⟩
  have hre : ∀ p ∈ evK d, ∀ g s st o, p.2 = .reenter g s st o → p ∈ evK c ∧ p ≠ x := by
    intro p hp g s st o hk
    rcases (hmem p).mp hp with h | rfl
    · exact h
    · exact absurd hk (hyv g s st o)
  have hrefrom : ∀ p ∈ evK c, ∀ g s st o, p.2 = .reenter g s st o → p ∈ evK d := by
    intro p hp g s st o hk
    refine (hmem p).mpr (Or.inl ⟨hp, ?_⟩)
    intro he; rw [he] at hk; exact hxv g s st o hk
  constructor
  · intro p hp g hg i hi hb'
    obtain ⟨p1, hp1, hg1⟩ := hto p hp g hg
    obtain ⟨p', hp', g', hg', hi'⟩ := h.bcover p1 hp1 g hg1 i hi hb'
    obtain ⟨p'', hp'', hg''⟩ := hfrom p' hp' g' hg'
    exact ⟨p'', hp'', g', hg'', hi'⟩
  · intro p hp g hg
    obtain ⟨p1, hp1, hg1⟩ := hto p hp g hg
    obtain ⟨p', hp', g', hg', hi'⟩ := h.zero p1 hp1 g hg1
    obtain ⟨p'', hp'', hg''⟩ := hfrom p' hp' g' hg'
    exact ⟨p'', hp'', g', hg'', hi'⟩
  · intro p1 hp1 p2 hp2 g1 g2 hg1 hg2
    obtain ⟨q1, hq1, hq1g⟩ := hto p1 hp1 g1 hg1
    obtain ⟨q2, hq2, hq2g⟩ := hto p2 hp2 g2 hg2
    exact h.samemc q1 hq1 q2 hq2 g1 g2 hq1g hq2g
  · intro p hp g s st o hk
    obtain ⟨hpc, _⟩ := hre p hp g s st o hk
    obtain ⟨⟨p0, hp0, g0, hg0, h0⟩, hin, hall⟩ := h.re p hpc g s st o hk
    obtain ⟨p0', hp0', hg0'⟩ := hfrom p0 hp0 g0 hg0
    refine ⟨⟨p0', hp0', g0, hg0', h0⟩, hb ▸ hin, ?_⟩
    intro p2 hp2 g2 hg2
    obtain ⟨q2, hq2, hq2g⟩ := hto p2 hp2 g2 hg2
    exact hall q2 hq2 g2 hq2g
  · intro p hp g hg s hs
    obtain ⟨p1, hp1, hg1⟩ := hto p hp g hg
    rw [hb] at hs
    rcases h.rb p1 hp1 g hg1 s hs with ⟨p', hp', g', st, o, hk⟩ | ⟨p', hp', g', hg', hi'⟩
    · exact Or.inl ⟨p', hrefrom p' hp' g' s st o hk, g', st, o, hk⟩
    · obtain ⟨p'', hp'', hg''⟩ := hfrom p' hp' g' hg'
      exact Or.inr ⟨p'', hp'', g', hg'', hi'⟩
  · intro p hp g hg hne
    obtain ⟨p1, hp1, hg1⟩ := hto p hp g hg
    rw [hb]; exact h.imax p1 hp1 g hg1 hne
  · intro p hp g hg s s' hs
    obtain ⟨p1, hp1, hg1⟩ := hto p hp g hg
    rw [hb] at hs ⊢; exact h.down p1 hp1 g hg1 s s' hs
  · intro p hp g hg s hs
    obtain ⟨p1, hp1, hg1⟩ := hto p hp g hg
    rw [hb] at hs; exact h.bmult p1 hp1 g hg1 s hs
  · rw [hb, hn]; exact h.bjlt
  · intro p1 hp1 p2 hp2 f1 s1 st1 o1 f2 s2 st2 o2 h1 h2
    exact h.reone p1 (hre p1 hp1 f1 s1 st1 o1 h1).1 p2 (hre p2 hp2 f2 s2 st2 o2 h2).1 f1 s1 st1 o1 f2 s2 st2 o2 h1 h2

/-- the fan-out state is launched (attempt `f.jid = c.nextJ`, nothing of it on record): the slots of the first batch get their
events, which are then the whole queue -/
theorem BShape.first {c d : Cfg} {f : Frame} (hbj : ∀ b ∈ c.batches, b.1 < c.nextJ) (hj : f.jid = c.nextJ) (hw : 0 < f.width)
    (hnews : ∀ p ∈ evK d, ∃ i, i < f.width ∧ i / f.mc = 0 ∧ ∃ t, p.2 = .visit t [{ f with idx := i }] false none)
    (hcov : ∀ i, i < f.width → i / f.mc = 0 → ∃ p ∈ evK d, ∃ t, p.2 = .visit t [{ f with idx := i }] false none)
    (hb : d.batches = c.batches) (hn : d.nextJ = c.nextJ + 1) : BShape d := by
  have hnoJ : ∀ s, (f.jid, s) ∉ c.batches := by
    intro s hs
    have := hbj _ hs
    simp only [hj] at this; omega
  have hbr : ∀ p ∈ evK d, ∀ g, brEv p g → ∃ i, i < f.width ∧ i / f.mc = 0 ∧ g = { f with idx := i } := by
    intro p hp g hg
    obtain ⟨i, hi, hb', t, hk⟩ := hnews p hp
    refine ⟨i, hi, hb', ?_⟩
    simp only [brEv, hk, evStack, List.cons.injEq, and_true] at hg
    exact hg.symm
  have hre : ∀ p ∈ evK d, ∀ g s st o, p.2 ≠ .reenter g s st o := by
    intro p hp g s st o hk
    obtain ⟨i, _, _, t, hk'⟩ := hnews p hp
    rw [hk'] at hk; cases hk
  have hhas : ∀ i, i < f.width → i / f.mc = 0 → ∃ p' ∈ evK d, ∃ f', brEv p' f' ∧ f'.idx = i := by
    intro i hi hb'
    obtain ⟨p', hp', t, hk⟩ := hcov i hi hb'
    exact ⟨p', hp', { f with idx := i }, by simp [brEv, hk, evStack], rfl⟩
  constructor
  · intro p hp g hg i hi hb'
    obtain ⟨i0, _, h0, rfl⟩ := hbr p hp g hg
    exact hhas i hi (by simpa [h0] using hb')
  · intro p hp g hg
    exact hhas 0 hw (Nat.zero_div _)
  · intro p1 hp1 p2 hp2 g1 g2 hg1 hg2
    obtain ⟨_, _, _, rfl⟩ := hbr p1 hp1 g1 hg1
    obtain ⟨_, _, _, rfl⟩ := hbr p2 hp2 g2 hg2
    rfl
  · intro p hp g s st o hk; exact absurd hk (hre p hp g s st o)
  · intro p hp g hg s hs
    obtain ⟨_, _, _, rfl⟩ := hbr p hp g hg
    rw [hb] at hs; exact absurd hs (hnoJ s)
  · intro p hp g hg hne
    obtain ⟨i, _, h0, rfl⟩ := hbr p hp g hg
    exact absurd h0 hne
  · intro p hp g hg s s' hs
    obtain ⟨_, _, _, rfl⟩ := hbr p hp g hg
    rw [hb] at hs; exact absurd hs (hnoJ s)
  · intro p hp g hg s hs
    obtain ⟨_, _, _, rfl⟩ := hbr p hp g hg
    rw [hb] at hs; exact absurd hs (hnoJ s)
  · intro b hb'
    rw [hb] at hb'; rw [hn]
    have := hbj b hb'; omega
  · intro p1 hp1 _ _ f1 s1 st1 o1 _ _ _ _ h1 _
    exact absurd h1 (hre p1 hp1 f1 s1 st1 o1)

end Asl.Crash
