/- helper lemmas of C18: inversion of `wfState`, scope look-ups, catcher targets, and the mutual
induction showing that no "Illegal State Machine" site is reachable inside a well-formed scope -/
import AslModel.Machine
import AslModel.Lite
namespace Asl.Machine
open Asl

theorem objGet_mem {kvs : List (Str × Json)} {n : Str} {s : Json} (h : objGet kvs n = some s) :
    ∃ k, (k, s) ∈ kvs := by
  induction kvs with
  | nil => simp [objGet] at h
  | cons kv rest ih =>
    obtain ⟨k', v⟩ := kv
    simp only [objGet] at h
    split at h
    · cases h; exact ⟨k', by simp⟩
    · obtain ⟨k, hk⟩ := ih h; exact ⟨k, by simp [hk]⟩

theorem wfScope_get {d : Nat} {kvs : List (Str × Json)} {n : Str} {s : Json}
    (h : wfScope d kvs = true) (hg : objGet kvs n = some s) : wfState d kvs s = true := by
  obtain ⟨k, hk⟩ := objGet_mem hg
  simp only [wfScope, List.all_eq_true] at h
  exact h (k, s) hk

theorem defined_get {kvs : List (Str × Json)} {n : Str} (h : defined kvs n = true) :
    ∃ s, objGet kvs n = some s := by
  simp only [defined, Option.isSome_iff_exists] at h
  exact h

theorem targetOk_str {kvs : List (Str × Json)} {o : Option Json} (h : targetOk kvs o = true) :
    ∃ n, o = some (.str n) ∧ defined kvs n = true := by
  unfold targetOk at h
  split at h
  · exact ⟨_, rfl, h⟩
  · cases h

theorem leaveOk_next {kvs : List (Str × Json)} {state : Json} (h : leaveOk kvs state = true)
    (hE : isTrue (fld state "End") = false) : ∃ n, fldStr state "Next" = some n ∧ defined kvs n = true := by
  simp only [leaveOk, hE, Bool.false_or] at h
  obtain ⟨n, hn, hd⟩ := targetOk_str h
  refine ⟨n, ?_, hd⟩
  simp only [fld] at hn
  simp [fldStr, hn]

theorem catcherOf_next {kvs : List (Str × Json)} {j : Json} (h : targetOk kvs (j.get "Next") = true) :
    ∃ n, (catcherOf j).next = some n ∧ defined kvs n = true := by
  obtain ⟨n, hn, hd⟩ := targetOk_str h
  refine ⟨n, ?_, hd⟩
  cases j with
  | obj m =>
    simp only [Json.get] at hn
    have : objGet m (S "Next") = some (.str n) := hn
    simp [catcherOf, this]
  | _ => simp [Json.get] at hn

theorem scanCatchers_mem {cs : List Catcher} {e : Str} {c : Catcher} (h : scanCatchers cs e = some c) :
    c ∈ cs := by
  induction cs with
  | nil => simp [scanCatchers] at h
  | cons x xs ih =>
    simp only [scanCatchers] at h
    split at h
    · cases h; simp
    · simp [ih h]

/-- site (d) is closed: a catcher that `handle_error` selects in a state with `catchOk` has a
`Next` defined in the scope -/
theorem caught_next {kvs : List (Str × Json)} {state : Json} {rs : List Retrier} {e : Str} {r : Nat} {c : Catcher}
    (hc : catchOk kvs state = true)
    (h : decideError rs ((listOf (fld state "Catch")).map catcherOf) e r = .caught c) :
    ∃ n, c.next = some n ∧ defined kvs n = true := by
  have hm : c ∈ (listOf (fld state "Catch")).map catcherOf := by
    unfold decideError at h
    split at h
    · cases h
    · split at h
      · cases h
      · split at h
        · rename_i c' hs
          cases h
          exact scanCatchers_mem hs
        · cases h
  obtain ⟨j, hj, rfl⟩ := List.mem_map.mp hm
  simp only [catchOk, List.all_eq_true] at hc
  exact catcherOf_next (hc j hj)

theorem choiceOk_rule {kvs : List (Str × Json)} {state r : Json} {n : Str} (h : choiceOk kvs state = true)
    (hr : r ∈ listOf (fld state "Choices")) (hn : r.get "Next" = some (.str n)) : defined kvs n = true := by
  simp only [choiceOk, Bool.and_eq_true, List.all_eq_true] at h
  have := h.1.2 r hr
  rw [hn] at this
  exact this

theorem choiceOk_default {kvs : List (Str × Json)} {state : Json} {n : Str} (h : choiceOk kvs state = true)
    (hn : fldStr state "Default" = some n) : defined kvs n = true := by
  simp only [choiceOk, Bool.and_eq_true] at h
  have h2 := h.2
  unfold fldStr at hn
  unfold fld at h2
  split at hn
  · rename_i s hs
    cases hn
    rw [hs] at h2
    exact h2
  · cases hn

/-- the driver's Choice evaluator only answers the `Next` of one of the state's rules -/
theorem lite_go_mem (input ctx : Json) (rs : List Json) (n : Str)
    (h : Lite.choose.go input ctx rs = some n) : ∃ r, r ∈ rs ∧ r.get "Next" = some (.str n) := by
  induction rs with
  | nil => simp [Lite.choose.go] at h
  | cons r rest ih =>
    simp only [Lite.choose.go] at h
    split at h
    · split at h
      · rename_i n' hn
        cases h
        exact ⟨r, by simp, hn⟩
      · obtain ⟨r', hr', hn'⟩ := ih h
        exact ⟨r', by simp [hr'], hn'⟩
    · obtain ⟨r', hr', hn'⟩ := ih h
      exact ⟨r', by simp [hr'], hn'⟩

/-! ### inversion of `wfState` -/

structure StateFacts (d : Nat) (kvs : List (Str × Json)) (state : Json) : Prop where
  catch_ok : catchOk kvs state = true
  handlers_ok : handlersOk state = true
  known : stateType state ∈ knownTypes
  leave_ok : stateType state ≠ S "Succeed" → stateType state ≠ S "Fail" → stateType state ≠ S "Choice" →
    leaveOk kvs state = true
  choice_ok : stateType state = S "Choice" → choiceOk kvs state = true
  branches_ok : stateType state = S "Parallel" →
    (listOf (fld state "Branches")) ≠ [] ∧ ∀ b ∈ listOf (fld state "Branches"), wfBranch d b = true
  proc_ok : stateType state = S "Map" → wfBranch d (mapProc state) = true
  task_ok : stateType state = S "Task" → hasStr state "Resource" = true
  wait_ok : stateType state = S "Wait" → waitOk state = true

theorem wfState_zero (kvs : List (Str × Json)) (state : Json) : wfState 0 kvs state = false := by
  simp [wfState]

theorem wfState_inv {d : Nat} {kvs : List (Str × Json)} {state : Json}
    (h : wfState (d + 1) kvs state = true) : StateFacts d kvs state := by
  have e : ∀ a b : String, a ≠ b → (S a = S b) = False := by
    intro a b hab
    simp only [S, eq_iff_iff, iff_false]
    intro h'
    exact hab (String.ext h')
  simp only [wfState, Bool.and_eq_true] at h
  obtain ⟨⟨hc, hh⟩, h⟩ := h
  by_cases h1 : stateType state = S "Pass"
  · simp only [h1, if_true] at h
    exact ⟨hc, hh, by simp [h1, knownTypes], fun _ _ _ => h, by simp [h1, e], by simp [h1, e], by simp [h1, e],
      by simp [h1, e], by simp [h1, e]⟩
  simp only [h1, if_false] at h
  by_cases h2 : stateType state = S "Succeed"
  · exact ⟨hc, hh, by simp [h2, knownTypes], fun hn _ _ => absurd h2 hn, by simp [h2, e], by simp [h2, e],
      by simp [h2, e], by simp [h2, e], by simp [h2, e]⟩
  simp only [h2, if_false] at h
  by_cases h3 : stateType state = S "Fail"
  · exact ⟨hc, hh, by simp [h3, knownTypes], fun _ hn _ => absurd h3 hn, by simp [h3, e], by simp [h3, e],
      by simp [h3, e], by simp [h3, e], by simp [h3, e]⟩
  simp only [h3, if_false] at h
  by_cases h4 : stateType state = S "Wait"
  · simp only [h4, if_true, Bool.and_eq_true] at h
    exact ⟨hc, hh, by simp [h4, knownTypes], fun _ _ _ => h.1, by simp [h4, e], by simp [h4, e], by simp [h4, e],
      by simp [h4, e], fun _ => h.2⟩
  simp only [h4, if_false] at h
  by_cases h5 : stateType state = S "Choice"
  · simp only [h5, if_true] at h
    exact ⟨hc, hh, by simp [h5, knownTypes], fun _ _ hn => absurd h5 hn, fun _ => h, by simp [h5, e],
      by simp [h5, e], by simp [h5, e], by simp [h5, e]⟩
  simp only [h5, if_false] at h
  by_cases h6 : stateType state = S "Task"
  · simp only [h6, if_true, Bool.and_eq_true] at h
    exact ⟨hc, hh, by simp [h6, knownTypes], fun _ _ _ => h.1, by simp [h6, e], by simp [h6, e], by simp [h6, e],
      fun _ => h.2, by simp [h6, e]⟩
  simp only [h6, if_false] at h
  by_cases h7 : stateType state = S "Parallel"
  · simp only [h7, if_true, Bool.and_eq_true, List.all_eq_true] at h
    refine ⟨hc, hh, by simp [h7, knownTypes], fun _ _ _ => h.1.1, by simp [h7, e], fun _ => ⟨?_, ?_⟩, by simp [h7, e],
      by simp [h7, e], by simp [h7, e]⟩
    · intro hnil
      have := h.1.2
      simp [hnil] at this
    · intro b hb
      have := h.2 b hb
      simpa [wfBranch, wfScope] using this
  simp only [h7, if_false] at h
  by_cases h8 : stateType state = S "Map"
  · simp only [h8, if_true, Bool.and_eq_true] at h
    refine ⟨hc, hh, by simp [h8, knownTypes], fun _ _ _ => h.1.1, by simp [h8, e], by simp [h8, e], fun _ => ?_,
      by simp [h8, e], by simp [h8, e]⟩
    have := h.1.2
    simpa [wfBranch, wfScope] using this
  simp [h8] at h

theorem wfBranch_inv {d : Nat} {b : Json} (h : wfBranch d b = true) :
    ∃ s kvs, fldStr b "StartAt" = some s ∧ fld b "States" = some (.obj kvs) ∧ defined kvs s = true ∧
      wfScope d kvs = true := by
  unfold wfBranch at h
  split at h
  · rename_i s kvs hs hk
    simp only [Bool.and_eq_true] at h
    exact ⟨s, kvs, hs, hk, h.1, h.2⟩
  · cases h


/-! ### no site is reachable inside a well-formed scope -/

/-- the scope invariant: the members `kvs` of the current `States` object are well-formed (at some depth) -/
def Inv (kvs : List (Str × Json)) : Prop := ∃ d, wfScope d kvs = true

structure Safe (env : Env) (fuel : Nat) : Prop where
  from_ : ∀ kvs name data ctx r st, Inv kvs → defined kvs name = true →
    illFrom env fuel (.obj kvs) name data ctx r st = false
  leave : ∀ kvs name state raw data ctx r st, Inv kvs → defined kvs name = true → leaveOk kvs state = true →
    catchOk kvs state = true → illLeave env fuel (.obj kvs) name state raw data ctx r st = false
  err : ∀ kvs name state data ctx r e msg st, Inv kvs → defined kvs name = true → catchOk kvs state = true →
    illErr env fuel (.obj kvs) name state data ctx r e msg st = false
  state : ∀ kvs name state data ctx r st d, Inv kvs → defined kvs name = true → wfState d kvs state = true →
    illState env fuel (.obj kvs) name state data ctx r st = false
  join : ∀ kvs name state data ctx r res st, Inv kvs → defined kvs name = true → leaveOk kvs state = true →
    catchOk kvs state = true → illJoin env fuel (.obj kvs) name state data ctx r res st = false
  branches : ∀ bs params ctx st d, (∀ b ∈ bs, wfBranch d b = true) → illBranches env fuel bs params ctx st = false
  items : ∀ proc sel input items i mc be ctx st d, wfBranch d proc = true →
    illItems env fuel proc sel input items i mc be ctx st = false

theorem safe_zero (env : Env) : Safe env 0 :=
  ⟨by intros; simp [illFrom], by intros; simp [illLeave], by intros; simp [illErr], by intros; simp [illState],
   by intros; simp [illJoin], by intros; simp [illBranches], by intros; simp [illItems]⟩

theorem safe_from (env : Env) (fuel : Nat) (ih : Safe env fuel) :
    ∀ kvs name data ctx r st, Inv kvs → defined kvs name = true →
      illFrom env (fuel + 1) (.obj kvs) name data ctx r st = false := by
  intro kvs name data ctx r st hI hd
  obtain ⟨state, hs⟩ := defined_get hd
  obtain ⟨d, hw⟩ := hI
  simp only [illFrom, hs]
  exact ih.state _ _ _ _ _ _ _ d ⟨d, hw⟩ hd (wfScope_get hw hs)

theorem safe_leave (env : Env) (fuel : Nat) (ih : Safe env fuel) :
    ∀ kvs name state raw data ctx r st, Inv kvs → defined kvs name = true → leaveOk kvs state = true →
      catchOk kvs state = true → illLeave env (fuel + 1) (.obj kvs) name state raw data ctx r st = false := by
  intro kvs name state raw data ctx r st hI hd hl hc
  simp only [illLeave]
  by_cases hE : isTrue (fld state "End") = true
  · simp only [hE, ↓reduceIte]
    split
    · exact ih.err _ _ _ _ _ _ _ _ _ hI hd hc
    · rfl
  · have hE' : isTrue (fld state "End") = false := by simpa using hE
    obtain ⟨n, hn, hdn⟩ := leaveOk_next hl hE'
    simp only [hE', hn, Bool.false_eq_true, ↓reduceIte]
    split
    · exact ih.err _ _ _ _ _ _ _ _ _ hI hd hc
    · exact ih.from_ _ _ _ _ _ _ hI hdn

theorem safe_err (env : Env) (fuel : Nat) (ih : Safe env fuel) :
    ∀ kvs name state data ctx r e msg st, Inv kvs → defined kvs name = true → catchOk kvs state = true →
      illErr env (fuel + 1) (.obj kvs) name state data ctx r e msg st = false := by
  intro kvs name state data ctx r e msg st hI hd hc
  simp only [illErr]
  split
  · exact ih.from_ _ _ _ _ _ _ hI hd
  · rename_i c hdec
    obtain ⟨n, hn, hdn⟩ := caught_next hc hdec
    split
    · rfl
    · simp only [hn]
      split
      · rfl
      · exact ih.from_ _ _ _ _ _ _ hI hdn
  · rfl

theorem safe_join (env : Env) (fuel : Nat) (ih : Safe env fuel) :
    ∀ kvs name state data ctx r res st, Inv kvs → defined kvs name = true → leaveOk kvs state = true →
      catchOk kvs state = true → illJoin env (fuel + 1) (.obj kvs) name state data ctx r res st = false := by
  intro kvs name state data ctx r res st hI hd hl hc
  simp only [illJoin]
  split
  · exact ih.err _ _ _ _ _ _ _ _ _ hI hd hc
  · rfl
  · split
    · exact ih.err _ _ _ _ _ _ _ _ _ hI hd hc
    · split
      · exact ih.err _ _ _ _ _ _ _ _ _ hI hd hc
      · exact ih.leave _ _ _ _ _ _ _ _ hI hd hl hc

theorem safe_branches (env : Env) (fuel : Nat) (ih : Safe env fuel) :
    ∀ bs params ctx st d, (∀ b ∈ bs, wfBranch d b = true) →
      illBranches env (fuel + 1) bs params ctx st = false := by
  intro bs params ctx st d hb
  cases bs with
  | nil => simp [illBranches]
  | cons b rest =>
    obtain ⟨s, kvs, hs, hk, hdef, hw⟩ := wfBranch_inv (hb b (by simp))
    simp only [illBranches, hs, hk, Bool.or_eq_false_iff]
    exact ⟨ih.from_ _ _ _ _ _ _ ⟨d, hw⟩ hdef, ih.branches _ _ _ _ d (fun b' hb' => hb b' (by simp [hb']))⟩

theorem safe_items (env : Env) (fuel : Nat) (ih : Safe env fuel) :
    ∀ proc sel input items i mc be ctx st d, wfBranch d proc = true →
      illItems env (fuel + 1) proc sel input items i mc be ctx st = false := by
  intro proc sel input items i mc be ctx st d hp
  cases items with
  | nil => simp [illItems]
  | cons item rest =>
    obtain ⟨s, kvs, hs, hk, hdef, hw⟩ := wfBranch_inv hp
    simp only [illItems, hs, hk]
    split
    · rfl
    · simp only [Bool.or_eq_false_iff]
      exact ⟨ih.from_ _ _ _ _ _ _ ⟨d, hw⟩ hdef, ih.items _ _ _ _ _ _ _ _ _ d hp⟩


theorem S_ne (a b : String) (hab : a ≠ b) : (S a = S b) = False := by
  simp only [S, eq_iff_iff, iff_false]
  intro h'
  exact hab (String.ext h')

theorem choice_target {env : Env} (hch : ChooseOK env) {kvs : List (Str × Json)} {state input data ctx : Json}
    {n : Str} (hco : choiceOk kvs state = true)
    (h : (match env.choose state input data ctx with
          | some n => some n
          | none => fldStr state "Default") = some n) : defined kvs n = true := by
  split at h
  · rename_i n' hn'
    cases h
    obtain ⟨r, hr, hn⟩ := hch _ _ _ _ _ hn'
    exact choiceOk_rule hco hr hn
  · exact choiceOk_default hco h

theorem safe_state (env : Env) (hch : ChooseOK env) (fuel : Nat) (ih : Safe env fuel) :
    ∀ kvs name state data ctx r st d, Inv kvs → defined kvs name = true → wfState d kvs state = true →
      illState env (fuel + 1) (.obj kvs) name state data ctx r st = false := by
  intro kvs name state data ctx r st d hI hd hw
  cases d with
  | zero => simp [wfState_zero] at hw
  | succ d =>
  have F := wfState_inv hw
  have hc := F.catch_ok
  have hE := fun e msg st' => ih.err kvs name state data ctx r e msg st' hI hd hc
  simp only [illState]
  by_cases h1 : stateType state = S "Pass"
  · have hl := F.leave_ok (by simp [h1, S_ne]) (by simp [h1, S_ne]) (by simp [h1, S_ne])
    simp only [h1, ↓reduceIte]
    repeat' split
    all_goals first | rfl | exact hE _ _ _ | exact ih.leave _ _ _ _ _ _ _ _ hI hd hl hc
  simp only [h1, ↓reduceIte]
  by_cases h2 : stateType state = S "Succeed"
  · simp only [h2, ↓reduceIte]
    repeat' split
    all_goals first | rfl | exact hE _ _ _
  simp only [h2, ↓reduceIte]
  by_cases h3 : stateType state = S "Fail"
  · simp only [h3, ↓reduceIte]
  simp only [h3, ↓reduceIte]
  by_cases h4 : stateType state = S "Wait"
  · have hl := F.leave_ok (by simp [h4, S_ne]) (by simp [h4, S_ne]) (by simp [h4, S_ne])
    simp only [h4, ↓reduceIte]
    repeat' split
    all_goals first | rfl | exact hE _ _ _ | exact ih.leave _ _ _ _ _ _ _ _ hI hd hl hc
  simp only [h4, ↓reduceIte]
  by_cases h5 : stateType state = S "Choice"
  · have hco := F.choice_ok h5
    simp only [h5, ↓reduceIte]
    split
    · exact hE _ _ _
    · split
      · exact hE _ _ _
      · split
        · exact hE _ _ _
        · rename_i n hn
          split
          · exact hE _ _ _
          · exact ih.from_ _ _ _ _ _ _ hI (choice_target hch hco hn)
  simp only [h5, ↓reduceIte]
  by_cases h6 : stateType state = S "Task"
  · have hl := F.leave_ok (by simp [h6, S_ne]) (by simp [h6, S_ne]) (by simp [h6, S_ne])
    simp only [h6, ↓reduceIte]
    repeat' split
    all_goals first | rfl | exact hE _ _ _ | exact ih.err _ _ _ _ _ _ _ _ _ hI hd hc
                    | exact ih.leave _ _ _ _ _ _ _ _ hI hd hl hc
  simp only [h6, ↓reduceIte]
  by_cases h7 : stateType state = S "Parallel"
  · have hl := F.leave_ok (by simp [h7, S_ne]) (by simp [h7, S_ne]) (by simp [h7, S_ne])
    have hb := (F.branches_ok h7).2
    simp only [h7, ↓reduceIte]
    split
    · exact hE _ _ _
    · split
      · exact hE _ _ _
      · simp only [Bool.or_eq_false_iff]
        exact ⟨ih.branches _ _ _ _ d hb, ih.join _ _ _ _ _ _ _ _ hI hd hl hc⟩
  simp only [h7, ↓reduceIte]
  by_cases h8 : stateType state = S "Map"
  · have hl := F.leave_ok (by simp [h8, S_ne]) (by simp [h8, S_ne]) (by simp [h8, S_ne])
    have hp := F.proc_ok h8
    simp only [h8, ↓reduceIte]
    split
    · exact hE _ _ _
    · split
      · exact hE _ _ _
      · simp only [Bool.or_eq_false_iff]
        exact ⟨ih.items _ _ _ _ _ _ _ _ _ d hp, ih.join _ _ _ _ _ _ _ _ hI hd hl hc⟩
  · exfalso
    have := F.known
    simp [knownTypes, h1, h2, h3, h4, h5, h6, h7, h8] at this

/-- inside a well-formed scope none of the five sites is reachable, whatever the fuel -/
theorem safe_all (env : Env) (hch : ChooseOK env) : ∀ fuel, Safe env fuel
  | 0 => safe_zero env
  | fuel + 1 =>
    have ih := safe_all env hch fuel
    ⟨safe_from env fuel ih, safe_leave env fuel ih, safe_err env fuel ih, safe_state env hch fuel ih,
     safe_join env fuel ih, safe_branches env fuel ih, safe_items env fuel ih⟩

end Asl.Machine
