/-
Basic facts about the queue operations of the crash protocol model (AslModel/Crash.lean): finding, marking and
acknowledging a message in a queue whose ids are distinct.
-/
import AslModel.Crash
namespace Asl.Crash

theorem eq_of_nodup_map {α β : Type} (f : α → β) {l : List α} (hnd : (l.map f).Nodup) {a b : α} (ha : a ∈ l) (hb : b ∈ l)
    (hab : f a = f b) : a = b := by
  induction l with
  | nil => cases ha
  | cons x xs ih =>
    simp only [List.map_cons, List.nodup_cons] at hnd
    rcases List.mem_cons.mp ha with h1 | h1 <;> rcases List.mem_cons.mp hb with h2 | h2
    · rw [h1, h2]
    · exact absurd (List.mem_map.mpr ⟨b, h2, by rw [← hab, h1]⟩) hnd.1
    · exact absurd (List.mem_map.mpr ⟨a, h1, by rw [hab, h2]⟩) hnd.1
    · exact ih hnd.2 h1 h2

/-! ### events -/

def markOne (id : Nat) (m : QEv) : QEv := if m.id == id && !m.unacked then { m with unacked := true } else m

theorem markEv_evq (c : Cfg) (id : Nat) : (markEv c id).evq = c.evq.map (markOne id) := rfl

theorem markOne_id (id : Nat) (m : QEv) : (markOne id m).id = m.id := by
  unfold markOne; split <;> rfl

theorem markOne_kind (id : Nat) (m : QEv) : (markOne id m).kind = m.kind := by
  unfold markOne; split <;> rfl

theorem markOne_ne {id : Nat} {m : QEv} (h : m.id ≠ id) : markOne id m = m := by
  unfold markOne
  have : (m.id == id) = false := by simpa using h
  simp [this]

theorem markOne_ready {m : QEv} (h : m.unacked = false) : markOne m.id m = { m with unacked := true } := by
  unfold markOne; simp [h]

theorem map_markOne_ne {id : Nat} {l : List QEv} (h : ∀ e ∈ l, e.id ≠ id) : l.map (markOne id) = l := by
  induction l with
  | nil => rfl
  | cons x xs ih =>
    simp only [List.map_cons]
    rw [markOne_ne (h x (by simp)), ih (fun e he => h e (by simp [he]))]

theorem findEv_some {c : Cfg} {id : Nat} {u : Bool} {m : QEv} (h : findEv c id u = some m) :
    m ∈ c.evq ∧ m.id = id ∧ m.unacked = u := by
  unfold findEv at h
  have h1 := List.mem_of_find?_eq_some h
  have h2 := List.find?_some h
  simp at h2
  exact ⟨h1, h2.1, h2.2⟩

/-- a queue with distinct ids splits around any of its messages -/
theorem split_of_mem {l : List QEv} {m : QEv} (hm : m ∈ l) (hnd : (l.map (·.id)).Nodup) :
    ∃ l1 l2, l = l1 ++ m :: l2 ∧ (∀ e ∈ l1, e.id ≠ m.id) ∧ (∀ e ∈ l2, e.id ≠ m.id) := by
  obtain ⟨l1, l2, rfl⟩ := List.append_of_mem hm
  refine ⟨l1, l2, rfl, ?_, ?_⟩
  · intro e he heq
    simp only [List.map_append, List.map_cons, List.nodup_append, List.nodup_cons] at hnd
    exact hnd.2.2 e.id (List.mem_map.mpr ⟨e, he, rfl⟩) m.id (by simp) heq
  · intro e he heq
    simp only [List.map_append, List.map_cons, List.nodup_append, List.nodup_cons] at hnd
    exact hnd.2.1.1 (heq ▸ List.mem_map.mpr ⟨e, he, rfl⟩)

theorem findEv_split {l1 l2 : List QEv} {m : QEv} {c : Cfg} (he : c.evq = l1 ++ m :: l2)
    (h1 : ∀ e ∈ l1, e.id ≠ m.id) : findEv c m.id m.unacked = some m := by
  unfold findEv
  rw [he, List.find?_append]
  have : List.find? (fun x => x.id == m.id && x.unacked == m.unacked) l1 = none := by
    rw [List.find?_eq_none]
    intro x hx
    have := h1 x hx
    simp [this]
  simp [this]

/-- marking the (ready) message `m` of a split queue -/
theorem mark_split {l1 l2 : List QEv} {m : QEv} (h1 : ∀ e ∈ l1, e.id ≠ m.id) (h2 : ∀ e ∈ l2, e.id ≠ m.id)
    (hm : m.unacked = false) :
    (l1 ++ m :: l2).map (markOne m.id) = l1 ++ { m with unacked := true } :: l2 := by
  simp only [List.map_append, List.map_cons]
  rw [map_markOne_ne h1, map_markOne_ne h2, markOne_ready hm]

def ackP (id : Nat) (m : QEv) : Bool := !(m.id == id && m.unacked)

theorem filter_ackP_ne {id : Nat} {l : List QEv} (h : ∀ e ∈ l, e.id ≠ id) : l.filter (ackP id) = l := by
  rw [List.filter_eq_self]
  intro e he
  have := h e he
  simp [ackP, this]

/-- acknowledging the (unacknowledged) message `m` of a split queue -/
theorem ack_split {l1 l2 l3 : List QEv} {m : QEv} (h1 : ∀ e ∈ l1, e.id ≠ m.id) (h2 : ∀ e ∈ l2, e.id ≠ m.id)
    (h3 : ∀ e ∈ l3, e.id ≠ m.id) (hm : m.unacked = true) :
    (l1 ++ m :: l2 ++ l3).filter (ackP m.id) = l1 ++ l2 ++ l3 := by
  simp only [List.filter_append, List.filter_cons]
  rw [filter_ackP_ne h1, filter_ackP_ne h2, filter_ackP_ne h3]
  simp [ackP, hm]

theorem act_ackEv_evq (c : Cfg) (id : Nat) : (c.act (.ackEv id)).evq = c.evq.filter (ackP id) := rfl

/-! ### replies -/

theorem splitR_of_mem {l : List QRp} {r : QRp} (hm : r ∈ l) (hnd : (l.map (·.corr)).Nodup) :
    ∃ l1 l2, l = l1 ++ r :: l2 ∧ (∀ e ∈ l1, e.corr ≠ r.corr) ∧ (∀ e ∈ l2, e.corr ≠ r.corr) := by
  obtain ⟨l1, l2, rfl⟩ := List.append_of_mem hm
  refine ⟨l1, l2, rfl, ?_, ?_⟩
  · intro e he heq
    simp only [List.map_append, List.map_cons, List.nodup_append, List.nodup_cons] at hnd
    exact hnd.2.2 e.corr (List.mem_map.mpr ⟨e, he, rfl⟩) r.corr (by simp) heq
  · intro e he heq
    simp only [List.map_append, List.map_cons, List.nodup_append, List.nodup_cons] at hnd
    exact hnd.2.1.1 (heq ▸ List.mem_map.mpr ⟨e, he, rfl⟩)

theorem markRpL_ne {corr : Nat} {l : List QRp} (h : ∀ e ∈ l, e.corr ≠ corr) : markRpL l corr = l := by
  induction l with
  | nil => rfl
  | cons x xs ih =>
    have hx := h x (by simp)
    have : (x.corr == corr) = false := by simpa using hx
    simp only [markRpL, this, Bool.false_and]
    rw [ih (fun e he => h e (by simp [he]))]
    simp

theorem markRpL_split {l1 l2 : List QRp} {r : QRp} (h1 : ∀ e ∈ l1, e.corr ≠ r.corr) (hr : r.unacked = false) :
    markRpL (l1 ++ r :: l2) r.corr = l1 ++ { r with unacked := true } :: l2 := by
  induction l1 with
  | nil => simp [markRpL, hr]
  | cons x xs ih =>
    have hx := h1 x (by simp)
    have : (x.corr == r.corr) = false := by simpa using hx
    simp only [List.cons_append, markRpL, this, Bool.false_and]
    rw [ih (fun e he => h1 e (by simp [he]))]
    simp

theorem removeFirst_ne {p : QRp → Bool} {l : List QRp} (h : ∀ e ∈ l, p e = false) : removeFirst p l = l := by
  induction l with
  | nil => rfl
  | cons x xs ih =>
    simp only [removeFirst, h x (by simp)]
    rw [ih (fun e he => h e (by simp [he]))]
    simp

theorem removeFirst_split {p : QRp → Bool} {l1 l2 : List QRp} {r : QRp} (h1 : ∀ e ∈ l1, p e = false) (hr : p r = true) :
    removeFirst p (l1 ++ r :: l2) = l1 ++ l2 := by
  induction l1 with
  | nil => simp [removeFirst, hr]
  | cons x xs ih =>
    simp only [List.cons_append, removeFirst, h1 x (by simp)]
    rw [ih (fun e he => h1 e (by simp [he]))]
    simp

theorem removeFirst_sublist (p : QRp → Bool) (l : List QRp) : (removeFirst p l).Sublist l := by
  induction l with
  | nil => exact List.Sublist.slnil
  | cons x xs ih =>
    simp only [removeFirst]
    split
    · exact List.sublist_cons_self x xs
    · exact List.Sublist.cons_cons x ih

theorem mem_removeFirst {p : QRp → Bool} {l : List QRp} {x : QRp} (h : x ∈ removeFirst p l) : x ∈ l :=
  (removeFirst_sublist p l).subset h

/-! ### small sets of numbers -/

theorem mem_insertNat {x y : Nat} {xs : List Nat} : y ∈ insertNat x xs ↔ y = x ∨ y ∈ xs := by
  unfold insertNat
  split
  · rename_i h
    have : x ∈ xs := by simpa using h
    constructor
    · intro hy; exact Or.inr hy
    · rintro (rfl | hy)
      · exact this
      · exact hy
  · simp [or_comm]

theorem nodup_insertNat {x : Nat} {xs : List Nat} (h : xs.Nodup) : (insertNat x xs).Nodup := by
  unfold insertNat
  split
  · exact h
  · rename_i hc
    have : x ∉ xs := by simpa using hc
    rw [List.nodup_append]
    refine ⟨h, by simp, ?_⟩
    intro a ha b hb
    simp at hb
    subst hb
    exact fun e => this (e ▸ ha)

theorem mem_erase_nodup {x y : Nat} {xs : List Nat} (h : xs.Nodup) : y ∈ xs.erase x ↔ y ≠ x ∧ y ∈ xs :=
  List.Nodup.mem_erase_iff h

end Asl.Crash
