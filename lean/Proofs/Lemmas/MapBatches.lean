/-
Map batches after a failure (`runItems`, AslModel/Interp.lean).  With `MaxConcurrency` n > 0 the iterations
run in batches of n; once an iteration has failed no further batch is launched.  The general statement: at a
batch boundary, if an iteration has failed (the flag `bad`, or the run of the items up to the boundary ends in
a failure), whatever items follow the boundary change nothing — not the result, not the state (log, instants,
request counts, clock, frames).
-/
import AslModel.Interp
namespace Asl

/-- the iterations ended with the failure of one of them (not fuel exhaustion, not an unsupported construct) -/
def isFailure : Except Res (List Json) → Bool
  | .error (.failed _ _ _) => true
  | _ => false

/-- a failed join: this branch failed, or one of the later ones did -/
theorem fanCombine_failure {r : Res} {t : Rat} {rest : Except Res (List Json)} {st2 : St} {tOk : Rat}
    (h : isFailure (fanCombine r t rest st2 tOk).1 = true) : isFailed r = true ∨ isFailure rest = true := by
  cases r with
  | failed e c f => left; rfl
  | done v =>
    cases rest with
    | ok vs => simp [fanCombine, isFailure] at h
    | error e => right; simpa [fanCombine] using h
  | fuel =>
    cases rest with
    | ok vs => simp [fanCombine, isFailure] at h
    | error e => cases e <;> simp [fanCombine, isFailure] at h
  | unsupported w =>
    cases rest with
    | ok vs => simp [fanCombine, isFailure] at h
    | error e => cases e <;> simp [fanCombine, isFailure] at h

/-- a positive multiple of `m` is at least `m` -/
theorem le_of_boundary {m a b : Nat} (ha : a % m = 0) (hab : (a + (b + 1)) % m = 0) : m ≤ b + 1 := by
  have h1 : m ∣ a := Nat.dvd_of_mod_eq_zero ha
  have h2 : m ∣ a + (b + 1) := Nat.dvd_of_mod_eq_zero hab
  exact Nat.le_of_dvd (Nat.succ_pos b) ((Nat.dvd_add_right h1).mp h2)

/-- at a batch boundary after a failure: the items beyond the boundary are never looked at -/
theorem runItems_append_after_failure (env : Env) (proc : Json) (sel : Option Json) (input : Json) (rest : List Json)
    (mc : Nat) (hmc : mc ≠ 0) (ctx : Json) :
    ∀ (items : List Json) (fuel i : Nat) (be : Rat) (bad : Bool) (st : St),
      i ≠ 0 → (i + items.length) % mc = 0 →
      (bad = true ∨ isFailure (runItems env fuel proc sel input items i mc be ctx bad st).1 = true) →
      runItems env fuel proc sel input (items ++ rest) i mc be ctx bad st =
        runItems env fuel proc sel input items i mc be ctx bad st := by
  intro items
  induction items with
  | nil =>
    intro fuel i be bad st hi hb hf
    cases fuel with
    | zero => simp [runItems]
    | succ n =>
      have hbad : bad = true := by
        rcases hf with h | h
        · exact h
        · simp [runItems, isFailure] at h
      cases rest with
      | nil => rfl
      | cons x xs =>
        have hb' : i % mc = 0 := by simpa using hb
        simp [runItems, hmc, hi, hb', hbad]
  | cons item items ih =>
    intro fuel i be bad st hi hb hf
    cases fuel with
    | zero => simp [runItems]
    | succ n =>
      simp only [List.cons_append, runItems]
      simp only [runItems] at hf
      by_cases hstop : mc ≠ 0 ∧ i ≠ 0 ∧ i % mc = 0 ∧ bad = true
      · rw [if_pos hstop, if_pos hstop]
      · rw [if_neg hstop, if_neg hstop]
        rw [if_neg hstop] at hf
        -- the state the batch starts from is the same on both sides: a full batch follows in either list
        have hst0 : (if mc ≠ 0 ∧ i ≠ 0 ∧ i % mc = 0 then
              (st.waitUntil be).batch (ctxStateName ctx)
                (List.replicate (min mc ((items ++ rest).length + 1)) ((fldStr proc "StartAt").getD []))
            else st) =
            (if mc ≠ 0 ∧ i ≠ 0 ∧ i % mc = 0 then
              (st.waitUntil be).batch (ctxStateName ctx)
                (List.replicate (min mc (items.length + 1)) ((fldStr proc "StartAt").getD []))
            else st) := by
          by_cases hc : mc ≠ 0 ∧ i ≠ 0 ∧ i % mc = 0
          · have hle : mc ≤ items.length + 1 := le_of_boundary hc.2.2 (by simpa using hb)
            have e1 : min mc ((items ++ rest).length + 1) = mc := by
              rw [List.length_append]; omega
            have e2 : min mc (items.length + 1) = mc := by omega
            rw [e1, e2]
          · rw [if_neg hc, if_neg hc]
        rw [hst0]
        generalize (if mc ≠ 0 ∧ i ≠ 0 ∧ i % mc = 0 then
              (st.waitUntil be).batch (ctxStateName ctx)
                (List.replicate (min mc (items.length + 1)) ((fldStr proc "StartAt").getD []))
            else st) = st0 at hf ⊢
        cases hpe : (if isTrue sel = true then tmplOpt env input (ctxWithMapItem ctx i item) sel else Except.ok item) with
        | error pe => rfl
        | ok params =>
          simp only [hpe] at hf
          cases hs : fldStr proc "StartAt" with
          | none => rfl
          | some start =>
            cases hst : fld proc "States" with
            | none => rfl
            | some states =>
              simp only [hs, hst] at hf
              simp only []
              cases hr : runFrom env n states start params ctx 0 ((st0.push (.iterStarted (ctxStateName ctx) i)).startBranch) with
              | mk r1 s1 =>
                simp only [hr] at hf
                have hrec := ih n (i + 1) (rmax be s1.clock) (bad || isFailed r1)
                  (((s1.iterEnd (ctxStateName ctx) i r1).endBranch (isFailed r1)).at st0.clock)
                  (by omega) (by have : i + 1 + items.length = i + (items.length + 1) := by omega
                                 rw [this]; simpa using hb)
                  (by
                    rcases hf with h | h
                    · left; simp [h]
                    · rcases fanCombine_failure h with h' | h'
                      · left; simp [h']
                      · right; exact h')
                simp only [hrec]

/-- … from the start of the Map state: `done` are the items of the batches up to and including the one in
which an iteration failed (complete batches: a multiple of `mc` items) -/
theorem runItems_failed_batches (env : Env) (fuel : Nat) (proc : Json) (sel : Option Json) (input : Json)
    (done rest : List Json) (mc : Nat) (be : Rat) (ctx : Json) (st : St)
    (hmc : mc ≠ 0) (hlen : done.length % mc = 0)
    (hfail : isFailure (runItems env fuel proc sel input done 0 mc be ctx false st).1 = true) :
    runItems env fuel proc sel input (done ++ rest) 0 mc be ctx false st =
      runItems env fuel proc sel input done 0 mc be ctx false st := by
  cases done with
  | nil =>
    cases fuel with
    | zero => simp [runItems, isFailure] at hfail
    | succ n => simp [runItems, isFailure] at hfail
  | cons item items =>
    cases fuel with
    | zero => simp [runItems]
    | succ n =>
      have h0 : ¬ (mc ≠ 0 ∧ 0 ≠ 0 ∧ 0 % mc = 0 ∧ false = true) := by simp
      have h1 : ¬ (mc ≠ 0 ∧ 0 ≠ 0 ∧ 0 % mc = 0) := by simp
      simp only [List.cons_append, runItems, if_neg h0, if_neg h1] at hfail ⊢
      cases hpe : (if isTrue sel = true then tmplOpt env input (ctxWithMapItem ctx 0 item) sel else Except.ok item) with
      | error pe => rfl
      | ok params =>
        simp only [hpe] at hfail
        cases hs : fldStr proc "StartAt" with
        | none => rfl
        | some start =>
          cases hst : fld proc "States" with
          | none => rfl
          | some states =>
            simp only [hs, hst] at hfail
            simp only []
            cases hr : runFrom env n states start params ctx 0 ((st.push (.iterStarted (ctxStateName ctx) 0)).startBranch) with
            | mk r1 s1 =>
              simp only [hr] at hfail
              have hrec := runItems_append_after_failure env proc sel input rest mc hmc ctx items n (0 + 1)
                (rmax be s1.clock) (false || isFailed r1)
                (((s1.iterEnd (ctxStateName ctx) 0 r1).endBranch (isFailed r1)).at st.clock)
                (by omega) (by have : 0 + 1 + items.length = items.length + 1 := by omega
                               rw [this]; simpa using hlen)
                (by
                  rcases fanCombine_failure hfail with h' | h'
                  · left; simp [h']
                  · right; exact h')
              simp only [hrec]

end Asl
