import AslModel.Store
import Proofs.Lemmas.Store
namespace Asl.Store
open Asl

/-! the TTL table under the engine's write pattern (`set`, `set_ttl`, then growth) -/

/-- growing or reading a record leaves every TTL as it is -/
theorem grow_keeps_ttl (q : Quirks) (cfgs : Nat → Cfg) (w : RWorld) (c : Nat) (op : Op)
    (h : isGrow op = true) : (rstep q cfgs w c op).1.ttl = w.ttl := by
  cases op <;> simp [isGrow] at h
  case upd k f v =>
    simp only [rstep]; split
    · rfl
    · split <;> rfl
  case app k v =>
    simp only [rstep]; split
    · rfl
    · split <;> rfl
  case get k => rfl
  case cget k =>
    simp only [rstep]; split
    · rfl
    · split <;> rfl
  case has k => rfl

/-- … over any schedule of such operations by any clients -/
theorem grow_run_keeps_ttl (q : Quirks) (cfgs : Nat → Cfg) (w : RWorld) (rest : List (Nat × Op))
    (h : ∀ e ∈ rest, isGrow e.2 = true) : (rrun q cfgs w rest).1.ttl = w.ttl := by
  induction rest generalizing w with
  | nil => rfl
  | cons e r ih =>
    obtain ⟨c, op⟩ := e
    simp only [rrun]
    rw [ih _ (fun e he => h e (List.mem_cons_of_mem _ he))]
    exact grow_keeps_ttl q cfgs w c op (h (c, op) (List.mem_cons_self ..))

/-- a whole-key write of a non-empty value of the store's kind leaves the key present -/
theorem set_makes_present (q : Quirks) (cfgs : Nat → Cfg) (w : RWorld) (c : Nat) (k : Str) (v : Json)
    (hv : okVal (cfgs c).isList v = true) (hne : isEmptyVal v = false) :
    aGet (rstep q cfgs w c (.set k v)).1.srv (pk (cfgs c).pre k) = some v := by
  simp [rstep, hv, hne, srvPut, touch, setCl, aGet_aSet]

end Asl.Store
