/-
The crash protocol (AslModel/Crash.lean) with all quirks off on *flat* skeletons: sequences of Task visits (with
retries), plain steps, Waits and Parallel / Map states (without MaxConcurrency) whose branches are such sequences —
any number of branches, any number of fan-out states one after the other.  A MaxConcurrency is admitted when it is at least the number of
branches (one batch).  Crashes between handler invocations.

`PInv N c`: the reachable configurations (durable part, engine's memory, the shape of the event queue — one top-level
event, or the events of the branches of ONE fan-out attempt, one per branch —, the join, the conservation laws).
-/
import Proofs.Lemmas.CrashSeq
import Proofs.Lemmas.CrashLists
namespace Asl.Crash

def Br.allSeq : Br → Bool
  | .nil => true
  | .cons b bs => b.seq && bs.allSeq

def Sk.flat : Sk → Bool
  | .done => true
  | .task _ r => r.flat
  | .step r => r.flat
  | .wait r => r.flat
  | .par mc brs r => (mc == 0 || decide (brs.toList.length ≤ mc)) && brs.allSeq && r.flat
  | _ => false

def Frame.width (f : Frame) : Nat := f.branches.toList.length

def Frame.wf (f : Frame) : Bool := (f.mc == 0 || decide (f.width ≤ f.mc)) && f.branches.allSeq && f.rest.flat && decide (f.idx < f.width)

def flatKind : EvKind → Bool
  | .visit t [] _ none => t.flat
  | .visit t [f] false none => t.seq && f.wf
  | _ => false

abbrev FlatK (k : EvKind) : Prop := flatKind k = true

/-- the event is at the last visit of its branch (or skeleton) -/
def lastVisit (k : EvKind) : Bool :=
  match todoOf k with
  | .done => true
  | .task _ .done => true
  | .step .done => true
  | .wait .done => true
  | _ => false

/-- what follows the fan-out state is accounted to the event of its first branch -/
def restT (k : EvKind) : Nat :=
  match evStack k with
  | f :: _ => if f.idx = 0 then tasksIn f.rest else 0
  | [] => 0

def restW (k : EvKind) : Nat :=
  match evStack k with
  | f :: _ => if f.idx = 0 then 8 * visits f.rest + 8 else 0
  | [] => 0

def kIdx (k : EvKind) : Nat :=
  match evStack k with
  | f :: _ => f.idx
  | [] => 0

def load2 (c : Cfg) : Nat := c.sent.length + ((evK c).map (fun p => tasksIn (todoOf p.2) + restT p.2)).sum
def inflight2 (c : Cfg) : Nat := ((evK c).filter (fun p => c.sent.contains p.1)).length

def mu2 (c : Cfg) : Nat :=
  (c.evq.map (fun e => evW e + restW e.kind)).sum + 3 * c.timers.length + c.pending.length +
    (c.rpq.filter (fun r => !r.unacked)).length

/-- the shape of the event queue (it does not depend on the delivery flags: `evK`) -/
structure Shape (c : Cfg) : Prop where
  /-- a top-level event is alone, and no join is on record -/
  top : ∀ p ∈ evK c, evStack p.2 = [] → (∀ p' ∈ evK c, p'.1 = p.1) ∧ c.joins = []
  /-- branch events belong to one fan-out attempt, one event per branch -/
  same : ∀ p1 ∈ evK c, ∀ p2 ∈ evK c, ∀ f1 f2, evStack p1.2 = [f1] → evStack p2.2 = [f2] →
    f1.jid = f2.jid ∧ f1.branches = f2.branches ∧ f1.rest = f2.rest ∧ (f1.idx = f2.idx → p1.1 = p2.1)
  /-- … and every branch has its event -/
  cover : ∀ p ∈ evK c, ∀ f, evStack p.2 = [f] → ∀ i, i < f.width →
    ∃ p' ∈ evK c, ∃ f', evStack p'.2 = [f'] ∧ f'.idx = i
  jlt : ∀ p ∈ evK c, ∀ f, evStack p.2 = [f] → f.jid < c.nextJ

/-- the join on record -/
structure JInv (c : Cfg) : Prop where
  one : ∀ j ∈ c.joins, c.joins = [j]
  alive : ∀ j ∈ c.joins, j.dead = false
  mine : ∀ j ∈ c.joins, ∀ p ∈ evK c, ∀ f, evStack p.2 = [f] → f.jid = j.jid ∧ j.filled.length < f.width
  fnd : ∀ j ∈ c.joins, j.filled.Nodup
  fheld : ∀ j ∈ c.joins, ∀ i ∈ j.filled, ∃ x, (i, x) ∈ j.heldEv
  held : ∀ j ∈ c.joins, ∀ q ∈ j.heldEv,
    q.1 ∈ j.filled ∧ ∃ p ∈ evK c, p.1 = q.2 ∧ kIdx p.2 = q.1 ∧ lastVisit p.2 = true ∧ (isTaskKind p.2 = true → p.1 ∈ c.sent)
  heldsent : ∀ j ∈ c.joins, ∀ q ∈ j.heldEv, q.2 ∈ c.sent → q.2 ∈ j.heldRp
  rpheld : ∀ j ∈ c.joins, ∀ x ∈ j.heldRp, ∃ q ∈ j.heldEv, q.2 = x
  /-- a held event waits for nothing else -/
  ht : ∀ x ∈ heldE c.joins, x ∉ c.timers ∧ x ∉ c.pending
  /-- a held reply is not also retained as an orphan -/
  hro : ∀ x ∈ heldR c.joins, x ∉ c.orphans
  /-- a join is on record only while its branches run -/
  jne : evK c = [] → c.joins = []
  /-- the records of the attempts are not those the engine keeps after the end of an execution -/
  live : ∀ j ∈ c.joins, j.ended = false

/-- conserved: the terminal notification is out exactly when nothing is left, `N` Task visits in all, no reply without
its event -/
structure Cons2 (N : Nat) (c : Cfg) : Prop where
  psi0 : evK c = [] → c.notes = 1
  psi1 : evK c ≠ [] → c.notes = 0
  phi : load2 c = N + inflight2 c
  fresh : ∀ x ∈ rpC c, ∃ p ∈ evK c, p.1 = x

structure PInv (N : Nat) (c : Cfg) : Prop where
  dur : Dur FlatK c
  vol : VolI c
  shape : Shape c
  join : JInv c
  cons : Cons2 N c

theorem Shape.congr {c d : Cfg} (h : Shape c) (h1 : evK d = evK c) (h2 : c.joins = [] → d.joins = []) (h3 : d.nextJ = c.nextJ) :
    Shape d := by
  constructor
  · rw [h1]; intro p hp hs; exact ⟨(h.top p hp hs).1, h2 (h.top p hp hs).2⟩
  · rw [h1]; exact h.same
  · rw [h1]; exact h.cover
  · rw [h1, h3]; exact h.jlt

/-- one event of the queue is replaced by another with the same Branch stack (the next visit of the same sequence) -/
theorem Shape.replace {c d : Cfg} (h : Shape c) (hids : ((evK c).map (·.1)).Nodup) {x y : Nat × EvKind} (hx : x ∈ evK c)
    (hmem : ∀ p, p ∈ evK d ↔ (p ∈ evK c ∧ p ≠ x) ∨ p = y) (hstk : evStack y.2 = evStack x.2)
    (hj : d.joins = c.joins) (hnj : d.nextJ = c.nextJ) : Shape d := by
  have uniq : ∀ p ∈ evK c, ∀ q ∈ evK c, p.1 = q.1 → p = q := fun p hp q hq hpq => eq_of_nodup_map (·.1) hids hp hq hpq
  constructor
  · intro p hp hs
    rcases (hmem p).mp hp with ⟨hpc, hpx⟩ | rfl
    · have ht := h.top p hpc hs
      exact absurd (uniq x hx p hpc (ht.1 x hx)).symm hpx
    · have ht := h.top x hx (hstk ▸ hs)
      refine ⟨?_, hj ▸ ht.2⟩
      intro p' hp'
      rcases (hmem p').mp hp' with ⟨hpc, hpx⟩ | rfl
      · exact absurd (uniq p' hpc x hx (ht.1 p' hpc)) hpx
      · rfl
  · intro p1 hp1 p2 hp2 f1 f2 hf1 hf2
    rcases (hmem p1).mp hp1 with ⟨hp1c, hp1x⟩ | rfl <;> rcases (hmem p2).mp hp2 with ⟨hp2c, hp2x⟩ | rfl
    · exact h.same p1 hp1c p2 hp2c f1 f2 hf1 hf2
    · have := h.same p1 hp1c x hx f1 f2 hf1 (hstk ▸ hf2)
      refine ⟨this.1, this.2.1, this.2.2.1, fun hi => ?_⟩
      exact absurd (uniq p1 hp1c x hx (this.2.2.2 hi)) hp1x
    · have := h.same x hx p2 hp2c f1 f2 (hstk ▸ hf1) hf2
      refine ⟨this.1, this.2.1, this.2.2.1, fun hi => ?_⟩
      exact absurd (uniq x hx p2 hp2c (this.2.2.2 hi)).symm hp2x
    · rw [hf1] at hf2; cases hf2
      exact ⟨rfl, rfl, rfl, fun _ => rfl⟩
  · intro p hp f hf i hi
    have key : ∃ p0 ∈ evK c, evStack p0.2 = [f] := by
      rcases (hmem p).mp hp with ⟨hpc, _⟩ | rfl
      · exact ⟨p, hpc, hf⟩
      · exact ⟨x, hx, hstk ▸ hf⟩
    obtain ⟨p0, hp0, hf0⟩ := key
    obtain ⟨p', hp', f', hf', hi'⟩ := h.cover p0 hp0 f hf0 i hi
    by_cases hpx : p' = x
    · subst hpx
      exact ⟨y, (hmem y).mpr (Or.inr rfl), f', hstk ▸ hf', hi'⟩
    · exact ⟨p', (hmem p').mpr (Or.inl ⟨hp', hpx⟩), f', hf', hi'⟩
  · intro p hp f hf
    rw [hnj]
    rcases (hmem p).mp hp with ⟨hpc, _⟩ | rfl
    · exact h.jlt p hpc f hf
    · exact h.jlt x hx f (hstk ▸ hf)

theorem Cons2.congr {N : Nat} {c d : Cfg} (h : Cons2 N c) (h1 : evK d = evK c) (h2 : rpC d = rpC c) (h3 : d.sent = c.sent)
    (h4 : d.notes = c.notes) : Cons2 N d := by
  constructor
  · rw [h1, h4]; exact h.psi0
  · rw [h1, h4]; exact h.psi1
  · simp only [load2, inflight2, h1, h3]; exact h.phi
  · rw [h1, h2]; exact h.fresh

theorem flat_of_seq : ∀ {t : Sk}, t.seq = true → t.flat = true
  | .done, _ => rfl
  | .task _ r, h => flat_of_seq (t := r) h
  | .step r, h => flat_of_seq (t := r) h
  | .wait r, h => flat_of_seq (t := r) h
  | .par _ _ _, h => by simp [Sk.seq] at h
  | .child _ _ _, h => by simp [Sk.seq] at h
  | .fail _ _, h => by simp [Sk.seq] at h
  | .opaque, h => by simp [Sk.seq] at h

theorem pinv_init (sk : Sk) (h : sk.flat = true) : PInv (tasksIn sk) (init sk) := by
  refine ⟨?_, ?_, ?_, ?_, ?_⟩
  · constructor <;> simp [init, evK, rpC]
    show flatKind _ = true
    simpa [flatKind] using h
  · constructor <;> simp [init, uEv, uRp]
  · constructor <;> simp [init, evK, evStack]
  · constructor <;> simp [init]
  · constructor <;> simp [init, evK, rpC, load2, inflight2, todoOf, restT, evStack]

/-! ### a crash -/

theorem JInv.crash (c : Cfg) : JInv c.crash := by
  constructor <;> simp [Cfg.crash]

theorem PInv.crash {N : Nat} {c : Cfg} (h : PInv N c) : PInv N c.crash :=
  ⟨h.dur.crash, VolI.crash c, h.shape.congr (evK_crash c) (fun _ => rfl) rfl, JInv.crash c,
    h.cons.congr (evK_crash c) (rpC_crash c) rfl rfl⟩

end Asl.Crash
