/- helper lemmas for C10's refinement theorem: the association-list stores of the reference
model denote the finite maps of the specification, and every write / answer commutes with that -/
import Proofs.Lemmas.ApiStep
import AslModel.ApiSpec
namespace Asl.Api

/-- store keys are distinct -/
def WF (s : State) : Prop := (keys s.machines).Nodup ∧ (keys s.executions).Nodup

theorem lookup_insert {α : Type} (m : List (Str × α)) (k : Str) (v : α) :
    lookup (insert m k v) = Spec.set (lookup m) k (some v) := by
  funext k'
  by_cases h : k' = k
  · subst h; simp [Spec.set, lookup_insert_same]
  · simp [Spec.set, h, lookup_insert_ne m k k' v (fun e => h e.symm)]

theorem lookup_erase {α : Type} (m : List (Str × α)) (k : Str) :
    lookup (erase m k) = Spec.set (lookup m) k none := by
  funext k'
  by_cases h : k' = k
  · subst h; simp [Spec.set, lookup_erase_same]
  · simp [Spec.set, h, lookup_erase_ne m k k' (fun e => h e.symm)]

theorem abs_apply (s : State) (eff : Effect) : abs (s.apply eff) = (abs s).apply eff := by
  cases eff with
  | none => rfl
  | putMachine arn m => simp [State.apply, Spec.State.apply, abs, lookup_insert]
  | delMachine arn => simp [State.apply, Spec.State.apply, abs, lookup_erase]

theorem abs_engineWrite (s : State) (arn : Str) (e : Exec) :
    abs (engineWrite s arn e) = { abs s with executions := Spec.set (abs s).executions arn (some e) } := by
  simp [engineWrite, abs, lookup_insert]

theorem abs_engineLog (s : State) (arn : Str) (log : List Json) :
    abs (engineLog s arn log) = { abs s with histories := Spec.set (abs s).histories arn (some log) } := by
  simp [engineLog, abs, lookup_insert]

theorem wf_apply_effect (s : State) (eff : Effect) (h : WF s) : WF (s.apply eff) := by
  cases eff with
  | none => exact h
  | putMachine arn m => exact ⟨nodup_keys_insert _ _ _ h.1, h.2⟩
  | delMachine arn => exact ⟨nodup_keys_erase _ _ h.1, h.2⟩

theorem nodup_keys_filter {α : Type} (m : List (Str × α)) (P : Str × α → Bool) (h : (keys m).Nodup) :
    (keys (m.filter P)).Nodup := by
  have : (keys (m.filter P)).Sublist (keys m) := by
    simp only [keys]
    exact List.Sublist.map _ List.filter_sublist
  exact List.Nodup.sublist this h

/-- the concrete answer is an answer of the specification -/
theorem answer_matches (env : Env) (s : State) (r : Reply) (h : WF s) :
    Spec.Matches (abs s) (s.answer env r) (Spec.answer env r) := by
  cases r with
  | json j => rfl
  | empty => rfl
  | machines =>
    exact ⟨s.machines, rfl, h.1, fun arn m => mem_iff_lookup_of_nodup _ h.1 _ _⟩
  | executions arn f =>
    refine ⟨s.executions.filter (fun kv => execMatches arn f kv.2), rfl,
      nodup_keys_filter _ _ h.2, ?_⟩
    intro k e
    simp only [List.mem_filter, abs]
    rw [mem_iff_lookup_of_nodup _ h.2]
  | sync =>
    simp only [State.answer, Spec.answer]
    cases env.syncOutcome <;> rfl
  | publishFailed => rfl

/-- one request: the answers match, the same is published, the new stores denote the new maps -/
theorem step_refines (cfg : Cfg) (env : Env) (s : State) (c : Call) (h : WF s) :
    Spec.Matches (abs s) (step cfg env s c).2 (Spec.step cfg env (abs s) c).2.1 ∧
    published cfg env s c = (Spec.step cfg env (abs s) c).2.2 ∧
    abs (step cfg env s c).1 = (Spec.step cfg env (abs s) c).1 ∧
    WF (step cfg env s c).1 := by
  obtain ⟨a, ps⟩ := c
  cases ps with
  | none => exact ⟨rfl, rfl, rfl, h⟩
  | some j =>
    cases j with
    | obj p =>
      cases hd : decideAction cfg env (lookup s.machines) (lookup s.executions) (lookup s.histories) a p with
      | none =>
        simp only [step, published, Spec.step, handle, abs, hd]
        refine ⟨?_, ?_, ?_, ?_⟩ <;> first | trivial | rfl | exact h
      | some r =>
        cases r with
        | error e =>
          simp only [step, published, Spec.step, handle, abs, hd]
          refine ⟨?_, ?_, ?_, ?_⟩ <;> first | trivial | rfl | exact h
        | ok v =>
          simp only [step, published, Spec.step, handle, abs, hd]
          refine ⟨answer_matches env s v.reply h, ?_, abs_apply s v.effect, wf_apply_effect s _ h⟩
          first | trivial | rfl
    | _ => exact ⟨rfl, rfl, rfl, h⟩

end Asl.Api
