/-
Map states with a MaxConcurrency below the number of items (batches), quirk-free protocol: the pieces of the invariant that
`crash_safe_flat` still lacks for them (see `crash_safe_partial` in Proofs/C04.lean), as lemmas of their own:
* the arithmetic of batches (`batch_iff`, `mem_batchOf`);
* what the end of a branch does when the join is not complete (`advance_hold_publish`, `advance_hold_quiet`): the re-entry
  event is published exactly when the batch is full, a next batch exists and is not on record;
* the liveness core (`all_slots_launched`): if nothing re-enters and every launched slot is filled, every slot is launched;
* the accounting of the slots not yet launched (`unl`, `bat`; `unl_publish`, `unl_none`).
-/
import Proofs.Lemmas.CrashFlatJoin
namespace Asl.Crash

/-- slot `i` is in the batch of slot `idx` -/
theorem batch_iff {mc : Nat} (hmc : 0 < mc) (idx i : Nat) :
    (idx / mc * mc ≤ i ∧ i < idx / mc * mc + mc) ↔ i / mc = idx / mc := by
  rw [Nat.div_eq_iff hmc]
  constructor
  · rintro ⟨h1, h2⟩; exact ⟨h1, by omega⟩
  · rintro ⟨h1, h2⟩; exact ⟨h1, by omega⟩

theorem mem_batchOf {mc : Nat} (hmc : 0 < mc) (w k i : Nat) :
    i ∈ batchOf mc w (k * mc) ↔ i < w ∧ i / mc = k := by
  have hk : k * mc / mc = k := Nat.mul_div_cancel k hmc
  have := batch_iff hmc (k * mc) i
  rw [hk] at this
  simp only [batchOf, List.mem_filter, List.mem_range, Bool.and_eq_true, decide_eq_true_eq, Bool.or_eq_true, beq_iff_eq]
  constructor
  · rintro ⟨hw, h1, h2⟩
    rcases h2 with h2 | h2
    · omega
    · exact ⟨hw, this.mp ⟨h1, h2⟩⟩
  · rintro ⟨hw, h⟩
    have := this.mpr h
    exact ⟨hw, this.1, Or.inr this.2⟩

/-- the batch of slot `f.idx` is full in the join once the branch has ended -/
def batchFull (f : Frame) (filled : List Nat) : Prop :=
  ∀ i, i < f.branches.toList.length → i / f.mc = f.idx / f.mc → i ∈ filled

/-- the slot at which the next batch starts -/
def nextStart (f : Frame) : Nat := f.idx / f.mc * f.mc + f.mc

theorem batchFull_iff {f : Frame} (hmc : 0 < f.mc) (filled : List Nat) :
    (∀ x, x ∈ batchOf f.mc f.branches.toList.length (f.idx / f.mc * f.mc) → x ∈ filled) ↔ batchFull f filled := by
  simp only [batchFull, mem_batchOf hmc]
  constructor
  · intro h i hi hb; exact h i ⟨hi, hb⟩
  · intro h i hi; exact h i hi.1 hi.2

/-- **the end of a branch completes a batch**: the join is not complete, the batch of the slot is full, there is a next batch
and it is not on record as started — the event that re-enters the Map state is published (and recorded), nothing else -/
theorem advance_hold_publish (c : Cfg) (fuel ev : Nat) (f : Frame) (rp : Option Nat) (v : Vol) (hnd : notDead c v)
    (hmc : 0 < f.mc) (hlt : (joinAfter v.joins f ev rp).filled.length < f.branches.toList.length)
    (hfull : batchFull f (joinAfter v.joins f ev rp).filled) (hnext : nextStart f < f.branches.toList.length)
    (hrec : (f.jid, nextStart f) ∉ c.batches) :
    advance Quirks.none c (fuel + 1) ev .done [f] none rp v =
      ([.pubEv (.reenter f (nextStart f) [] none)], { v with joins := setJoin v.joins (joinAfter v.joins f ev rp) }) := by
  have hd : deadJid ({} : Quirks) c v f.jid = false := deadJid_false hnd f.jid
  have hne : ¬ f.mc = 0 := by omega
  cases rp with
  | none =>
    have hb := (batchFull_iff hmc _).mpr hfull
    simp only [joinAfter] at hb hlt
    simp only [nextStart] at hnext hrec ⊢
    simp [advance, Quirks.none, joinAfter, hd]
    rw [if_neg (by omega), if_pos ⟨⟨hne, hb⟩, hnext, hrec⟩]
  | some r =>
    have hb := (batchFull_iff hmc _).mpr hfull
    simp only [joinAfter] at hb hlt
    simp only [nextStart] at hnext hrec ⊢
    simp [advance, Quirks.none, joinAfter, hd]
    rw [if_neg (by omega), if_pos ⟨⟨hne, hb⟩, hnext, hrec⟩]

/-- … otherwise (the batch is not full, or it is the last, or the next one is on record) nothing is published -/
theorem advance_hold_quiet (c : Cfg) (fuel ev : Nat) (f : Frame) (rp : Option Nat) (v : Vol) (hnd : notDead c v)
    (hmc : 0 < f.mc) (hlt : (joinAfter v.joins f ev rp).filled.length < f.branches.toList.length)
    (hno : ¬ (batchFull f (joinAfter v.joins f ev rp).filled ∧ nextStart f < f.branches.toList.length ∧
      (f.jid, nextStart f) ∉ c.batches)) :
    advance Quirks.none c (fuel + 1) ev .done [f] none rp v =
      ([], { v with joins := setJoin v.joins (joinAfter v.joins f ev rp) }) := by
  have hd : deadJid ({} : Quirks) c v f.jid = false := deadJid_false hnd f.jid
  cases rp with
  | none =>
    rw [← batchFull_iff hmc] at hno
    simp only [joinAfter, nextStart] at hno hlt
    simp [advance, Quirks.none, joinAfter, hd]
    rw [if_neg (by omega), if_neg (fun h => hno ⟨h.1.2, h.2.1, h.2.2⟩)]
  | some r =>
    rw [← batchFull_iff hmc] at hno
    simp only [joinAfter, nextStart] at hno hlt
    simp [advance, Quirks.none, joinAfter, hd]
    rw [if_neg (by omega), if_neg (fun h => hno ⟨h.1.2, h.2.1, h.2.2⟩)]

/-- **The liveness core.**  `has i`: slot `i` has its event; `rec s`: the batch starting at `s` is on record as started;
`filled i`: the join in memory has the result of slot `i`.  If slot 0 is launched, batch-mates are launched together, a
recorded batch whose re-entry event is not queued has been launched (`rb`), a full batch with a successor has the successor on
record (`bdone`), and every launched slot is filled (all events are held) — then every slot is launched, hence filled: the
join is complete.  (By induction on the batch number.) -/
theorem all_slots_launched {mc w : Nat} (hmc : 0 < mc) (has filled : Nat → Prop) (rec : Nat → Prop)
    (zero : has 0) (bcover : ∀ i j, has i → j < w → j / mc = i / mc → has j)
    (rb : ∀ s, rec s → has s)
    (bdone : ∀ k, (k + 1) * mc < w → (∀ i, i < w → i / mc = k → filled i) → rec ((k + 1) * mc))
    (held : ∀ i, has i → filled i) :
    ∀ i, i < w → has i := by
  have key : ∀ k i, i < w → i / mc = k → has i := by
    intro k
    induction k with
    | zero =>
      intro i hi hk
      exact bcover 0 i zero hi (by rw [hk, Nat.zero_div])
    | succ k ih =>
      intro i hi hk
      have hle : (k + 1) * mc ≤ i := by
        have := Nat.div_mul_le_self i mc
        rw [hk] at this; exact this
      have hrec := bdone k (by omega) (fun j hj hjk => held j (ih j hj hjk))
      have hs := rb _ hrec
      exact bcover _ i hs hi (by rw [hk, Nat.mul_div_cancel _ hmc])
  intro i hi
  exact key (i / mc) i hi rfl

/-! ### the accounting of the slots that are not launched yet -/

/-- slot `i` is accounted as started: it is in the first batch, or its batch is on record -/
def recd (bs : List (Nat × Nat)) (f : Frame) (i : Nat) : Bool :=
  (i / f.mc == 0) || bs.contains (f.jid, i / f.mc * f.mc)

/-- the branch of slot `i` -/
def slotB (f : Frame) (i : Nat) : Sk := (f.branches.toList[i]?).getD .done

/-- `g` summed over the slots that are not accounted as started (they have no event yet) -/
def unl (g : Sk → Nat) (bs : List (Nat × Nat)) (f : Frame) : Nat :=
  ((List.range f.branches.toList.length).map (fun i => if recd bs f i then 0 else g (slotB f i))).sum

/-- `g` summed over the batch that starts at `s` (what the re-entry event for `s` stands for) -/
def bat (g : Sk → Nat) (f : Frame) (s : Nat) : Nat :=
  ((batchOf f.mc f.branches.toList.length s).map (fun i => g (slotB f i))).sum

theorem sum_filter_ite (l : List Nat) (p : Nat → Bool) (g : Nat → Nat) :
    ((l.filter p).map g).sum = (l.map (fun i => if p i then g i else 0)).sum := by
  induction l with
  | nil => rfl
  | cons x xs ih =>
    simp only [List.filter_cons, List.map_cons, List.sum_cons]
    by_cases hp : p x = true <;> simp [hp, ih]

theorem sum_congr_mem (l : List Nat) (g h : Nat → Nat) (hgh : ∀ i ∈ l, g i = h i) : (l.map g).sum = (l.map h).sum := by
  induction l with
  | nil => rfl
  | cons x xs ih =>
    simp only [List.map_cons, List.sum_cons]
    rw [hgh x (by simp), ih (fun i hi => hgh i (by simp [hi]))]

/-- **the re-entry event is published**: the batch it stands for is now on record, and what was accounted to "not launched"
for that batch is accounted to the event -/
theorem unl_publish (g : Sk → Nat) (bs : List (Nat × Nat)) (f : Frame) (hmc : 0 < f.mc) (k : Nat)
    (hrec : (f.jid, (k + 1) * f.mc) ∉ bs) :
    unl g (bs ++ [(f.jid, (k + 1) * f.mc)]) f + bat g f ((k + 1) * f.mc) = unl g bs f := by
  simp only [unl, bat, batchOf, sum_filter_ite]
  rw [← sum_map_add]
  apply sum_congr_mem
  intro i hi
  have hkk : (k + 1) * f.mc / f.mc = k + 1 := Nat.mul_div_cancel _ hmc
  have hb := batch_iff hmc ((k + 1) * f.mc) i
  rw [hkk] at hb
  have hne : ¬ f.mc = 0 := by omega
  by_cases hin : i / f.mc = k + 1
  · have h1 := hb.mpr hin
    have hr : recd bs f i = false := by
      simp only [recd, hin, Bool.or_eq_false_iff, beq_eq_false_iff_ne, ne_eq, Nat.add_one_ne_zero, not_false_eq_true, true_and]
      simpa using hrec
    have hr' : recd (bs ++ [(f.jid, (k + 1) * f.mc)]) f i = true := by
      simp [recd, hin]
    simp [hr, hr', h1.1, h1.2, hne]
  · have h1 : ¬ ((k + 1) * f.mc ≤ i ∧ i < (k + 1) * f.mc + f.mc) := fun h => hin (hb.mp h)
    have hr' : recd (bs ++ [(f.jid, (k + 1) * f.mc)]) f i = recd bs f i := by
      simp only [recd, List.contains_append, List.contains_cons, List.contains_nil, Bool.or_false]
      have : ((f.jid, i / f.mc * f.mc) == (f.jid, (k + 1) * f.mc)) = false := by
        simp only [beq_eq_false_iff_ne, ne_eq, Prod.mk.injEq, true_and]
        intro he
        exact hin (Nat.eq_of_mul_eq_mul_right hmc he)
      rw [this, Bool.or_false]
    rw [hr']
    have : (decide ((k + 1) * f.mc ≤ i) && (f.mc == 0 || decide (i < (k + 1) * f.mc + f.mc))) = false := by
      simp only [Bool.and_eq_false_iff, decide_eq_false_iff_not, Bool.or_eq_false_iff, beq_eq_false_iff_ne, ne_eq]
      by_cases hle : (k + 1) * f.mc ≤ i
      · exact Or.inr ⟨hne, fun hlt => h1 ⟨hle, hlt⟩⟩
      · exact Or.inl hle
    simp [this]

/-- nothing of the attempt on record: everything after the first batch is "not launched" … -/
theorem recd_fresh {bs : List (Nat × Nat)} {f : Frame} (hbs : ∀ s, (f.jid, s) ∉ bs) (i : Nat) :
    recd bs f i = (i / f.mc == 0) := by
  have : bs.contains (f.jid, i / f.mc * f.mc) = false := by simpa using hbs _
  unfold recd
  rw [this, Bool.or_false]

/-- … which is nothing when there is one batch (no MaxConcurrency, or one that is at least the number of branches) -/
theorem unl_none (g : Sk → Nat) (bs : List (Nat × Nat)) (f : Frame)
    (hmc : f.mc = 0 ∨ f.branches.toList.length ≤ f.mc) : unl g bs f = 0 := by
  simp only [unl]
  have : ∀ i ∈ List.range f.branches.toList.length, (if recd bs f i then 0 else g (slotB f i)) = (fun _ => 0) i := by
    intro i hi
    have hi' := List.mem_range.mp hi
    have : i / f.mc = 0 := by
      rcases hmc with h | h
      · rw [h, Nat.div_zero]
      · exact Nat.div_eq_of_lt (by omega)
    simp [recd, this]
  rw [sum_congr_mem _ _ _ this]
  clear this
  induction (List.range f.branches.toList.length) with
  | nil => rfl
  | cons x xs ih => simpa using ih

/-- the fan-out state is launched (nothing of the attempt is on record): its first batch gets its events, the rest is "not
launched" — together all the branches -/
theorem unl_first (g : Sk → Nat) (bs : List (Nat × Nat)) (f : Frame) (hmc : 0 < f.mc) (hbs : ∀ s, (f.jid, s) ∉ bs) :
    unl g bs f + bat g f 0 = ((List.range f.branches.toList.length).map (fun i => g (slotB f i))).sum := by
  simp only [unl, bat, batchOf, sum_filter_ite]
  rw [← sum_map_add]
  apply sum_congr_mem
  intro i hi
  have hb := batch_iff hmc 0 i
  simp only [Nat.zero_div, Nat.zero_mul, Nat.zero_add, Nat.zero_le, true_and] at hb
  have hne : ¬ f.mc = 0 := by omega
  rw [recd_fresh hbs]
  by_cases h0 : i / f.mc = 0
  · simp [h0, hb.mpr h0, hne]
  · have : ¬ i < f.mc := fun h => h0 (hb.mp h)
    simp [h0, this, hne]

/-- the deferred handler of the re-entry event for `s` (and of the fan-out state itself, `s = 0`): one event per slot of the
batch, with the branch of that slot -/
theorem launch_map (f : Frame) (s : Nat) (st : List Frame) (o : Option Nat) :
    launch f s st o = (batchOf f.mc f.branches.toList.length s).map
      (fun i => Act.pubEv (.visit (slotB f i) ({ f with idx := i } :: st) false o)) := by
  simp only [launch]
  generalize hb : batchOf f.mc f.branches.toList.length s = l
  have hl : ∀ i ∈ l, i < f.branches.toList.length := by
    intro i hi
    rw [← hb] at hi
    simp only [batchOf, List.mem_filter, List.mem_range] at hi
    exact hi.1
  clear hb
  induction l with
  | nil => rfl
  | cons x xs ih =>
    have hx := hl x (by simp)
    simp only [List.filterMap_cons, List.map_cons]
    rw [List.getElem?_eq_getElem hx]
    simp only [slotB, List.getElem?_eq_getElem hx, Option.getD_some]
    rw [ih (fun i hi => hl i (by simp [hi]))]
    simp only [slotB]

/-- … so what the new events have before them is what the re-entry event stood for -/
theorem launch_sum (g : Sk → Nat) (f : Frame) (s : Nat) :
    ((batchOf f.mc f.branches.toList.length s).map (fun i => g (slotB f i))).sum = bat g f s := rfl

end Asl.Crash
