/- helper lemmas for C10: the keyed store (association list) and the action dispatch -/
import AslModel.Api
namespace Asl.Api

variable {α : Type}

theorem lookup_insert_same (m : List (Str × α)) (k : Str) (v : α) :
    lookup (insert m k v) k = some v := by
  induction m with
  | nil => simp [insert, lookup]
  | cons kv rest ih =>
    obtain ⟨k', v'⟩ := kv
    by_cases h : k' = k
    · simp [insert, lookup, h]
    · simp [insert, lookup, h, ih]

theorem lookup_insert_ne (m : List (Str × α)) (k k2 : Str) (v : α) (h : k ≠ k2) :
    lookup (insert m k v) k2 = lookup m k2 := by
  induction m with
  | nil => simp [insert, lookup, h]
  | cons kv rest ih =>
    obtain ⟨k', v'⟩ := kv
    by_cases h1 : k' = k
    · subst h1
      simp [insert, lookup, h]
    · by_cases h2 : k' = k2
      · subst h2
        simp [insert, lookup, h1]
      · simp [insert, lookup, h1, h2, ih]

theorem lookup_erase_same (m : List (Str × α)) (k : Str) : lookup (erase m k) k = none := by
  induction m with
  | nil => simp [erase, lookup]
  | cons kv rest ih =>
    obtain ⟨k', v'⟩ := kv
    by_cases h : k' = k
    · simp [erase, h, ih]
    · simp [erase, lookup, h, ih]

theorem lookup_erase_ne (m : List (Str × α)) (k k2 : Str) (h : k ≠ k2) :
    lookup (erase m k) k2 = lookup m k2 := by
  induction m with
  | nil => simp [erase, lookup]
  | cons kv rest ih =>
    obtain ⟨k', v'⟩ := kv
    by_cases h1 : k' = k
    · subst h1
      simp [erase, lookup, h, ih]
    · by_cases h2 : k' = k2
      · subst h2
        simp [erase, lookup, h1]
      · simp [erase, lookup, h1, h2, ih]

theorem mem_keys_iff_lookup (m : List (Str × α)) (k : Str) :
    k ∈ keys m ↔ (lookup m k).isSome = true := by
  induction m with
  | nil => simp [keys, lookup]
  | cons kv rest ih =>
    obtain ⟨k', v'⟩ := kv
    by_cases h : k' = k
    · simp [keys, lookup, h]
    · have : ¬ k = k' := fun e => h e.symm
      simp only [keys, List.map_cons, List.mem_cons, this, false_or, lookup, h, if_false]
      exact ih

theorem keys_insert_of_mem (m : List (Str × α)) (k : Str) (v : α) (h : k ∈ keys m) :
    keys (insert m k v) = keys m := by
  induction m with
  | nil => simp [keys] at h
  | cons kv rest ih =>
    obtain ⟨k', v'⟩ := kv
    by_cases h1 : k' = k
    · simp [insert, keys, h1]
    · have : k ∈ keys rest := by
        simp only [keys, List.map_cons, List.mem_cons] at h
        rcases h with h | h
        · exact absurd h.symm h1
        · exact h
      have ih' := ih this
      simp only [keys] at ih' ⊢
      simp [insert, h1, ih']

theorem keys_insert_of_not_mem (m : List (Str × α)) (k : Str) (v : α) (h : k ∉ keys m) :
    keys (insert m k v) = keys m ++ [k] := by
  induction m with
  | nil => simp [keys, insert]
  | cons kv rest ih =>
    obtain ⟨k', v'⟩ := kv
    have h1 : ¬ k' = k := by
      intro e; apply h; simp [keys, e]
    have : k ∉ keys rest := by
      intro e; apply h; simp only [keys, List.map_cons, List.mem_cons]; exact Or.inr e
    have ih' := ih this
    simp only [keys] at ih' ⊢
    simp [insert, h1, ih']

theorem nodup_keys_insert (m : List (Str × α)) (k : Str) (v : α) (h : (keys m).Nodup) :
    (keys (insert m k v)).Nodup := by
  by_cases hk : k ∈ keys m
  · rw [keys_insert_of_mem m k v hk]; exact h
  · rw [keys_insert_of_not_mem m k v hk]
    rw [List.nodup_append]
    refine ⟨h, by simp, ?_⟩
    intro a ha b hb
    simp at hb
    subst hb
    intro e
    subst e
    exact hk ha

theorem keys_erase_sublist (m : List (Str × α)) (k : Str) : (keys (erase m k)).Sublist (keys m) := by
  induction m with
  | nil => simp [erase, keys]
  | cons kv rest ih =>
    obtain ⟨k', v'⟩ := kv
    by_cases h : k' = k
    · simp only [erase, h, if_true, keys, List.map_cons]
      exact List.Sublist.cons _ ih
    · simp only [erase, h, if_false, keys, List.map_cons]
      exact List.Sublist.cons_cons _ ih

theorem nodup_keys_erase (m : List (Str × α)) (k : Str) (h : (keys m).Nodup) :
    (keys (erase m k)).Nodup :=
  List.Nodup.sublist (keys_erase_sublist m k) h

/-- with distinct keys, an entry of the list is what `lookup` finds -/
theorem mem_iff_lookup_of_nodup (m : List (Str × α)) (h : (keys m).Nodup) (k : Str) (v : α) :
    (k, v) ∈ m ↔ lookup m k = some v := by
  induction m with
  | nil => simp [lookup]
  | cons kv rest ih =>
    obtain ⟨k', v'⟩ := kv
    simp only [keys, List.map_cons, List.nodup_cons] at h
    have ih' := ih (by simpa [keys] using h.2)
    by_cases hk : k' = k
    · subst hk
      simp only [List.mem_cons, Prod.mk.injEq, true_and, lookup, if_true, Option.some.injEq]
      constructor
      · rintro (e | e)
        · exact e.symm
        · exact absurd (List.mem_map_of_mem (f := (·.1)) e) h.1
      · intro e; exact Or.inl e.symm
    · have : ¬ k = k' := fun e => hk e.symm
      simp only [List.mem_cons, Prod.mk.injEq, this, false_and, false_or, lookup, hk, if_false]
      exact ih'

end Asl.Api
