/-
Flat skeletons, continued: a fan-out state launches its branches (`flat_launch`).
-/
import Proofs.Lemmas.CrashFlatStep
namespace Asl.Crash

/-- the publications of the branches from slot `i` on -/
def launchFrom (f : Frame) : Nat → List Sk → List Act
  | _, [] => []
  | i, b :: bs => .pubEv (.visit b [{ f with idx := i }] false none) :: launchFrom f (i + 1) bs

/-- … and the events they put into the queue, from id `nid` on -/
def mkNews (f : Frame) : Nat → Nat → List Sk → List QEv
  | _, _, [] => []
  | nid, i, b :: bs => { id := nid, kind := .visit b [{ f with idx := i }] false none } :: mkNews f (nid + 1) (i + 1) bs

theorem filterMap_congr' {α β : Type} {g h : α → Option β} {l : List α} (hgh : ∀ x ∈ l, g x = h x) :
    l.filterMap g = l.filterMap h := by
  induction l with
  | nil => rfl
  | cons x xs ih =>
    simp only [List.filterMap_cons, hgh x (by simp)]
    rw [ih (fun y hy => hgh y (by simp [hy]))]

theorem filterMap_range' (bs : List Sk) (k : Nat) (g : Nat → Sk → Act) :
    (List.range' k bs.length).filterMap (fun i => match bs[i - k]? with | some b => some (g i b) | none => none) =
      (bs.zipIdx k).map (fun p => g p.2 p.1) := by
  induction bs generalizing k with
  | nil => simp
  | cons b bs ih =>
    simp only [List.length_cons, List.range'_succ, List.filterMap_cons, Nat.sub_self, List.getElem?_cons_zero,
      List.zipIdx_cons, List.map_cons]
    congr 1
    rw [← ih (k + 1)]
    apply filterMap_congr'
    intro i hi
    have hge : k + 1 ≤ i := by
      have := List.mem_range'.mp hi
      omega
    have : i - k = (i - (k + 1)) + 1 := by omega
    rw [this, List.getElem?_cons_succ]

theorem launchFrom_zipIdx (f : Frame) (i : Nat) (bs : List Sk) :
    launchFrom f i bs = (bs.zipIdx i).map (fun p => Act.pubEv (.visit p.1 [{ f with idx := p.2 }] false none)) := by
  induction bs generalizing i with
  | nil => rfl
  | cons b bs ih => simp [launchFrom, List.zipIdx_cons, ih]

theorem launch_eq (f : Frame) (hmc : f.mc = 0 ∨ f.branches.toList.length ≤ f.mc) :
    launch f 0 [] none = launchFrom f 0 f.branches.toList := by
  have hb : batchOf f.mc f.branches.toList.length 0 = List.range' 0 f.branches.toList.length := by
    rw [batchOf, ← List.range_eq_range', List.filter_eq_self]
    intro i hi
    have := List.mem_range.mp hi
    rcases hmc with h | h
    · simp [h]
    · simp; right; omega
  have := filterMap_range' f.branches.toList 0 (fun i b => Act.pubEv (.visit b [{ f with idx := i }] false none))
  simp only [launch, hb, launchFrom_zipIdx]
  simp only [Nat.sub_zero] at this
  exact this

theorem foldl_launchFrom (f : Frame) (i : Nat) (bs : List Sk) (c : Cfg) :
    (launchFrom f i bs).foldl Cfg.act c =
      { c with evq := c.evq ++ mkNews f c.nextId i bs, nextId := c.nextId + bs.length } := by
  induction bs generalizing i c with
  | nil => simp [launchFrom, mkNews]
  | cons b bs ih =>
    simp only [launchFrom, List.foldl_cons, mkNews, List.length_cons]
    rw [ih]
    simp only [Cfg.act, batchKey, List.append_nil, List.append_assoc, List.cons_append, List.nil_append]
    congr 1
    omega


/-! ### the branches as a list -/

theorem brTasks_toList : ∀ (bs : Br), brTasks bs = (bs.toList.map tasksIn).sum
  | .nil => rfl
  | .cons b bs => by simp [brTasks, Br.toList, brTasks_toList bs]

theorem brVisits_toList : ∀ (bs : Br), brVisits bs = (bs.toList.map (fun b => visits b + 1)).sum
  | .nil => rfl
  | .cons b bs => by simp [brVisits, Br.toList, brVisits_toList bs]

theorem allSeq_toList : ∀ (bs : Br), bs.allSeq = true → ∀ b ∈ bs.toList, b.seq = true
  | .nil, _, b, hb => by cases hb
  | .cons b0 bs, h, b, hb => by
    simp only [Br.allSeq, Bool.and_eq_true] at h
    simp only [Br.toList, List.mem_cons] at hb
    rcases hb with rfl | hb
    · exact h.1
    · exact allSeq_toList bs h.2 b hb

/-! ### the launched events -/

theorem mkNews_ids (f : Frame) (nid i : Nat) (bs : List Sk) : (mkNews f nid i bs).map (·.id) = List.range' nid bs.length := by
  induction bs generalizing nid i with
  | nil => rfl
  | cons b bs ih => simp [mkNews, ih, List.range'_succ]

theorem mkNews_mem (f : Frame) (nid i : Nat) (bs : List Sk) :
    ∀ e ∈ mkNews f nid i bs, e.unacked = false ∧
      ∃ j b, e.kind = .visit b [{ f with idx := j }] false none ∧ i ≤ j ∧ j < i + bs.length ∧ b ∈ bs ∧ e.id + i = nid + j := by
  induction bs generalizing nid i with
  | nil => intro e he; cases he
  | cons b bs ih =>
    intro e he
    simp only [mkNews, List.mem_cons] at he
    rcases he with rfl | he
    · exact ⟨rfl, i, b, rfl, Nat.le_refl _, by simp, by simp, rfl⟩
    · obtain ⟨hu, j, b', hk, h1, h2, h3, h4⟩ := ih (nid + 1) (i + 1) e he
      exact ⟨hu, j, b', hk, by omega, by simp; omega, by simp [h3], by omega⟩

theorem mkNews_cover (f : Frame) (nid i : Nat) (bs : List Sk) :
    ∀ j, i ≤ j → j < i + bs.length → ∃ e ∈ mkNews f nid i bs, ∃ b, e.kind = .visit b [{ f with idx := j }] false none := by
  induction bs generalizing nid i with
  | nil => intro j h1 h2; simp at h2; omega
  | cons b bs ih =>
    intro j h1 h2
    by_cases hj : j = i
    · subst hj
      exact ⟨{ id := nid, kind := .visit b [{ f with idx := j }] false none }, by simp [mkNews], b, rfl⟩
    · obtain ⟨e, he, b', hk⟩ := ih (nid + 1) (i + 1) j (by omega) (by simp at h2; omega)
      exact ⟨e, by simp [mkNews, he], b', hk⟩

theorem mkNews_tasks (f : Frame) (nid i : Nat) (bs : List Sk) :
    ((mkNews f nid i bs).map (fun e => tasksIn (todoOf e.kind))).sum = (bs.map tasksIn).sum := by
  induction bs generalizing nid i with
  | nil => rfl
  | cons b bs ih =>
    simp only [mkNews, List.map_cons, List.sum_cons, ih]
    rfl

theorem mkNews_restT (f : Frame) (nid i : Nat) (bs : List Sk) :
    ((mkNews f nid i bs).map (fun e => restT e.kind)).sum = if i = 0 ∧ bs ≠ [] then tasksIn f.rest else 0 := by
  induction bs generalizing nid i with
  | nil => simp [mkNews]
  | cons b bs ih =>
    simp only [mkNews, List.map_cons, List.sum_cons, ih]
    have : restT (EvKind.visit b [{ f with idx := i }] false none) = if i = 0 then tasksIn f.rest else 0 := rfl
    rw [this]
    by_cases hi : i = 0 <;> simp [hi]

theorem mkNews_evW (f : Frame) (nid i : Nat) (bs : List Sk) :
    ((mkNews f nid i bs).map (fun e => evW e + restW e.kind)).sum =
      (bs.map (fun b => 8 * visits b + 6)).sum + (if i = 0 ∧ bs ≠ [] then 8 * visits f.rest + 8 else 0) := by
  induction bs generalizing nid i with
  | nil => simp [mkNews]
  | cons b bs ih =>
    simp only [mkNews, List.map_cons, List.sum_cons, ih]
    have h1 : restW (EvKind.visit b [{ f with idx := i }] false none) = if i = 0 then 8 * visits f.rest + 8 else 0 := rfl
    have h2 : evW ({ id := nid, kind := EvKind.visit b [{ f with idx := i }] false none } : QEv) = 8 * visits b + 6 := rfl
    rw [h1, h2]
    by_cases hi : i = 0 <;> simp [hi] <;> omega


/-- the deferred handler of a (non-empty) Parallel / Map state runs: its branches are launched, its event acknowledged -/
theorem flat_launch {N : Nat} {c : Cfg} (h : PInv N c) {m : QEv} (hm : m ∈ c.evq) (hu : m.unacked = true)
    (hc : m.id ∈ c.timers) {mc : Nat} {brs : Br} {rest : Sk} {start : Bool}
    (hk : m.kind = .visit (.par mc brs rest) [] start none) (hne : brs.toList ≠ []) :
    PInv N ((List.foldl Cfg.act { c with nextJ := c.nextJ + 1 }
        (launch { jid := c.nextJ, idx := 0, mc := mc, branches := brs, rest := rest } 0 [] none ++ [Act.ackEv m.id])).withVol
        { timers := c.timers.erase m.id, pending := c.pending, orphans := c.orphans,
          joins := setJoin c.joins { jid := c.nextJ } }) ∧
      mu2 ((List.foldl Cfg.act { c with nextJ := c.nextJ + 1 }
        (launch { jid := c.nextJ, idx := 0, mc := mc, branches := brs, rest := rest } 0 [] none ++ [Act.ackEv m.id])).withVol
        { timers := c.timers.erase m.id, pending := c.pending, orphans := c.orphans,
          joins := setJoin c.joins { jid := c.nextJ } }) < mu2 c := by
  obtain ⟨hD, hV, hS, hJ, hC⟩ := h
  have hxin : (m.id, m.kind) ∈ evK c := mem_evK hm
  have hstk : evStack m.kind = [] := by rw [hk]; rfl
  -- the fan-out state is well-formed
  have hfk := hD.kinds _ hxin
  have hfk' : flatKind (EvKind.visit (Sk.par mc brs rest) [] start none) = true := hk ▸ hfk
  simp only [flatKind, Sk.flat, Bool.and_eq_true, Bool.or_eq_true, beq_iff_eq, decide_eq_true_eq] at hfk'
  obtain ⟨⟨hmc, hseq⟩, hrest⟩ := hfk'
  -- a top-level event is alone
  have htop := hS.top _ hxin hstk
  have hev : c.evq = [m] := by
    obtain ⟨l1, l2, he, h1, h2⟩ := split_of_mem hm (by rw [← evK_ids]; exact hD.ids)
    have hl1 : l1 = [] := by
      apply List.eq_nil_iff_forall_not_mem.mpr
      intro e he'
      exact h1 e he' (htop.1 _ (mem_evK (he ▸ List.mem_append_left _ he')))
    have hl2 : l2 = [] := by
      apply List.eq_nil_iff_forall_not_mem.mpr
      intro e he'
      exact h2 e he' (htop.1 _ (mem_evK (he ▸ List.mem_append_right _ (List.mem_cons_of_mem _ he'))))
    rw [hl1, hl2] at he; simpa using he
  have hjn : c.joins = [] := htop.2
  have hntask : isTaskKind m.kind = false := by rw [hk]; rfl
  have hns : m.id ∉ c.sent := by
    intro hh
    have := (hD.reply _ hxin hh).1
    rw [hntask] at this; cases this
  have hrq : c.rpq = [] := by
    apply List.eq_nil_iff_forall_not_mem.mpr
    intro r hr
    have hcr : r.corr ∈ rpC c := List.mem_map.mpr ⟨r, hr, rfl⟩
    obtain ⟨p, hp, hpz⟩ := hC.fresh _ hcr
    have hevk : evK c = [(m.id, m.kind)] := by simp [evK, hev]
    rw [hevk] at hp; simp at hp; subst hp
    have hpz' : m.id = r.corr := hpz
    exact hns (hpz' ▸ hD.corrsent _ hcr)
  have hT : c.timers.erase m.id = [] := by
    apply List.eq_nil_iff_forall_not_mem.mpr
    intro t ht
    have := (List.Nodup.mem_erase_iff hV.tnd).mp ht
    have h2 := hV.t_sub t this.2
    rw [hev] at h2
    simp only [uEv_cons, hu, if_true, uEv_nil, List.mem_singleton] at h2
    exact this.1 h2
  have hP : c.pending = [] := by
    apply List.eq_nil_iff_forall_not_mem.mpr
    intro t ht
    have h2 := (hV.p_sub t ht).1
    rw [hev] at h2
    simp only [uEv_cons, hu, if_true, uEv_nil, List.mem_singleton] at h2
    exact hV.tp _ hc (h2 ▸ ht)
  have hO : c.orphans = [] := by
    apply List.eq_nil_iff_forall_not_mem.mpr
    intro o ho
    have := hV.o_sub o ho
    rw [hrq] at this; cases this
  have hTl : c.timers.length = 1 := by
    have := length_erase_mem hc
    rw [hT] at this; simpa using this.symm
  -- what the handler does
  have hlt : m.id < c.nextId := hD.idlt _ hxin
  rw [launch_eq _ hmc, List.foldl_append, foldl_launchFrom]
  generalize hbs : brs.toList = bs at hne
  have hbs' : ({ jid := c.nextJ, idx := 0, mc := mc, branches := brs, rest := rest } : Frame).branches.toList = bs := hbs
  simp only [hbs', List.foldl, Cfg.act, Cfg.withVol, hev, hjn, hT, hP, hO, hrq, setJoin, List.filter_nil]
  generalize hf : ({ jid := c.nextJ, idx := 0, mc := mc, branches := brs, rest := rest } : Frame) = f
  have hfj : f.jid = c.nextJ := by rw [← hf]
  have hfb : f.branches.toList = bs := by rw [← hf]; exact hbs
  have hfr : f.rest = rest := by rw [← hf]
  have hfm : f.mc = 0 ∨ bs.length ≤ f.mc := by rw [← hf, ← hbs]; exact hmc
  have hfbr : f.branches = brs := by rw [← hf]
  have hmem := mkNews_mem f c.nextId 0 bs
  have hids := mkNews_ids f c.nextId 0 bs
  have hcov := mkNews_cover f c.nextId 0 bs
  -- the event of the fan-out state is acknowledged, the branch events stay
  have hfil : List.filter (fun x => !(x.id == m.id && x.unacked)) (m :: mkNews f c.nextId 0 bs) = mkNews f c.nextId 0 bs := by
    rw [List.filter_cons]
    simp only [beq_self_eq_true, hu, Bool.and_self, Bool.not_true, Bool.false_eq_true, if_false]
    rw [List.filter_eq_self]
    intro e he
    obtain ⟨hu', _⟩ := hmem e he
    simp [hu']
  simp only [List.cons_append, List.nil_append, hfil]
  generalize hnews : mkNews f c.nextId 0 bs = news at hmem hids hcov
  have hlen : 0 < bs.length := List.length_pos_iff.mpr hne
  have hseqb := allSeq_toList brs hseq
  rw [hbs] at hseqb
  have hw : f.width = bs.length := by simp [Frame.width, hfb]
  have hidge : ∀ e ∈ news, c.nextId ≤ e.id ∧ e.id < c.nextId + bs.length := by
    intro e he
    have : e.id ∈ news.map (·.id) := List.mem_map.mpr ⟨e, he, rfl⟩
    rw [hids] at this
    have := List.mem_range'.mp this
    omega
  have hnsent : ∀ e ∈ news, e.id ∉ c.sent := by
    intro e he hh
    have := hD.sentlt _ hh
    have := (hidge e he).1
    omega
  have hevk : ∀ (x : Cfg), x.evq = news → evK x = news.map (fun e => (e.id, e.kind)) := fun x hx => by simp [evK, hx]
  refine ⟨⟨?_, ?_, ?_, ?_, ?_⟩, ?_⟩
  · -- the durable part
    constructor
    · intro p hp
      rw [hevk _ rfl] at hp
      obtain ⟨e, he, rfl⟩ := List.mem_map.mp hp
      obtain ⟨_, j, b, hkk, _, hj2, hb, _⟩ := hmem e he
      show flatKind e.kind = true
      rw [hkk]
      simp only [flatKind, Frame.wf, Frame.width, Bool.and_eq_true, Bool.or_eq_true, decide_eq_true_eq, beq_iff_eq]
      refine ⟨hseqb b hb, ⟨⟨?_, ?_⟩, ?_⟩, ?_⟩
      · rcases hfm with h | h
        · exact Or.inl h
        · refine Or.inr (decide_eq_true ?_)
          show f.branches.toList.length ≤ f.mc
          rw [hfb]; exact h
      · rw [hfbr]; exact hseq
      · rw [hfr]; exact hrest
      · have : f.branches.toList.length = bs.length := by rw [hfb]
        apply decide_eq_true
        show j < f.branches.toList.length
        omega
    · rw [hevk _ rfl, List.map_map]
      have : (news.map ((fun p : Nat × EvKind => p.1) ∘ fun e => (e.id, e.kind))) = news.map (·.id) := rfl
      rw [this, hids]
      exact List.nodup_range'
    · intro p hp
      rw [hevk _ rfl] at hp
      obtain ⟨e, he, rfl⟩ := List.mem_map.mp hp
      exact (hidge e he).2
    · intro x hx
      have := hD.sentlt x hx
      show x < c.nextId + bs.length
      omega
    · exact hD.sentnd
    · simp [rpC]
    · simp [rpC]
    · intro p hp hs
      rw [hevk _ rfl] at hp
      obtain ⟨e, he, rfl⟩ := List.mem_map.mp hp
      exact absurd hs (hnsent e he)
    · left
      rw [hevk _ rfl]
      obtain ⟨e, he, _⟩ := hcov 0 (Nat.le_refl _) (by omega)
      exact List.ne_nil_of_mem (List.mem_map.mpr ⟨e, he, rfl⟩)
    · exact hD.nodiv
    · exact hD.nofail
    · exact hD.nodead
  · -- the engine's memory: nothing is registered, nothing is unacknowledged
    have hue : uEv news = [] := by
      simp only [uEv, List.map_eq_nil_iff, List.filter_eq_nil_iff]
      intro e he
      simp [(hmem e he).1]
    constructor <;> simp [hue, uRp, heldE, heldR]
  · -- the shape of the queue: one event per branch
    constructor
    · intro p hp hst
      rw [hevk _ rfl] at hp
      obtain ⟨e, he, rfl⟩ := List.mem_map.mp hp
      obtain ⟨_, j, b, hkk, _⟩ := hmem e he
      rw [show (e.id, e.kind).2 = e.kind from rfl, hkk] at hst
      simp [evStack] at hst
    · intro p1 hp1 p2 hp2 f1 f2 hf1 hf2
      rw [hevk _ rfl] at hp1 hp2
      obtain ⟨e1, he1, rfl⟩ := List.mem_map.mp hp1
      obtain ⟨e2, he2, rfl⟩ := List.mem_map.mp hp2
      obtain ⟨_, j1, b1, hk1, _, _, _, hid1⟩ := hmem e1 he1
      obtain ⟨_, j2, b2, hk2, _, _, _, hid2⟩ := hmem e2 he2
      rw [show (e1.id, e1.kind).2 = e1.kind from rfl, hk1] at hf1
      rw [show (e2.id, e2.kind).2 = e2.kind from rfl, hk2] at hf2
      simp only [evStack, List.cons.injEq, and_true] at hf1 hf2
      subst hf1; subst hf2
      refine ⟨rfl, rfl, rfl, fun hi => ?_⟩
      simp only at hi
      show e1.id = e2.id
      omega
    · intro p hp f' hf' i hi
      rw [hevk _ rfl] at hp
      obtain ⟨e, he, rfl⟩ := List.mem_map.mp hp
      obtain ⟨_, j, b, hkk, _⟩ := hmem e he
      rw [show (e.id, e.kind).2 = e.kind from rfl, hkk] at hf'
      simp only [evStack, List.cons.injEq, and_true] at hf'
      subst hf'
      have hi' : i < bs.length := by
        simp only [Frame.width] at hi
        rw [hfb] at hi; exact hi
      obtain ⟨e', he', b', hk'⟩ := hcov i (Nat.zero_le _) (by omega)
      refine ⟨(e'.id, e'.kind), ?_, { f with idx := i }, ?_, rfl⟩
      · rw [hevk _ rfl]; exact List.mem_map.mpr ⟨e', he', rfl⟩
      · show evStack e'.kind = _
        rw [hk']; rfl
    · intro p hp f' hf'
      rw [hevk _ rfl] at hp
      obtain ⟨e, he, rfl⟩ := List.mem_map.mp hp
      obtain ⟨_, j, b, hkk, _⟩ := hmem e he
      rw [show (e.id, e.kind).2 = e.kind from rfl, hkk] at hf'
      simp only [evStack, List.cons.injEq, and_true] at hf'
      subst hf'
      show f.jid < c.nextJ + 1
      omega
  · -- the join: a fresh record
    refine ⟨by simp, by simp, ?_, by simp, by simp, by simp, by simp, by simp, by simp [heldE], by simp [heldR], ?_, by simp⟩
    rotate_left
    · intro h0
      rw [hevk _ rfl] at h0
      obtain ⟨e, he, _⟩ := hcov 0 (Nat.le_refl _) (by omega)
      exact absurd h0 (List.ne_nil_of_mem (List.mem_map.mpr ⟨e, he, rfl⟩))
    intro j hj p hp f' hf'
    simp only [List.mem_singleton] at hj
    subst hj
    rw [hevk _ rfl] at hp
    obtain ⟨e, he, rfl⟩ := List.mem_map.mp hp
    obtain ⟨_, j, b, hkk, _⟩ := hmem e he
    rw [show (e.id, e.kind).2 = e.kind from rfl, hkk] at hf'
    simp only [evStack, List.cons.injEq, and_true] at hf'
    subst hf'
    refine ⟨hfj, ?_⟩
    show 0 < Frame.width _
    simp only [Frame.width]
    rw [hfb]; exact hlen
  · -- conservation
    obtain ⟨psi0, psi1, phi, fresh⟩ := hC
    have hne' : evK c ≠ [] := List.ne_nil_of_mem hxin
    refine ⟨?_, fun _ => psi1 hne', ?_, by simp [rpC]⟩
    · intro h0
      rw [hevk _ rfl] at h0
      obtain ⟨e, he, _⟩ := hcov 0 (Nat.le_refl _) (by omega)
      exact absurd h0 (List.ne_nil_of_mem (List.mem_map.mpr ⟨e, he, rfl⟩))
    · have hinfl : inflight2 c = 0 := by
        simp [inflight2, evK, hev, hns]
      have hl : load2 c = c.sent.length + (brTasks brs + tasksIn rest) := by
        simp [load2, evK, hev, hk, todoOf, tasksIn, restT, evStack]
      rw [hl, hinfl, brTasks_toList, hbs] at phi
      have h1 := mkNews_tasks f c.nextId 0 bs
      have h2 := mkNews_restT f c.nextId 0 bs
      rw [hnews] at h1 h2
      simp only [hne, ne_eq, not_false_eq_true, and_self, if_true, hfr] at h2
      simp only [load2, inflight2, evK, List.map_map, Function.comp_def]
      have hsum := sum_map_add news (fun e => tasksIn (todoOf e.kind)) (fun e => restT e.kind)
      rw [hsum, h1, h2]
      have hz : (List.filter (fun p : Nat × EvKind => c.sent.contains p.1) (news.map (fun e => (e.id, e.kind)))).length = 0 := by
        rw [List.length_eq_zero_iff, List.filter_eq_nil_iff]
        intro p hp
        obtain ⟨e, he, rfl⟩ := List.mem_map.mp hp
        simpa using hnsent e he
      rw [hz]
      show c.sent.length + ((List.map tasksIn bs).sum + tasksIn rest) = N + 0
      omega
  · -- less is left to do
    have h1 := mkNews_evW f c.nextId 0 bs
    rw [hnews] at h1
    simp only [hne, ne_eq, not_false_eq_true, and_self, if_true, hfr] at h1
    have hwm : evW m + restW m.kind = 8 * (brVisits brs + visits rest + 2) + 1 := by
      simp [evW, restW, hk, todoOf, visits, evStack, hu]
    simp only [mu2, hev, List.map_cons, List.map_nil, List.sum_cons, List.sum_nil, hTl, List.length_nil, List.filter_nil, h1, hwm]
    rw [brVisits_toList, hbs]
    have : ∀ (l : List Sk), (l.map (fun b => 8 * visits b + 6)).sum + 2 * l.length = 8 * (l.map (fun b => visits b + 1)).sum - 0 - 0 + 0 := by
      intro l
      induction l with
      | nil => rfl
      | cons x xs ih => simp only [List.map_cons, List.sum_cons, List.length_cons]; omega
    have := this bs
    omega

end Asl.Crash
