import Proofs.Lemmas.StoreRedis
namespace Asl.Store
open Asl

/-! every step of every client keeps the cache coherent and within capacity -/

theorem coh_read (cfgs : Nat → Cfg) (w : RWorld) (c : Nat) (fk : Str) (h : Coh cfgs w) :
    Coh cfgs (setCl w c (remember fk (w.cl c))) :=
  coh_setCl cfgs w c _ h (cohC_remember _ _ _ _ (h c))

theorem cohC_enable (srv : List (Str × Json)) (cfg : Cfg) (x : Client) (h : CohC srv cfg x) :
    CohC srv cfg (if x.on then x else { x with on := true, cache := [] }) := by
  split
  · exact h
  · intro k v hm; simp at hm

theorem coh_step (q : Quirks) (cfgs : Nat → Cfg) (w : RWorld) (c : Nat) (op : Op) (h : Coh cfgs w) :
    Coh cfgs (rstep q cfgs w c op).1 := by
  cases op with
  | set k v =>
    simp only [rstep]
    split
    · split
      · exact coh_srvDel _ _ _ h
      · exact coh_srvPut _ _ _ _ (coh_read _ _ _ _ (coh_srvDel _ _ _ h))
    · exact h
  | upd k f v =>
    simp only [rstep]
    split
    · exact h
    · split
      · exact coh_srvPut _ _ _ _ h
      · exact h
  | app k v =>
    simp only [rstep]
    split
    · exact h
    · split
      · exact coh_srvPut _ _ _ _ h
      · exact h
  | get k => exact coh_read _ _ _ _ h
  | cget k =>
    simp only [rstep]
    split
    · exact coh_read _ _ _ _ h
    · have hx1 := cohC_enable w.srv (cfgs c) (w.cl c) (h c)
      have hon : (if (w.cl c).on then w.cl c else { w.cl c with on := true, cache := [] }).on = true := by
        split <;> simp_all
      generalize (if (w.cl c).on then w.cl c else { w.cl c with on := true, cache := [] }) = x1 at hx1 hon ⊢
      split
      · rename_i v hv
        apply coh_setCl _ _ _ _ h
        refine cohC_sub _ _ x1 _ ?_ rfl rfl hx1
        intro e he
        simp only [List.mem_append, List.mem_singleton] at he
        rcases he with he | he
        · exact (mem_aDel _ _ _ he).1
        · rw [he]; exact mem_of_aGet _ _ _ hv
      · apply coh_setCl _ _ _ _ h
        intro k' v' hm
        rcases mem_lruInsert _ _ _ _ _ hm with he | he
        · rw [remember_cache] at he
          rcases hx1 k' v' he with hp | ⟨ht, hv⟩
          · left; simpa using hp
          · right; exact ⟨mem_remember_tracked _ _ _ ht, hv⟩
        · cases he
          right; exact ⟨remember_tracks _ _ hon, rfl⟩
  | del k => exact coh_srvDel _ _ _ h
  | has k => exact coh_read _ _ _ _ h
  | iter => exact h
  | len => exact h
  | ttl k n =>
    simp only [rstep]
    split
    · split
      · exact coh_srvDel _ _ _ h
      · exact coh_write cfgs w w.srv _ _ (fun _ _ => rfl) h
    · exact h
  | gttl k => exact coh_read _ _ _ _ h
  | reopen =>
    apply coh_setCl _ _ _ _ h
    intro k v hm; simp [Client.fresh] at hm
  | deliver =>
    simp only [rstep]
    split
    · exact h
    · rename_i fk rest hp
      apply coh_setCl _ _ _ _ h
      intro k v hm
      have hm' := mem_aDel _ _ _ hm
      rcases h c k v hm'.1 with hq | ht
      · left
        rw [hp] at hq
        rcases List.mem_cons.1 hq with e | e
        · exact absurd (by rw [← e, rmPrefix_pk]) hm'.2
        · exact e
      · exact Or.inr ht

theorem cap_touch (cfgs : Nat → Cfg) (w : RWorld) (srv' : List (Str × Json)) (ttl' : List (Str × Nat))
    (fk : Str) (h : CapOK cfgs w) : CapOK cfgs (touch { w with srv := srv', ttl := ttl' } fk) := by
  intro c; simpa using h c

theorem cap_srvDel (cfgs : Nat → Cfg) (w : RWorld) (fk : Str) (h : CapOK cfgs w) :
    CapOK cfgs (srvDel w fk) := by
  unfold srvDel; split
  · exact cap_touch _ _ _ _ _ h
  · exact h

theorem cap_srvPut (cfgs : Nat → Cfg) (w : RWorld) (fk : Str) (v : Json) (h : CapOK cfgs w) :
    CapOK cfgs (srvPut w fk v) := cap_touch cfgs w (aSet w.srv fk v) w.ttl fk h

theorem cap_setCl (cfgs : Nat → Cfg) (w : RWorld) (c : Nat) (x : Client) (h : CapOK cfgs w)
    (hx : x.cache.length ≤ (cfgs c).cap) : CapOK cfgs (setCl w c x) := by
  intro c'
  rw [setCl_cl]
  by_cases e : c' = c
  · subst e; simpa using hx
  · simpa [e] using h c'

theorem cap_read (cfgs : Nat → Cfg) (w : RWorld) (c : Nat) (fk : Str) (h : CapOK cfgs w) :
    CapOK cfgs (setCl w c (remember fk (w.cl c))) :=
  cap_setCl cfgs w c _ h (by simpa using h c)

theorem cap_step (q : Quirks) (cfgs : Nat → Cfg) (w : RWorld) (c : Nat) (op : Op) (h : CapOK cfgs w) :
    CapOK cfgs (rstep q cfgs w c op).1 := by
  cases op with
  | set k v =>
    simp only [rstep]
    split
    · split
      · exact cap_srvDel _ _ _ h
      · exact cap_srvPut _ _ _ _ (cap_read _ _ _ _ (cap_srvDel _ _ _ h))
    · exact h
  | upd k f v =>
    simp only [rstep]
    split
    · exact h
    · split
      · exact cap_srvPut _ _ _ _ h
      · exact h
  | app k v =>
    simp only [rstep]
    split
    · exact h
    · split
      · exact cap_srvPut _ _ _ _ h
      · exact h
  | get k => exact cap_read _ _ _ _ h
  | cget k =>
    simp only [rstep]
    split
    · exact cap_read _ _ _ _ h
    · have hx1 : (if (w.cl c).on then w.cl c else { w.cl c with on := true, cache := [] }).cache.length
          ≤ (cfgs c).cap := by
        split
        · exact h c
        · simp
      generalize (if (w.cl c).on then w.cl c else { w.cl c with on := true, cache := [] }) = x1 at hx1 ⊢
      split
      · rename_i v hv
        apply cap_setCl _ _ _ _ h
        have := aDel_length_lt _ _ _ hv
        simp only [List.length_append, List.length_singleton]
        omega
      · apply cap_setCl _ _ _ _ h
        exact lruInsert_length _ _ _ _ (by simpa using hx1)
  | del k => exact cap_srvDel _ _ _ h
  | has k => exact cap_read _ _ _ _ h
  | iter => exact h
  | len => exact h
  | ttl k n =>
    simp only [rstep]
    split
    · split
      · exact cap_srvDel _ _ _ h
      · exact cap_touch cfgs w w.srv _ _ h
    · exact h
  | gttl k => exact cap_read _ _ _ _ h
  | reopen => exact cap_setCl _ _ _ _ h (by simp [Client.fresh])
  | deliver =>
    simp only [rstep]
    split
    · exact h
    · rename_i fk rest hp
      apply cap_setCl _ _ _ _ h
      have : (aDel (w.cl c).cache (rmPrefix (cfgs c).pre fk)).length ≤ (w.cl c).cache.length := by
        unfold aDel; exact List.length_filter_le _ _
      exact Nat.le_trans this (h c)

/-! the Redis stores refine the mapping -/

/-- operations a store of this kind accepts: a dict (list) value for a dict (list) store, nested
update on dict stores, append on list stores, a positive time-to-live -/
def opOk (cfg : Cfg) : Op → Bool
  | .set _ v => okVal cfg.isList v
  | .upd _ _ _ => !cfg.isList
  | .app _ _ => cfg.isList
  | .ttl _ n => n != 0
  | _ => true

theorem redis_refines (cfgs : Nat → Cfg) (w : RWorld) (c : Nat) (op : Op)
    (hk : (aKeys w.srv).Nodup) (hok : opOk (cfgs c) op = true) :
    rabs (rstep Quirks.none cfgs w c op).1 (cfgs c).pre = specStep true (rabs w (cfgs c).pre) op ∧
    specOut (rabs w (cfgs c).pre) op (rstep Quirks.none cfgs w c op).2 ∧
    (aKeys (rstep Quirks.none cfgs w c op).1.srv).Nodup := by
  cases op with
  | set k v =>
    simp only [opOk] at hok
    simp only [rstep, hok, Quirks.none, specStep, specOut]
    simp only [Bool.false_and, Bool.false_eq_true, ↓reduceIte]
    refine ⟨?_, trivial, ?_⟩
    · funext k'
      by_cases e : k' = k <;> simp [rabs, Spec.set, aGet_aSet, srvDel_get, pk_inj, e]
    · exact aKeys_aSet_nodup _ _ _ (srvDel_nodup _ _ hk)
  | upd k f v =>
    simp only [opOk, Bool.not_eq_true'] at hok
    simp only [rstep, hok, specStep, specOut]
    simp only [rabs]
    cases h : aGet w.srv (pk (cfgs c).pre k) with
    | none =>
      simp [view, emptyOf, nestedSet, objSet]
      exact ⟨by rw [rabs_put], aKeys_aSet_nodup _ _ _ hk⟩
    | some d =>
      cases h2 : nestedSet d f v with
      | none => simp [view, h2, hk]
      | some d' =>
        simp [view, h2]
        exact ⟨by rw [rabs_put], aKeys_aSet_nodup _ _ _ hk⟩
  | app k v =>
    simp only [opOk] at hok
    simp only [rstep, hok, specStep, specOut]
    simp only [rabs]
    cases h : aGet w.srv (pk (cfgs c).pre k) with
    | none =>
      simp [view, emptyOf, nestedApp]
      exact ⟨by rw [rabs_put], aKeys_aSet_nodup _ _ _ hk⟩
    | some d =>
      cases h2 : nestedApp d v with
      | none => simp [view, h2, hk]
      | some d' =>
        simp [view, h2]
        exact ⟨by rw [rabs_put], aKeys_aSet_nodup _ _ _ hk⟩
  | get k =>
    refine ⟨rabs_srv_eq _ _ _ rfl, ?_, hk⟩
    intro v hv
    simp only [rabs] at hv
    simp [rstep, rread, hv, view]
  | cget k =>
    refine ⟨?_, trivial, ?_⟩
    · apply rabs_srv_eq
      simp only [rstep, rread]
      split
      · rfl
      · split <;> rfl
    · simp only [rstep, rread]
      split
      · exact hk
      · split <;> exact hk
  | del k =>
    refine ⟨?_, trivial, srvDel_nodup _ _ hk⟩
    simp only [rstep, specStep]
    exact rabs_del _ _ _
  | has k => exact ⟨rabs_srv_eq _ _ _ rfl, rfl, hk⟩
  | iter =>
    refine ⟨rfl, ?_, hk⟩
    exact ⟨scanKeys (cfgs c).pre w.srv, rfl, scanKeys_nodup _ _ hk, fun k => scanKeys_mem _ _ k⟩
  | len =>
    refine ⟨rfl, ?_, hk⟩
    exact ⟨scanKeys (cfgs c).pre w.srv, rfl, scanKeys_nodup _ _ hk, fun k => scanKeys_mem _ _ k⟩
  | ttl k n =>
    simp only [opOk, bne_iff_ne, ne_eq] at hok
    simp only [rstep, hok, if_false, specStep, specOut]
    split
    · exact ⟨rabs_srv_eq _ _ _ rfl, trivial, hk⟩
    · exact ⟨rfl, trivial, hk⟩
  | gttl k => exact ⟨rabs_srv_eq _ _ _ rfl, trivial, hk⟩
  | reopen => exact ⟨rabs_srv_eq _ _ _ rfl, trivial, hk⟩
  | deliver =>
    simp only [rstep, specStep, specOut]
    split
    · exact ⟨rfl, trivial, hk⟩
    · exact ⟨rabs_srv_eq _ _ _ rfl, trivial, hk⟩

end Asl.Store
