/-
The crash protocol (AslModel/Crash.lean) with all quirks off, EVERY skeleton (any nesting of fan-outs, batches, child
executions, failure points), crashes anywhere (between handlers and inside them): no request is ever sent twice.
-/
import AslModel.Crash
namespace Asl.Crash

def Act.isSend : Act → Bool
  | .pubReq _ => true
  | .pubChild _ _ => true
  | _ => false

/-- no request among the operations -/
def NS (l : List Act) : Prop := ∀ a ∈ l, a.isSend = false

@[simp] theorem NS_nil : NS [] := by intro a h; cases h
@[simp] theorem NS_append {l1 l2 : List Act} : NS (l1 ++ l2) ↔ NS l1 ∧ NS l2 := by
  simp only [NS, List.mem_append]
  constructor
  · intro h; exact ⟨fun a ha => h a (Or.inl ha), fun a ha => h a (Or.inr ha)⟩
  · rintro ⟨h1, h2⟩ a (ha | ha)
    · exact h1 a ha
    · exact h2 a ha
@[simp] theorem NS_cons {a : Act} {l : List Act} : NS (a :: l) ↔ a.isSend = false ∧ NS l := by
  simp [NS]
@[simp] theorem NS_map_ackEv (l : List Nat) : NS (l.map Act.ackEv) := by
  intro a ha; obtain ⟨x, _, rfl⟩ := List.mem_map.mp ha; rfl
@[simp] theorem NS_map_ackRp (l : List Nat) : NS (l.map Act.ackRp) := by
  intro a ha; obtain ⟨x, _, rfl⟩ := List.mem_map.mp ha; rfl
@[simp] theorem NS_map_held (l : List (Nat × Nat)) : NS (l.map (fun p => Act.ackEv p.2)) := by
  intro a ha; obtain ⟨x, _, rfl⟩ := List.mem_map.mp ha; rfl
theorem NS_filter {l : List Act} (p : Act → Bool) (h : NS l) : NS (l.filter p) := by
  intro a ha; exact h a (List.mem_filter.mp ha).1
@[simp] theorem NS_ite {p : Prop} [Decidable p] {l1 l2 : List Act} (h1 : NS l1) (h2 : NS l2) : NS (if p then l1 else l2) := by
  split <;> assumption

@[simp] theorem NS_tidy (c : Cfg) (v : Vol) (o : Option Nat) (e : List Nat) : NS (tidy c v o e).1 := by
  simp only [tidy, NS_append]
  exact ⟨⟨NS_map_ackEv _, NS_map_ackEv _⟩, NS_map_ackRp _⟩
@[simp] theorem NS_tidyEnd (c : Cfg) (v : Vol) (o : Option Nat) (e f : List Nat) : NS (tidyEnd c v o e f).1 := by
  simp only [tidyEnd, NS_append]
  exact ⟨⟨NS_map_ackEv _, NS_map_ackEv _⟩, NS_map_ackRp _⟩

theorem NS_launch (f : Frame) (s : Nat) (st : List Frame) (o : Option Nat) : NS (launch f s st o) := by
  intro a ha
  simp only [launch, List.mem_filterMap] at ha
  obtain ⟨i, _, hi⟩ := ha
  split at hi
  · cases hi; rfl
  · cases hi

theorem NS_dropEv (q : Quirks) (c : Cfg) (v : Vol) (m : QEv) : NS (dropEv q c v m).1 := by
  unfold dropEv
  split
  · split
    · simp [Act.isSend]
    · split
      · simp [Act.isSend]
      · simp [Act.isSend]
  · simp [Act.isSend]


theorem NS_ackR (rp : Option Nat) : NS (match rp with | some r => [Act.ackRp r] | none => []) := by
  cases rp <;> simp [Act.isSend]

theorem NS_advance (q : Quirks) (c : Cfg) : ∀ (fuel ev : Nat) (t : Sk) (stack : List Frame) (owner rp : Option Nat) (v : Vol),
    NS (advance q c fuel ev t stack owner rp v).1
  | 0, _, _, _, _, _, _ => by simp [advance]
  | fuel + 1, ev, t, stack, owner, rp, v => by
    have ih := NS_advance q c fuel
    have hr := NS_ackR rp
    unfold advance
    simp only []
    repeat' split
    all_goals (try (simp [Act.isSend, NS_filter, hr, ih]; done))

/-- the correlation ids of the requests among the operations -/
def sends : List Act → List Nat
  | [] => []
  | .pubReq id :: l => id :: sends l
  | .pubChild id _ :: l => id :: sends l
  | _ :: l => sends l

theorem sends_append (l1 l2 : List Act) : sends (l1 ++ l2) = sends l1 ++ sends l2 := by
  induction l1 with
  | nil => rfl
  | cons a l ih => cases a <;> simp [sends, ih]

theorem sends_of_NS {l : List Act} (h : NS l) : sends l = [] := by
  induction l with
  | nil => rfl
  | cons a l ih =>
    have h1 := h a (List.mem_cons_self)
    have h2 : NS l := fun b hb => h b (List.mem_cons_of_mem _ hb)
    cases a <;> simp [Act.isSend] at h1 <;> simp [sends, ih h2]

theorem sends_take_sublist (k : Nat) (l : List Act) : (sends (l.take k)).Sublist (sends l) := by
  induction l generalizing k with
  | nil => simp [sends]
  | cons a l ih =>
    cases k with
    | zero => simp [sends]
    | succ k =>
      cases a <;> simp only [List.take_succ_cons, sends] <;>
        first | exact (ih k).cons_cons _ | exact ih k

theorem foldl_sent (acts : List Act) (c : Cfg) : (acts.foldl Cfg.act c).sent = c.sent ++ sends acts := by
  induction acts generalizing c with
  | nil => simp [sends]
  | cons a l ih =>
    rw [List.foldl_cons, ih]
    cases a with
    | note b => cases b <;> simp [Cfg.act, sends]
    | _ => simp [Cfg.act, sends]

theorem handler_sent_nodup (c : Cfg) (acts : List Act) (v : Vol) (cut : Option Nat) (h : (c.sent ++ sends acts).Nodup) :
    (c.handler acts v cut).sent.Nodup := by
  cases cut with
  | none =>
    show (acts.foldl Cfg.act c).sent.Nodup
    rw [foldl_sent]; exact h
  | some k =>
    show ((acts.take k).foldl Cfg.act c).sent.Nodup
    rw [foldl_sent]
    exact List.Nodup.sublist (List.Sublist.append_left (sends_take_sublist k acts) _) h

theorem sends_requestOf (id : Nat) (t : Sk) : sends (requestOf id t) = [id] := by
  cases t <;> rfl

theorem nodup_ns {c : Cfg} {acts : List Act} (hnd : c.sent.Nodup) (h : NS acts) : (c.sent ++ sends acts).Nodup := by
  rw [sends_of_NS h, List.append_nil]; exact hnd

theorem nodup_send {s : List Nat} {pre : List Act} (id : Nat) (t : Sk) (hnd : s.Nodup) (h : NS pre) :
    (s ++ sends ((if s.contains id then [] else requestOf id t) ++ pre)).Nodup := by
  rw [sends_append, sends_of_NS h, List.append_nil]
  split
  · simpa [sends] using hnd
  · rename_i hc
    rw [sends_requestOf]
    simp only [List.contains_eq_mem, decide_eq_true_eq] at hc
    exact List.nodup_append.mpr ⟨hnd, List.nodup_cons.mpr ⟨List.not_mem_nil, List.nodup_nil⟩, by simp; intro a ha hh; exact hc (hh ▸ ha)⟩

theorem NS_onReply {q : Quirks} {c : Cfg} {corr : Nat} {v : Vol} {acts : List Act} {v' : Vol}
    (h : onReply q c corr v = some (acts, v')) : NS acts := by
  unfold onReply at h
  repeat' split at h
  all_goals first | cases h | (injection h with h; have h1 := congrArg Prod.fst h; simp only at h1; rw [← h1]; apply NS_advance)

def SN (o : Option Cfg) : Prop := ∀ c', o = some c' → c'.sent.Nodup
@[simp] theorem SN_none : SN none := by intro c' h; cases h
@[simp] theorem SN_some (c : Cfg) : SN (some c) ↔ c.sent.Nodup := by
  constructor
  · intro h; exact h c rfl
  · intro h c' hc; cases hc; exact h

theorem NS_of_advance {q : Quirks} {c : Cfg} {fuel ev : Nat} {t : Sk} {stack : List Frame} {owner rp : Option Nat} {v : Vol}
    {acts : List Act} {v' : Vol} (h : advance q c fuel ev t stack owner rp v = (acts, v')) : NS acts := by
  have h1 := congrArg Prod.fst h
  simp only at h1; rw [← h1]; apply NS_advance

@[simp] theorem sends_advance (q : Quirks) (c : Cfg) (fuel ev : Nat) (t : Sk) (stack : List Frame) (owner rp : Option Nat) (v : Vol) :
    sends (advance q c fuel ev t stack owner rp v).1 = [] := sends_of_NS (NS_advance q c fuel ev t stack owner rp v)
@[simp] theorem sends_launch (f : Frame) (s : Nat) (st : List Frame) (o : Option Nat) : sends (launch f s st o) = [] :=
  sends_of_NS (NS_launch f s st o)
@[simp] theorem sends_dropEv (q : Quirks) (c : Cfg) (v : Vol) (m : QEv) : sends (dropEv q c v m).1 = [] :=
  sends_of_NS (NS_dropEv q c v m)

theorem nodup_snoc {s : List Nat} {id : Nat} (hnd : s.Nodup) (h : id ∉ s) : (s ++ [id]).Nodup :=
  List.nodup_append.mpr ⟨hnd, List.nodup_cons.mpr ⟨List.not_mem_nil, List.nodup_nil⟩, by simp; intro a ha hh; exact h (hh ▸ ha)⟩

theorem step_SN (c : Cfg) (op : Op) (cut : Option Nat) (hnd : c.sent.Nodup) : SN (step Quirks.none c op cut) := by
  unfold step
  simp only []
  repeat' split
  all_goals (try (simp only [SN_none]; done))
  all_goals (rw [SN_some])
  all_goals (try (exact hnd; done))
  all_goals (apply handler_sent_nodup)
  all_goals (try simp only [sends_append, sends_requestOf, sends_advance, sends_launch, sends_dropEv, sends, List.append_nil, List.nil_append])
  all_goals (try (exact hnd; done))
  all_goals first
    | (rename_i heq; rw [sends_of_NS (NS_onReply heq), List.append_nil]; exact hnd)
    | (apply nodup_snoc hnd; simp_all [markEv, Quirks.none])

theorem step_sent_nodup {c : Cfg} {op : Op} {cut : Option Nat} {c' : Cfg}
    (h : step Quirks.none c op cut = some c') (hnd : c.sent.Nodup) : c'.sent.Nodup :=
  step_SN c op cut hnd c' h

theorem run_sent_nodup (sched : Sched) (c c' : Cfg) (h : run Quirks.none c sched = some c') (hnd : c.sent.Nodup) :
    c'.sent.Nodup := by
  induction sched generalizing c with
  | nil => simp only [run, Option.some.injEq] at h; exact h ▸ hnd
  | cons o rest ih =>
    obtain ⟨op, cut⟩ := o
    simp only [run] at h
    split at h
    · rename_i c1 h1
      exact ih c1 h (step_sent_nodup h1 hnd)
    · cases h

theorem drain_sent_nodup (fuel : Nat) (c : Cfg) (hnd : c.sent.Nodup) : (drain Quirks.none fuel c).sent.Nodup := by
  induction fuel generalizing c with
  | zero => exact hnd
  | succ n ih =>
    simp only [drain]
    split
    · exact hnd
    · split
      · exact hnd
      · split
        · rename_i c1 h1
          exact ih c1 (step_sent_nodup h1 hnd)
        · exact hnd

theorem sent_count_le_one (l : List Nat) (x : Nat) (h : l.Nodup) : count l x ≤ 1 := by
  induction l with
  | nil => simp [count]
  | cons a l ih =>
    have hn := List.nodup_cons.mp h
    have ih' := ih hn.2
    simp only [count, List.filter_cons] at ih' ⊢
    split
    · rename_i hax
      have hax' : a = x := by simpa using hax
      have : l.filter (fun y => y == x) = [] := by
        rw [List.filter_eq_nil_iff]
        intro y hy hyx
        have : y = x := by simpa using hyx
        exact hn.1 (hax' ▸ this ▸ hy)
      simp [this]
    · exact ih'

theorem resent_nil_of_nodup (c : Cfg) (h : c.sent.Nodup) : (observe c).resent = [] := by
  simp only [observe, List.filter_eq_nil_iff]
  intro x _
  have := sent_count_le_one c.sent x h
  simp only [decide_eq_true_eq]; omega

end Asl.Crash
