/-
Helper lemmas for C16: the JSON text of the padding documents, the name window, the history
counter.
-/
import AslModel.Quota
namespace Asl.Quota
open Asl

/-! ### text of the padding documents -/

theorem escChar_a : escChar 'a' = ['a'] := by decide

theorem padChars_succ (n : Nat) : padChars (n + 1) = 'a' :: padChars n := rfl

theorem padChars_length (n : Nat) : (padChars n).length = n := by
  simp [padChars]

theorem escBody_padChars (n : Nat) : escBody (padChars n) = padChars n := by
  induction n with
  | zero => rfl
  | succ k ih => rw [padChars_succ, escBody, ih, escChar_a]; rfl

theorem quote_length (s : Str) : (quote s).length = (escBody s).length + 2 := by
  simp [quote]

theorem render_padStr_length (n : Nat) : (render (padStr n)).length = n + 2 := by
  rw [padStr, render, quote_length, escBody_padChars, padChars_length]

theorem quote_p : quote "p".toList = ['"', 'p', '"'] := by decide

/-! ### the history counter -/

theorem visit_failed_iff (h a : Nat) :
    (visit h a).failed = true ↔ Generated.maxExecutionHistoryLength < h + 1 := by
  unfold visit
  split <;> simp_all

theorem visit_len_failed (h a : Nat) (hf : (visit h a).failed = true) :
    (visit h a).len = h + 1 + closingEvents := by
  unfold visit at hf ⊢
  split <;> simp_all

theorem visit_len_ok (h a : Nat) (hf : (visit h a).failed = false) :
    (visit h a).len = h + 1 + a ∧ h + 1 ≤ Generated.maxExecutionHistoryLength := by
  unfold visit at hf ⊢
  split <;> simp_all

/-- invariant of a run: started within `limit + K`, it stays within `limit + K` while it runs
and ends within `limit + K + 1 + closingEvents` when it is failed -/
theorem runHistory_bound (K : Nat) (adds : List Nat) :
    ∀ h, (∀ a ∈ adds, a ≤ K) → h ≤ Generated.maxExecutionHistoryLength + K →
      ((runHistory h adds).failed = false →
        (runHistory h adds).len ≤ Generated.maxExecutionHistoryLength + K) ∧
      (runHistory h adds).len ≤ Generated.maxExecutionHistoryLength + K + 1 + closingEvents := by
  induction adds with
  | nil => intro h _ hh; simp [runHistory]; omega
  | cons a rest ih =>
    intro h hk hh
    have ha : a ≤ K := hk a (by simp)
    have hrest : ∀ b ∈ rest, b ≤ K := fun b hb => hk b (by simp [hb])
    cases hf : (visit h a).failed with
    | true =>
      have hl := visit_len_failed h a hf
      simp only [runHistory, hf, if_true]
      constructor
      · intro h'; simp at h'
      · omega
    | false =>
      obtain ⟨hl, hle⟩ := visit_len_ok h a hf
      simp only [runHistory, hf]
      have : (visit h a).len ≤ Generated.maxExecutionHistoryLength + K := by omega
      simpa using ih (visit h a).len hrest this

/-- a run that was not failed never entered a state with more than the limit recorded -/
theorem runHistory_running_visits (adds : List Nat) :
    ∀ h, adds ≠ [] → (runHistory h adds).failed = false →
      h + adds.length ≤ Generated.maxExecutionHistoryLength := by
  induction adds with
  | nil => intro h hne; exact absurd rfl hne
  | cons a rest ih =>
    intro h _ hrun
    cases hf : (visit h a).failed with
    | true => simp [runHistory, hf] at hrun
    | false =>
      obtain ⟨hl, hle⟩ := visit_len_ok h a hf
      simp only [runHistory, hf] at hrun
      cases rest with
      | nil => simp; omega
      | cons b rest' =>
        have := ih (visit h a).len (by simp) (by simpa using hrun)
        simp at this ⊢
        omega

/-- once failed, more than the limit is recorded -/
theorem runHistory_failed_over (adds : List Nat) :
    ∀ h, (runHistory h adds).failed = true →
      Generated.maxExecutionHistoryLength < (runHistory h adds).len := by
  induction adds with
  | nil => intro h hf; simp [runHistory] at hf
  | cons a rest ih =>
    intro h hrun
    cases hf : (visit h a).failed with
    | true =>
      have hl := visit_len_failed h a hf
      have := (visit_failed_iff h a).mp hf
      simp only [runHistory, hf, if_true]
      omega
    | false =>
      simp only [runHistory, hf] at hrun ⊢
      simpa using ih (visit h a).len (by simpa using hrun)

/-! ### verdicts and names -/

theorem ite_verdict_iff (b : Bool) (e : Str) :
    (if b = true then Verdict.accepted else Verdict.refused e) = Verdict.accepted ↔ b = true := by
  cases b <;> simp

theorem ite_verdict_refused (b : Bool) (e : Str) (h : b = false) :
    (if b = true then Verdict.accepted else Verdict.refused e) = Verdict.refused e := by
  subst h; simp

theorem validName_iff (s : Str) : validName s = true ↔
    1 ≤ s.length ∧ s.length ≤ 80 ∧ ∀ c ∈ s, c ∉ forbiddenNameChars := by
  simp [validName, maxNameLength, nameCharOk]
  constructor
  · rintro ⟨⟨a, b⟩, c⟩; exact ⟨a, of_decide_eq_true b, c⟩
  · rintro ⟨a, b, c⟩; exact ⟨⟨a, decide_eq_true b⟩, c⟩

theorem range_window (n : Nat) :
    (List.range' 1 80).contains n = (decide (0 < n) && decide (n ≤ 80)) := by
  rw [Bool.eq_iff_iff]; simp [List.mem_range'_1]; omega

/-! ### passes (first entries and re-entries) -/

theorem pass_failed_iff (h e a : Nat) :
    (pass h e a).failed = true ↔ Generated.maxExecutionHistoryLength < h + e := by
  unfold pass
  split <;> simp_all

theorem pass_len_failed (h e a : Nat) (hf : (pass h e a).failed = true) :
    (pass h e a).len = h + e + closingEvents := by
  unfold pass at hf ⊢
  split <;> simp_all

theorem pass_len_ok (h e a : Nat) (hf : (pass h e a).failed = false) :
    (pass h e a).len = h + e + a ∧ h + e ≤ Generated.maxExecutionHistoryLength := by
  unfold pass at hf ⊢
  split <;> simp_all

theorem visit_eq_pass (h a : Nat) : visit h a = pass h 1 a := rfl

theorem runHistory_eq_runPasses (adds : List Nat) :
    ∀ h, runHistory h adds = runPasses h (adds.map (fun a => (1, a))) := by
  induction adds with
  | nil => intro h; rfl
  | cons a rest ih =>
    intro h
    simp only [runHistory, List.map_cons, runPasses, visit_eq_pass]
    rw [ih]
    by_cases hc : (pass h 1 a).failed = true <;> simp [hc]

/-- invariant of a run of passes: started within `limit + K`, it stays within `limit + K` while
it runs and ends within `limit + K + 1 + closingEvents` when it is failed -/
theorem runPasses_bound (K : Nat) (ps : List (Nat × Nat)) :
    ∀ h, (∀ p ∈ ps, p.1 ≤ 1 ∧ p.2 ≤ K) → h ≤ Generated.maxExecutionHistoryLength + K →
      ((runPasses h ps).failed = false →
        (runPasses h ps).len ≤ Generated.maxExecutionHistoryLength + K) ∧
      (runPasses h ps).len ≤ Generated.maxExecutionHistoryLength + K + 1 + closingEvents := by
  induction ps with
  | nil => intro h _ hh; simp [runPasses]; omega
  | cons p rest ih =>
    intro h hk hh
    have hp := hk p (by simp)
    have hrest : ∀ q ∈ rest, q.1 ≤ 1 ∧ q.2 ≤ K := fun q hq => hk q (by simp [hq])
    cases hf : (pass h p.1 p.2).failed with
    | true =>
      have hl := pass_len_failed h p.1 p.2 hf
      simp only [runPasses, hf, if_true]
      constructor
      · intro h'; simp at h'
      · omega
    | false =>
      obtain ⟨hl, hle⟩ := pass_len_ok h p.1 p.2 hf
      simp only [runPasses, hf]
      have : (pass h p.1 p.2).len ≤ Generated.maxExecutionHistoryLength + K := by omega
      simpa using ih (pass h p.1 p.2).len hrest this

/-- a run of passes that was not failed, each pass of which records at least one event, never
went through a check with more than the limit recorded -/
theorem runPasses_running (ps : List (Nat × Nat)) :
    ∀ h, (∀ p ∈ ps, 1 ≤ p.1 + p.2) → ps ≠ [] → (runPasses h ps).failed = false →
      h + (ps.length - 1) ≤ Generated.maxExecutionHistoryLength := by
  induction ps with
  | nil => intro h _ hne; exact absurd rfl hne
  | cons p rest ih =>
    intro h hpos _ hrun
    cases hf : (pass h p.1 p.2).failed with
    | true => simp [runPasses, hf] at hrun
    | false =>
      obtain ⟨hl, hle⟩ := pass_len_ok h p.1 p.2 hf
      simp only [runPasses, hf] at hrun
      have hp := hpos p (by simp)
      cases rest with
      | nil => simp; omega
      | cons q rest' =>
        have := ih (pass h p.1 p.2).len (fun r hr => hpos r (by simp [hr])) (by simp) (by simpa using hrun)
        simp at this ⊢
        omega

theorem runPasses_failed_over (ps : List (Nat × Nat)) :
    ∀ h, (runPasses h ps).failed = true →
      Generated.maxExecutionHistoryLength < (runPasses h ps).len := by
  induction ps with
  | nil => intro h hf; simp [runPasses] at hf
  | cons p rest ih =>
    intro h hf
    cases hp : (pass h p.1 p.2).failed with
    | true =>
      have hl := pass_len_failed h p.1 p.2 hp
      have := (pass_failed_iff h p.1 p.2).mp hp
      simp only [runPasses, hp, if_true]
      omega
    | false =>
      simp only [runPasses, hp] at hf ⊢
      exact ih _ (by simpa using hf)

end Asl.Quota
