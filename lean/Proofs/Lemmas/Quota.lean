/-
Helper lemmas for C16: the JSON text of the padding documents, the name window, the history
counter.
-/
import AslModel.Quota
namespace Asl.Quota
open Asl

/-! ### text of the padding documents -/

theorem escChar_a : escChar 'a' = ['a'] := by decide

theorem padChars_succ (n : Nat) : padChars (n + 1) = 'a' :: padChars n := rfl

theorem padChars_length (n : Nat) : (padChars n).length = n := by
  simp [padChars]

theorem escBody_padChars (n : Nat) : escBody (padChars n) = padChars n := by
  induction n with
  | zero => rfl
  | succ k ih => rw [padChars_succ, escBody, ih, escChar_a]; rfl

theorem quote_length (s : Str) : (quote s).length = (escBody s).length + 2 := by
  simp [quote]

theorem render_padStr_length (n : Nat) : (render (padStr n)).length = n + 2 := by
  rw [padStr, render, quote_length, escBody_padChars, padChars_length]

theorem quote_p : quote "p".toList = ['"', 'p', '"'] := by decide

/-! ### the history counter -/

theorem visit_failed_iff (h a : Nat) :
    (visit h a).failed = true ↔ Generated.maxExecutionHistoryLength < h + 1 := by
  unfold visit
  split <;> simp_all

theorem visit_len_failed (h a : Nat) (hf : (visit h a).failed = true) :
    (visit h a).len = h + 1 + closingEvents := by
  unfold visit at hf ⊢
  split <;> simp_all

theorem visit_len_ok (h a : Nat) (hf : (visit h a).failed = false) :
    (visit h a).len = h + 1 + a ∧ h + 1 ≤ Generated.maxExecutionHistoryLength := by
  unfold visit at hf ⊢
  split <;> simp_all

/-- invariant of a run: started within `limit + K`, it stays within `limit + K` while it runs
and ends within `limit + K + 1 + closingEvents` when it is failed -/
theorem runHistory_bound (K : Nat) (adds : List Nat) :
    ∀ h, (∀ a ∈ adds, a ≤ K) → h ≤ Generated.maxExecutionHistoryLength + K →
      ((runHistory h adds).failed = false →
        (runHistory h adds).len ≤ Generated.maxExecutionHistoryLength + K) ∧
      (runHistory h adds).len ≤ Generated.maxExecutionHistoryLength + K + 1 + closingEvents := by
  induction adds with
  | nil => intro h _ hh; simp [runHistory]; omega
  | cons a rest ih =>
    intro h hk hh
    have ha : a ≤ K := hk a (by simp)
    have hrest : ∀ b ∈ rest, b ≤ K := fun b hb => hk b (by simp [hb])
    cases hf : (visit h a).failed with
    | true =>
      have hl := visit_len_failed h a hf
      simp only [runHistory, hf, if_true]
      constructor
      · intro h'; simp at h'
      · omega
    | false =>
      obtain ⟨hl, hle⟩ := visit_len_ok h a hf
      simp only [runHistory, hf]
      have : (visit h a).len ≤ Generated.maxExecutionHistoryLength + K := by omega
      simpa using ih (visit h a).len hrest this

/-- a run that was not failed never entered a state with more than the limit recorded -/
theorem runHistory_running_visits (adds : List Nat) :
    ∀ h, adds ≠ [] → (runHistory h adds).failed = false →
      h + adds.length ≤ Generated.maxExecutionHistoryLength := by
  induction adds with
  | nil => intro h hne; exact absurd rfl hne
  | cons a rest ih =>
    intro h _ hrun
    cases hf : (visit h a).failed with
    | true => simp [runHistory, hf] at hrun
    | false =>
      obtain ⟨hl, hle⟩ := visit_len_ok h a hf
      simp only [runHistory, hf] at hrun
      cases rest with
      | nil => simp; omega
      | cons b rest' =>
        have := ih (visit h a).len (by simp) (by simpa using hrun)
        simp at this ⊢
        omega

/-- once failed, more than the limit is recorded -/
theorem runHistory_failed_over (adds : List Nat) :
    ∀ h, (runHistory h adds).failed = true →
      Generated.maxExecutionHistoryLength < (runHistory h adds).len := by
  induction adds with
  | nil => intro h hf; simp [runHistory] at hf
  | cons a rest ih =>
    intro h hrun
    cases hf : (visit h a).failed with
    | true =>
      have hl := visit_len_failed h a hf
      have := (visit_failed_iff h a).mp hf
      simp only [runHistory, hf, if_true]
      omega
    | false =>
      simp only [runHistory, hf] at hrun ⊢
      simpa using ih (visit h a).len (by simpa using hrun)

/-! ### verdicts and names -/

theorem ite_verdict_iff (b : Bool) (e : Str) :
    (if b = true then Verdict.accepted else Verdict.refused e) = Verdict.accepted ↔ b = true := by
  cases b <;> simp

theorem ite_verdict_refused (b : Bool) (e : Str) (h : b = false) :
    (if b = true then Verdict.accepted else Verdict.refused e) = Verdict.refused e := by
  subst h; simp

theorem validName_iff (s : Str) : validName s = true ↔
    1 ≤ s.length ∧ s.length ≤ 80 ∧ ∀ c ∈ s, c ∉ forbiddenNameChars := by
  simp [validName, maxNameLength, nameCharOk]
  constructor
  · rintro ⟨⟨a, b⟩, c⟩; exact ⟨a, of_decide_eq_true b, c⟩
  · rintro ⟨a, b, c⟩; exact ⟨⟨a, decide_eq_true b⟩, c⟩

theorem range_window (n : Nat) :
    (List.range' 1 80).contains n = (decide (0 < n) && decide (n ≤ 80)) := by
  rw [Bool.eq_iff_iff]; simp [List.mem_range'_1]; omega

end Asl.Quota
