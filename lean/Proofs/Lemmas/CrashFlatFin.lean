/-
Flat skeletons, continued: how a handler that has an event in hand (`Mid`) finishes — the next visit of the same
sequence follows (`fin_next`), the execution ends (`fin_end`), the branch ends and its join is not complete
(`fin_hold`) or complete (`fin_join`).
-/
import Proofs.Lemmas.CrashFlatMid
namespace Asl.Crash

theorem restT_of_stack {k k' : EvKind} (h : evStack k' = evStack k) : restT k' = restT k := by
  simp [restT, h]

theorem restW_of_stack {k k' : EvKind} (h : evStack k' = evStack k) : restW k' = restW k := by
  simp [restW, h]

/-- the in-hand reply and the queue around it -/
theorem inhand_reply {d : Cfg} (hnd : (rpC d).Nodup) {x : Nat} (hx : x ∈ uRp d.rpq) :
    ∃ k1 k2 r, d.rpq = k1 ++ r :: k2 ∧ r.corr = x ∧ r.unacked = true ∧ (∀ e ∈ k1, e.corr ≠ x) ∧ (∀ e ∈ k2, e.corr ≠ x) := by
  obtain ⟨r, hr, hru, hrc⟩ := mem_uRp.mp hx
  obtain ⟨k1, k2, hk, g1, g2⟩ := splitR_of_mem hr hnd
  exact ⟨k1, k2, r, hk, hrc, hru, hrc ▸ g1, hrc ▸ g2⟩

/-- the visit in hand is over and the next visit of the same sequence follows: its event is published, the event (and the
reply) in hand acknowledged -/
theorem fin_next {N : Nat} {d : Cfg} {m : QEv} {rp : Option Nat} {l1 l2 : List QEv} {k' : EvKind}
    (h : Mid N d m.id rp) (he : d.evq = l1 ++ m :: l2) (h1 : ∀ e ∈ l1, e.id ≠ m.id) (h2 : ∀ e ∈ l2, e.id ≠ m.id)
    (hu : m.unacked = true) (hstk : evStack k' = evStack m.kind) (hflat : FlatK k')
    (htk : tasksIn (todoOf m.kind) = tasksIn (todoOf k') + (if rp.isSome then 1 else 0))
    (hvis : visits (todoOf k') + 1 ≤ visits (todoOf m.kind)) (hnb : batchKey k' = []) :
    PInv N ((List.foldl Cfg.act d ([Act.pubEv k', Act.ackEv m.id] ++ ackRof rp))) ∧
      mu2 ((List.foldl Cfg.act d ([Act.pubEv k', Act.ackEv m.id] ++ ackRof rp))) ≤ mu2 d := by
  have hm : m ∈ d.evq := by rw [he]; simp
  have hlt : m.id < d.nextId := h.dur.idlt _ (mem_evK hm)
  have hok : ok FlatK d (preOf false ++ ([.pubEv k', .ackEv m.id] ++ ackRof rp)) :=
    ok_next false rp he h1 h2 hu hlt hflat (fun r hr => (h.rpok r hr).1)
  have hdur := h.dur.all hok
  have hfold := fold_next d false k' m.id rp
  simp only [preOf, Bool.false_eq_true, if_false, List.nil_append, hnb, List.append_nil, Nat.add_zero] at hok hdur hfold
  have hq := ack_split h1 h2 (l3 := [({ id := d.nextId, kind := k' } : QEv)])
    (by intro e he; simp at he; subst he; simp; omega) hu
  rw [hfold] at hdur ⊢
  simp only [he, hq] at hdur ⊢
  obtain ⟨hD, hV, hS, hJ, hC, hin, hrpok, hnorp⟩ := h
  obtain ⟨A1, hA1d⟩ : ∃ A1, A1 = l1.map (fun e => (e.id, e.kind)) := ⟨_, rfl⟩
  obtain ⟨A2, hA2d⟩ : ∃ A2, A2 = l2.map (fun e => (e.id, e.kind)) := ⟨_, rfl⟩
  have hevk : evK d = A1 ++ (m.id, m.kind) :: A2 := by
    simp [evK, he, hA1d, hA2d]
  have hevk' : ∀ (x : Cfg), x.evq = l1 ++ l2 ++ [{ id := d.nextId, kind := k' }] → evK x = A1 ++ A2 ++ [(d.nextId, k')] := by
    intro x hx; simp [evK, hx, hA1d, hA2d]
  have hA1 : ∀ p ∈ A1, p.1 ≠ m.id := by
    intro p hp; rw [hA1d] at hp; obtain ⟨e, he', rfl⟩ := List.mem_map.mp hp; exact h1 e he'
  have hA2 : ∀ p ∈ A2, p.1 ≠ m.id := by
    intro p hp; rw [hA2d] at hp; obtain ⟨e, he', rfl⟩ := List.mem_map.mp hp; exact h2 e he'
  have hidlt : ∀ p ∈ evK d, p.1 < d.nextId := hD.idlt
  have hn1 : m.id ∉ uEv l1 := mem_uEv_ne h1
  have hn2 : m.id ∉ uEv l2 := mem_uEv_ne h2
  have hul1 : ∀ x ∈ uEv l1, x < d.nextId := by
    intro x hx; obtain ⟨e, he', _, rfl⟩ := mem_uEv.mp hx
    exact hD.idlt _ (mem_evK (he ▸ List.mem_append_left _ he'))
  have hul2 : ∀ x ∈ uEv l2, x < d.nextId := by
    intro x hx; obtain ⟨e, he', _, rfl⟩ := mem_uEv.mp hx
    exact hD.idlt _ (mem_evK (he ▸ List.mem_append_right _ (List.mem_cons_of_mem _ he')))
  have hheldlt : ∀ x ∈ heldE d.joins, x < d.nextId := by
    intro x hx
    obtain ⟨e, he', _, rfl⟩ := mem_uEv.mp (hV.he_sub x hx)
    exact hD.idlt _ (mem_evK he')
  have hxin : (m.id, m.kind) ∈ evK d := mem_evK hm
  have hmem : ∀ (x : Cfg), x.evq = l1 ++ l2 ++ [{ id := d.nextId, kind := k' }] →
      ∀ p, p ∈ evK x ↔ (p ∈ evK d ∧ p ≠ (m.id, m.kind)) ∨ p = (d.nextId, k') := by
    intro x hx p
    rw [hevk' x hx, hevk]
    simp only [List.mem_append, List.mem_cons, List.mem_singleton, List.not_mem_nil, or_false]
    constructor
    · rintro ((h | h) | h)
      · exact Or.inl ⟨Or.inl h, fun e => hA1 p h (by rw [e])⟩
      · exact Or.inl ⟨Or.inr (Or.inr h), fun e => hA2 p h (by rw [e])⟩
      · exact Or.inr h
    · rintro (⟨h | h | h, hne⟩ | h)
      · exact Or.inl (Or.inl h)
      · exact absurd h hne
      · exact Or.inl (Or.inr h)
      · exact Or.inr h
  have hnx : d.sent.contains d.nextId = false := by
    have : d.nextId ∉ d.sent := fun hh => Nat.lt_irrefl _ (hD.sentlt _ hh)
    simpa using this
  have hrT := restT_of_stack hstk
  have hrW := restW_of_stack hstk
  have hfree := hV.free_ev m.id rfl
  have hshape : ∀ (x : Cfg), x.evq = l1 ++ l2 ++ [{ id := d.nextId, kind := k' }] → x.joins = d.joins → x.nextJ = d.nextJ → Shape x :=
    fun x hx hj hn => hS.replace hD.ids hxin (hmem x hx) hstk hj hn
  have hjoin : ∀ (x : Cfg), x.evq = l1 ++ l2 ++ [{ id := d.nextId, kind := k' }] → x.joins = d.joins → x.sent = d.sent →
      x.timers = d.timers → x.pending = d.pending → x.orphans = d.orphans → JInv x :=
    fun x hx hj hs ht hp ho => hJ.replace hxin (hmem x hx) hstk hj hs hfree.2.2 (by rw [ht, hp]; exact hJ.ht) (by rw [ho]; exact hJ.hro)
  cases rp with
  | none =>
    simp only [ackRq]
    have hns := hnorp rfl
    have hnsb : d.sent.contains m.id = false := by simpa using hns
    refine ⟨⟨hdur, ?_, hshape _ rfl rfl rfl, hjoin _ rfl rfl rfl rfl rfl rfl, ?_⟩, ?_⟩
    · -- the engine's memory
      obtain ⟨tnd, pnd, ond, t_sub, p_sub, o_sub, he_sub, hr_sub, u_ev, u_rp, t_kind, p_kind, tp, free_ev, free_rp⟩ := hV
      rw [he] at t_sub p_sub he_sub u_ev t_kind p_kind
      voli_grind
    · -- conservation
      obtain ⟨psi0, psi1, phi, fresh⟩ := hC
      refine ⟨?_, ?_, ?_, ?_⟩
      · intro h0; simp [evK] at h0
      · intro _; exact psi1 (by rw [hevk]; simp)
      · simp only [load2, inflight2, evK, he, ← hA1d, ← hA2d, List.map_append, List.map_cons, List.map_nil, List.sum_append, List.sum_cons,
          List.sum_nil, List.filter_append, List.filter_cons, List.filter_nil, List.length_append, List.length_cons,
          List.length_nil, hnsb, hnx, hrT, Bool.false_eq_true, if_false, Option.isSome_none] at phi htk ⊢
        omega
      · intro z hz
        obtain ⟨p, hp, hpz⟩ := fresh z hz
        refine ⟨p, (hmem _ rfl p).mpr (Or.inl ⟨hp, ?_⟩), hpz⟩
        intro hpx
        apply hns
        rw [← hpz, hpx] at hz
        exact hD.corrsent _ hz
    · simp only [mu2, evW, he, List.map_append, List.map_cons, List.map_nil, List.sum_append, List.sum_cons, List.sum_nil, hu, hrW,
        if_true, Bool.false_eq_true, if_false]
      omega
  | some r =>
    obtain ⟨rfl, hrin, hsent⟩ := hrpok r rfl
    obtain ⟨k1, k2, r', hk, hrc, hru, g1, g2⟩ := inhand_reply hD.corrnd hrin
    have hsb : d.sent.contains m.id = true := by simpa using hsent
    have hrq : ackRq (some m.id) d.rpq = k1 ++ k2 := by
      simp only [ackRq, hk]
      apply removeFirst_split
      · intro e he'
        have := g1 e he'
        simp [this]
      · simp [hrc, hru]
    rw [hrq] at hdur ⊢
    have gn1 := mem_uRp_ne g1
    have gn2 := mem_uRp_ne g2
    refine ⟨⟨hdur, ?_, hshape _ rfl rfl rfl, hjoin _ rfl rfl rfl rfl rfl rfl, ?_⟩, ?_⟩
    · obtain ⟨tnd, pnd, ond, t_sub, p_sub, o_sub, he_sub, hr_sub, u_ev, u_rp, t_kind, p_kind, tp, free_ev, free_rp⟩ := hV
      have hfr := free_rp m.id rfl
      rw [he] at t_sub p_sub he_sub u_ev t_kind p_kind
      rw [hk] at o_sub hr_sub u_rp
      rw [← hrc] at *
      voli_grind
    · obtain ⟨psi0, psi1, phi, fresh⟩ := hC
      refine ⟨?_, ?_, ?_, ?_⟩
      · intro h0; simp [evK] at h0
      · intro _; exact psi1 (by rw [hevk]; simp)
      · simp only [load2, inflight2, evK, he, ← hA1d, ← hA2d, List.map_append, List.map_cons, List.map_nil, List.sum_append, List.sum_cons,
          List.sum_nil, List.filter_append, List.filter_cons, List.filter_nil, List.length_append, List.length_cons,
          List.length_nil, hsb, hnx, hrT, Bool.false_eq_true, if_true, if_false, Option.isSome_some] at phi htk ⊢
        omega
      · intro z hz
        have hz' : z ∈ rpC d ∧ z ≠ m.id := by
          simp only [rpC, hk, List.map_append, List.map_cons, List.mem_append, List.mem_cons, List.mem_map] at hz ⊢
          rcases hz with ⟨a, ha, rfl⟩ | ⟨a, ha, rfl⟩
          · exact ⟨Or.inl ⟨a, ha, rfl⟩, g1 a ha⟩
          · exact ⟨Or.inr (Or.inr ⟨a, ha, rfl⟩), g2 a ha⟩
        obtain ⟨p, hp, hpz⟩ := fresh z hz'.1
        refine ⟨p, (hmem _ rfl p).mpr (Or.inl ⟨hp, ?_⟩), hpz⟩
        intro hpx
        apply hz'.2
        rw [← hpz, hpx]
    · simp only [mu2, evW, he, hk, List.map_append, List.map_cons, List.map_nil, List.sum_append, List.sum_cons, List.sum_nil, hu,
        hru, hrW, List.filter_append, List.filter_cons, List.length_append, Bool.not_true, if_true, Bool.false_eq_true, if_false]
      omega


/-- a top-level event is the only event -/
theorem top_alone {N : Nat} {d : Cfg} {m : QEv} {rp : Option Nat} (h : Mid N d m.id rp) (hm : m ∈ d.evq)
    (hstk : evStack m.kind = []) : d.evq = [m] ∧ d.joins = [] := by
  obtain ⟨l1, l2, he, h1, h2⟩ := split_of_mem hm (by rw [← evK_ids]; exact h.dur.ids)
  have ht := h.shape.top _ (mem_evK hm) hstk
  have hl1 : l1 = [] := by
    apply List.eq_nil_iff_forall_not_mem.mpr
    intro e he'
    exact h1 e he' (ht.1 _ (mem_evK (he ▸ List.mem_append_left _ he')))
  have hl2 : l2 = [] := by
    apply List.eq_nil_iff_forall_not_mem.mpr
    intro e he'
    exact h2 e he' (ht.1 _ (mem_evK (he ▸ List.mem_append_right _ (List.mem_cons_of_mem _ he'))))
  rw [hl1, hl2] at he
  exact ⟨by simpa using he, ht.2⟩

/-- the last visit of the skeleton is over: the terminal notification, then the event (and the reply) in hand acknowledged -/
theorem fin_end {N : Nat} {d : Cfg} {m : QEv} {rp : Option Nat}
    (h : Mid N d m.id rp) (hm : m ∈ d.evq) (hu : m.unacked = true) (hstk : evStack m.kind = [])
    (htk : tasksIn (todoOf m.kind) = if rp.isSome then 1 else 0) :
    PInv N ((List.foldl Cfg.act d ([Act.note true, Act.ackEv m.id] ++ ackRof rp))) ∧
      mu2 ((List.foldl Cfg.act d ([Act.note true, Act.ackEv m.id] ++ ackRof rp))) ≤ mu2 d := by
  obtain ⟨he, hjn⟩ := top_alone h hm hstk
  have he' : d.evq = [] ++ m :: [] := by simpa using he
  have hok : ok FlatK d (preOf false ++ ([.note true, .ackEv m.id] ++ ackRof rp)) :=
    ok_end false rp he' (by simp) (by simp) hu (fun r hr => (h.rpok r hr).1)
  have hdur := h.dur.all hok
  have hfold := fold_end d false m.id rp
  simp only [preOf, Bool.false_eq_true, if_false, List.nil_append, Nat.add_zero] at hok hdur hfold
  have hq : List.filter (ackP m.id) [m] = [] := by simp [ackP, hu]
  rw [hfold] at hdur ⊢
  simp only [he, hq] at hdur ⊢
  obtain ⟨hD, hV, hS, hJ, hC, hin, hrpok, hnorp⟩ := h
  have hevk : evK d = [(m.id, m.kind)] := by simp [evK, he]
  have hrT : restT m.kind = 0 := by simp [restT, hstk]
  -- no reply is left
  have hrq : ackRq rp d.rpq = [] := by
    cases rp with
    | none =>
      simp only [ackRq]
      apply List.eq_nil_iff_forall_not_mem.mpr
      intro r hr
      have hc : r.corr ∈ rpC d := List.mem_map.mpr ⟨r, hr, rfl⟩
      obtain ⟨p, hp, hpz⟩ := hC.fresh _ hc
      rw [hevk] at hp; simp at hp; subst hp
      have hpz' : m.id = r.corr := hpz
      exact hnorp rfl (hpz' ▸ hD.corrsent _ hc)
    | some r =>
      obtain ⟨rfl, hrin, hsent⟩ := hrpok r rfl
      obtain ⟨k1, k2, r', hk, hrc, hru, g1, g2⟩ := inhand_reply hD.corrnd hrin
      have hrq : ackRq (some m.id) d.rpq = k1 ++ k2 := by
        simp only [ackRq, hk]
        apply removeFirst_split
        · intro e he'
          have := g1 e he'
          simp [this]
        · simp [hrc, hru]
      rw [hrq]
      apply List.eq_nil_iff_forall_not_mem.mpr
      intro x hx
      have hxr : x ∈ d.rpq ∧ x.corr ≠ m.id := by
        rw [hk]
        rcases List.mem_append.mp hx with hx | hx
        · exact ⟨List.mem_append_left _ hx, g1 x hx⟩
        · exact ⟨List.mem_append_right _ (List.mem_cons_of_mem _ hx), g2 x hx⟩
      obtain ⟨p, hp, hpz⟩ := hC.fresh _ (List.mem_map.mpr ⟨x, hxr.1, rfl⟩)
      rw [hevk] at hp; simp at hp; subst hp
      exact hxr.2 hpz.symm
  rw [hrq] at hdur ⊢
  have hfree := hV.free_ev m.id rfl
  have hT : d.timers = [] := by
    apply List.eq_nil_iff_forall_not_mem.mpr
    intro t ht
    have := hV.t_sub t ht
    rw [he] at this
    simp only [uEv_cons, hu, if_true, uEv_nil, List.mem_singleton] at this
    exact hfree.1 (this ▸ ht)
  have hP : d.pending = [] := by
    apply List.eq_nil_iff_forall_not_mem.mpr
    intro t ht
    have := (hV.p_sub t ht).1
    rw [he] at this
    simp only [uEv_cons, hu, if_true, uEv_nil, List.mem_singleton] at this
    exact hfree.2.1 (this ▸ ht)
  have hO : d.orphans = [] := by
    apply List.eq_nil_iff_forall_not_mem.mpr
    intro o ho
    have hin' := hV.o_sub o ho
    obtain ⟨r0, hr0, _, hrc0⟩ := mem_uRp.mp hin'
    have hc : o ∈ rpC d := List.mem_map.mpr ⟨r0, hr0, hrc0⟩
    obtain ⟨p, hp, hpz⟩ := hC.fresh _ hc
    rw [hevk] at hp; simp at hp; subst hp
    have hpz' : m.id = o := hpz
    cases rp with
    | none => exact hnorp rfl (hpz' ▸ hD.corrsent _ hc)
    | some r =>
      obtain ⟨rfl, _, _⟩ := hrpok r rfl
      exact (hV.free_rp m.id rfl).1 (hpz' ▸ ho)
  refine ⟨⟨hdur, ?_, ?_, ?_, ?_⟩, ?_⟩
  · constructor <;> simp [hT, hP, hO, hjn, uEv, uRp]
  · constructor <;> simp [evK]
  · constructor <;> simp [hjn]
  · obtain ⟨psi0, psi1, phi, fresh⟩ := hC
    refine ⟨?_, ?_, ?_, ?_⟩
    · intro _
      have := psi1 (by rw [hevk]; simp)
      show d.notes + 1 = 1
      omega
    · intro h0; simp [evK] at h0
    · simp only [load2, inflight2, hevk, List.map_cons, List.map_nil, List.sum_cons, List.sum_nil, List.filter_cons, List.filter_nil,
        hrT] at phi
      simp only [load2, inflight2, evK, List.map_nil, List.sum_nil, List.filter_nil, List.length_nil]
      cases rp with
      | none =>
        have hns : m.id ∉ d.sent := hnorp rfl
        simp [hns] at phi htk ⊢; omega
      | some r =>
        obtain ⟨rfl, _, hsent⟩ := hrpok r rfl
        simp [hsent] at phi htk ⊢; omega
    · intro x hx; simp [rpC] at hx
  · simp [mu2, hT, hP]

end Asl.Crash
