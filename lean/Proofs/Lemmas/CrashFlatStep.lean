/-
Flat skeletons, continued: the handlers that do not complete a visit — an event is accepted and a timer armed
(`flat_arm`), a Task's request is registered and (unless on record) sent (`flat_register`, `flat_tm_task`), a reply is
retained (`flat_orphan`) —, and a fan-out state launches its branches (`flat_launch`).
-/
import Proofs.Lemmas.CrashFlatJoin
namespace Asl.Crash

theorem evK_marked {c : Cfg} {l1 l2 : List QEv} {m m' : QEv} (he : c.evq = l1 ++ m :: l2) (hid' : m'.id = m.id)
    (hk' : m'.kind = m.kind) (d : Cfg) (hd : d.evq = l1 ++ m' :: l2) : evK d = evK c := by
  simp only [evK, he, hd, List.map_append, List.map_cons, hid', hk']

/-- a request is recorded as sent: nothing held is concerned -/
theorem JInv.sent {c d : Cfg} (h : JInv c) (h1 : evK d = evK c) (h2 : d.joins = c.joins) {y : Nat}
    (h3 : ∀ x, x ∈ d.sent ↔ x ∈ c.sent ∨ x = y) (hy : y ∉ heldE c.joins)
    (ht : ∀ x ∈ heldE c.joins, x ∉ d.timers ∧ x ∉ d.pending) (ho : ∀ x ∈ heldR c.joins, x ∉ d.orphans) : JInv d := by
  constructor
  · rw [h2]; exact h.one
  · rw [h2]; exact h.alive
  · rw [h1, h2]; exact h.mine
  · rw [h2]; exact h.fnd
  · rw [h2]; exact h.fheld
  · rw [h1, h2]; intro j hj q hq
    obtain ⟨a, p, hp, b1, b2, b3, b4⟩ := h.held j hj q hq
    exact ⟨a, p, hp, b1, b2, b3, fun ht => (h3 _).mpr (Or.inl (b4 ht))⟩
  · rw [h2]; intro j hj q hq hs
    rcases (h3 _).mp hs with hs | hs
    · exact h.heldsent j hj q hq hs
    · exact absurd (hs ▸ mem_heldE hj hq) hy
  · rw [h2]; exact h.rpheld
  · rw [h2]; exact ht
  · rw [h2]; exact ho
  · rw [h1, h2]; exact h.jne
  · rw [h2]; exact h.live

/-- an event that goes on from a timer is accepted: the timer is armed -/
theorem flat_arm {N : Nat} {c : Cfg} (h : PInv N c) {l1 l2 : List QEv} {m m' : QEv} (he : c.evq = l1 ++ m :: l2)
    (h1 : ∀ e ∈ l1, e.id ≠ m.id) (h2 : ∀ e ∈ l2, e.id ≠ m.id) (hu : m.unacked = false)
    (hid' : m'.id = m.id) (hk' : m'.kind = m.kind) (hu' : m'.unacked = true) (htk : timerKind m.kind = true) (run : Nat) :
    PInv N { c with evq := l1 ++ m' :: l2, running := run, timers := insertNat m.id c.timers } ∧
      mu2 { c with evq := l1 ++ m' :: l2, running := run, timers := insertNat m.id c.timers } < mu2 c := by
  have hevk := evK_marked he hid' hk' { c with evq := l1 ++ m' :: l2, running := run, timers := insertNat m.id c.timers } rfl
  have hn1 : m.id ∉ uEv l1 := mem_uEv_ne h1
  have hn2 : m.id ∉ uEv l2 := mem_uEv_ne h2
  have hnu : m.id ∉ uEv c.evq := by
    rw [he]; simp [uEv_cons, hu, hn1, hn2]
  have hnt : m.id ∉ c.timers := fun ht => hnu (h.vol.t_sub _ ht)
  have hlen := length_insertNat_new hnt
  obtain ⟨tnd, pnd, ond, t_sub, p_sub, o_sub, he_sub, hr_sub, u_ev, u_rp, t_kind, p_kind, tp⟩ := h.vol
  have hndt := @nodup_insertNat m.id _ tnd
  refine ⟨⟨h.dur.congr hevk rfl rfl rfl rfl rfl, ?_, h.shape.congr hevk (fun x => x) rfl,
    h.join.congr hevk rfl rfl ?_ h.join.hro, h.cons.congr hevk rfl rfl rfl⟩, ?_⟩
  · rw [he] at t_sub p_sub he_sub u_ev t_kind p_kind
    voli_grind
  · intro x hx
    refine ⟨fun hh => ?_, (h.join.ht x hx).2⟩
    rcases mem_insertNat.mp hh with rfl | hh
    · exact hnu (he_sub _ hx)
    · exact (h.join.ht x hx).1 hh
  · simp only [mu2, evW, he, List.map_append, List.map_cons, List.sum_append, List.sum_cons, hu, hu', hk', hlen,
      Bool.false_eq_true, if_true, if_false]
    omega

/-- the event of a Task (first attempt) is accepted: its request is registered and, unless it is on record, sent -/
theorem flat_register {N : Nat} {c : Cfg} (h : PInv N c) {l1 l2 : List QEv} {m m' : QEv} (he : c.evq = l1 ++ m :: l2)
    (h1 : ∀ e ∈ l1, e.id ≠ m.id) (h2 : ∀ e ∈ l2, e.id ≠ m.id) (hu : m.unacked = false)
    (hid' : m'.id = m.id) (hk' : m'.kind = m.kind) (hu' : m'.unacked = true) (htk : isTaskKind m.kind = true)
    (hsn : m.id ∈ c.sent) (run : Nat) :
    PInv N { c with evq := l1 ++ m' :: l2, running := run, pending := insertNat m.id c.pending } ∧
      mu2 { c with evq := l1 ++ m' :: l2, running := run, pending := insertNat m.id c.pending } < mu2 c := by
  have hevk := evK_marked he hid' hk' { c with evq := l1 ++ m' :: l2, running := run, pending := insertNat m.id c.pending } rfl
  have hn1 : m.id ∉ uEv l1 := mem_uEv_ne h1
  have hn2 : m.id ∉ uEv l2 := mem_uEv_ne h2
  have hnu : m.id ∉ uEv c.evq := by
    rw [he]; simp [uEv_cons, hu, hn1, hn2]
  have hnp : m.id ∉ c.pending := fun ht => hnu (h.vol.p_sub _ ht).1
  have hlen := length_insertNat_new hnp
  obtain ⟨tnd, pnd, ond, t_sub, p_sub, o_sub, he_sub, hr_sub, u_ev, u_rp, t_kind, p_kind, tp⟩ := h.vol
  have hndp := @nodup_insertNat m.id _ pnd
  refine ⟨⟨h.dur.congr hevk rfl rfl rfl rfl rfl, ?_, h.shape.congr hevk (fun x => x) rfl,
    h.join.congr hevk rfl rfl ?_ h.join.hro, h.cons.congr hevk rfl rfl rfl⟩, ?_⟩
  · rw [he] at t_sub p_sub he_sub u_ev t_kind p_kind
    voli_grind
  · intro x hx
    refine ⟨(h.join.ht x hx).1, fun hh => ?_⟩
    rcases mem_insertNat.mp hh with rfl | hh
    · exact hnu (he_sub _ hx)
    · exact (h.join.ht x hx).2 hh
  · simp only [mu2, evW, he, List.map_append, List.map_cons, List.sum_append, List.sum_cons, hu, hu', hk', hlen,
      Bool.false_eq_true, if_true, if_false]
    omega


/-- the conservation laws when the request of event `m` is sent -/
theorem Cons2.send {N : Nat} {c d : Cfg} (h : Cons2 N c) (hd : Dur FlatK c) {m : QEv} (hm : m ∈ c.evq)
    (hsn : m.id ∉ c.sent) (h1 : evK d = evK c) (h2 : rpC d = rpC c ++ [m.id]) (h3 : d.sent = c.sent ++ [m.id])
    (h4 : d.notes = c.notes) : Cons2 N d := by
  obtain ⟨psi0, psi1, phi, fresh⟩ := h
  refine ⟨by rw [h1, h4]; exact psi0, by rw [h1, h4]; exact psi1, ?_, ?_⟩
  · simp only [load2, inflight2, h1, h3, List.length_append, List.length_cons, List.length_nil] at phi ⊢
    -- exactly one more event has its request out
    have hx : (m.id, m.kind) ∈ evK c := mem_evK hm
    obtain ⟨A1, A2, hA⟩ := List.append_of_mem hx
    have hids := hd.ids
    rw [hA] at hids phi ⊢
    simp only [List.map_append, List.map_cons, List.nodup_append, List.nodup_cons, List.mem_map] at hids
    have hA1 : ∀ p ∈ A1, p.1 ≠ m.id := by
      intro p hp he
      exact hids.2.2 p.1 ⟨p, hp, rfl⟩ m.id (by simp) he
    have hA2 : ∀ p ∈ A2, p.1 ≠ m.id := by
      intro p hp he
      exact hids.2.1.1 ⟨p, hp, he⟩
    have hf1 : A1.filter (fun p => (c.sent ++ [m.id]).contains p.1) = A1.filter (fun p => c.sent.contains p.1) :=
      List.filter_congr (fun p hp => by have := hA1 p hp; simp [this])
    have hf2 : A2.filter (fun p => (c.sent ++ [m.id]).contains p.1) = A2.filter (fun p => c.sent.contains p.1) :=
      List.filter_congr (fun p hp => by have := hA2 p hp; simp [this])
    have hself : (c.sent ++ [m.id]).contains m.id = true := by simp
    have hnsb : c.sent.contains m.id = false := by simpa using hsn
    simp only [List.filter_append, List.filter_cons, hf1, hf2, hself, hnsb, List.length_append, List.length_cons,
      Bool.false_eq_true, if_true, if_false] at phi ⊢
    omega
  · rw [h1, h2]
    intro x hx
    rcases List.mem_append.mp hx with hx | hx
    · exact fresh x hx
    · simp at hx; subst hx
      exact ⟨_, mem_evK hm, rfl⟩

/-- … its request was not on record: it is sent -/
theorem flat_send {N : Nat} {c : Cfg} (h : PInv N c) {l1 l2 : List QEv} {m m' : QEv} (he : c.evq = l1 ++ m :: l2)
    (h1 : ∀ e ∈ l1, e.id ≠ m.id) (h2 : ∀ e ∈ l2, e.id ≠ m.id) (hu : m.unacked = false)
    (hid' : m'.id = m.id) (hk' : m'.kind = m.kind) (hu' : m'.unacked = true) (htk : isTaskKind m.kind = true)
    (hsn : m.id ∉ c.sent) (run : Nat) :
    PInv N { c with evq := l1 ++ m' :: l2, running := run, pending := insertNat m.id c.pending, sent := c.sent ++ [m.id],
                    rpq := c.rpq ++ [{ corr := m.id }] } ∧
      mu2 { c with evq := l1 ++ m' :: l2, running := run, pending := insertNat m.id c.pending, sent := c.sent ++ [m.id],
                    rpq := c.rpq ++ [{ corr := m.id }] } < mu2 c := by
  have hm : m ∈ c.evq := by rw [he]; simp
  have hevk : evK { c with evq := l1 ++ m' :: l2, running := run, pending := insertNat m.id c.pending, sent := c.sent ++ [m.id],
                           rpq := c.rpq ++ [{ corr := m.id }] } = evK c := evK_marked he hid' hk' _ rfl
  have hn1 : m.id ∉ uEv l1 := mem_uEv_ne h1
  have hn2 : m.id ∉ uEv l2 := mem_uEv_ne h2
  have hnu : m.id ∉ uEv c.evq := by
    rw [he]; simp [uEv_cons, hu, hn1, hn2]
  have hnp : m.id ∉ c.pending := fun ht => hnu (h.vol.p_sub _ ht).1
  have hlen := length_insertNat_new hnp
  have hdur : Dur FlatK (c.act (.pubReq m.id)) := h.dur.pubReq ⟨(m.id, m.kind), mem_evK hm, rfl, htk⟩ hsn
  obtain ⟨tnd, pnd, ond, t_sub, p_sub, o_sub, he_sub, hr_sub, u_ev, u_rp, t_kind, p_kind, tp⟩ := h.vol
  have hndp := @nodup_insertNat m.id _ pnd
  refine ⟨⟨hdur.congr hevk rfl rfl rfl rfl rfl, ?_, h.shape.congr hevk (fun x => x) rfl,
    h.join.sent hevk rfl (y := m.id) (fun x => by simp) (fun hh => hnu (he_sub _ hh)) ?_ h.join.hro,
    h.cons.send h.dur hm hsn hevk (by simp [rpC]) rfl rfl⟩, ?_⟩
  · rw [he] at t_sub p_sub he_sub u_ev t_kind p_kind
    voli_grind
  · intro x hx
    refine ⟨(h.join.ht x hx).1, fun hh => ?_⟩
    rcases mem_insertNat.mp hh with rfl | hh
    · exact hnu (he_sub _ hx)
    · exact (h.join.ht x hx).2 hh
  · simp only [mu2, evW, he, List.map_append, List.map_cons, List.sum_append, List.sum_cons, hu, hu', hk', hlen,
      List.filter_append, List.filter_cons, List.filter_nil, List.length_append, List.length_cons, List.length_nil,
      Bool.not_false, Bool.false_eq_true, if_true, if_false]
    omega

/-- the deferred handler of a Task (a retry: its back-off is over) runs: the request is registered and, unless it is on
record, sent -/
theorem flat_tm_task {N : Nat} {c : Cfg} (h : PInv N c) {m : QEv} (hm : m ∈ c.evq) (hu : m.unacked = true)
    (hc : m.id ∈ c.timers) (htk : isTaskKind m.kind = true) (hsn : m.id ∈ c.sent) :
    PInv N { c with timers := c.timers.erase m.id, pending := insertNat m.id c.pending } ∧
      mu2 { c with timers := c.timers.erase m.id, pending := insertNat m.id c.pending } < mu2 c := by
  obtain ⟨tnd, pnd, ond, t_sub, p_sub, o_sub, he_sub, hr_sub, u_ev, u_rp, t_kind, p_kind, tp⟩ := h.vol
  have hte : ∀ a, a ∈ c.timers.erase m.id ↔ a ≠ m.id ∧ a ∈ c.timers := fun a => List.Nodup.mem_erase_iff tnd
  have hnde := tnd.erase m.id
  have hndp := @nodup_insertNat m.id _ pnd
  have hnp : m.id ∉ c.pending := tp _ hc
  have hlen := length_insertNat_new hnp
  have hlen2 := length_erase_mem hc
  have hine : m.id ∈ uEv c.evq := mem_uEv.mpr ⟨m, hm, hu, rfl⟩
  have hnh : m.id ∉ heldE c.joins := fun hh => (h.join.ht _ hh).1 hc
  have hidu : ∀ e ∈ c.evq, e.id = m.id → e = m := fun e he hid =>
    eq_of_nodup_map (·.id) (by rw [← evK_ids]; exact h.dur.ids) he hm hid
  refine ⟨⟨h.dur.congr rfl rfl rfl rfl rfl rfl, ?_, h.shape.congr rfl (fun x => x) rfl,
    h.join.congr rfl rfl rfl ?_ h.join.hro, h.cons.congr rfl rfl rfl rfl⟩, ?_⟩
  · constructor <;> simp only [mem_insertNat] <;> grind [timerKind, isTaskKind]
  · intro x hx
    refine ⟨fun hh => (h.join.ht x hx).1 ((hte x).mp hh).2, fun hh => ?_⟩
    rcases mem_insertNat.mp hh with rfl | hh
    · exact hnh hx
    · exact (h.join.ht x hx).2 hh
  · simp only [mu2, hlen]
    omega

theorem flat_tm_send {N : Nat} {c : Cfg} (h : PInv N c) {m : QEv} (hm : m ∈ c.evq) (hu : m.unacked = true)
    (hc : m.id ∈ c.timers) (htk : isTaskKind m.kind = true) (hsn : m.id ∉ c.sent) :
    PInv N { c with timers := c.timers.erase m.id, pending := insertNat m.id c.pending, sent := c.sent ++ [m.id],
                    rpq := c.rpq ++ [{ corr := m.id }] } ∧
      mu2 { c with timers := c.timers.erase m.id, pending := insertNat m.id c.pending, sent := c.sent ++ [m.id],
                    rpq := c.rpq ++ [{ corr := m.id }] } < mu2 c := by
  have hdur : Dur FlatK (c.act (.pubReq m.id)) := h.dur.pubReq ⟨(m.id, m.kind), mem_evK hm, rfl, htk⟩ hsn
  obtain ⟨tnd, pnd, ond, t_sub, p_sub, o_sub, he_sub, hr_sub, u_ev, u_rp, t_kind, p_kind, tp⟩ := h.vol
  have hte : ∀ a, a ∈ c.timers.erase m.id ↔ a ≠ m.id ∧ a ∈ c.timers := fun a => List.Nodup.mem_erase_iff tnd
  have hnde := tnd.erase m.id
  have hndp := @nodup_insertNat m.id _ pnd
  have hnp : m.id ∉ c.pending := tp _ hc
  have hlen := length_insertNat_new hnp
  have hlen2 := length_erase_mem hc
  have hine : m.id ∈ uEv c.evq := mem_uEv.mpr ⟨m, hm, hu, rfl⟩
  have hnh : m.id ∉ heldE c.joins := fun hh => (h.join.ht _ hh).1 hc
  have hidu : ∀ e ∈ c.evq, e.id = m.id → e = m := fun e he hid =>
    eq_of_nodup_map (·.id) (by rw [← evK_ids]; exact h.dur.ids) he hm hid
  refine ⟨⟨hdur.congr rfl rfl rfl rfl rfl rfl, ?_, h.shape.congr rfl (fun x => x) rfl,
    h.join.sent rfl rfl (y := m.id) (fun x => by simp) hnh ?_ h.join.hro,
    h.cons.send h.dur hm hsn rfl (by simp [rpC]) rfl rfl⟩, ?_⟩
  · constructor <;> simp only [mem_insertNat, uRp_append, uRp_cons, uRp_nil, List.mem_append, List.append_nil,
      Bool.false_eq_true, if_false] <;> grind [timerKind, isTaskKind]
  · intro x hx
    refine ⟨fun hh => (h.join.ht x hx).1 ((hte x).mp hh).2, fun hh => ?_⟩
    rcases mem_insertNat.mp hh with rfl | hh
    · exact hnh hx
    · exact (h.join.ht x hx).2 hh
  · simp only [mu2, hlen, List.filter_append, List.filter_cons, List.filter_nil, List.length_append, List.length_cons,
      List.length_nil, Bool.not_false, if_true]
    omega

/-- a reply is delivered and no Task waits for it (yet): it is retained -/
theorem flat_orphan {N : Nat} {c : Cfg} (h : PInv N c) {k1 k2 : List QRp} {r r' : QRp} (hr : c.rpq = k1 ++ r :: k2)
    (g1 : ∀ e ∈ k1, e.corr ≠ r.corr) (g2 : ∀ e ∈ k2, e.corr ≠ r.corr) (hru : r.unacked = false)
    (hr'c : r'.corr = r.corr) (hr'u : r'.unacked = true) :
    PInv N { c with rpq := k1 ++ r' :: k2, orphans := insertNat r.corr c.orphans } ∧
      mu2 { c with rpq := k1 ++ r' :: k2, orphans := insertNat r.corr c.orphans } < mu2 c := by
  have gn1 := mem_uRp_ne g1
  have gn2 := mem_uRp_ne g2
  have hnur : r.corr ∉ uRp c.rpq := by
    rw [hr]; simp [uRp_cons, hru, gn1, gn2]
  obtain ⟨tnd, pnd, ond, t_sub, p_sub, o_sub, he_sub, hr_sub, u_ev, u_rp, t_kind, p_kind, tp⟩ := h.vol
  have hndo := @nodup_insertNat r.corr _ ond
  have hrpc : rpC { c with rpq := k1 ++ r' :: k2, orphans := insertNat r.corr c.orphans } = rpC c := by
    simp [rpC, hr, hr'c]
  refine ⟨⟨h.dur.congr rfl hrpc rfl rfl rfl rfl, ?_, h.shape.congr rfl (fun x => x) rfl,
    h.join.congr rfl rfl rfl h.join.ht ?_, h.cons.congr rfl hrpc rfl rfl⟩, ?_⟩
  · rw [hr] at o_sub hr_sub u_rp
    voli_grind
  · intro x hx hh
    rcases mem_insertNat.mp hh with rfl | hh
    · exact hnur (hr_sub _ hx)
    · exact h.join.hro x hx hh
  · simp only [mu2, hr, List.filter_append, List.filter_cons, hru, hr'u, List.length_append, List.length_cons,
      Bool.not_false, Bool.not_true, Bool.false_eq_true, if_true, if_false]
    omega

end Asl.Crash
