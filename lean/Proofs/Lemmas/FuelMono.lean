/-
Fuel monotonicity of the big-step reference semantics (`AslModel/Interp.lean`): the seven mutually
recursive functions are structurally recursive on a `fuel` argument; a run that ends with anything
other than fuel exhaustion gives exactly the same result *and state* with any larger fuel
(`runFrom_mono` … `runItems_mono`), hence the outcome of `run` is independent of the fuel
(`run_fuel_independent`).

Why the model was changed for this.  With the OLD definition of `runBranches` / `runItems` (before
the arm `| _, .error .fuel => (.error .fuel, st)` was added) the statement was false: the last arm
`| other, _ => (.error other, st)` returned the first branch's failure even when the remaining
branches had run out of fuel, so a failed (or unsupported) branch hid an exhausted sibling.
Counterexample: `Parallel [b1 = {F: Fail E1}, b2 = {P: Pass → G: Fail E1}]` with `End`; the old
`run` gave, at fuel 5, FAILED with trace [Par, F, P] and multiFail = false; at fuel 8, FAILED with
trace [Par, F, P, G], multiFail = false; from fuel 9 on, FAILED with trace [Par, F, P, G] and
multiFail = true (and with a `b2` that loops for ever the trace kept growing with the fuel: no stable
outcome at all; with a Catch on the Parallel and a later Task even the result could differ, since the
task counts did).  With the fix these runs report FUEL up to fuel 8 (see the `example`s at the end).
-/
import AslModel.Interp
import AslModel.Lite
namespace Asl

/-! ### fuel 0 -/

theorem runFrom_zero (env : Env) (states : Json) (name : Str) (data ctx : Json) (retries : Nat) (st : St) :
    runFrom env 0 states name data ctx retries st = (.fuel, st) := by simp [runFrom]

theorem leave_zero (env : Env) (states : Json) (name : Str) (state raw data ctx : Json) (retries : Nat) (st : St) :
    leave env 0 states name state raw data ctx retries st = (.fuel, st) := by simp [leave]

theorem handleErr_zero (env : Env) (states : Json) (name : Str) (state data ctx : Json) (retries : Nat)
    (e msg : Str) (st : St) :
    handleErr env 0 states name state data ctx retries e msg st = (.fuel, st) := by simp [handleErr]

theorem runState_zero (env : Env) (states : Json) (name : Str) (state data ctx : Json) (retries : Nat) (st : St) :
    runState env 0 states name state data ctx retries st = (.fuel, st) := by simp [runState]

theorem joinAndLeave_zero (env : Env) (states : Json) (name : Str) (state data ctx : Json) (retries : Nat)
    (r : Except Res (List Json)) (st : St) :
    joinAndLeave env 0 states name state data ctx retries r st = (.fuel, st) := by simp [joinAndLeave]

theorem runBranches_zero (env : Env) (bs : List Json) (params ctx : Json) (st : St) :
    runBranches env 0 bs params ctx st = (.error .fuel, st) := by simp [runBranches]

theorem runItems_zero (env : Env) (proc : Json) (sel : Option Json) (input : Json) (items : List Json) (i mc : Nat)
    (be : Rat) (ctx : Json) (bad : Bool) (st : St) :
    runItems env 0 proc sel input items i mc be ctx bad st = (.error .fuel, st) := by simp [runItems]

/-- fuel exhaustion of a branch, or of the later branches, is fuel exhaustion of the fan-out -/
theorem fanCombine_fuel_left (t : Rat) (rest : Except Res (List Json)) (st2 : St) (tOk : Rat) :
    (fanCombine .fuel t rest st2 tOk).1 = .error .fuel := by
  rcases rest with a | vs
  · cases a <;> rfl
  · rfl

/-- the fan-out succeeds only if this branch and all later ones did -/
theorem fanCombine_ok {r : Res} {t : Rat} {rest : Except Res (List Json)} {st2 st' : St} {tOk : Rat} {vs : List Json}
    (h : fanCombine r t rest st2 tOk = (.ok vs, st')) :
    ∃ v vs', r = .done v ∧ rest = .ok vs' ∧ vs = v :: vs' ∧ st' = st2.at tOk := by
  unfold fanCombine at h
  split at h
  · rename_i v vs'
    simp only [Prod.mk.injEq, Except.ok.injEq] at h
    exact ⟨v, vs', rfl, rfl, h.1.symm, h.2.symm⟩
  all_goals (try split at h)
  all_goals (try split at h)
  all_goals simp at h

theorem fanCombine_fuel_right (r : Res) (t : Rat) (st2 : St) (tOk : Rat) :
    (fanCombine r t (.error .fuel) st2 tOk).1 = .error .fuel := by
  cases r <;> rfl

/-- a fan-out that ran out of fuel makes the fan-out state run out of fuel -/
theorem joinAndLeave_fuel (env : Env) (k : Nat) (states : Json) (name : Str) (state data ctx : Json)
    (retries : Nat) (st : St) :
    joinAndLeave env k states name state data ctx retries (.error .fuel) st = (.fuel, st) := by
  cases k <;> simp [joinAndLeave]

/-! ### one more unit of fuel: the step lemmas

Each lemma derives the one-step monotonicity of one function at fuel `n + 1` from the one-step
monotonicity, at fuel `n`, of the functions it calls (for the same scope `states`). -/

section step
variable (env : Env) (n : Nat) (states : Json)

theorem runFrom_step
    (hS : ∀ name state data ctx retries st,
      (match states with | .obj kvs => objGet kvs name | _ => none) = some state →
      (runState env n states name state data ctx retries st).1 ≠ Res.fuel →
      runState env (n + 1) states name state data ctx retries st =
        runState env n states name state data ctx retries st)
    (name : Str) (data ctx : Json) (retries : Nat) (st : St) :
    (runFrom env (n + 1) states name data ctx retries st).1 ≠ Res.fuel →
    runFrom env (n + 1 + 1) states name data ctx retries st =
      runFrom env (n + 1) states name data ctx retries st := by
  simp only [runFrom]
  split
  · intro _; trivial
  · rename_i state hst
    exact hS name state data _ retries _ hst

theorem handleErr_step
    (hF : ∀ name data ctx retries st,
      (runFrom env n states name data ctx retries st).1 ≠ Res.fuel →
      runFrom env (n + 1) states name data ctx retries st = runFrom env n states name data ctx retries st)
    (name : Str) (state data ctx : Json) (retries : Nat) (e msg : Str) (st : St) :
    (handleErr env (n + 1) states name state data ctx retries e msg st).1 ≠ Res.fuel →
    handleErr env (n + 1 + 1) states name state data ctx retries e msg st =
      handleErr env (n + 1) states name state data ctx retries e msg st := by
  simp only [handleErr]
  split
  · split
    · intro _; trivial
    · exact hF _ _ _ _ _
  · split
    · intro _; trivial
    · split
      · intro _; trivial
      · split
        · intro _; trivial
        · exact hF _ _ _ _ _
  · intro _; trivial

theorem leave_step
    (hF : ∀ name data ctx retries st,
      (runFrom env n states name data ctx retries st).1 ≠ Res.fuel →
      runFrom env (n + 1) states name data ctx retries st = runFrom env n states name data ctx retries st)
    (hH : ∀ name state data ctx retries e msg st,
      (handleErr env n states name state data ctx retries e msg st).1 ≠ Res.fuel →
      handleErr env (n + 1) states name state data ctx retries e msg st =
        handleErr env n states name state data ctx retries e msg st)
    (name : Str) (state raw data ctx : Json) (retries : Nat) (st : St) :
    (leave env (n + 1) states name state raw data ctx retries st).1 ≠ Res.fuel →
    leave env (n + 1 + 1) states name state raw data ctx retries st =
      leave env (n + 1) states name state raw data ctx retries st := by
  simp only [leave]
  split
  · split
    · exact hH _ _ _ _ _ _ _ _
    · intro _; trivial
  · split
    · exact hH _ _ _ _ _ _ _ _
    · split
      · exact hH _ _ _ _ _ _ _ _
      · exact hF _ _ _ _ _

theorem joinAndLeave_step
    (hH : ∀ name state data ctx retries e msg st,
      (handleErr env n states name state data ctx retries e msg st).1 ≠ Res.fuel →
      handleErr env (n + 1) states name state data ctx retries e msg st =
        handleErr env n states name state data ctx retries e msg st)
    (hL : ∀ name state raw data ctx retries st,
      (leave env n states name state raw data ctx retries st).1 ≠ Res.fuel →
      leave env (n + 1) states name state raw data ctx retries st =
        leave env n states name state raw data ctx retries st)
    (name : Str) (state data ctx : Json) (retries : Nat) (r : Except Res (List Json)) (st : St) :
    (joinAndLeave env (n + 1) states name state data ctx retries r st).1 ≠ Res.fuel →
    joinAndLeave env (n + 1 + 1) states name state data ctx retries r st =
      joinAndLeave env (n + 1) states name state data ctx retries r st := by
  simp only [joinAndLeave]
  split
  · exact hH _ _ _ _ _ _ _ _
  · intro _; trivial
  · split
    · exact hH _ _ _ _ _ _ _ _
    · split
      · exact hH _ _ _ _ _ _ _ _
      · exact hL _ _ _ _ _ _ _

theorem joinAfter_step
    (hJ : ∀ name state data ctx retries r st,
      (joinAndLeave env n states name state data ctx retries r st).1 ≠ Res.fuel →
      joinAndLeave env (n + 1) states name state data ctx retries r st =
        joinAndLeave env n states name state data ctx retries r st)
    (name : Str) (state data ctx : Json) (retries : Nat) (a b : Except Res (List Json) × St)
    (hab : a.1 ≠ Except.error Res.fuel → b = a) :
    (joinAndLeave env n states name state data ctx retries a.1 (a.2.join (isErr a.1))).1 ≠ Res.fuel →
    joinAndLeave env (n + 1) states name state data ctx retries b.1 (b.2.join (isErr b.1)) =
      joinAndLeave env n states name state data ctx retries a.1 (a.2.join (isErr a.1)) := by
  intro h
  have ha : a.1 ≠ Except.error Res.fuel := by
    intro e
    rw [e, joinAndLeave_fuel] at h
    exact h rfl
  rw [hab ha]
  exact hJ _ _ _ _ _ _ _ h

set_option hygiene false in
local macro "auto_step" : tactic => `(tactic|
  repeat' (first
    | split
    | exact hH _ _ _ _ _ _ _ _
    | exact hL _ _ _ _ _ _ _
    | exact hF _ _ _ _ _
    | exact joinAfter_step env n states hJ _ _ _ _ _ _ _ (hB (by assumption) _ _ _ _)
    | exact joinAfter_step env n states hJ _ _ _ _ _ _ _ (hI (by assumption) _ _ _ _ _ _ _ _ _ _)
    | (intro _; trivial)))

theorem runState_step (state : Json)
    (hF : ∀ name data ctx retries st,
      (runFrom env n states name data ctx retries st).1 ≠ Res.fuel →
      runFrom env (n + 1) states name data ctx retries st = runFrom env n states name data ctx retries st)
    (hH : ∀ name state data ctx retries e msg st,
      (handleErr env n states name state data ctx retries e msg st).1 ≠ Res.fuel →
      handleErr env (n + 1) states name state data ctx retries e msg st =
        handleErr env n states name state data ctx retries e msg st)
    (hL : ∀ name state raw data ctx retries st,
      (leave env n states name state raw data ctx retries st).1 ≠ Res.fuel →
      leave env (n + 1) states name state raw data ctx retries st =
        leave env n states name state raw data ctx retries st)
    (hJ : ∀ name state data ctx retries r st,
      (joinAndLeave env n states name state data ctx retries r st).1 ≠ Res.fuel →
      joinAndLeave env (n + 1) states name state data ctx retries r st =
        joinAndLeave env n states name state data ctx retries r st)
    (hB : stateType state = S "Parallel" → ∀ bs params ctx st,
      (runBranches env n bs params ctx st).1 ≠ Except.error Res.fuel →
      runBranches env (n + 1) bs params ctx st = runBranches env n bs params ctx st)
    (hI : stateType state = S "Map" → ∀ proc sel input items i mc be ctx bad st,
      (runItems env n proc sel input items i mc be ctx bad st).1 ≠ Except.error Res.fuel →
      runItems env (n + 1) proc sel input items i mc be ctx bad st = runItems env n proc sel input items i mc be ctx bad st)
    (name : Str) (data ctx : Json) (retries : Nat) (st : St) :
    (runState env (n + 1) states name state data ctx retries st).1 ≠ Res.fuel →
    runState env (n + 1 + 1) states name state data ctx retries st =
      runState env (n + 1) states name state data ctx retries st := by
  simp only [runState]
  by_cases h1 : stateType state = S "Pass"
  · simp only [if_pos h1]
    auto_step
  simp only [if_neg h1]
  by_cases h2 : stateType state = S "Succeed"
  · simp only [if_pos h2]
    auto_step
  simp only [if_neg h2]
  by_cases h3 : stateType state = S "Fail"
  · simp only [if_pos h3]
    auto_step
  simp only [if_neg h3]
  by_cases h4 : stateType state = S "Wait"
  · simp only [if_pos h4]
    auto_step
  simp only [if_neg h4]
  by_cases h5 : stateType state = S "Choice"
  · simp only [if_pos h5]
    auto_step
  simp only [if_neg h5]
  by_cases h6 : stateType state = S "Task"
  · simp only [if_pos h6]
    auto_step
  simp only [if_neg h6]
  by_cases h7 : stateType state = S "Parallel"
  · simp only [if_pos h7]
    auto_step
  simp only [if_neg h7]
  by_cases h8 : stateType state = S "Map"
  · simp only [if_pos h8]
    auto_step
  simp only [if_neg h8]
  intro _; trivial

end step

theorem runBranches_step (env : Env) (n : Nat)
    (hF : ∀ states name data ctx retries st,
      (runFrom env n states name data ctx retries st).1 ≠ Res.fuel →
      runFrom env (n + 1) states name data ctx retries st = runFrom env n states name data ctx retries st)
    (hB : ∀ bs params ctx st,
      (runBranches env n bs params ctx st).1 ≠ Except.error Res.fuel →
      runBranches env (n + 1) bs params ctx st = runBranches env n bs params ctx st)
    (bs : List Json) (params ctx : Json) (st : St) :
    (runBranches env (n + 1) bs params ctx st).1 ≠ Except.error Res.fuel →
    runBranches env (n + 1 + 1) bs params ctx st = runBranches env (n + 1) bs params ctx st := by
  cases bs with
  | nil => intro _; simp [runBranches]
  | cons b bs =>
    simp only [runBranches]
    split
    · rename_i start states hs hst
      intro h
      cases hr : runFrom env n states start params ctx 0 st.startBranch with
      | mk r1 s1 =>
        rw [hr] at h
        cases hrest : runBranches env n bs params ctx ((s1.endBranch (isFailed r1)).at st.clock) with
        | mk rest s2 =>
          simp only [hrest] at h
          have hr1 : r1 ≠ Res.fuel := by
            intro e; subst e; exact h (fanCombine_fuel_left _ _ _ _)
          have hrest1 : rest ≠ Except.error Res.fuel := by
            intro e; subst e; exact h (fanCombine_fuel_right _ _ _ _)
          have e1 := hF states start params ctx 0 st.startBranch (by rw [hr]; exact hr1)
          rw [e1, hr]
          have e2 := hB bs params ctx ((s1.endBranch (isFailed r1)).at st.clock) (by rw [hrest]; exact hrest1)
          simp only [e2, hrest]
    · intro _; trivial

theorem runItems_step (env : Env) (n : Nat)
    (hF : ∀ states name data ctx retries st,
      (runFrom env n states name data ctx retries st).1 ≠ Res.fuel →
      runFrom env (n + 1) states name data ctx retries st = runFrom env n states name data ctx retries st)
    (hI : ∀ proc sel input items i mc be ctx bad st,
      (runItems env n proc sel input items i mc be ctx bad st).1 ≠ Except.error Res.fuel →
      runItems env (n + 1) proc sel input items i mc be ctx bad st = runItems env n proc sel input items i mc be ctx bad st)
    (proc : Json) (sel : Option Json) (input : Json) (items : List Json) (i mc : Nat) (be : Rat) (ctx : Json)
    (bad : Bool) (st : St) :
    (runItems env (n + 1) proc sel input items i mc be ctx bad st).1 ≠ Except.error Res.fuel →
    runItems env (n + 1 + 1) proc sel input items i mc be ctx bad st =
      runItems env (n + 1) proc sel input items i mc be ctx bad st := by
  cases items with
  | nil => intro _; simp [runItems]
  | cons item items =>
    simp only [runItems]
    split
    · intro _; trivial
    split
    · intro _; trivial
    · rename_i params hp
      split
      · rename_i start states hs hst
        intro h
        generalize hbs : (if mc ≠ 0 ∧ i ≠ 0 ∧ i % mc = 0 then
            (st.waitUntil be).batch (ctxStateName ctx) (List.replicate (min mc (items.length + 1)) ((fldStr proc "StartAt").getD []))
          else st) = st0 at h ⊢
        cases hr : runFrom env n states start params ctx 0 ((st0.push (.iterStarted (ctxStateName ctx) i)).startBranch) with
        | mk r1 s1 =>
          rw [hr] at h
          cases hrest : runItems env n proc sel input items (i + 1) mc (rmax be s1.clock) ctx (bad || isFailed r1)
              (((s1.iterEnd (ctxStateName ctx) i r1).endBranch (isFailed r1)).at st0.clock) with
          | mk rest s2 =>
            simp only [hrest] at h
            have hr1 : r1 ≠ Res.fuel := by
              intro e; subst e; exact h (fanCombine_fuel_left _ _ _ _)
            have hrest1 : rest ≠ Except.error Res.fuel := by
              intro e; subst e; exact h (fanCombine_fuel_right _ _ _ _)
            have e1 := hF states start params ctx 0 ((st0.push (.iterStarted (ctxStateName ctx) i)).startBranch)
              (by rw [hr]; exact hr1)
            rw [e1, hr]
            have e2 := hI proc sel input items (i + 1) mc (rmax be s1.clock) ctx (bad || isFailed r1)
              (((s1.iterEnd (ctxStateName ctx) i r1).endBranch (isFailed r1)).at st0.clock) (by rw [hrest]; exact hrest1)
            simp only [e2, hrest]
      · intro _; trivial

/-! ### all seven functions together, one more unit of fuel -/

/-- the one-step monotonicity of the seven functions at fuel `n` -/
structure StepMono (env : Env) (n : Nat) : Prop where
  runFrom : ∀ states name data ctx retries st,
    (runFrom env n states name data ctx retries st).1 ≠ Res.fuel →
    runFrom env (n + 1) states name data ctx retries st = runFrom env n states name data ctx retries st
  leave : ∀ states name state raw data ctx retries st,
    (leave env n states name state raw data ctx retries st).1 ≠ Res.fuel →
    leave env (n + 1) states name state raw data ctx retries st =
      leave env n states name state raw data ctx retries st
  handleErr : ∀ states name state data ctx retries e msg st,
    (handleErr env n states name state data ctx retries e msg st).1 ≠ Res.fuel →
    handleErr env (n + 1) states name state data ctx retries e msg st =
      handleErr env n states name state data ctx retries e msg st
  runState : ∀ states name state data ctx retries st,
    (runState env n states name state data ctx retries st).1 ≠ Res.fuel →
    runState env (n + 1) states name state data ctx retries st =
      runState env n states name state data ctx retries st
  joinAndLeave : ∀ states name state data ctx retries r st,
    (joinAndLeave env n states name state data ctx retries r st).1 ≠ Res.fuel →
    joinAndLeave env (n + 1) states name state data ctx retries r st =
      joinAndLeave env n states name state data ctx retries r st
  runBranches : ∀ bs params ctx st,
    (runBranches env n bs params ctx st).1 ≠ Except.error Res.fuel →
    runBranches env (n + 1) bs params ctx st = runBranches env n bs params ctx st
  runItems : ∀ proc sel input items i mc be ctx bad st,
    (runItems env n proc sel input items i mc be ctx bad st).1 ≠ Except.error Res.fuel →
    runItems env (n + 1) proc sel input items i mc be ctx bad st = runItems env n proc sel input items i mc be ctx bad st

theorem stepMono (env : Env) (n : Nat) : StepMono env n := by
  induction n with
  | zero =>
    constructor
    · intro states name data ctx retries st h; exact absurd (by rw [runFrom_zero]) h
    · intro states name state raw data ctx retries st h; exact absurd (by rw [leave_zero]) h
    · intro states name state data ctx retries e msg st h; exact absurd (by rw [handleErr_zero]) h
    · intro states name state data ctx retries st h; exact absurd (by rw [runState_zero]) h
    · intro states name state data ctx retries r st h; exact absurd (by rw [joinAndLeave_zero]) h
    · intro bs params ctx st h; exact absurd (by rw [runBranches_zero]) h
    · intro proc sel input items i mc be ctx bad st h; exact absurd (by rw [runItems_zero]) h
  | succ n ih =>
    exact {
      runFrom := fun states => runFrom_step env n states (fun name state data ctx retries st _ =>
        ih.runState states name state data ctx retries st)
      leave := fun states => leave_step env n states (ih.runFrom states) (ih.handleErr states)
      handleErr := fun states => handleErr_step env n states (ih.runFrom states)
      runState := fun states name state => runState_step env n states state (ih.runFrom states)
        (ih.handleErr states) (ih.leave states) (ih.joinAndLeave states)
        (fun _ => ih.runBranches) (fun _ => ih.runItems) name
      joinAndLeave := fun states => joinAndLeave_step env n states (ih.handleErr states) (ih.leave states)
      runBranches := runBranches_step env n ih.runFrom ih.runBranches
      runItems := runItems_step env n ih.runFrom ih.runItems }

/-! ### fuel monotonicity -/

/-- lifting a one-step statement to `n ≤ m` -/
theorem mono_of_step {α : Type} (f : Nat → α) (bad : α → Prop)
    (hstep : ∀ k, ¬ bad (f k) → f (k + 1) = f k) (n m : Nat) (h : n ≤ m) (hn : ¬ bad (f n)) :
    f m = f n := by
  induction m with
  | zero =>
    have : n = 0 := by omega
    rw [this]
  | succ m ih =>
    by_cases hnm : n = m + 1
    · rw [hnm]
    · have e : f m = f n := ih (by omega)
      rw [hstep m (by rw [e]; exact hn), e]

theorem runFrom_mono (env : Env) (n m : Nat) (h : n ≤ m) (states : Json) (name : Str) (data ctx : Json)
    (retries : Nat) (st : St) :
    (runFrom env n states name data ctx retries st).1 ≠ Res.fuel →
    runFrom env m states name data ctx retries st = runFrom env n states name data ctx retries st :=
  mono_of_step (fun k => runFrom env k states name data ctx retries st) (fun x => x.1 = Res.fuel)
    (fun k => (stepMono env k).runFrom states name data ctx retries st) n m h

theorem leave_mono (env : Env) (n m : Nat) (h : n ≤ m) (states : Json) (name : Str) (state raw data ctx : Json)
    (retries : Nat) (st : St) :
    (leave env n states name state raw data ctx retries st).1 ≠ Res.fuel →
    leave env m states name state raw data ctx retries st =
      leave env n states name state raw data ctx retries st :=
  mono_of_step (fun k => leave env k states name state raw data ctx retries st) (fun x => x.1 = Res.fuel)
    (fun k => (stepMono env k).leave states name state raw data ctx retries st) n m h

theorem handleErr_mono (env : Env) (n m : Nat) (h : n ≤ m) (states : Json) (name : Str) (state data ctx : Json)
    (retries : Nat) (e msg : Str) (st : St) :
    (handleErr env n states name state data ctx retries e msg st).1 ≠ Res.fuel →
    handleErr env m states name state data ctx retries e msg st =
      handleErr env n states name state data ctx retries e msg st :=
  mono_of_step (fun k => handleErr env k states name state data ctx retries e msg st) (fun x => x.1 = Res.fuel)
    (fun k => (stepMono env k).handleErr states name state data ctx retries e msg st) n m h

theorem runState_mono (env : Env) (n m : Nat) (h : n ≤ m) (states : Json) (name : Str) (state data ctx : Json)
    (retries : Nat) (st : St) :
    (runState env n states name state data ctx retries st).1 ≠ Res.fuel →
    runState env m states name state data ctx retries st =
      runState env n states name state data ctx retries st :=
  mono_of_step (fun k => runState env k states name state data ctx retries st) (fun x => x.1 = Res.fuel)
    (fun k => (stepMono env k).runState states name state data ctx retries st) n m h

theorem joinAndLeave_mono (env : Env) (n m : Nat) (h : n ≤ m) (states : Json) (name : Str)
    (state data ctx : Json) (retries : Nat) (r : Except Res (List Json)) (st : St) :
    (joinAndLeave env n states name state data ctx retries r st).1 ≠ Res.fuel →
    joinAndLeave env m states name state data ctx retries r st =
      joinAndLeave env n states name state data ctx retries r st :=
  mono_of_step (fun k => joinAndLeave env k states name state data ctx retries r st) (fun x => x.1 = Res.fuel)
    (fun k => (stepMono env k).joinAndLeave states name state data ctx retries r st) n m h

theorem runBranches_mono (env : Env) (n m : Nat) (h : n ≤ m) (bs : List Json) (params ctx : Json) (st : St) :
    (runBranches env n bs params ctx st).1 ≠ Except.error Res.fuel →
    runBranches env m bs params ctx st = runBranches env n bs params ctx st :=
  mono_of_step (fun k => runBranches env k bs params ctx st) (fun x => x.1 = Except.error Res.fuel)
    (fun k => (stepMono env k).runBranches bs params ctx st) n m h

theorem runItems_mono (env : Env) (n m : Nat) (h : n ≤ m) (proc : Json) (sel : Option Json) (input : Json)
    (items : List Json) (i mc : Nat) (be : Rat) (ctx : Json) (bad : Bool) (st : St) :
    (runItems env n proc sel input items i mc be ctx bad st).1 ≠ Except.error Res.fuel →
    runItems env m proc sel input items i mc be ctx bad st = runItems env n proc sel input items i mc be ctx bad st :=
  mono_of_step (fun k => runItems env k proc sel input items i mc be ctx bad st) (fun x => x.1 = Except.error Res.fuel)
    (fun k => (stepMono env k).runItems proc sel input items i mc be ctx bad st) n m h

/-- the outcome of an execution does not depend on the fuel, once there is enough of it -/
theorem runCore_mono (env : Env) (n m : Nat) (h : n ≤ m) (asl input ctx : Json) :
    (runCore env n asl input ctx).1 ≠ Res.fuel → runCore env m asl input ctx = runCore env n asl input ctx := by
  unfold runCore
  split
  · rename_i start states h1 h2
    exact runFrom_mono (env.forMachine asl) n m h states start input ctx 0 {}
  · intro _; trivial

theorem run_fuel_independent (env : Env) (n m : Nat) (h : n ≤ m) (asl input ctx : Json) :
    (run env n asl input ctx).status ≠ S "FUEL" → run env m asl input ctx = run env n asl input ctx := by
  intro hs
  have hne : (runCore env n asl input ctx).1 ≠ Res.fuel := by
    intro e
    apply hs
    unfold run Outcome.ofRun
    rw [e]
  unfold run
  rw [runCore_mono env n m h asl input ctx hne]

/-! ### the former counterexample, now stable -/

section regression
private def envK : Env := { tmpl := Lite.tmpl, choose := Lite.choose, task := fun _ p _ => p }
private def k (s : String) : Str := s.toList
private def failSt : Json := .obj [(k "Type", .str (k "Fail")), (k "Error", .str (k "E1"))]
private def b1 : Json := .obj [(k "StartAt", .str (k "F")), (k "States", .obj [(k "F", failSt)])]
private def b2 : Json := .obj [(k "StartAt", .str (k "P")), (k "States", .obj [
  (k "P", .obj [(k "Type", .str (k "Pass")), (k "Next", .str (k "G"))]), (k "G", failSt)])]
private def aslPar : Json := .obj [(k "StartAt", .str (k "Par")), (k "States", .obj [
  (k "Par", .obj [(k "Type", .str (k "Parallel")), (k "Branches", .arr [b1, b2]), (k "End", .bool true)])])]

example : (run envK 5 aslPar (.obj []) (.obj [])).status = S "FUEL" := by rfl
example : (run envK 8 aslPar (.obj []) (.obj [])).status = S "FUEL" := by rfl
example : (run envK 9 aslPar (.obj []) (.obj [])).status = S "FAILED" ∧
    (run envK 9 aslPar (.obj []) (.obj [])).multiFail = true ∧
    (run envK 9 aslPar (.obj []) (.obj [])).trace = [k "Par", k "F", k "P", k "G"] := by
  refine ⟨by rfl, by rfl, by rfl⟩
/-- non-vacuity of `run_fuel_independent`: its hypothesis holds at fuel 9 -/
example : run envK 1000 aslPar (.obj []) (.obj []) = run envK 9 aslPar (.obj []) (.obj []) :=
  run_fuel_independent envK 9 1000 (by omega) _ _ _ (by decide)
end regression

end Asl
